/-
  Score-range laws for the search skeleton: what the components have to satisfy so that every value
  an un-aborted `alphaBeta` / `quiescence` returns lies in `[-Inf, Inf]`, and the arithmetic facts
  about the int16 window computations.

  `ScoreLaws c Good TTok μ`:
  * the static evaluation needs no law any more: since repo commit 2ab22cc the search uses
    `evaluate = Clamp(eval.Eval, -Inf+MaxPlies+1, Inf-MaxPlies-1)`, and `evaluate_range` proves from
    the regenerated `clampS16` that it lies strictly inside the mate band for an ARBITRARY raw
    evaluation.  (Before that commit `EvalRange` was a genuine restriction on roots: the raw
    `eval.Eval` is -10434 on `3k4/8/8/8/8/3K4/QQQQQQQQ/Q7 b`, finding D9.);
  * `TTok` is a predicate on the persistent state (for the real table: every raw value within ±Inf,
    plus the invariant `PsInv.ok` of the component laws — `tt_ok`).  The table keeps mate scores
    RELATIVE TO THE NODE (`Insert` adds the ply to a mate score, `Value(ply)` subtracts it), so the
    table laws are ply-relative: `RelP ply v` — a mate score claims a mate no earlier than this ply
    (`|v| ≤ max (Inf-MaxPlies) (Inf-ply)`) — is what a probe at `ply` answers (`tt_probe`) and what a
    store at `ply` may be handed (`tt_store`; `Inf` stored at ply 5 would read back `Inf+5` at ply 0).
    Every value an un-aborted node at `ply` returns or stores is `RelP ply` (`QRange`, `ABRange`) —
    PROVIDED the mate branch of null-move pruning never returned a `beta` below `-Inf+ply`: that is the
    one place where a node hands out a score no position at its ply can have (search.go guards
    reverse futility against the mate band but not the null move).  The skeleton records the event in
    the ghost flag `St.nmpOut` (`nullMove`), and every statement of the range development is
    GUARDED by the flag: hypotheses about a state `s` are assumed under `s.nmpOut = false`,
    conclusions about the state returned hold under its `nmpOut = false` (`TTA`, `QRange`,
    `ABRange`).  The flag is monotone, so `nmpOut = false` at the end of a run means that the event
    never happened in it.  A second ghost flag, `St.ttOut`, records the CONSEQUENCE that matters: a
    value that is not `RelP ply` was handed to a table store at `ply` (`ttBad`).  The `nmpOut`-guarded
    development proves in passing that `ttOut` is not raised while `nmpOut` is down (`TTA`, `go_free_ttOut`);
    the `ttOut`-guarded copy (Proofs/SearchScoreQ2.lean …) needs `InR` of values only and carries the exact
    run-level hypothesis "no out-of-band store";
  * `rfp_sound`, `nmp_sound`: reverse futility / null move are only tried with `staticEval ≥ beta`
    (for `rfpCut` this needs `beta + d*RFPScoreFactor` not to wrap: `beta ≤ rfpSafe`, the bound for
    `RFPDepthLimit ≤ 10`, `RFPScoreFactor ≤ 130` of params/spsa.go);
  * `lmr_late`: the null-window (LMR) block is not entered before the second quiet move
    (`quietCnt > LMRStart` with `LMRStart ≥ 1`; the default is 2);
  * `μ`: a measure that every quiescence move decreases (men + pawns: captures and promotions), at
    most 48 on `Good` boards — it bounds the int8 ply counter inside quiescence.
-/
import ChessVerif.Proofs.SearchGo

namespace ChessVerif
namespace Search

variable {σ π : Type} [PsInv σ]

theorem Inf_eq : Inf = 10000 := rfl
theorem maxPlies_eq : maxPlies = 64 := rfl

/-- a score within `[-Inf, Inf]`. -/
def InR (v : Int) : Prop := -10000 ≤ v ∧ v ≤ 10000

/-- a window a node can work with: `alpha` can be negated in int16 and does not exceed `Inf`,
    `beta` is not below `-Inf`. -/
def WinOK (a b : Int) : Prop := -32767 ≤ a ∧ a ≤ 10000 ∧ -10000 ≤ b ∧ b ≤ 32767

/-- `32767 - 9*130`: below it `beta + d*RFPScoreFactor` cannot wrap (`d < RFPDepthLimit ≤ 10`,
    `RFPScoreFactor ≤ 130`). -/
def rfpSafe : Int := 31597

/-- a root window: workable, and reverse futility pruning compares without wrapping. -/
def RootWin (a b : Int) : Prop := WinOK a b ∧ b ≤ rfpSafe

instance (a b : Int) : Decidable (RootWin a b) := by unfold RootWin WinOK; exact inferInstance

omit [PsInv σ] in
/-- `EvalRange`: the evaluation the search uses is strictly inside the mate band
    `(-Inf+MaxPlies, Inf-MaxPlies)` — a theorem about the clamp, for every raw evaluation. -/
theorem evaluate_range (c : Comp σ π) (b : Board) :
    (-10000 : Int) + 64 < evaluate c b ∧ evaluate c b < (10000 : Int) - 64 := by
  unfold evaluate Gen.Funcs.clampS16 Search.Inf maxPlies
  generalize c.eval b = x
  show (-10000:Int) + 64 < min ((10000:Int) - 64 - 1) (max x (-(10000:Int) + 64 + 1)) ∧
    min ((10000:Int) - 64 - 1) (max x (-(10000:Int) + 64 + 1)) < (10000:Int) - 64
  omega

/-- the largest score a node at `ply` can hold on its own account: a mate score `Inf - ply'` with
    `ply' ≥ ply`, or any score outside the mate band (`|v| ≤ Inf - MaxPlies`, not re-based by the table). -/
def hiP (ply : Int) : Int := max 9936 (10000 - ply)

/-- a score is ply-consistent: a mate score claims a mate no earlier than this node. -/
def RelP (ply v : Int) : Prop := -hiP ply ≤ v ∧ v ≤ hiP ply

theorem RelP.inR {ply v : Int} (h0 : 0 ≤ ply) (h : RelP ply v) : InR v := by
  unfold RelP hiP at h; unfold InR; omega

theorem RelP.mono {p q v : Int} (hpq : p ≤ q) (h : RelP q v) : RelP p v := by
  unfold RelP hiP at *; omega

theorem relP_zero (ply : Int) : RelP ply 0 := by unfold RelP hiP; omega

structure ScoreLaws (c : Comp σ π) (Good : Board → Prop) (TTok : σ → Prop) (μ : Board → Nat) : Prop where
  /-- the table predicate includes the invariant of the persistent state the component laws need -/
  tt_ok : ∀ ps, TTok ps → PsInv.ok ps
  /-- a hit read at `ply` is ply-consistent (the table keeps mate scores relative to the node:
      `Value(ply)` re-bases what `Insert(…, ply, …)` stored) -/
  tt_probe : ∀ ps b ply e, TTok ps → 0 ≤ ply → ply ≤ 127 → c.ttProbe ps b ply = some e → RelP ply e.value
  /-- storing a ply-consistent value keeps the table predicate (NOT any value within `±Inf`: the real
      table adds `ply` to a mate score, so `Inf` stored at ply 5 would read back `Inf + 5` at ply 0) -/
  tt_store : ∀ ps b d ply m v bd, TTok ps → 0 ≤ ply → ply ≤ 127 → RelP ply v →
    PsInv.ok (c.ttStore ps b d ply m v bd) → TTok (c.ttStore ps b d ply m v bd)
  tt_failHigh : ∀ ps d b p hs, TTok ps → TTok (c.failHigh ps d b p hs)
  tt_nextGen : ∀ ps, TTok ps → TTok (c.nextGen ps)
  rfp_sound : ∀ d se beta, 0 ≤ d → beta ≤ rfpSafe → c.rfpCut d se beta = true → beta ≤ se
  nmp_sound : ∀ b d se beta, c.nmpTry b d se beta = true → beta ≤ se
  lmr_late : ∀ d q, c.lmrTry d q = true → 2 ≤ q
  window : 0 ≤ c.windowSize ∧ c.windowSize ≤ 100
  q_measure : ∀ ps b hs m w, Good b → (m, w) ∈ c.qMoves ps b hs → μ (b.makeMove c.keys m).1 < μ b
  measure_bound : ∀ b, Good b → μ b ≤ 48

/-- the table predicate as far as it can be known: the persistent state satisfies the invariant of
    the component laws (unconditionally: `Laws.ok_store`), and — unless the ghost flag has been
    raised — the table predicate; and, relative to a Boolean `t0` ("the second ghost flag `ttOut` was
    up when the run started"; `t0 = true` makes the clause void), that `ttOut` is still down: while
    `nmpOut` is down every value handed to a table store is ply-consistent, so `ttOut` is not raised
    (`go_free_ttOut`: `nmpOut = false` implies `ttOut = false` — the hypothesis of the `…_real`
    theorems is implied by the one of the `…_real_nmp` theorems). -/
def TTA (TTok : σ → Prop) (t0 : Bool) (s : St σ) : Prop :=
  PsInv.ok s.ps ∧ (s.nmpOut = false → TTok s.ps ∧ (t0 = false → s.ttOut = false))

theorem TTA.congr {TTok : σ → Prop} {t0 : Bool} {s s' : St σ} (hps : s'.ps = s.ps) (ha : s'.nmpOut = s.nmpOut)
    (h : TTA TTok t0 s) (ht : s'.ttOut = s.ttOut := by rfl) : TTA TTok t0 s' :=
  ⟨by rw [hps]; exact h.1, fun h' => by
    rw [hps, ht]; exact h.2 (by rw [← ha]; exact h')⟩

/-- the flag is monotone: a state reached from `s` with the flag down has `s.nmpOut = false`. -/
theorem Mono.a_back {L : Limits} {s s' : St σ} (h : Mono L s s') (h' : s'.nmpOut = false) : s.nmpOut = false := by
  cases hs : s.nmpOut
  · rfl
  · rw [h.nmp_mono hs] at h'; cases h'

/-! ### int16 arithmetic -/

theorem wrapS16_id {x : Int} (h1 : -32768 ≤ x) (h2 : x ≤ 32767) : wrapS16 x = x := by
  unfold wrapS16; omega

theorem neg_eq {x : Int} (h1 : -32767 ≤ x) (h2 : x ≤ 32768) : neg x = -x := by
  unfold neg; exact wrapS16_id (by omega) (by omega)

theorem neg_inR {v : Int} (h : InR v) : InR (neg v) := by
  unfold InR at *
  rw [neg_eq (by omega) (by omega)]; omega

theorem inR_zero : InR 0 := by unfold InR; omega

theorem max_le_of {a b hi : Int} (h1 : a ≤ hi) (h2 : b ≤ hi) : max a b ≤ hi := by omega
theorem le_max_of {a b lo : Int} (h1 : lo ≤ a) : lo ≤ max a b := by omega
theorem le_max_of' {a b lo : Int} (h1 : lo ≤ b) : lo ≤ max a b := by omega

theorem inR_mate {ply : Int} (h0 : 0 ≤ ply) (h1 : ply ≤ 127) : InR (wrapS16 (-Inf + ply)) := by
  unfold InR
  rw [Inf_eq, wrapS16_id (by omega) (by omega)]; omega

omit [PsInv σ] in
theorem inR_eval (c : Comp σ π) (b : Board) : InR (evaluate c b) := by
  have h := evaluate_range c b
  exact ⟨Int.le_of_lt (Int.lt_trans (by decide) h.1), Int.le_of_lt (Int.lt_trans h.2 (by decide))⟩

theorem neg_relP {p v : Int} (hp : 0 ≤ p) (h : RelP (p + 1) v) : RelP p (neg v) := by
  have hi := h.inR (by omega)
  unfold InR at hi
  rw [neg_eq (by omega) (by omega)]
  unfold RelP hiP at *; omega

theorem relP_mate {ply : Int} (h0 : 0 ≤ ply) (h1 : ply ≤ 127) : RelP ply (wrapS16 (-Inf + ply)) := by
  rw [Inf_eq, wrapS16_id (by omega) (by omega)]
  unfold RelP hiP; omega

omit [PsInv σ] in
theorem relP_eval (c : Comp σ π) (b : Board) (ply : Int) : RelP ply (evaluate c b) := by
  obtain ⟨h1, h2⟩ := evaluate_range c b
  generalize evaluate c b = x at h1 h2
  simp only [Score] at x h1 h2
  unfold RelP hiP; omega

omit [PsInv σ] in
/-- the clamped evaluation lies strictly inside the mate band. -/
theorem eval_band (c : Comp σ π) (b : Board) : (-9935 : Int) ≤ evaluate c b ∧ evaluate c b ≤ (9935 : Int) := by
  obtain ⟨h1, h2⟩ := evaluate_range c b
  exact ⟨Int.add_one_le_of_lt h1, Int.le_of_lt_add_one h2⟩

theorem relP_max {p a b : Int} (ha : RelP p a) (hb : RelP p b) : RelP p (max a b) := by
  unfold RelP at *; omega

/-- the full child window `(-beta, -alpha)`. -/
theorem winOK_full {a b : Int} (ha1 : -32767 ≤ a) (ha2 : a ≤ 10000) (hb1 : -10000 ≤ b) (hb2 : b ≤ 32767) :
    WinOK (neg b) (neg a) := by
  unfold WinOK
  rw [neg_eq (by omega) (by omega), neg_eq (by omega) (by omega)]; omega

/-- the null window `(-alpha-1, -alpha)` for `alpha ≥ -Inf-1`. -/
theorem winOK_null {a : Int} (ha1 : -10001 ≤ a) (ha2 : a ≤ 10000) :
    WinOK (wrapS16 (neg a - 1)) (neg a) := by
  unfold WinOK
  rw [neg_eq (by omega) (by omega), wrapS16_id (by omega) (by omega)]; omega

/-- the null-move window `(-beta, -beta+1)` for `-Inf ≤ beta ≤ Inf`. -/
theorem winOK_nmp {b : Int} (hb1 : -10000 ≤ b) (hb2 : b ≤ 10000) :
    WinOK (neg b) (wrapS16 (neg b + 1)) := by
  unfold WinOK
  rw [neg_eq (by omega) (by omega), wrapS16_id (by omega) (by omega)]; omega

/-! ### the persistent state under `abort` / `incrementNodes` and the small updates -/

omit [PsInv σ] in
theorem incrementNodes_ps (L : Limits) (s : St σ) : (incrementNodes L s).ps = s.ps := by
  unfold incrementNodes
  split
  · rfl
  · split <;> rfl

omit [PsInv σ] in
theorem abort_ps (L : Limits) (s : St σ) : (abort L s).2.ps = s.ps := (abort_pv L s).2

/-- `abort` answered `false`: the state it returns is un-aborted, and so was the one it got. -/
theorem abort_false {L : Limits} {s : St σ} (h : (abort L s).1 = false) :
    (abort L s).2.aborted = false ∧ s.aborted = false := by
  have hat := abort_true_iff L s
  have hf := abort_frame L s
  refine ⟨by rw [← hat]; exact h, ?_⟩
  cases hs : s.aborted
  · rfl
  · have := hf.mono.aborted_mono hs
    rw [← hat, h] at this; cases this

theorem not_aborted_of_mono {L : Limits} {s s' : St σ} (h : Mono L s s') (h' : s'.aborted = false) : s.aborted = false := by
  cases hs : s.aborted
  · rfl
  · rw [h.aborted_mono hs] at h'; cases h'

omit [PsInv σ] in
@[simp] theorem setBoard_nmpOut' (s : St σ) (b : Board) : (s.setBoard b).nmpOut = s.nmpOut := rfl
omit [PsInv σ] in
@[simp] theorem pop_nmpOut' (s : St σ) : s.pop.nmpOut = s.nmpOut := rfl
omit [PsInv σ] in
@[simp] theorem push_nmpOut' (s : St σ) (sm : StackMove) : (s.push sm).nmpOut = s.nmpOut := rfl
omit [PsInv σ] in
@[simp] theorem pushFrame_nmpOut' (s : St σ) : s.pushFrame.nmpOut = s.nmpOut := rfl
omit [PsInv σ] in
@[simp] theorem popFrame_nmpOut' (s : St σ) : s.popFrame.nmpOut = s.nmpOut := rfl
omit [PsInv σ] in
@[simp] theorem setPs_nmpOut' (s : St σ) (ps : σ) : (s.setPs ps).nmpOut = s.nmpOut := rfl
omit [PsInv σ] in
@[simp] theorem setPv_nmpOut' (s : St σ) (pv : Pv.Rows) : (s.setPv pv).nmpOut = s.nmpOut := rfl

omit [PsInv σ] in
theorem abort_nmpOut (L : Limits) (s : St σ) : (abort L s).2.nmpOut = s.nmpOut := by
  unfold abort
  split
  · rfl
  · split
    · rfl
    · split <;> rfl

omit [PsInv σ] in
theorem incrementNodes_nmpOut (L : Limits) (s : St σ) : (incrementNodes L s).nmpOut = s.nmpOut := by
  unfold incrementNodes
  split
  · rfl
  · split <;> rfl

omit [PsInv σ] in
@[simp] theorem popFrame_ps (s : St σ) : s.popFrame.ps = s.ps := rfl
omit [PsInv σ] in
@[simp] theorem push_ps (s : St σ) (sm : StackMove) : (s.push sm).ps = s.ps := rfl
omit [PsInv σ] in
@[simp] theorem pop_ps (s : St σ) : s.pop.ps = s.ps := rfl
omit [PsInv σ] in
@[simp] theorem setPv_ps (s : St σ) (pv : Pv.Rows) : (s.setPv pv).ps = s.ps := rfl
omit [PsInv σ] in
@[simp] theorem flag_ps (s : St σ) (a : Bool) : (s.flag a).ps = s.ps := rfl
omit [PsInv σ] in
@[simp] theorem setPs_ps (s : St σ) (ps : σ) : (s.setPs ps).ps = ps := rfl
omit [PsInv σ] in
@[simp] theorem outOfFuel_ps (s : St σ) : s.outOfFuel.ps = s.ps := rfl
omit [PsInv σ] in
@[simp] theorem setBoard_aborted (s : St σ) (b : Board) : (s.setBoard b).aborted = s.aborted := rfl
omit [PsInv σ] in
@[simp] theorem setPs_aborted' (s : St σ) (ps : σ) : (s.setPs ps).aborted = s.aborted := rfl
omit [PsInv σ] in
@[simp] theorem popFrame_aborted' (s : St σ) : s.popFrame.aborted = s.aborted := rfl
omit [PsInv σ] in
@[simp] theorem pop_aborted (s : St σ) : s.pop.aborted = s.aborted := rfl
omit [PsInv σ] in
@[simp] theorem push_aborted (s : St σ) (sm : StackMove) : (s.push sm).aborted = s.aborted := rfl
omit [PsInv σ] in
@[simp] theorem pushFrame_aborted (s : St σ) : s.pushFrame.aborted = s.aborted := rfl
omit [PsInv σ] in
@[simp] theorem setPv_aborted (s : St σ) (pv : Pv.Rows) : (s.setPv pv).aborted = s.aborted := rfl
omit [PsInv σ] in
@[simp] theorem flag_aborted' (s : St σ) (a : Bool) : (s.flag a).aborted = s.aborted := rfl

/-! ### the flag `ttOut` -/

omit [PsInv σ] in
@[simp] theorem setBoard_ttOut (s : St σ) (b : Board) : (s.setBoard b).ttOut = s.ttOut := rfl
omit [PsInv σ] in
@[simp] theorem pop_ttOut (s : St σ) : s.pop.ttOut = s.ttOut := rfl
omit [PsInv σ] in
@[simp] theorem push_ttOut (s : St σ) (sm : StackMove) : (s.push sm).ttOut = s.ttOut := rfl
omit [PsInv σ] in
@[simp] theorem pushFrame_ttOut (s : St σ) : s.pushFrame.ttOut = s.ttOut := rfl
omit [PsInv σ] in
@[simp] theorem popFrame_ttOut (s : St σ) : s.popFrame.ttOut = s.ttOut := rfl
omit [PsInv σ] in
@[simp] theorem setPs_ttOut (s : St σ) (ps : σ) : (s.setPs ps).ttOut = s.ttOut := rfl
omit [PsInv σ] in
@[simp] theorem setPv_ttOut (s : St σ) (pv : Pv.Rows) : (s.setPv pv).ttOut = s.ttOut := rfl
omit [PsInv σ] in
@[simp] theorem flag_ttOut (s : St σ) (a : Bool) : (s.flag a).ttOut = s.ttOut := rfl
omit [PsInv σ] in
@[simp] theorem flagNmp_ttOut (s : St σ) (a : Bool) : (s.flagNmp a).ttOut = s.ttOut := rfl

omit [PsInv σ] in
theorem abort_ttOut (L : Limits) (s : St σ) : (abort L s).2.ttOut = s.ttOut := by
  unfold abort
  split
  · rfl
  · split
    · rfl
    · split <;> rfl

omit [PsInv σ] in
theorem incrementNodes_ttOut (L : Limits) (s : St σ) : (incrementNodes L s).ttOut = s.ttOut := by
  unfold incrementNodes
  split
  · rfl
  · split <;> rfl

omit [PsInv σ] in
/-- the flag is down after a store site: it was down before, and the stored value was not out of band. -/
theorem flagTT_false {s : St σ} {a : Bool} (h : (s.flagTT a).ttOut = false) : s.ttOut = false ∧ a = false := by
  have : (s.ttOut || a) = false := h
  simpa using this

/-- `ttBad` is the negation of `RelP`. -/
theorem relP_of_not_bad {ply : Int} {v : Score} (h : ttBad ply v = false) : RelP ply v := by
  unfold ttBad at h
  simp only [Bool.or_eq_false_iff, decide_eq_false_iff_not] at h
  obtain ⟨h1, h2⟩ := h
  have h1' : v ≤ max 9936 (10000 - ply) := Int.not_lt.1 h1
  have h2' : -(max 9936 (10000 - ply)) ≤ v := Int.not_lt.1 h2
  exact ⟨h2', h1'⟩

theorem bad_of_not_relP {ply : Int} {v : Score} (h : ¬ RelP ply v) : ttBad ply v = true := by
  cases hb : ttBad ply v
  · exact absurd (relP_of_not_bad hb) h
  · rfl

/-- the flag is monotone: a state reached from `s` with the flag down has `s.ttOut = false`. -/
theorem Mono.t_back {L : Limits} {s s' : St σ} (h : Mono L s s') (h' : s'.ttOut = false) : s.ttOut = false := by
  cases hs : s.ttOut
  · rfl
  · rw [h.tt_mono hs] at h'; cases h'

omit [PsInv σ] in
/-- a store of a ply-consistent value does not raise the flag. -/
theorem flagTT_keep {s : St σ} {a : Bool} (h : s.ttOut = false) (ha : a = false) : (s.flagTT a).ttOut = false := by
  show (s.ttOut || a) = false
  rw [h, ha]; rfl

theorem not_bad_of_relP {ply : Int} {v : Score} (h : RelP ply v) : ttBad ply v = false := by
  cases hb : ttBad ply v
  · rfl
  · exfalso
    unfold ttBad at hb
    simp only [Bool.or_eq_true, decide_eq_true_eq] at hb
    unfold RelP hiP at h
    simp only [Score] at *
    omega

end Search
end ChessVerif
