/-
  C15 helper lemmas, part 3: one bucket.  What `Insert` does to a bucket (three cases), the
  invariant `NoDupSig`, and how the answers of `LookUp` change under a store.
-/
import ChessVerif.Proofs.TranspMatch
import ChessVerif.Proofs.TranspValue

namespace ChessVerif.Model.Transp
open ChessVerif

/-! ### entries array -/

theorem lt4 {i : Nat} (h : i < 4) : i = 0 ∨ i = 1 ∨ i = 2 ∨ i = 3 := by omega

@[simp] theorem Bucket.set_pKeys (b : Bucket) (i : Nat) (e : Entry) : (b.set i e).pKeys = b.pKeys := by
  unfold Bucket.set; split <;> rfl

theorem Bucket.get_set (b : Bucket) (r i : Nat) (e : Entry) (hr : r < 4) (hi : i < 4) :
    (b.set r e).get i = if i = r then e else b.get i := by
  rcases lt4 hr with rfl | rfl | rfl | rfl <;> rcases lt4 hi with rfl | rfl | rfl | rfl <;>
    simp [Bucket.set, Bucket.get]

/-- Signature stored for lane `i`. -/
def Bucket.sig (b : Bucket) (i : Nat) : Sig := lane b.pKeys i

/-- The write at the end of `Insert`: entry `r` and lane `r` of `pKeys`. -/
def Bucket.write (b : Bucket) (r : Nat) (k : Sig) (e : Entry) : Bucket :=
  { (b.set r e) with pKeys := setLane (b.set r e).pKeys r k }

theorem Bucket.write_sig (b : Bucket) (r i : Nat) (k : Sig) (e : Entry) (hr : r < 4) (hi : i < 4) :
    (b.write r k e).sig i = if i = r then k else b.sig i := by
  simp only [Bucket.write, Bucket.sig, Bucket.set_pKeys]
  exact lane_setLane _ _ _ _ hr hi

theorem Bucket.write_get (b : Bucket) (r i : Nat) (k : Sig) (e : Entry) (hr : r < 4) (hi : i < 4) :
    (b.write r k e).get i = if i = r then e else b.get i := by
  have : (b.write r k e).get i = (b.set r e).get i := by
    simp only [Bucket.write, Bucket.get]
  rw [this, Bucket.get_set b r i e hr hi]

/-! ### the lane loop of `Insert` -/

/-- The keep-deeper test of `Insert`: a bound does not displace a same-search entry that is more
    than `keepDeeperMargin` plies deeper (int8 arithmetic on `d + 2`). -/
def keepCond (old : Entry) (gen : BitVec 8) (d : Int) (typ : BitVec 8) : Prop :=
  typ ≠ exact ∧ old.depth > wrapS8 (d + Gen.Transp.keepDeeperMargin) ∧ old.gen = gen

instance (old : Entry) (gen : BitVec 8) (d : Int) (typ : BitVec 8) : Decidable (keepCond old gen d typ) := by
  unfold keepCond; infer_instance

/-- The entry literal written by `Insert`. -/
def mkEntry (sm : BitVec 16) (value ply d : Int) (typ gen : BitVec 8) : Entry :=
  { move := sm, value := storedValue value ply, packed := pack d typ, gen := gen }

theorem lane_shift (w : BitVec 64) (i : Nat) : (w >>> (i * 16)).setWidth 16 = lane w i := by
  simp [lane, keyBits_eq]

theorem insertLoop_gen (b : Bucket) (key : Sig) (gen : BitVec 8) (d : Int) (typ : BitVec 8)
    (sm : BitVec 16) (k : Nat) :
    ∀ (i : Nat) (minQ : Int) (replace : Nat), i + k = 4 → replace < 4 →
      (∀ j, j < i → lane b.pKeys j ≠ key) →
      (∀ j, match64 b.pKeys key = some j →
        insertLoop b key gen d typ k i (b.pKeys >>> (i * 16)) minQ replace sm =
          if keepCond (b.get j) gen d typ then .ret
          else .go j (if sm = 0 then (b.get j).move else sm)) ∧
      (match64 b.pKeys key = none →
        ∃ r, r < 4 ∧ insertLoop b key gen d typ k i (b.pKeys >>> (i * 16)) minQ replace sm = .go r sm) := by
  induction k with
  | zero =>
    intro i minQ replace hik hr hbelow
    have hi : i = 4 := by omega
    subst hi
    constructor
    · intro j hj
      have := (match64_some_iff _ _ _).1 hj
      exact absurd this.2.1 (hbelow j this.1)
    · intro _
      exact ⟨replace, hr, rfl⟩
  | succ k ih =>
    intro i minQ replace hik hr hbelow
    have hi : i < 4 := by omega
    rw [insertLoop]
    simp only [lane_shift]
    by_cases hm : lane b.pKeys i = key
    · have hsome : match64 b.pKeys key = some i := (match64_some_iff _ _ _).2 ⟨hi, hm, hbelow⟩
      simp only [hm, if_true]
      constructor
      · intro j hj
        rw [hsome] at hj
        cases hj
        rfl
      · intro hnone
        rw [hsome] at hnone
        cases hnone
    · simp only [hm, if_false]
      have hshift : (b.pKeys >>> (i * 16)) >>> keyBits = b.pKeys >>> ((i + 1) * 16) := by
        rw [keyBits_eq, ← BitVec.shiftRight_add]
        congr 1; omega
      rw [hshift]
      have hbelow' : ∀ j, j < i + 1 → lane b.pKeys j ≠ key := by
        intro j hj
        by_cases e : j = i
        · rw [e]; exact hm
        · exact hbelow j (by omega)
      split
      · exact ih (i + 1) _ i (by omega) hi hbelow'
      · exact ih (i + 1) _ replace (by omega) hr hbelow'

/-- The three outcomes of `Insert` on a bucket. -/
theorem Bucket.insert_cases (b : Bucket) (key : Sig) (gen : BitVec 8) (d ply : Int) (sm : BitVec 16)
    (value : Int) (typ : BitVec 8) :
    (∃ j, match64 b.pKeys key = some j ∧ keepCond (b.get j) gen d typ ∧
        b.insert key gen d ply sm value typ = b) ∨
    (∃ j, match64 b.pKeys key = some j ∧ ¬ keepCond (b.get j) gen d typ ∧
        b.insert key gen d ply sm value typ =
          b.write j key (mkEntry (if sm = 0 then (b.get j).move else sm) value ply d typ gen)) ∨
    (match64 b.pKeys key = none ∧ ∃ r, r < 4 ∧
        b.insert key gen d ply sm value typ = b.write r key (mkEntry sm value ply d typ gen)) := by
  have h := insertLoop_gen b key gen d typ sm 4 0 Gen.Transp.insertMinQStart 0 (by omega) (by omega)
    (by intro j hj; omega)
  simp only [Nat.zero_mul, BitVec.ushiftRight_zero] at h
  cases hm : match64 b.pKeys key with
  | some j =>
    have hj := h.1 j hm
    by_cases hk : keepCond (b.get j) gen d typ
    · left
      refine ⟨j, rfl, hk, ?_⟩
      unfold Bucket.insert
      rw [entryCnt_eq, hj, if_pos hk]
    · right; left
      refine ⟨j, rfl, hk, ?_⟩
      unfold Bucket.insert
      rw [entryCnt_eq, hj, if_neg hk]
      rfl
  | none =>
    right; right
    obtain ⟨r, hr, hres⟩ := h.2 hm
    refine ⟨rfl, r, hr, ?_⟩
    unfold Bucket.insert
    rw [entryCnt_eq, hres]
    rfl

/-! ### NoDupSig -/

/-- The non-zero signatures of a bucket are pairwise distinct. -/
def NoDupSig (b : Bucket) : Prop :=
  ∀ i j, i < 4 → j < 4 → i ≠ j → b.sig i ≠ 0 → b.sig i ≠ b.sig j

theorem NoDupSig_zero : NoDupSig Bucket.zero := by
  intro i j hi _ _ h
  exfalso; apply h
  rcases lt4 hi with rfl | rfl | rfl | rfl <;> decide

theorem match64_sig_some {b : Bucket} {k : Sig} {j : Nat} (h : match64 b.pKeys k = some j) :
    j < 4 ∧ b.sig j = k ∧ ∀ i, i < j → b.sig i ≠ k := (match64_some_iff _ _ _).1 h

theorem match64_sig_none {b : Bucket} {k : Sig} (h : match64 b.pKeys k = none) :
    ∀ i, i < 4 → b.sig i ≠ k := (match64_none_iff _ _).1 h

/-- Overwriting the lane that already carries `k` keeps all signatures. -/
theorem Bucket.write_sig_same (b : Bucket) (r : Nat) (k : Sig) (e : Entry) (hr : r < 4)
    (hk : b.sig r = k) (i : Nat) (hi : i < 4) : (b.write r k e).sig i = b.sig i := by
  rw [Bucket.write_sig b r i k e hr hi]
  split
  · next h => rw [h, hk]
  · rfl

theorem NoDupSig_write_same (b : Bucket) (r : Nat) (k : Sig) (e : Entry) (hr : r < 4)
    (hk : b.sig r = k) (h : NoDupSig b) : NoDupSig (b.write r k e) := by
  intro i j hi hj hij
  rw [Bucket.write_sig_same b r k e hr hk i hi, Bucket.write_sig_same b r k e hr hk j hj]
  exact h i j hi hj hij

theorem NoDupSig_write_fresh (b : Bucket) (r : Nat) (k : Sig) (e : Entry) (hr : r < 4)
    (hk : ∀ i, i < 4 → b.sig i ≠ k) (h : NoDupSig b) : NoDupSig (b.write r k e) := by
  intro i j hi hj hij
  rw [Bucket.write_sig b r i k e hr hi, Bucket.write_sig b r j k e hr hj]
  by_cases e1 : i = r
  · have e2 : ¬ j = r := by omega
    simp only [e1, e2, if_true, if_false]
    intro _ heq
    exact hk j hj heq.symm
  · by_cases e2 : j = r
    · simp only [e1, e2, if_true, if_false]
      intro _ heq
      exact hk i hi heq
    · simp only [e1, e2, if_false]
      exact h i j hi hj hij

/-- **NoDupSig is preserved by `Insert`.** -/
theorem NoDupSig_insert (b : Bucket) (key : Sig) (gen : BitVec 8) (d ply : Int) (sm : BitVec 16)
    (value : Int) (typ : BitVec 8) (h : NoDupSig b) :
    NoDupSig (b.insert key gen d ply sm value typ) := by
  rcases Bucket.insert_cases b key gen d ply sm value typ with
    ⟨j, _, _, he⟩ | ⟨j, hm, _, he⟩ | ⟨hm, r, hr, he⟩
  · rw [he]; exact h
  · rw [he]
    have := match64_sig_some hm
    exact NoDupSig_write_same b j key _ this.1 this.2.1 h
  · rw [he]
    exact NoDupSig_write_fresh b r key _ hr (match64_sig_none hm) h

/-! ### LookUp after a write -/

theorem Bucket.lookUp_some_iff (b : Bucket) (k : Sig) (e : Entry) :
    b.lookUp k = some e ↔ ∃ j, match64 b.pKeys k = some j ∧ e = b.get j := by
  unfold Bucket.lookUp
  cases match64 b.pKeys k with
  | none => simp
  | some j =>
    constructor
    · intro h; cases h; exact ⟨j, rfl, rfl⟩
    · rintro ⟨j', hj, he⟩; cases hj; rw [he]

theorem Bucket.lookUp_none_iff (b : Bucket) (k : Sig) :
    b.lookUp k = none ↔ match64 b.pKeys k = none := by
  unfold Bucket.lookUp
  cases match64 b.pKeys k <;> simp

/-- `match64` only depends on the four signatures. -/
theorem match64_congr (b b' : Bucket) (k : Sig) (h : ∀ i, i < 4 → b'.sig i = b.sig i) :
    match64 b'.pKeys k = match64 b.pKeys k := by
  cases hm : match64 b.pKeys k with
  | none =>
    apply (match64_none_iff _ _).2
    intro i hi
    have := h i hi
    unfold Bucket.sig at this
    rw [this]
    exact (match64_none_iff _ _).1 hm i hi
  | some j =>
    obtain ⟨hj, h1, h2⟩ := (match64_some_iff _ _ _).1 hm
    apply (match64_some_iff _ _ _).2
    refine ⟨hj, ?_, ?_⟩
    · have := h j hj; unfold Bucket.sig at this; rw [this]; exact h1
    · intro i hi
      have := h i (by omega); unfold Bucket.sig at this; rw [this]; exact h2 i hi

/-- After the write the stored key is found, in the written lane: (a) the lane already had it. -/
theorem Bucket.lookUp_write_same (b : Bucket) (r : Nat) (k : Sig) (e : Entry)
    (hm : match64 b.pKeys k = some r) : (b.write r k e).lookUp k = some e := by
  obtain ⟨hr, hk, _⟩ := match64_sig_some hm
  have hc := match64_congr b (b.write r k e) k (fun i hi => Bucket.write_sig_same b r k e hr hk i hi)
  rw [Bucket.lookUp_some_iff]
  refine ⟨r, by rw [hc, hm], ?_⟩
  rw [Bucket.write_get b r r k e hr hr, if_pos rfl]

/-- (b) the key was absent and replaces lane `r`. -/
theorem Bucket.lookUp_write_fresh (b : Bucket) (r : Nat) (k : Sig) (e : Entry) (hr : r < 4)
    (hm : match64 b.pKeys k = none) : (b.write r k e).lookUp k = some e := by
  have hno := match64_sig_none hm
  rw [Bucket.lookUp_some_iff]
  refine ⟨r, ?_, ?_⟩
  · apply (match64_some_iff _ _ _).2
    refine ⟨hr, ?_, ?_⟩
    · have := Bucket.write_sig b r r k e hr hr
      unfold Bucket.sig at this; rw [this, if_pos rfl]
    · intro i hi
      have := Bucket.write_sig b r i k e hr (by omega)
      unfold Bucket.sig at this
      rw [this, if_neg (by omega)]
      exact hno i (by omega)
  · rw [Bucket.write_get b r r k e hr hr, if_pos rfl]

/-- Other keys: overwriting the own lane changes nothing for them. -/
theorem Bucket.lookUp_write_same_other (b : Bucket) (r : Nat) (k k' : Sig) (e : Entry)
    (hm : match64 b.pKeys k = some r) (hne : k' ≠ k) :
    (b.write r k e).lookUp k' = b.lookUp k' := by
  obtain ⟨hr, hk, _⟩ := match64_sig_some hm
  have hc := match64_congr b (b.write r k e) k' (fun i hi => Bucket.write_sig_same b r k e hr hk i hi)
  unfold Bucket.lookUp
  rw [hc]
  cases hm' : match64 b.pKeys k' with
  | none => rfl
  | some j =>
    obtain ⟨hj, hkj, _⟩ := match64_sig_some hm'
    have : j ≠ r := by
      intro e'; rw [e'] at hkj; rw [hk] at hkj; exact hne hkj.symm
    simp only
    rw [Bucket.write_get b r j k e hr hj, if_neg this]

/-- Other keys when lane `r` is replaced by a fresh key: every key other than the one that sat in
    lane `r` keeps its answer; the non-zero key that sat there disappears (needs `NoDupSig`). -/
theorem Bucket.lookUp_write_fresh_other (b : Bucket) (r : Nat) (k k' : Sig) (e : Entry) (hr : r < 4)
    (_hm : match64 b.pKeys k = none) (hne : k' ≠ k) (hnd : NoDupSig b) :
    (k' ≠ b.sig r → (b.write r k e).lookUp k' = b.lookUp k') ∧
    (k' = b.sig r → k' ≠ 0 → (b.write r k e).lookUp k' = none) := by
  have hsig : ∀ i, i < 4 → (b.write r k e).sig i = if i = r then k else b.sig i :=
    fun i hi => Bucket.write_sig b r i k e hr hi
  constructor
  · intro hnr
    cases hm' : match64 b.pKeys k' with
    | none =>
      have h1 : b.lookUp k' = none := (Bucket.lookUp_none_iff _ _).2 hm'
      rw [h1, Bucket.lookUp_none_iff]
      apply (match64_none_iff _ _).2
      intro i hi
      have := hsig i hi; unfold Bucket.sig at this; rw [this]
      split
      · exact fun h => hne h.symm
      · exact match64_sig_none hm' i hi
    | some j =>
      obtain ⟨hj, hkj, hlow⟩ := match64_sig_some hm'
      have hjr : j ≠ r := by intro e'; rw [e'] at hkj; exact hnr hkj.symm
      have h1 : b.lookUp k' = some (b.get j) := (Bucket.lookUp_some_iff _ _ _).2 ⟨j, hm', rfl⟩
      rw [h1, Bucket.lookUp_some_iff]
      refine ⟨j, ?_, ?_⟩
      · apply (match64_some_iff _ _ _).2
        refine ⟨hj, ?_, ?_⟩
        · have := hsig j hj; unfold Bucket.sig at this; rw [this, if_neg hjr]; exact hkj
        · intro i hi
          have := hsig i (by omega); unfold Bucket.sig at this; rw [this]
          split
          · exact fun h => hne h.symm
          · exact hlow i hi
      · rw [Bucket.write_get b r j k e hr hj, if_neg hjr]
  · intro heq hnz
    rw [Bucket.lookUp_none_iff]
    apply (match64_none_iff _ _).2
    intro i hi
    have := hsig i hi; unfold Bucket.sig at this; rw [this]
    split
    · exact fun h => hne h.symm
    · next hir =>
      have h0 : b.sig r ≠ 0 := by rw [← heq]; exact hnz
      have := hnd r i hr hi (fun h => hir h.symm) h0
      rw [heq]
      exact fun h => this h.symm

end ChessVerif.Model.Transp
