/-
  C09, stalemate, seventh exit of `IsStalemate`: the loop over the pawns the king sees (`stPawns`).
  * `exit1_iff`, `exit2_iff` — the two tests of the loop body read as statements about pseudo-legal
                               pushes / captures and revealed slider attacks.
  * `stPawns_iff`            — the loop as an ∃-statement.
  * `stPawns_complete`       — the flag implies a legal pawn move.
  * `stPawns_of_move`        — every legal move that is not en passant of a pawn the king sees raises
                               the flag.
-/
import ChessVerif.Proofs.MateStalePawnsFree

namespace ChessVerif.Mate.StalePawns
open ChessVerif Board Rules Bridge ChessVerif.Mate

variable {b : Board} {K : Nat}

/-! ### the loop body -/

/-- `targets` of the first test: the square ahead if it is empty. -/
def pushT (b : Board) (s : Nat) : BB := Attacks.pawnSinglePushMoves (bit s) b.stm &&& ~~~ b.occ
/-- `targets` of the second test: the enemy men diagonally ahead. -/
def capT (b : Board) (s : Nat) : BB := Attacks.pawnCaptureMoves (bit s) b.stm &&& b.colorBB b.stm.flip

def exit1 (b : Board) (K s : Nat) : Bool :=
  !(b.sliderHits K ((b.occ &&& ~~~ bit s) ||| pushT b s) (b.colorBB b.stm.flip)) && (pushT b s != 0)

def exit2 (b : Board) (K s : Nat) : Bool :=
  !((Attacks.bishopMoves K ((b.occ &&& ~~~ bit s) ||| capT b s) &&& (b.pieceBB .bishop ||| b.pieceBB .queen) &&&
        ~~~ capT b s &&& b.colorBB b.stm.flip != 0) ||
    (Attacks.rookMoves K ((b.occ &&& ~~~ bit s) ||| capT b s) &&& (b.pieceBB .rook ||| b.pieceBB .queen) &&&
        b.colorBB b.stm.flip != 0)) && (capT b s != 0)

theorem stPawns_eq : stPawns b K =
    (bits (b.pieceBB .pawn &&& b.colorBB b.stm &&& maybePinnedBB b K)).any
      (fun sq => if exit1 b K sq then true else exit2 b K sq) := rfl

theorem stPawns_iff (cx : Ctx b K) :
    stPawns b K = true ↔
      ∃ s, s < 64 ∧ b.pieceAt s = .pawn ∧ (b.colorBB b.stm).getLsbD s = true ∧
        (maybePinnedBB b K).getLsbD s = true ∧ (exit1 b K s = true ∨ exit2 b K s = true) := by
  rw [stPawns_eq, any_bits_iff]
  constructor
  · rintro ⟨s, hs, hx, hf⟩
    rw [BitVec.getLsbD_and, BitVec.getLsbD_and, Bool.and_eq_true, Bool.and_eq_true,
      cx.wf.piece_iff s hs .pawn (by decide)] at hx
    refine ⟨s, hs, hx.1.1, hx.1.2, hx.2, ?_⟩
    cases h1 : exit1 b K s
    · rw [h1] at hf; exact Or.inr hf
    · exact Or.inl rfl
  · rintro ⟨s, hs, hp, hown, hmp, hf⟩
    refine ⟨s, hs, ?_, ?_⟩
    · rw [BitVec.getLsbD_and, BitVec.getLsbD_and, Bool.and_eq_true, Bool.and_eq_true,
        cx.wf.piece_iff s hs .pawn (by decide)]
      exact ⟨⟨hp, hown⟩, hmp⟩
    · cases h1 : exit1 b K s
      · rcases hf with hf | hf
        · rw [h1] at hf; exact Bool.noConfusion hf
        · simpa using hf
      · rfl

/-! ### the first test -/

theorem pushT_get {s : Nat} (hs : s < 64) (u : Nat) (hu : u < 64) :
    (pushT b s).getLsbD u = true ↔ PL.PLpush1 b s u := by
  unfold pushT PL.PLpush1
  rw [BitVec.getLsbD_and, Bool.and_eq_true, push_bit b.stm s u hs hu, BitVec.getLsbD_not]
  simp [hu]

theorem pushT_eq_bit {s t : Nat} (hs : s < 64) (ht : t < 64) (h : PL.PLpush1 b s t) : pushT b s = bit t := by
  apply BitVec.eq_of_getLsbD_eq
  intro u hu
  rw [bit_getLsbD t u ht, Bool.eq_iff_iff, pushT_get hs u hu, decide_eq_true_eq]
  constructor
  · intro h'; exact ahead_unique h.1 h'.1
  · intro e; subst e; exact h

theorem pushT_ne_zero {s : Nat} (hs : s < 64) :
    (pushT b s != 0) = true ↔ ∃ t, t < 64 ∧ PL.PLpush1 b s t := by
  rw [bne_zero_iff]
  constructor
  · rintro ⟨t, ht, h⟩; exact ⟨t, ht, (pushT_get hs t ht).1 h⟩
  · rintro ⟨t, ht, h⟩; exact ⟨t, ht, (pushT_get hs t ht).2 h⟩

/-- **the first test**: the single push is pseudo-legal and reveals no slider attack. -/
theorem exit1_iff (cx : Ctx b K) {s : Nat} (hs : s < 64) :
    exit1 b K s = true ↔
      ∃ t, t < 64 ∧ PL.PLpush1 b s t ∧ ¬ SChk b ((b.occ &&& ~~~ bit s) ||| bit t) 0 K := by
  unfold exit1
  rw [Bool.and_eq_true, Bool.not_eq_true', pushT_ne_zero hs]
  constructor
  · rintro ⟨h1, t, ht, hp⟩
    refine ⟨t, ht, hp, ?_⟩
    rw [pushT_eq_bit hs ht hp] at h1
    rw [← sliderHits_iff0 cx.wf _ K cx.hK, h1]
    exact Bool.noConfusion
  · rintro ⟨t, ht, hp, h⟩
    refine ⟨?_, t, ht, hp⟩
    rw [pushT_eq_bit hs ht hp, ← Bool.not_eq_true, sliderHits_iff0 cx.wf _ K cx.hK]
    exact h

/-! ### the second test -/

theorem capT_get {s : Nat} (hs : s < 64) (u : Nat) (hu : u < 64) :
    (capT b s).getLsbD u = true ↔ PL.PLcapture b s u := by
  unfold capT PL.PLcapture
  rw [BitVec.getLsbD_and, Bool.and_eq_true, cap_bit b.stm s u hs hu]

theorem capT_ne_zero {s : Nat} (hs : s < 64) :
    (capT b s != 0) = true ↔ ∃ t, t < 64 ∧ PL.PLcapture b s t := by
  rw [bne_zero_iff]
  constructor
  · rintro ⟨t, ht, h⟩; exact ⟨t, ht, (capT_get hs t ht).1 h⟩
  · rintro ⟨t, ht, h⟩; exact ⟨t, ht, (capT_get hs t ht).2 h⟩

/-- putting an enemy man that is already there on the board changes nothing. -/
theorem cap_occ_get {s t : Nat} (hs : s < 64) (ht : t < 64)
    (hopp : (b.colorBB b.stm.flip).getLsbD t = true) (hne : t ≠ s) (u : Nat) :
    ((b.occ &&& ~~~ bit s) ||| bit t).getLsbD u = (b.occ &&& ~~~ bit s).getLsbD u := by
  by_cases hu : u = t
  · subst hu
    rw [moved_self ht, lift_get hs _ hne, occ_of_opp u hopp]
  · exact moved_get ht _ hu

/-- the occupancy of the second test is the board with the pawn lifted. -/
theorem capOcc_eq (cx : Ctx b K) {s : Nat} (hs : s < 64) (hown : (b.colorBB b.stm).getLsbD s = true) :
    (b.occ &&& ~~~ bit s) ||| capT b s = b.occ &&& ~~~ bit s := by
  apply BitVec.eq_of_getLsbD_eq
  intro u hu
  rw [BitVec.getLsbD_or]
  cases h : (capT b s).getLsbD u
  · simp
  · have hc := (capT_get hs u hu).1 h
    have hne : u ≠ s := by
      intro e; subst e
      have h2 := hc.2
      rw [own_not_opp cx u hown] at h2
      exact Bool.noConfusion h2
    rw [lift_get hs _ hne, occ_of_opp u hc.2]
    rfl

theorem exit_form (A B C : Bool) : (!(A || B) && C) = true ↔ ¬ A = true ∧ ¬ B = true ∧ C = true := by
  cases A <;> cases B <;> cases C <;> simp

/-- **the second test**: a pseudo-legal capture exists, every enemy bishop/queen attacking the king
    diagonally once the pawn is lifted can be captured by it, and no enemy rook/queen attacks the
    king orthogonally once the pawn is lifted. -/
theorem exit2_iff (cx : Ctx b K) {s : Nat} (hs : s < 64) (hown : (b.colorBB b.stm).getLsbD s = true) :
    exit2 b K s = true ↔
      (∃ y, y < 64 ∧ PL.PLcapture b s y) ∧
      (∀ a, a < 64 → (b.colorBB b.stm.flip).getLsbD a = true →
        (b.pieceAt a = .bishop ∨ b.pieceAt a = .queen) →
        Att (b.occ &&& ~~~ bit s) b.stm.flip .bishop a K → PL.PLcapture b s a) ∧
      (∀ a, a < 64 → (b.colorBB b.stm.flip).getLsbD a = true →
        (b.pieceAt a = .rook ∨ b.pieceAt a = .queen) →
        ¬ Att (b.occ &&& ~~~ bit s) b.stm.flip .rook a K) := by
  unfold exit2
  rw [capOcc_eq cx hs hown, exit_form, capT_ne_zero hs, BitVec.and_assoc (Attacks.bishopMoves K _ &&& _),
    bishopProbe_set cx.wf _ _ K cx.hK b.stm.flip, rookProbe_set cx.wf _ _ K cx.hK b.stm.flip]
  constructor
  · rintro ⟨hB, hR, hy⟩
    refine ⟨hy, ?_, ?_⟩
    · intro a ha oa hk hatt
      apply Classical.byContradiction
      intro hnc
      apply hB
      refine ⟨a, ha, ?_, hk, hatt⟩
      rw [BitVec.getLsbD_and, BitVec.getLsbD_not, oa]
      cases h : (capT b s).getLsbD a
      · simp [ha]
      · exact absurd ((capT_get hs a ha).1 h) hnc
    · intro a ha oa hk hatt
      exact hR ⟨a, ha, oa, hk, hatt⟩
  · rintro ⟨hy, hB, hR⟩
    refine ⟨?_, ?_, hy⟩
    · rintro ⟨a, ha, hx, hk, hatt⟩
      rw [BitVec.getLsbD_and, BitVec.getLsbD_not, Bool.and_eq_true] at hx
      have := (capT_get hs a ha).2 (hB a ha hx.2 hk hatt)
      rw [this] at hx
      simp at hx
    · rintro ⟨a, ha, oa, hk, hatt⟩
      exact hR a ha oa hk hatt

/-! ### completeness -/

theorem stPawns_complete (cx : Ctx b K) (hnc : ¬ Chk b b.occ 0 K) (h : stPawns b K = true) :
    HasLegal b .pawn := by
  obtain ⟨s, hs, hp, hown, _, hex⟩ := (stPawns_iff cx).1 h
  rcases hex with hex | hex
  · -- a single push that reveals nothing
    obtain ⟨t, ht, hpush, hsafe⟩ := (exit1_iff cx hs).1 hex
    refine mk_hasLegal cx hs ht (promoFor_lt s) hown hp (push1_to_free hpush) (promoFor_ok s) (Or.inl hpush) ?_
    intro hPL
    rw [pawn_safe_iff cx hnc hs ht hPL hp (push1_not_ep hpush), SChk_excl_empty ht hpush.2]
    exact hsafe
  · obtain ⟨⟨y, hy, hcy⟩, hB, hR⟩ := (exit2_iff cx hs hown).1 hex
    -- capturing `t` is safe as soon as every slider attacking `K` with `s` lifted stands on `t`
    have capture : ∀ t, t < 64 → PL.PLcapture b s t →
        (∀ Y, Y < 64 → (b.colorBB b.stm.flip).getLsbD Y = true → isSlider (b.pieceAt Y) = true →
          Att (b.occ &&& ~~~ bit s) b.stm.flip (b.pieceAt Y) Y K → Y = t) → HasLegal b .pawn := by
      intro t ht hct hall
      refine mk_hasLegal cx hs ht (promoFor_lt s) hown hp (capture_to_free cx hct) (promoFor_ok s)
        (Or.inr (Or.inr (Or.inl hct))) ?_
      intro hPL
      rw [pawn_safe_iff cx hnc hs ht hPL hp (capture_not_ep cx hct)]
      rintro ⟨Y, hY, oY, xY, sY, attY⟩
      have attY' := (Att_congr (fun u _ => cap_occ_get hs ht hct.2 (capGeom_ne hct.1) u)).1 attY
      have := hall Y hY oY sY attY'
      rw [bit_getLsbD t Y ht, decide_eq_false_iff_not] at xY
      exact xY this.symm
    by_cases hP : ∃ a, a < 64 ∧ (b.colorBB b.stm.flip).getLsbD a = true ∧ isSlider (b.pieceAt a) = true ∧
        Att (b.occ &&& ~~~ bit s) b.stm.flip (b.pieceAt a) a K
    · obtain ⟨a, ha, oa, sa, atta⟩ := hP
      rcases (slider_att_iff _ _ _ a K).1 ⟨sa, atta⟩ with ⟨hk, hatt⟩ | ⟨hk, hatt⟩
      · refine capture a ha (hB a ha oa hk hatt) ?_
        intro Y hY oY sY attY
        exact slider_unique cx hnc hs hY ha oY oa sY sa attY atta
      · exact absurd hatt (hR a ha oa hk)
    · refine capture y hy hcy ?_
      intro Y hY oY sY attY
      exact absurd ⟨Y, hY, oY, sY, attY⟩ hP

/-! ### the converse for the pawns the king sees -/

/-- the middle square of a file segment is between whatever its ends are between. -/
theorem mid_between {c : Color} {s m t A T : Nat} (hA : A < 64) (hT : T < 64)
    (h1 : PL.ahead c s 8 m) (h2 : PL.ahead c m 8 t)
    (hs : (SB A T).getLsbD s = true) (ht : (SB A T).getLsbD t = true) : (SB A T).getLsbD m = true := by
  obtain ⟨i, a1, a2, a3, a4, hs64, _, _, n3⟩ := sb_on hA hT hs
  obtain ⟨j, b1, b2, b3, b4, ht64, _, _, _⟩ := sb_on hA hT ht
  have := a1.unique b1 n3
  subst this
  have hst : On .file s t := by
    cases c <;> simp only [PL.ahead] at h1 h2 <;> simp only [On, Line.inv, fileOf] <;> omega
  have hne : s ≠ t := by cases c <;> simp only [PL.ahead] at h1 h2 <;> omega
  have := (a2.symm.trans b2).unique hst hne
  subst this
  rw [sb_line A T m hA hT]
  simp only [On, Line.inv, Line.key, fileOf, rankOf, btw] at *
  cases c <;> simp only [PL.ahead] at h1 h2
  · exact ⟨by omega, .file, by dsimp only [On, Line.inv, Line.key]; omega⟩
  · exact ⟨by omega, .file, by dsimp only [On, Line.inv, Line.key]; omega⟩

/-- **a safe single push below a legal double push.** -/
theorem push2_mid_safe (cx : Ctx b K) (hnc : ¬ Chk b b.occ 0 K) {s t : Nat} (hs : s < 64) (ht : t < 64)
    (h2 : PL.PLpush2 b s t)
    (hsafe : ¬ SChk b ((b.occ &&& ~~~ bit s) ||| bit t) (bit t) K) :
    ¬ SChk b ((b.occ &&& ~~~ bit s) ||| bit ((s + t) / 2)) 0 K := by
  have hm := mid_lt hs ht
  obtain ⟨hp1, hmt⟩ := push2_mid h2
  rintro ⟨a, ha, oa, _, sa, atta⟩
  have hat : a ≠ t := by
    intro e; subst e
    have := h2.2.2.1
    rw [occ_of_opp a oa] at this; exact Bool.noConfusion this
  have hnot : ¬ Att ((b.occ &&& ~~~ bit s) ||| bit t) b.stm.flip (b.pieceAt a) a K := by
    intro h
    apply hsafe
    refine ⟨a, ha, oa, ?_, sa, h⟩
    rw [bit_getLsbD t a ht, decide_eq_false_iff_not]
    exact fun e => hat e.symm
  obtain ⟨_, u, hu, hu1, hu2⟩ := Att_lost atta hnot
  have hut : u = t := by
    apply Classical.byContradiction
    intro hne
    rw [moved_get ht _ hne] at hu2
    rw [getLsbD_or_bit _ _ _ hm, Bool.or_eq_false_iff, hu2] at hu1
    exact Bool.noConfusion hu1.1
  subst hut
  have hsb := (reveal hnc ha oa (moved_sup hs hm b.occ) atta).1
  have hmb := mid_between ha cx.hK hp1.1 hmt hsb hu
  have := (Att_slider_geo sa atta).2 _ hmb
  rw [moved_self hm] at this
  exact Bool.noConfusion this

/-- **the converse for the pawns the king sees**: a legal move that is not en passant of such a pawn
    makes the loop body answer `true`. -/
theorem stPawns_of_move (cx : Ctx b K) (hnc : ¬ Chk b b.occ 0 K) {s t pr : Nat} (hs : s < 64) (ht : t < 64)
    (hp : b.pieceAt s = .pawn) (hown : (b.colorBB b.stm).getLsbD s = true)
    (hmp : (maybePinnedBB b K).getLsbD s = true)
    (hcl : PL.PLpush1 b s t ∨ PL.PLpush2 b s t ∨ PL.PLcapture b s t)
    (hPL : PL.PL b s t pr)
    (hi : Rules.inCheck (Rules.applyCore (abs b) ⟨s, t, decPromo pr⟩) b.stm = false) :
    stPawns b K = true := by
  rw [stPawns_iff cx]
  refine ⟨s, hs, hp, hown, hmp, ?_⟩
  rcases hcl with h | h | h
  · left
    rw [pawn_safe_iff cx hnc hs ht hPL hp (push1_not_ep h), SChk_excl_empty ht h.2] at hi
    exact (exit1_iff cx hs).2 ⟨t, ht, h, hi⟩
  · left
    rw [pawn_safe_iff cx hnc hs ht hPL hp (push2_not_ep h)] at hi
    exact (exit1_iff cx hs).2 ⟨(s + t) / 2, mid_lt hs ht, (push2_mid h).1, push2_mid_safe cx hnc hs ht h hi⟩
  · right
    rw [pawn_safe_iff cx hnc hs ht hPL hp (capture_not_ep cx h)] at hi
    have hts : t ≠ s := capGeom_ne h.1
    -- an enemy slider other than the captured man does not attack `K` with `s` lifted
    have other : ∀ a, a < 64 → (b.colorBB b.stm.flip).getLsbD a = true → isSlider (b.pieceAt a) = true →
        Att (b.occ &&& ~~~ bit s) b.stm.flip (b.pieceAt a) a K → a = t := by
      intro a ha oa sa atta
      apply Classical.byContradiction
      intro hne
      apply hi
      refine ⟨a, ha, oa, ?_, sa, (Att_congr (fun u _ => cap_occ_get hs ht h.2 hts u)).2 atta⟩
      rw [bit_getLsbD t a ht, decide_eq_false_iff_not]
      exact fun e => hne e.symm
    refine (exit2_iff cx hs hown).2 ⟨⟨t, ht, h⟩, ?_, ?_⟩
    · intro a ha oa hk hatt
      have := (slider_att_iff _ b.stm.flip (b.pieceAt a) a K).2 (Or.inl ⟨hk, hatt⟩)
      rw [other a ha oa this.1 this.2]
      exact h
    · intro a ha oa hk hatt
      have hsl := (slider_att_iff _ b.stm.flip (b.pieceAt a) a K).2 (Or.inr ⟨hk, hatt⟩)
      have hat := other a ha oa hsl.1 hsl.2
      subst hat
      have ho : ∀ u, u ≠ s → (b.occ &&& ~~~ bit s).getLsbD u = false → b.occ.getLsbD u = false := by
        intro u hne hu; rwa [lift_get hs _ hne] at hu
      have hsb := (reveal hnc ha oa ho hsl.2).1
      have hr := (sb_pair_geo ha cx.hK hsb (Or.inr (Or.inr rfl)) (Ne.symm hts)).1 hatt.1
      exact rook_bish_excl hr (capGeom_geo b.stm h.1).1

end ChessVerif.Mate.StalePawns
