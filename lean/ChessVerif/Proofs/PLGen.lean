/-
  C05 — what each of the nine generator routines emits: for every routine a lemma
  `m ∈ routine ↔ m < 32768 ∧ (condition on src m, dst m, promo m)`, the condition being the
  corresponding clause of `PL` (PLDefs.lean) restricted to that routine's slice.
-/
import ChessVerif.Proofs.PLDefs
namespace ChessVerif.PL
open ChessVerif MoveGen

theorem not_get (x : BB) (s : Nat) (hs : s < 64) : (~~~x).getLsbD s = !x.getLsbD s := by
  simp [hs]

theorem mem_pieceMoves (pcs : BB) (att : Nat → BB) (self toMsk : BB) (m : Nat) :
    m ∈ pieceMoves pcs att self toMsk ↔ m < 32768 ∧
      (Move.promo m = 0 ∧ pcs.getLsbD (Move.src m) = true ∧
       (att (Move.src m)).getLsbD (Move.dst m) = true ∧
       self.getLsbD (Move.dst m) = false ∧ toMsk.getLsbD (Move.dst m) = true) := by
  refine Iff.trans ?_ (mk_iff (fun f t p => p = 0 ∧ pcs.getLsbD f = true ∧ (att f).getLsbD t = true ∧
    self.getLsbD t = false ∧ toMsk.getLsbD t = true) m)
  unfold pieceMoves
  simp only [List.mem_flatMap, List.mem_map, mem_bits]
  constructor
  · rintro ⟨f, ⟨hf, hp⟩, t, ⟨ht, h⟩, rfl⟩
    simp only [BitVec.getLsbD_and, not_get _ t ht, Bool.and_eq_true, Bool.not_eq_true'] at h
    exact ⟨f, t, 0, hf, ht, by omega, rfl, rfl, hp, h.1.1, h.1.2, h.2⟩
  · rintro ⟨f, t, p, hf, ht, _, rfl, rfl, h1, h2, h3, h4⟩
    refine ⟨f, ⟨hf, h1⟩, t, ⟨ht, ?_⟩, rfl⟩
    simp only [BitVec.getLsbD_and, not_get _ t ht, Bool.and_eq_true, Bool.not_eq_true']
    exact ⟨⟨h2, h3⟩, h4⟩

theorem ahead_fwd1 (c : Color) (f : Nat) (hf : f < 64) (h7 : relRank c f ≠ 7) :
    ahead c f 8 (Board.fwd c f 1) ∧ Board.fwd c f 1 < 64 := by
  cases c <;> simp only [ahead, Board.fwd, relRank] at * <;> refine ⟨?_, ?_⟩ <;> first | trivial | omega

theorem ahead_fwd2 (c : Color) (f : Nat) (hf : f < 64) (h : relRank c f = 1) :
    ahead c f 16 (Board.fwd c f 2) ∧ Board.fwd c f 2 < 64 ∧ ahead c f 8 ((f + Board.fwd c f 2) / 2) := by
  cases c <;> simp only [ahead, Board.fwd, relRank] at * <;> refine ⟨?_, ?_, ?_⟩ <;> first | trivial | omega

theorem ahead_eq_fwd1 (c : Color) (f t : Nat) (h : ahead c f 8 t) : t = Board.fwd c f 1 := by
  cases c <;> simp only [ahead, Board.fwd] at * <;> omega

theorem ahead_eq_fwd2 (c : Color) (f t : Nat) (h : ahead c f 16 t) : t = Board.fwd c f 2 := by
  cases c <;> simp only [ahead, Board.fwd] at * <;> omega

theorem ahead_unique (c : Color) (f k t t' : Nat) (h : ahead c f k t) (h' : ahead c f k t') : t = t' := by
  cases c <;> simp only [ahead] at * <;> omega

theorem mem_singlePush {b : Board} (hd : PLDomain b) (m : Nat) :
    m ∈ singlePushMoves (G.of b) b ↔ m < 32768 ∧
      (Move.promo m = 0 ∧ (b.colorBB b.stm).getLsbD (Move.src m) = true ∧
       (b.pieceBB .pawn).getLsbD (Move.src m) = true ∧ relRank b.stm (Move.src m) ≠ 6 ∧
       PLpush1 b (Move.src m) (Move.dst m)) := by
  refine Iff.trans ?_ (mk_iff (fun f t p => p = 0 ∧ (b.colorBB b.stm).getLsbD f = true ∧
       (b.pieceBB .pawn).getLsbD f = true ∧ relRank b.stm f ≠ 6 ∧ PLpush1 b f t) m)
  unfold singlePushMoves
  simp only [G.of, List.mem_map, mem_bits]
  constructor
  · rintro ⟨f, ⟨hf, h⟩, rfl⟩
    simp only [BitVec.getLsbD_and, not_get _ f hf, Bool.and_eq_true, Bool.not_eq_true',
      relRankBB_get _ 6 f (by omega) hf, decide_eq_false_iff_not] at h
    obtain ⟨⟨⟨hS, hP⟩, hocc⟩, hr⟩ := h
    have h7 := hd.noLastRankPawn f hf hS hP
    have hle := relRank_le b.stm f hf
    obtain ⟨ha, hlt⟩ := ahead_fwd1 b.stm f hf h7
    refine ⟨f, _, 0, hf, hlt, by omega, rfl, rfl, hS, hP, hr, ha, ?_⟩
    cases hO : b.occ.getLsbD (Board.fwd b.stm f 1)
    · rfl
    · have := (occ1_get b.stm b.occ f hf (by omega)).2 ⟨_, ha, hO⟩
      rw [this] at hocc; exact absurd hocc (by simp)
  · rintro ⟨f, t, p, hf, ht, _, rfl, rfl, hS, hP, hr, ha, hO⟩
    have h7 := hd.noLastRankPawn f hf hS hP
    have hle := relRank_le b.stm f hf
    refine ⟨f, ⟨hf, ?_⟩, by rw [ahead_eq_fwd1 _ _ _ ha]⟩
    simp only [BitVec.getLsbD_and, not_get _ f hf, Bool.and_eq_true, Bool.not_eq_true',
      relRankBB_get _ 6 f (by omega) hf, decide_eq_false_iff_not]
    refine ⟨⟨⟨hS, hP⟩, ?_⟩, hr⟩
    cases hocc : ((b.occ >>> 8) <<< (b.stm.toNat * 16)).getLsbD f
    · rfl
    · obtain ⟨t', ha', hO'⟩ := (occ1_get b.stm b.occ f hf (by omega)).1 hocc
      rw [ahead_unique _ _ _ _ _ ha' ha, hO] at hO'; exact absurd hO' (by simp)

theorem mem_promos (p : Nat) : p ∈ promos ↔ 2 ≤ p ∧ p ≤ 5 := by
  simp only [promos, List.mem_cons, List.not_mem_nil, or_false]; omega

theorem mem_promoPush {b : Board} (m : Nat) :
    m ∈ promoPushMoves (G.of b) b ↔ m < 32768 ∧
      ((2 ≤ Move.promo m ∧ Move.promo m ≤ 5) ∧ (b.colorBB b.stm).getLsbD (Move.src m) = true ∧
       (b.pieceBB .pawn).getLsbD (Move.src m) = true ∧ relRank b.stm (Move.src m) = 6 ∧
       PLpush1 b (Move.src m) (Move.dst m)) := by
  refine Iff.trans ?_ (mk_iff (fun f t p => (2 ≤ p ∧ p ≤ 5) ∧ (b.colorBB b.stm).getLsbD f = true ∧
       (b.pieceBB .pawn).getLsbD f = true ∧ relRank b.stm f = 6 ∧ PLpush1 b f t) m)
  unfold promoPushMoves
  simp only [G.of, List.mem_flatMap, List.mem_map, mem_bits, mem_promos]
  constructor
  · rintro ⟨f, ⟨hf, h⟩, p, hp, rfl⟩
    simp only [BitVec.getLsbD_and, not_get _ f hf, Bool.and_eq_true, Bool.not_eq_true',
      relRankBB_get _ 6 f (by omega) hf, decide_eq_true_eq] at h
    obtain ⟨⟨⟨hS, hP⟩, hocc⟩, hr⟩ := h
    obtain ⟨ha, hlt⟩ := ahead_fwd1 b.stm f hf (by omega)
    refine ⟨f, _, p, hf, hlt, by omega, rfl, hp, hS, hP, hr, ha, ?_⟩
    cases hO : b.occ.getLsbD (Board.fwd b.stm f 1)
    · rfl
    · have := (occ1p_get b.stm b.occ f hf (by omega)).2 ⟨_, ha, hO⟩
      rw [this] at hocc; exact absurd hocc (by simp)
  · rintro ⟨f, t, p, hf, ht, _, rfl, hp, hS, hP, hr, ha, hO⟩
    refine ⟨f, ⟨hf, ?_⟩, p, hp, by rw [ahead_eq_fwd1 _ _ _ ha]⟩
    simp only [BitVec.getLsbD_and, not_get _ f hf, Bool.and_eq_true, Bool.not_eq_true',
      relRankBB_get _ 6 f (by omega) hf, decide_eq_true_eq]
    refine ⟨⟨⟨hS, hP⟩, ?_⟩, hr⟩
    cases hocc : (((b.occ >>> 8) <<< (b.stm.toNat * 16)) ||| ((b.occ <<< 8) >>> (b.stm.flip.toNat * 16))).getLsbD f
    · rfl
    · obtain ⟨t', ha', hO'⟩ := (occ1p_get b.stm b.occ f hf (by omega)).1 hocc
      rw [ahead_unique _ _ _ _ _ ha' ha, hO] at hO'; exact absurd hO' (by simp)

theorem mem_doublePush {b : Board} (m : Nat) :
    m ∈ doublePushMoves (G.of b) b ↔ m < 32768 ∧
      (Move.promo m = 0 ∧ (b.colorBB b.stm).getLsbD (Move.src m) = true ∧
       (b.pieceBB .pawn).getLsbD (Move.src m) = true ∧ PLpush2 b (Move.src m) (Move.dst m)) := by
  refine Iff.trans ?_ (mk_iff (fun f t p => p = 0 ∧ (b.colorBB b.stm).getLsbD f = true ∧
       (b.pieceBB .pawn).getLsbD f = true ∧ PLpush2 b f t) m)
  unfold doublePushMoves
  simp only [G.of, List.mem_map, mem_bits]
  constructor
  · rintro ⟨f, ⟨hf, h⟩, rfl⟩
    simp only [BitVec.getLsbD_and, not_get _ f hf, Bool.and_eq_true, Bool.not_eq_true',
      relRankBB_get _ 1 f (by omega) hf, decide_eq_true_eq] at h
    obtain ⟨⟨⟨⟨hS, hP⟩, hocc1⟩, hocc2⟩, hr⟩ := h
    obtain ⟨ha, hlt, hmid⟩ := ahead_fwd2 b.stm f hf hr
    refine ⟨f, _, 0, hf, hlt, by omega, rfl, rfl, hS, hP, ha, hr, ?_, ?_⟩
    · cases hO : b.occ.getLsbD (Board.fwd b.stm f 2)
      · rfl
      · have := (occ2_get b.stm b.occ f hf hr).2 ⟨_, ha, hO⟩
        rw [this] at hocc2; exact absurd hocc2 (by simp)
    · cases hO : b.occ.getLsbD ((f + Board.fwd b.stm f 2) / 2)
      · rfl
      · have := (occ1_get b.stm b.occ f hf (by omega)).2 ⟨_, hmid, hO⟩
        rw [this] at hocc1; exact absurd hocc1 (by simp)
  · rintro ⟨f, t, p, hf, ht, _, rfl, rfl, hS, hP, ha, hr, hO, hM⟩
    refine ⟨f, ⟨hf, ?_⟩, by rw [ahead_eq_fwd2 _ _ _ ha]⟩
    have e := ahead_eq_fwd2 _ _ _ ha
    obtain ⟨_, _, hmid⟩ := ahead_fwd2 b.stm f hf hr
    rw [← e] at hmid
    simp only [BitVec.getLsbD_and, not_get _ f hf, Bool.and_eq_true, Bool.not_eq_true',
      relRankBB_get _ 1 f (by omega) hf, decide_eq_true_eq]
    refine ⟨⟨⟨⟨hS, hP⟩, ?_⟩, ?_⟩, hr⟩
    · cases hocc : ((b.occ >>> 8) <<< (b.stm.toNat * 16)).getLsbD f
      · rfl
      · obtain ⟨t', ha', hO'⟩ := (occ1_get b.stm b.occ f hf (by omega)).1 hocc
        rw [ahead_unique _ _ _ _ _ ha' hmid, hM] at hO'; exact absurd hO' (by simp)
    · cases hocc : ((b.occ >>> 16) <<< (b.stm.toNat * 32)).getLsbD f
      · rfl
      · obtain ⟨t', ha', hO'⟩ := (occ2_get b.stm b.occ f hf hr).1 hocc
        rw [ahead_unique _ _ _ _ _ ha' ha, hO] at hO'; exact absurd hO' (by simp)

theorem mem_pawnCapture {b : Board} (m : Nat) :
    m ∈ pawnCaptureMoves (G.of b) b ↔ m < 32768 ∧
      (Move.promo m = 0 ∧ (b.colorBB b.stm).getLsbD (Move.src m) = true ∧
       (b.pieceBB .pawn).getLsbD (Move.src m) = true ∧ relRank b.stm (Move.src m) ≠ 6 ∧
       PLcapture b (Move.src m) (Move.dst m)) := by
  refine Iff.trans ?_ (mk_iff (fun f t p => p = 0 ∧ (b.colorBB b.stm).getLsbD f = true ∧
       (b.pieceBB .pawn).getLsbD f = true ∧ relRank b.stm f ≠ 6 ∧ PLcapture b f t) m)
  unfold pawnCaptureMoves
  simp only [List.mem_flatMap, List.mem_map, mem_bits]
  constructor
  · rintro ⟨f, ⟨hf, h⟩, t, ⟨ht, h2⟩, rfl⟩
    simp only [G.of, BitVec.getLsbD_and, not_get _ f hf, Bool.and_eq_true, Bool.not_eq_true',
      relRankBB_get _ 6 f (by omega) hf, decide_eq_false_iff_not] at h h2
    obtain ⟨⟨⟨hS, hP⟩, hr⟩, _⟩ := h
    exact ⟨f, t, 0, hf, ht, by omega, rfl, rfl, hS, hP, hr, ((pawnCap_get _ f t hf).1 h2.1).2, h2.2⟩
  · rintro ⟨f, t, p, hf, ht, _, rfl, rfl, hS, hP, hr, hg, hT⟩
    refine ⟨f, ⟨hf, ?_⟩, t, ⟨ht, ?_⟩, rfl⟩
    · simp only [BitVec.getLsbD_and, not_get _ f hf, Bool.and_eq_true, Bool.not_eq_true',
        relRankBB_get _ 6 f (by omega) hf, decide_eq_false_iff_not]
      exact ⟨⟨⟨hS, hP⟩, hr⟩, (captureFilter_get _ b f hf).2 ⟨t, ht, hg, hT⟩⟩
    · simp only [G.of, BitVec.getLsbD_and, Bool.and_eq_true]
      exact ⟨(pawnCap_get _ f t hf).2 ⟨ht, hg⟩, hT⟩

theorem mem_pawnCapturePromo {b : Board} (m : Nat) :
    m ∈ pawnCapturePromoMoves (G.of b) b ↔ m < 32768 ∧
      ((2 ≤ Move.promo m ∧ Move.promo m ≤ 5) ∧ (b.colorBB b.stm).getLsbD (Move.src m) = true ∧
       (b.pieceBB .pawn).getLsbD (Move.src m) = true ∧ relRank b.stm (Move.src m) = 6 ∧
       PLcapture b (Move.src m) (Move.dst m)) := by
  refine Iff.trans ?_ (mk_iff (fun f t p => (2 ≤ p ∧ p ≤ 5) ∧ (b.colorBB b.stm).getLsbD f = true ∧
       (b.pieceBB .pawn).getLsbD f = true ∧ relRank b.stm f = 6 ∧ PLcapture b f t) m)
  unfold pawnCapturePromoMoves
  simp only [List.mem_flatMap, List.mem_map, mem_bits, mem_promos]
  constructor
  · rintro ⟨f, ⟨hf, h⟩, t, ⟨ht, h2⟩, p, hp, rfl⟩
    simp only [G.of, BitVec.getLsbD_and, Bool.and_eq_true,
      relRankBB_get _ 6 f (by omega) hf, decide_eq_true_eq] at h h2
    obtain ⟨⟨⟨hS, hP⟩, hr⟩, _⟩ := h
    exact ⟨f, t, p, hf, ht, by omega, rfl, hp, hS, hP, hr, ((pawnCap_get _ f t hf).1 h2.1).2, h2.2⟩
  · rintro ⟨f, t, p, hf, ht, _, rfl, hp, hS, hP, hr, hg, hT⟩
    refine ⟨f, ⟨hf, ?_⟩, t, ⟨ht, ?_⟩, p, hp, rfl⟩
    · simp only [BitVec.getLsbD_and, Bool.and_eq_true,
        relRankBB_get _ 6 f (by omega) hf, decide_eq_true_eq]
      exact ⟨⟨⟨hS, hP⟩, hr⟩, (captureFilter_get _ b f hf).2 ⟨t, ht, hg, hT⟩⟩
    · simp only [G.of, BitVec.getLsbD_and, Bool.and_eq_true]
      exact ⟨(pawnCap_get _ f t hf).2 ⟨ht, hg⟩, hT⟩

theorem mem_enPassant {b : Board} (hd : PLDomain b) (m : Nat) :
    m ∈ enPassant (G.of b) b ↔ m < 32768 ∧
      (Move.promo m = 0 ∧ (b.colorBB b.stm).getLsbD (Move.src m) = true ∧
       (b.pieceBB .pawn).getLsbD (Move.src m) = true ∧ PLep b (Move.src m) (Move.dst m)) := by
  refine Iff.trans ?_ (mk_iff (fun f t p => p = 0 ∧ (b.colorBB b.stm).getLsbD f = true ∧
       (b.pieceBB .pawn).getLsbD f = true ∧ PLep b f t) m)
  unfold enPassant
  by_cases hep : b.ep = 0
  · simp only [hep, if_true, List.not_mem_nil, false_iff, PLep]
    rintro ⟨f, t, p, _, _, _, _, _, _, _, _, h, _⟩; exact h rfl
  · obtain ⟨he64, _, _⟩ := hd.ep hep
    simp only [hep, if_false, List.mem_map, mem_bits]
    constructor
    · rintro ⟨f, ⟨hf, h⟩, rfl⟩
      simp only [G.of, BitVec.getLsbD_and, Bool.and_eq_true] at h
      obtain ⟨⟨hc, hS⟩, hP⟩ := h
      have := ((pawnCap_get _ b.ep f he64).1 hc).2
      exact ⟨f, b.ep, 0, hf, he64, by omega, rfl, rfl, hS, hP, (capGeom_flip _ _ _).1 this, hep, rfl⟩
    · rintro ⟨f, t, p, hf, ht, _, rfl, rfl, hS, hP, hg, _, rfl⟩
      refine ⟨f, ⟨hf, ?_⟩, rfl⟩
      simp only [G.of, BitVec.getLsbD_and, Bool.and_eq_true]
      exact ⟨⟨(pawnCap_get _ b.ep f he64).2 ⟨hf, (capGeom_flip _ _ _).2 hg⟩, hS⟩, hP⟩

theorem bits_bit' (k : Nat) (hk : k < 64) : bits (bit k) = [k] := bits_bit ⟨k, hk⟩

theorem mem_kingMoves {b : Board} (g : G) {k : Nat} (hk : k < 64)
    (hK : g.self &&& b.pieceBB .king = bit k) (toMsk : BB) (m : Nat) :
    m ∈ kingMoves g b toMsk ↔ m < 32768 ∧
      (Move.promo m = 0 ∧ Move.src m = k ∧
       (Attacks.kingMoves (Move.src m)).getLsbD (Move.dst m) = true ∧
       g.self.getLsbD (Move.dst m) = false ∧ toMsk.getLsbD (Move.dst m) = true) := by
  refine Iff.trans ?_ (mk_iff (fun f t p => p = 0 ∧ f = k ∧ (Attacks.kingMoves f).getLsbD t = true ∧
    g.self.getLsbD t = false ∧ toMsk.getLsbD t = true) m)
  unfold kingMoves
  rw [hK, bits_bit' k hk]
  simp only [List.mem_map, mem_bits]
  constructor
  · rintro ⟨t, ⟨ht, h⟩, rfl⟩
    simp only [BitVec.getLsbD_and, not_get _ t ht, Bool.and_eq_true, Bool.not_eq_true'] at h
    exact ⟨k, t, 0, hk, ht, by omega, rfl, rfl, rfl, h.1.1, h.1.2, h.2⟩
  · rintro ⟨f, t, p, hf, ht, _, rfl, rfl, rfl, h2, h3, h4⟩
    refine ⟨t, ⟨ht, ?_⟩, rfl⟩
    simp only [BitVec.getLsbD_and, not_get _ t ht, Bool.and_eq_true, Bool.not_eq_true']
    exact ⟨⟨h2, h3⟩, h4⟩

/-! ### castling masks -/

theorem mask3_get (a c d i : Nat) (ha : a < 64) (hc : c < 64) (hd : d < 64) :
    (bit a ||| bit c ||| bit d).getLsbD i = (decide (a = i) || decide (c = i) || decide (d = i)) := by
  simp only [BitVec.getLsbD_or, bit_getLsbD _ _ ha, bit_getLsbD _ _ hc, bit_getLsbD _ _ hd]

theorem and_mask3_eq_bit (x : BB) (a c d : Nat) (ha : a < 64) (hc : c < 64) (hd : d < 64)
    (hac : a ≠ c) (had : a ≠ d) :
    x &&& (bit a ||| bit c ||| bit d) = bit a ↔
      x.getLsbD a = true ∧ x.getLsbD c = false ∧ x.getLsbD d = false := by
  constructor
  · intro h
    have h1 := congrArg (fun y => y.getLsbD a) h
    have h2 := congrArg (fun y => y.getLsbD c) h
    have h3 := congrArg (fun y => y.getLsbD d) h
    simp only [BitVec.getLsbD_and, mask3_get a c d _ ha hc hd, bit_getLsbD _ _ ha] at h1 h2 h3
    simp [hac, had] at h1 h2 h3
    exact ⟨h1, h2, h3⟩
  · rintro ⟨h1, h2, h3⟩
    apply BitVec.eq_of_getLsbD_eq
    intro i _
    simp only [BitVec.getLsbD_and, mask3_get a c d _ ha hc hd, bit_getLsbD _ _ ha]
    by_cases e1 : a = i
    · subst e1; simp [h1]
    · by_cases e2 : c = i
      · subst e2; simp [h2, e1]
      · by_cases e3 : d = i
        · subst e3; simp [h3, e1]
        · simp [e1, e2, e3]

theorem and_mask3_eq_zero (x : BB) (a c d : Nat) (ha : a < 64) (hc : c < 64) (hd : d < 64) :
    x &&& (bit a ||| bit c ||| bit d) = 0 ↔
      x.getLsbD a = false ∧ x.getLsbD c = false ∧ x.getLsbD d = false := by
  constructor
  · intro h
    have h1 := congrArg (fun y => y.getLsbD a) h
    have h2 := congrArg (fun y => y.getLsbD c) h
    have h3 := congrArg (fun y => y.getLsbD d) h
    simp only [BitVec.getLsbD_and, mask3_get a c d _ ha hc hd] at h1 h2 h3
    simp at h1 h2 h3
    exact ⟨h1, h2, h3⟩
  · rintro ⟨h1, h2, h3⟩
    apply BitVec.eq_of_getLsbD_eq
    intro i _
    simp only [BitVec.getLsbD_and, mask3_get a c d _ ha hc hd]
    by_cases e1 : a = i
    · subst e1; simp [h1]
    · by_cases e2 : c = i
      · subst e2; simp [h2]
      · by_cases e3 : d = i
        · subst e3; simp [h3]
        · simp [e1, e2, e3]

theorem shortMask_eq (c : Color) : shortMask c = bit (home c) ||| bit (home c + 1) ||| bit (home c + 2) := by
  cases c <;> rfl
theorem longMask_eq (c : Color) : longMask c = bit (home c) ||| bit (home c - 1) ||| bit (home c - 2) := by
  cases c <;> rfl
theorem longMask_shift (c : Color) :
    longMask c >>> 1 = bit (home c - 1) ||| bit (home c - 2) ||| bit (home c - 3) := by
  cases c <;> decide
theorem home_bounds (c : Color) : 3 ≤ home c ∧ home c + 2 < 64 := by
  cases c <;> simp [home]

/-- the king of the side to move stands on `k` (the only one). -/
theorem king_sq {b : Board} {k : Nat} (hk : k < 64) (hK : b.colorBB b.stm &&& b.pieceBB .king = bit k)
    (s : Nat) : ((b.colorBB b.stm).getLsbD s = true ∧ (b.pieceBB .king).getLsbD s = true) ↔ s = k := by
  have := congrArg (fun y => y.getLsbD s) hK
  simp only [BitVec.getLsbD_and, bit_getLsbD _ _ hk] at this
  rw [← Bool.and_eq_true, this]; simp [eq_comm]

theorem shortCastle_def (g : G) (b : Board) : shortCastle g b =
    if b.castles &&& Board.castleBit b.stm 0 != 0 && g.occ &&& shortMask b.stm == g.self &&& b.pieceBB .king then
      if !(b.isAttacked b.stm.flip g.occ (shortMask b.stm)) then
        [Move.mk (lowestSet (g.self &&& b.pieceBB .king)) (lowestSet (g.self &&& b.pieceBB .king) + 2) 0]
      else []
    else [] := by
  unfold shortCastle shortMask
  cases b.stm <;> rfl

theorem mem_shortCastle {b : Board} (hd : PLDomain b) (m : Nat) :
    m ∈ shortCastle (G.of b) b ↔ m < 32768 ∧ PLshort b (Move.src m) (Move.dst m) (Move.promo m) := by
  refine Iff.trans ?_ (mk_iff (fun f t p => PLshort b f t p) m)
  obtain ⟨k, hk, hK⟩ := hd.oneKing
  obtain ⟨hh3, hh64⟩ := home_bounds b.stm
  rw [shortCastle_def]
  simp only [G.of, hK]
  by_cases hr : b.castles &&& Board.castleBit b.stm 0 = 0
  · simp only [hr, bne_self_eq_false, Bool.false_and, Bool.false_eq_true, if_false, List.not_mem_nil, false_iff, PLshort]
    rintro ⟨f, t, p, _, _, _, _, _, _, _, _, h, _⟩; exact h rfl
  · have hhome := hd.castleShortHome hr
    rw [hK, bit_getLsbD _ _ hk] at hhome
    have hk' : k = home b.stm := by simpa using hhome
    subst hk'
    have hkk := (king_sq hk hK (home b.stm)).2 rfl
    have hocc : b.occ.getLsbD (home b.stm) = true := by rw [occ_get, hkk.1]; rfl
    have hcond : (b.occ &&& shortMask b.stm == bit (home b.stm)) =
        (!b.occ.getLsbD (home b.stm + 1) && !b.occ.getLsbD (home b.stm + 2)) := by
      rw [shortMask_eq, Bool.eq_iff_iff, beq_iff_eq,
        and_mask3_eq_bit _ _ _ _ hk (by omega) (by omega) (by omega) (by omega)]
      simp [hocc]
    have hbne : (b.castles &&& Board.castleBit b.stm 0 != 0) = true := by simpa [bne_iff_ne] using hr
    rw [hcond, hbne, lowestSet_bit _ hk]
    simp only [Bool.true_and, PLshort]
    constructor
    · intro h
      split at h
      · rename_i h1
        split at h
        · rename_i h2
          simp only [List.mem_singleton] at h
          simp only [Bool.and_eq_true, Bool.not_eq_true'] at h1 h2
          exact ⟨_, _, 0, hk, hh64, by omega, h.symm, rfl, rfl, rfl, hkk.2, hr, h1.1, h1.2, h2⟩
        · simp at h
      · simp at h
    · rintro ⟨f, t, p, _, _, _, rfl, rfl, rfl, rfl, _, _, h1, h2, h3⟩
      simp [h1, h2, h3]

theorem longCastle_def (g : G) (b : Board) : longCastle g b =
    if b.castles &&& Board.castleBit b.stm 1 != 0 && g.occ &&& (longMask b.stm >>> 1) == 0 then
      if !(b.isAttacked b.stm.flip g.occ (longMask b.stm)) then
        [Move.mk (lowestSet (g.self &&& b.pieceBB .king)) (lowestSet (g.self &&& b.pieceBB .king) - 2) 0]
      else []
    else [] := by
  unfold longCastle longMask
  cases b.stm <;> rfl

theorem mem_longCastle {b : Board} (hd : PLDomain b) (m : Nat) :
    m ∈ longCastle (G.of b) b ↔ m < 32768 ∧ PLlong b (Move.src m) (Move.dst m) (Move.promo m) := by
  refine Iff.trans ?_ (mk_iff (fun f t p => PLlong b f t p) m)
  obtain ⟨k, hk, hK⟩ := hd.oneKing
  obtain ⟨hh3, hh64⟩ := home_bounds b.stm
  rw [longCastle_def]
  simp only [G.of, hK]
  by_cases hr : b.castles &&& Board.castleBit b.stm 1 = 0
  · simp only [hr, bne_self_eq_false, Bool.false_and, Bool.false_eq_true, if_false, List.not_mem_nil, false_iff, PLlong]
    rintro ⟨f, t, p, _, _, _, _, _, _, _, _, h, _⟩; exact h rfl
  · have hhome := hd.castleLongHome hr
    rw [hK, bit_getLsbD _ _ hk] at hhome
    have hk' : k = home b.stm := by simpa using hhome
    subst hk'
    have hkk := (king_sq hk hK (home b.stm)).2 rfl
    have hcond : (b.occ &&& (longMask b.stm >>> 1) == 0) =
        (!b.occ.getLsbD (home b.stm - 1) && !b.occ.getLsbD (home b.stm - 2) && !b.occ.getLsbD (home b.stm - 3)) := by
      rw [longMask_shift, Bool.eq_iff_iff, beq_iff_eq,
        and_mask3_eq_zero _ _ _ _ (by omega) (by omega) (by omega)]
      simp [and_assoc]
    have hbne : (b.castles &&& Board.castleBit b.stm 1 != 0) = true := by simpa [bne_iff_ne] using hr
    rw [hcond, hbne, lowestSet_bit _ hk]
    simp only [Bool.true_and, PLlong]
    constructor
    · intro h
      split at h
      · rename_i h1
        split at h
        · rename_i h2
          simp only [List.mem_singleton] at h
          simp only [Bool.and_eq_true, Bool.not_eq_true'] at h1 h2
          exact ⟨_, _, 0, hk, by omega, by omega, h.symm, rfl, rfl, rfl, hkk.2, hr, h1.1.1, h1.1.2, h1.2, h2⟩
        · simp at h
      · simp at h
    · rintro ⟨f, t, p, _, _, _, rfl, rfl, rfl, rfl, _, _, h1, h2, h3, h4⟩
      simp [h1, h2, h3, h4]

end ChessVerif.PL
