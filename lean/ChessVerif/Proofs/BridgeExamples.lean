/-
  Non-vacuity / sanity checks of the bridge lemmas on the two concrete positions of Props/C05.lean
  (the start position, and `rich`: White Ke1 Rh1 Pa7 Pe5, Black Ke8 Nb8 Pd5, White to move, right K,
  en-passant target d6).
-/
import ChessVerif.Proofs.BridgePL
import ChessVerif.Props.C05

namespace ChessVerif.Bridge.Examples
open ChessVerif ChessVerif.Bridge ChessVerif.Props.C05

/-- the hypotheses of the bridge lemmas hold of concrete boards. -/
example : WFP start := WFP_of_valid (by decide +kernel)
example : WFP rich := WFP_of_valid (by decide +kernel)
example : CastleRooks rich := castleRooks_of_valid (by decide +kernel)
example : EmptyIs (Board.abs rich) rich.occ := emptyIs_abs rich

/-- layer 3 on a concrete board: neither king is in check, on both sides of `inCheck_iff`. -/
example : Rules.inCheck (Board.abs rich) .white = false := by decide +kernel
example : rich.inCheck .white = false := by
  rw [inCheck_iff (WFP_of_valid (by decide +kernel))]; decide +kernel

/-- layer 4: e2e4 obeys the rule book, hence (by `gen_iff_pseudoLegal`) is generated. -/
example : Move.mk 12 28 0 ∈ MoveGen.gen start :=
  (gen_iff_pseudoLegal (by decide +kernel) _).2 ⟨by decide, by decide +kernel, by decide⟩

/-- castling O-O, the en-passant capture e5xd6 and the capture-promotion a7xb8=N in `rich`. -/
example : Move.mk 4 6 0 ∈ MoveGen.gen rich :=
  (gen_iff_pseudoLegal (by decide +kernel) _).2 ⟨by decide, by decide +kernel, by decide⟩
example : Move.mk 36 43 0 ∈ MoveGen.gen rich :=
  (gen_iff_pseudoLegal (by decide +kernel) _).2 ⟨by decide, by decide +kernel, by decide⟩
example : Move.mk 48 57 2 ∈ MoveGen.gen rich :=
  (gen_iff_pseudoLegal (by decide +kernel) _).2 ⟨by decide, by decide +kernel, by decide⟩

/-- the promotion codes 1, 6, 7 decode to non-promotion pieces, which the rule book rejects. -/
example : Move.mk 48 56 7 ∉ MoveGen.gen rich := fun h =>
  absurd ((gen_iff_pseudoLegal (b := rich) (by decide +kernel) _).1 h).2.1 (by decide +kernel)
example : Move.mk 48 56 1 ∉ MoveGen.gen rich := fun h =>
  absurd ((gen_iff_pseudoLegal (b := rich) (by decide +kernel) _).1 h).2.1 (by decide +kernel)

/-- the engine's test and the rule book agree on a concrete accepted and a concrete rejected word. -/
example : rich.isPseudoLegal (Move.mk 48 56 5) = true :=
  (isPseudoLegal_iff_pseudoLegal (by decide +kernel) _ (by decide)).2 ⟨by decide +kernel, by decide⟩

end ChessVerif.Bridge.Examples
