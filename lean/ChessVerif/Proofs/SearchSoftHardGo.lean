/-
  Soft node limit ≡ hard node budget, part 3: aspiration loop, the refused root call, iterative
  deepening and `go`.

  `L1` has no hard budget, `L2` has the hard budget `N` := the node count the `L1` search ended
  with, and the soft node limit switched off.  While the `L1` run has not yet reached its end the
  `L2` run is identical (`alphaBeta_sim`).  Where the `L1` run returned at the soft limit the `L2`
  run goes on: either the loop ends (depth limit, iteration 64) and it returns the same carried
  values, or it enters the next iteration, whose root call is refused at once by
  `incrementNodes` (the counter already equals `N`): `alphaBeta` returns `Inv` before any
  persistent update, the aspiration loop sees the abort flag, `iterativeDeepen` prints the abort
  notice `info depth D nodes N` and returns the carried score / move / ponder move.
-/
import ChessVerif.Proofs.SearchSoftHardAB
import ChessVerif.Proofs.SearchGo

namespace ChessVerif
namespace Search

variable {σ π : Type}

attribute [local instance] trivialPsInv

/-! ### (B) the aspiration loop -/

theorem aspiration_sim (c : Comp σ π) {L1 L2 : Limits} {N : Int} (h : SoftHard L1 L2 N) (fuel : Nat) (idD : Int) :
    ∀ (n : Nat) (alpha beta factor : Score) (s : St σ),
      NM s (aspiration c L1 fuel idD n alpha beta factor s).st ∧
        ((aspiration c L1 fuel idD n alpha beta factor s).st.nodes ≤ N →
          aspiration c L2 fuel idD n alpha beta factor s = aspiration c L1 fuel idD n alpha beta factor s) := by
  intro n
  induction n with
  | zero => intro alpha beta factor s; exact ⟨NM.of_eq rfl rfl, fun _ => rfl⟩
  | succ n ih =>
    intro alpha beta factor s
    simp only [aspiration, h.abort_eq]
    have hab := alphaBeta_sim c h fuel alpha beta idD 0 .pv s
    generalize alphaBeta c L1 fuel alpha beta idD 0 .pv s = r at hab ⊢
    have haf : NM r.2 (abort L1 r.2).2 := (abort_frame L1 r.2).mono.nm
    generalize hA : abort L1 r.2 = as at haf ⊢
    have hn : NM s as.2 := hab.1.trans haf
    by_cases h1 : as.1 = true
    · simp only [if_pos h1]
      refine ⟨hn, fun hle => ?_⟩
      have hle' : as.2.nodes ≤ N := hle
      rw [hab.2 (Int.le_trans haf.2 hle'), hA]
      simp only [if_pos h1]
    · simp only [if_neg h1]
      split
      · next hw =>
        refine ⟨hn, fun hle => ?_⟩
        have hle' : as.2.nodes ≤ N := hle
        rw [hab.2 (Int.le_trans haf.2 hle'), hA]
        simp only [if_neg h1, if_pos hw]
      · next hw =>
        have hi := ih
          (if r.1 ≤ alpha then wrapS16 (alpha - wrapS16 (factor * c.windowSize)) else alpha)
          (if r.1 ≤ alpha then beta else if r.1 ≥ beta then wrapS16 (beta + wrapS16 (factor * c.windowSize)) else beta)
          (wrapS16 (factor * 2)) as.2
        refine ⟨hn.trans hi.1, fun hle => ?_⟩
        rw [hab.2 (Int.le_trans haf.2 (Int.le_trans hi.1.2 hle)), hA]
        simp only [if_neg h1, if_neg hw]
        exact hi.2 hle

/-! ### (C) a refused call: abort is checked before any persistent update -/

/-- `s'` is `s` with the abort flag raised; only the per-search scratch fields `pv`, `abNodes`,
    `aborted`, `fuelOut` may differ. -/
structure Refused (s s' : St σ) : Prop where
  aborted : s'.aborted = true
  ps : s'.ps = s.ps
  nodes : s'.nodes = s.nodes
  board : s'.board = s.board
  pondering : s'.pondering = s.pondering
  hstack : s'.hstack = s.hstack
  frames : s'.frames = s.frames
  polls : s'.polls = s.polls
  anomaly : s'.anomaly = s.anomaly

/-- A quiescence node entered with the budget used up returns `Inv` at once. -/
theorem quiescence_refused (c : Comp σ π) {L1 L2 : Limits} {N : Int} (h : SoftHard L1 L2 N) (hN : N ≠ -1)
    (fuel : Nat) (a b : Score) (ply : Int) (s : St σ) (hge : N ≤ s.nodes) (hp : s.pondering = false) :
    ∃ s', quiescence c L2 fuel a b ply s = (Inv, s') ∧ Refused s s' := by
  cases fuel with
  | zero => exact ⟨s.outOfFuel, rfl, ⟨rfl, rfl, rfl, rfl, rfl, rfl, rfl, rfl, rfl⟩⟩
  | succ fuel =>
    refine ⟨{ s with aborted := true }, ?_, ⟨rfl, rfl, rfl, rfl, rfl, rfl, rfl, rfl, rfl⟩⟩
    rw [quiescence_succ, h.incr2_refused hN s hge hp]
    simp only [qRest, abort_none h.stop2, if_true]

/-- An alphaBeta node entered with the budget used up returns `Inv` at once; the table, the
    histories and the generation counter (`ps`) are untouched. -/
theorem alphaBeta_refused (c : Comp σ π) {L1 L2 : Limits} {N : Int} (h : SoftHard L1 L2 N) (hN : N ≠ -1)
    (fuel : Nat) (a b : Score) (d ply : Int) (nt : NodeType) (s : St σ) (hge : N ≤ s.nodes) (hp : s.pondering = false) :
    ∃ s', alphaBeta c L2 fuel a b d ply nt s = (Inv, s') ∧ Refused s s' := by
  cases fuel with
  | zero => exact ⟨(s.setPv (s.pv.setNull ply.toNat)).outOfFuel, rfl, ⟨rfl, rfl, rfl, rfl, rfl, rfl, rfl, rfl, rfl⟩⟩
  | succ fuel =>
    rw [alphaBeta_succ]
    split
    · obtain ⟨s', he, hr⟩ := quiescence_refused c h hN (fuel + 1) a b ply (s.setPv (s.pv.setNull ply.toNat)) hge hp
      exact ⟨s', he, ⟨hr.aborted, hr.ps, hr.nodes, hr.board, hr.pondering, hr.hstack, hr.frames, hr.polls, hr.anomaly⟩⟩
    · refine ⟨{ s with pv := s.pv.setNull ply.toNat, aborted := true, abNodes := s.abNodes + 1 }, ?_,
        ⟨rfl, rfl, rfl, rfl, rfl, rfl, rfl, rfl, rfl⟩⟩
      rw [h.incr2_refused hN (s.setPv (s.pv.setNull ply.toNat)) hge hp]
      simp only [abRest, abort_none h.stop2, if_true]
      rfl

/-! the same for a node entered with the abort flag already raised (any options `L`) -/

theorem abort_of_aborted (L : Limits) (s : St σ) (ha : s.aborted = true) : abort L s = (true, s) := by
  unfold abort; rw [if_pos ha]

theorem incrementNodes_ps (L : Limits) (s : St σ) : (incrementNodes L s).ps = s.ps := by
  unfold incrementNodes
  split
  · rfl
  · split <;> rfl

/-- A quiescence node entered with the abort flag raised returns `Inv` and leaves `ps` alone. -/
theorem quiescence_aborted (c : Comp σ π) (L : Limits) (fuel : Nat) (a b : Score) (ply : Int) (s : St σ)
    (ha : s.aborted = true) :
    (quiescence c L fuel a b ply s).1 = Inv ∧ (quiescence c L fuel a b ply s).2.ps = s.ps ∧
      (quiescence c L fuel a b ply s).2.aborted = true := by
  cases fuel with
  | zero => exact ⟨rfl, rfl, rfl⟩
  | succ fuel =>
    have hi : (incrementNodes L s).aborted = true := (incrementNodes_frame L s).mono.aborted_mono ha
    rw [quiescence_succ]
    simp only [qRest, abort_of_aborted L _ hi, if_true]
    exact ⟨trivial, incrementNodes_ps L s, hi⟩

/-- An alphaBeta node entered with the abort flag raised returns `Inv` and leaves `ps` alone:
    "it is important that we check abort *before* updating any of the persistent states". -/
theorem alphaBeta_aborted (c : Comp σ π) (L : Limits) (fuel : Nat) (a b : Score) (d ply : Int) (nt : NodeType) (s : St σ)
    (ha : s.aborted = true) :
    (alphaBeta c L fuel a b d ply nt s).1 = Inv ∧ (alphaBeta c L fuel a b d ply nt s).2.ps = s.ps ∧
      (alphaBeta c L fuel a b d ply nt s).2.aborted = true := by
  cases fuel with
  | zero => exact ⟨rfl, rfl, rfl⟩
  | succ fuel =>
    rw [alphaBeta_succ]
    split
    · exact quiescence_aborted c L (fuel + 1) a b ply (s.setPv (s.pv.setNull ply.toNat)) ha
    · have hi : (incrementNodes L (s.setPv (s.pv.setNull ply.toNat))).aborted = true :=
        (incrementNodes_frame L _).mono.aborted_mono ha
      have hps := incrementNodes_ps L (s.setPv (s.pv.setNull ply.toNat))
      generalize incrementNodes L (s.setPv (s.pv.setNull ply.toNat)) = s1 at hi hps ⊢
      have hab : abort L { s1 with abNodes := s1.abNodes + 1 } = (true, { s1 with abNodes := s1.abNodes + 1 }) :=
        abort_of_aborted L _ hi
      simp only [abRest, hab, if_true]
      exact ⟨trivial, hps, hi⟩

theorem aspiration_refused (c : Comp σ π) {L1 L2 : Limits} {N : Int} (h : SoftHard L1 L2 N) (hN : N ≠ -1)
    (fuel : Nat) (idD : Int) (n : Nat) (alpha beta factor : Score) (s : St σ) (hge : N ≤ s.nodes)
    (hp : s.pondering = false) :
    ∃ s', aspiration c L2 fuel idD n alpha beta factor s = .aborted s' ∧ Refused s s' := by
  cases n with
  | zero => exact ⟨s.outOfFuel, rfl, ⟨rfl, rfl, rfl, rfl, rfl, rfl, rfl, rfl, rfl⟩⟩
  | succ n =>
    obtain ⟨s', he, hr⟩ := alphaBeta_refused c h hN fuel alpha beta idD 0 .pv s hge hp
    refine ⟨s', ?_, hr⟩
    simp only [aspiration, he, abort_none h.stop2, hr.aborted, if_true]

/-! ### (D) iterative deepening -/

/-- the abort notice `info depth d nodes n` (search.go:76). -/
def notice (d n : Int) : Info := { depth := d, full := false, score := 0, nodes := n, time := 0, hashfull := 0, pv := [] }

/-- the fields of the state on which the hard-budget run agrees with the soft-limit run. -/
structure StAgree (s' s : St σ) : Prop where
  nodes : s'.nodes = s.nodes
  ps : s'.ps = s.ps
  board : s'.board = s.board
  pondering : s'.pondering = s.pondering
  hstack : s'.hstack = s.hstack
  frames : s'.frames = s.frames
  polls : s'.polls = s.polls
  anomaly : s'.anomaly = s.anomaly

theorem StAgree.refl (s : St σ) : StAgree s s := ⟨rfl, rfl, rfl, rfl, rfl, rfl, rfl, rfl⟩

/-- what the hard-budget run `r'` shares with the soft-limit run `r`: the three results, the state
    up to the scratch fields, and the output up to at most one abort notice. -/
structure HardRel (r' r : Result σ) : Prop where
  score : r'.score = r.score
  move : r'.move = r.move
  ponder : r'.ponder = r.ponder
  st : StAgree r'.st r.st
  out : r'.out = r.out ∨ ∃ d, r'.out = notice d r.st.nodes :: r.out

theorem HardRel.refl (r : Result σ) : HardRel r r := ⟨rfl, rfl, rfl, StAgree.refl _, Or.inl rfl⟩

/-- the notice is not a `full` line: the completed-iteration lines of the two runs coincide. -/
theorem HardRel.full_lines {r' r : Result σ} (h : HardRel r' r) :
    (r'.out.filter (·.full)).map Info.blankTime = (r.out.filter (·.full)).map Info.blankTime := by
  rcases h.out with e | ⟨d, e⟩
  · rw [e]
  · rw [e, List.filter_cons_of_neg (by simp [notice])]

theorem ponderPoll_false (L : Limits) (k : Nat) : ponderPoll L false k = (false, k) := by
  simp [ponderPoll]

theorem setPondering_self {s : St σ} {p : Bool} (h : s.pondering = p) : s.setPondering p = s := by
  cases s; simp only [St.setPondering] at h ⊢; rw [h]

/-- the node counter never decreases along `idLoop`, and the pondering flag stays `false`. -/
theorem idLoop_nm (c : Comp σ π) {L1 L2 : Limits} {N : Int} (h : SoftHard L1 L2 N) (clock : Clock) (fuel : Nat) :
    ∀ (n : Nat) (idD : Int) (v : IDVars) (s : St σ), s.pondering = false →
      s.nodes ≤ (idLoop c L1 clock fuel n idD v s).st.nodes := by
  intro n
  induction n with
  | zero => intro idD v s _; exact Int.le_refl _
  | succ n ih =>
    intro idD v s hp
    simp only [idLoop]
    split
    · exact Int.le_refl _
    · have hB := (aspiration_sim c h fuel idD fuel v.alpha v.beta 1 s).1
      generalize aspiration c L1 fuel idD fuel v.alpha v.beta 1 s = a1 at hB ⊢
      cases a1 with
      | aborted s1 =>
        simp only [Asp.st] at hB
        simp only
        split
        · exact hB.2
        · exact hB.2
      | ok al be sample s1 =>
        simp only [Asp.st] at hB
        have hp1 : s1.pondering = false := hB.1.trans hp
        simp only [hp1, ponderPoll_false, setPondering_self hp1]
        split
        · exact hB.2
        · exact Int.le_trans hB.2 (ih _ _ _ hp1)

/-- Entered with the budget used up and a move in hand, `idLoop` under the hard budget returns the
    carried values; it prints at most the abort notice. -/
theorem idLoop_refused (c : Comp σ π) {L1 L2 : Limits} {N : Int} (h : SoftHard L1 L2 N) (hN : N ≠ -1) (clock : Clock)
    (fuel : Nat) (n : Nat) (idD : Int) (v : IDVars) (s : St σ) (hge : N ≤ s.nodes) (hp : s.pondering = false)
    (hm : v.move ≠ 0) :
    HardRel (idLoop c L2 clock fuel n idD v s)
      { score := v.score, move := v.move, ponder := v.ponder, out := v.out, st := s } := by
  cases n with
  | zero => exact HardRel.refl _
  | succ n =>
    simp only [idLoop]
    split
    · exact HardRel.refl _
    · obtain ⟨s', he, hr⟩ := aspiration_refused c h hN fuel idD fuel v.alpha v.beta 1 s hge hp
      rw [he]
      simp only
      refine ⟨rfl, rfl, rfl, ⟨hr.nodes, hr.ps, hr.board, hr.pondering, hr.hstack, hr.frames, hr.polls, hr.anomaly⟩, ?_⟩
      cases L2.output
      · exact Or.inl rfl
      · exact Or.inr ⟨idD, by simp only [if_true, notice, hr.nodes]⟩

/-- (D) the simulation of iterative deepening. -/
theorem idLoop_sim (c : Comp σ π) {L1 L2 : Limits} {N : Int} (h : SoftHard L1 L2 N) (hN : N ≠ -1)
    (hdepth : L2.depth = L1.depth) (hout : L2.output = L1.output)
    (hsoft : ∀ p e k, softAbort L2 p e k = true → softAbort L1 p e k = true) (clock : Clock) (fuel : Nat) :
    ∀ (n : Nat) (idD : Int) (v : IDVars) (s : St σ), s.pondering = false →
      (idLoop c L1 clock fuel n idD v s).st.nodes = N →
      HardRel (idLoop c L2 clock fuel n idD v s) (idLoop c L1 clock fuel n idD v s) := by
  intro n
  induction n with
  | zero => intro idD v s _ _; exact HardRel.refl _
  | succ n ih =>
    intro idD v s hp hfin
    simp only [idLoop, hdepth, hout] at hfin ⊢
    split
    · exact HardRel.refl _
    · next hc =>
      rw [if_neg hc] at hfin
      have hB := aspiration_sim c h fuel idD fuel v.alpha v.beta 1 s
      generalize aspiration c L1 fuel idD fuel v.alpha v.beta 1 s = a1 at hfin hB ⊢
      cases a1 with
      | aborted s1 =>
        simp only [Asp.st] at hB
        have hn1 : s1.nodes = N := by
          simp only at hfin
          split at hfin
          · exact hfin
          · exact hfin
        rw [hB.2 (Int.le_of_eq hn1)]
        exact HardRel.refl _
      | ok al be sample s1 =>
        simp only [Asp.st] at hB
        have hp1 : s1.pondering = false := hB.1.1.trans hp
        simp only [hp1, ponderPoll_false, setPondering_self hp1] at hfin
        split at hfin
        · next hsa =>
          -- the soft-limit run returns here
          have hn1 : s1.nodes = N := hfin
          rw [hB.2 (Int.le_of_eq hn1)]
          simp only [hp1, ponderPoll_false, setPondering_self hp1, if_pos hsa]
          split
          · exact HardRel.refl _
          · have hr := idLoop_refused c h hN clock fuel n (wrapS8 (idD + 1))
              { alpha := wrapS16 (sample - c.windowSize), beta := wrapS16 (sample + c.windowSize), score := sample,
                move := pickMove s1.pv.active v.move, ponder := pickPonder s1.pv.active v.ponder, reads := v.reads + 1,
                ppolls := v.ppolls,
                out := if L1.output = true then
                    { depth := idD, full := true, score := sample, nodes := s1.nodes, time := (clock v.reads).1,
                      hashfull := c.hashFull s1.ps, pv := s1.pv.active } :: v.out
                  else v.out } s1 (Int.le_of_eq hn1.symm) hp1 hsa.1
            exact hr
        · next hsa =>
          -- the soft-limit run goes on: so does the hard-budget run
          have hle : s1.nodes ≤ N := Int.le_trans (idLoop_nm c h clock fuel n _ _ _ hp1) (Int.le_of_eq hfin)
          rw [hB.2 hle]
          simp only [hp1, ponderPoll_false, setPondering_self hp1, if_neg hsa]
          split
          · next hsa2 => exact absurd ⟨hsa2.1, hsoft _ _ _ hsa2.2⟩ hsa
          · exact ih _ _ _ hp1 hfin

/-! ### (E) `go` -/

theorem softAbort_of_noNodes {L1 L2 : Limits} (ht : L2.softTime = L1.softTime) (hn : L2.softNodes ≤ 0) (p : Bool)
    (e k : Int) (h2 : softAbort L2 p e k = true) : softAbort L1 p e k = true := by
  have : decide (L2.softNodes > 0) = false := by simp; omega
  simp only [softAbort, this, ht, Bool.false_and, Bool.or_false] at h2
  simp only [softAbort]
  rw [Bool.and_eq_true] at h2 ⊢
  exact ⟨h2.1, by rw [Bool.or_eq_true]; exact Or.inl h2.2⟩

theorem finish_hardRel (c : Comp σ π) {r' r : Result σ} (h : HardRel r' r) : HardRel (finish c r') (finish c r) := by
  refine ⟨h.score, h.move, h.ponder, ⟨h.st.nodes, ?_, h.st.board, h.st.pondering, h.st.hstack, h.st.frames, h.st.polls,
    h.st.anomaly⟩, h.out⟩
  show c.nextGen r'.st.ps = c.nextGen r.st.ps
  rw [h.st.ps]

/-- (E) A search without hard budget, stop channel and ponder channel that ended after `N` nodes —
    for whatever reason: soft node limit, soft time limit, depth limit — is reproduced by the same
    search with hard budget `N` and the soft node limit switched off. -/
theorem go_sim (c : Comp σ π) {L1 L2 : Limits} {N : Int} (h : SoftHard L1 L2 N)
    (hdepth : L2.depth = L1.depth) (hout : L2.output = L1.output) (htime : L2.softTime = L1.softTime)
    (hsn : L2.softNodes ≤ 0) (hp1 : L1.ponder = none) (hp2 : L2.ponder = none)
    (clock : Clock) (fuel : Nat) (e : Engine σ) (b : Board) (nodes0 : Int) (h0 : 0 ≤ nodes0)
    (hfin : (go c L1 clock fuel e b nodes0).st.nodes = N) :
    HardRel (go c L2 clock fuel e b nodes0) (go c L1 clock fuel e b nodes0) := by
  have hinit : goInit L2 e b nodes0 = goInit L1 e b nodes0 := by simp only [goInit, hp1, hp2]
  have hpond : (goInit L1 e b nodes0).pondering = false := by simp only [goInit, hp1]; rfl
  unfold go at hfin ⊢
  rw [hinit]
  have hfin' : (idLoop c L1 clock fuel 64 0
      { alpha := -Inf - 1, beta := Inf + 1, score := 0, move := 0, ponder := 0, reads := 0, ppolls := 0, out := [] }
      (goInit L1 e b nodes0)).st.nodes = N := hfin
  have hmono := idLoop_nm c h clock fuel 64 0
      { alpha := -Inf - 1, beta := Inf + 1, score := 0, move := 0, ponder := 0, reads := 0, ppolls := 0, out := [] }
      (goInit L1 e b nodes0) hpond
  have hN : N ≠ -1 := by
    have : nodes0 ≤ N := by rw [← hfin']; exact hmono
    omega
  exact finish_hardRel c
    (idLoop_sim c h hN hdepth hout (softAbort_of_noNodes htime hsn) clock fuel 64 0 _ _ hpond hfin')

end Search
end ChessVerif
