/-
  C10 closed, part 2: the game.

  A game is a start board `b₀` (loaded: its hash history is the single from-scratch hash) and a list of
  rule-book moves `mvs`, each legal in turn (`legalGame b₀.abs mvs`); the engine plays the words
  `mvs.map encodeMove` with `MakeMove`.  By induction over the game — `RepClosed.step` at every ply,
  i.e. C01 (legal ⇒ playable, closure of validity), C02 (`MakeMove` refines `Rules.apply`) and C04 (the
  incremental hash is the from-scratch hash), each used on the clock-reset board — we obtain

  * the boards of the game abstract, modulo the halfmove clock, to the positions of the rule-book game;
  * the hash history of the current board is the list of from-scratch hashes of the boards of the game;

  which are the hypotheses `AbsSteps` (modulo clock) and `HashTied` of `Rep.threefold_eq`.  No bound on
  the length of the game and NO bound on the halfmove clock.
-/
import ChessVerif.Proofs.RepClosedClock

namespace ChessVerif
namespace RepClosed
open Rules Board Rep

/-- position list and board list agree pointwise modulo the halfmove clock, and every board is valid
    modulo the clock. -/
inductive Tied : List Pos → List Board → Prop
  | nil : Tied [] []
  | cons {p : Pos} {b : Board} {ps : List Pos} {bs : List Board} :
      nc p = nc b.abs → ValidNC b → Tied ps bs → Tied (p :: ps) (b :: bs)

theorem Tied.length_eq : ∀ {ps : List Pos} {bs : List Board}, Tied ps bs → ps.length = bs.length
  | _, _, .nil => rfl
  | _, _, .cons _ _ h => by simp only [List.length_cons, h.length_eq]

theorem Tied.validNC : ∀ {ps : List Pos} {bs : List Board}, Tied ps bs → ∀ b ∈ bs, ValidNC b
  | _, _, .nil, b, hb => by simp at hb
  | _, _, .cons _ hv t, b, hb => by
    rcases List.mem_cons.1 hb with rfl | hb
    · exact hv
    · exact t.validNC b hb

/-- every board is tied to some position of the list. -/
theorem Tied.mem_right : ∀ {ps : List Pos} {bs : List Board}, Tied ps bs → ∀ b ∈ bs, ∃ p ∈ ps, nc p = nc b.abs
  | _, _, .nil, b, hb => by simp at hb
  | _, _, .cons (p := p) h _ t, b, hb => by
    rcases List.mem_cons.1 hb with rfl | hb
    · exact ⟨p, by simp, h⟩
    · obtain ⟨q, hq, e⟩ := t.mem_right b hb
      exact ⟨q, by simp [hq], e⟩

theorem Tied.zip_mem {α} (f : Board → α) : ∀ {ps : List Pos} {bs : List Board}, Tied ps bs →
    ∀ x ∈ ps.zip (bs.map f), ∃ b ∈ bs, nc x.1 = nc b.abs ∧ x.2 = f b
  | _, _, .nil, x, hx => by simp at hx
  | _, _, .cons (p := p) (b := b) h _ t, x, hx => by
    simp only [List.map_cons, List.zip_cons_cons, List.mem_cons] at hx
    rcases hx with rfl | hx
    · exact ⟨b, by simp, h, rfl⟩
    · obtain ⟨b', hb', h1, h2⟩ := t.zip_mem f x hx
      exact ⟨b', by simp [hb'], h1, h2⟩

/-- what holds of a game in progress: `b :: hb` the boards so far, `p :: hp` the rule-book positions. -/
structure GameInv (K : Keys) (p : Pos) (hp : List Pos) (b : Board) (hb : List Board) : Prop where
  valid : ValidNC b
  inv : Board.Inv K b
  tied : Tied (p :: hp) (b :: hb)
  hashes : b.hashes = (b :: hb).map (calcHash K)

/-- **the game induction**: every legal continuation keeps `GameInv`; the engine's words decode to the
    moves. -/
theorem game (K : Keys) : ∀ (mvs : List Mv) (p : Pos) (hp : List Pos) (b : Board) (hb : List Board),
    GameInv K p hp b hb → legalFrom (p :: hp) mvs →
    ∃ p' hp' b' hb',
      mvs.foldl stepHist (p :: hp) = p' :: hp' ∧
      (mvs.map encodeMove).foldl (stepBoards K) (b :: hb) = b' :: hb' ∧
      b' = run K b (mvs.map encodeMove) ∧
      GameInv K p' hp' b' hb' ∧
      (mvs.map encodeMove).map decodeMove = mvs
  | [], p, hp, b, hb, g, _ => ⟨p, hp, b, hb, rfl, rfl, rfl, g, rfl⟩
  | mv :: mvs, p, hp, b, hb, g, hl => by
    obtain ⟨hlm, hlrest⟩ := hl
    have hpb : nc p = nc b.abs := by cases g.tied with | cons h _ _ => exact h
    have hlb : legal b.abs mv = true := by rw [← legal_congr hpb]; exact hlm
    have S := step K g.valid g.inv hlb
    have g' : GameInv K (Rules.apply p mv) (p :: hp) (b.makeMove K (encodeMove mv)).1 (b :: hb) :=
      { valid := S.valid'
        inv := S.inv'
        tied := Tied.cons ((apply_congr hpb mv).trans S.absNC.symm) S.valid' g.tied
        hashes := by rw [S.hashes', g.hashes]; rfl }
    obtain ⟨p', hp', b', hb', e1, e2, e3, g'', e4⟩ := game K mvs _ _ _ _ g' hlrest
    refine ⟨p', hp', b', hb', ?_, ?_, ?_, g'', ?_⟩
    · simp only [List.foldl_cons, stepHist]; exact e1
    · simp only [List.map_cons, List.foldl_cons, stepBoards]; exact e2
    · rw [e3]; rfl
    · simp only [List.map_cons, S.dec, e4]

/-- a loaded start board (`ResetHash`): the history is the single from-scratch hash. -/
theorem gameInv_start (K : Keys) {b₀ : Board} (hv : ValidNC b₀) (hh : b₀.hashes = [calcHash K b₀]) :
    GameInv K b₀.abs [] b₀ [] :=
  { valid := hv
    inv := ⟨(wf_iff b₀).2 ((validNC_iff b₀).1 hv).1, by rw [hh]; rfl⟩
    tied := Tied.cons rfl hv Tied.nil
    hashes := hh }

/-- the two named hypotheses of `Rep.threefold_eq`, discharged (C02 modulo the clock, C04). -/
theorem tied_and_hashTied (K : Keys) (b₀ : Board) (mvs : List Mv)
    (hv : ValidNC b₀) (hh : b₀.hashes = [calcHash K b₀]) (hleg : legalGame b₀.abs mvs) :
    Tied (positions b₀.abs mvs) (boards K b₀ (mvs.map encodeMove)) ∧
    HashTied K b₀ (mvs.map encodeMove) ∧
    ValidNC (run K b₀ (mvs.map encodeMove)) ∧ Board.Inv K (run K b₀ (mvs.map encodeMove)) ∧
    (mvs.map encodeMove).map decodeMove = mvs := by
  obtain ⟨p', hp', b', hb', e1, e2, e3, g, e4⟩ := game K mvs b₀.abs [] b₀ [] (gameInv_start K hv hh) hleg
  have eP : positions b₀.abs mvs = p' :: hp' := e1
  have eB : boards K b₀ (mvs.map encodeMove) = b' :: hb' := e2
  refine ⟨by rw [eP, eB]; exact g.tied, ?_, by rw [← e3]; exact g.valid, by rw [← e3]; exact g.inv, e4⟩
  unfold HashTied
  rw [← e3, eB]; exact g.hashes

/-- faithfulness on the boards' own abstractions (clocks possibly wrapped) is faithfulness on the
    rule-book positions: art. 9.2.2 does not read the clock. -/
theorem faithful_transfer (K : Keys) {ps : List Pos} {bs : List Board} (ht : Tied ps bs)
    (hf : HashFaithful (bs.map fun b => (b.abs, b.calcHash K))) :
    HashFaithful (ps.zip (bs.map (calcHash K))) := by
  intro x hx y hy
  obtain ⟨bx, hbx, ex1, ex2⟩ := ht.zip_mem (calcHash K) x hx
  obtain ⟨by_, hby, ey1, ey2⟩ := ht.zip_mem (calcHash K) y hy
  have := hf (bx.abs, bx.calcHash K) (List.mem_map.2 ⟨bx, hbx, rfl⟩)
    (by_.abs, by_.calcHash K) (List.mem_map.2 ⟨by_, hby, rfl⟩)
  rw [ex2, ey2, same_congr ex1 ey1]
  exact this

/-- the current board shows the head of the rule-book history (modulo the clock), so counting the
    occurrences of either is the same. -/
theorem occurrences_run_eq (K : Keys) (b₀ : Board) (mvs : List Mv)
    (hv : ValidNC b₀) (hh : b₀.hashes = [calcHash K b₀]) (hleg : legalGame b₀.abs mvs) :
    occurrences (run K b₀ (mvs.map encodeMove)).abs (positions b₀.abs mvs) =
      occurrences ((positions b₀.abs mvs).headD b₀.abs) (positions b₀.abs mvs) := by
  obtain ⟨ht, _, _, _, _⟩ := tied_and_hashTied K b₀ mvs hv hh hleg
  obtain ⟨t, hb⟩ := boards_foldl_head K (mvs.map encodeMove) b₀ []
  have hb' : boards K b₀ (mvs.map encodeMove) = run K b₀ (mvs.map encodeMove) :: t := hb
  rw [hb'] at ht
  cases hP : positions b₀.abs mvs with
  | nil => rw [hP] at ht; cases ht
  | cons p' hp' =>
    rw [hP] at ht
    cases ht with
    | cons hhead _ _ =>
      have : sameForRepetition p' = sameForRepetition (run K b₀ (mvs.map encodeMove)).abs :=
        funext fun q => same_congr hhead rfl
      simp only [List.headD_cons, occurrences, this]

/-- **C10 closed, rule-book moves.**  See `Props/C10.lean` for the reading. -/
theorem threefold_eq_closed_mv (K : Keys) (b₀ : Board) (mvs : List Mv)
    (hv : ValidNC b₀) (hh : b₀.hashes = [calcHash K b₀])
    (hleg : legalGame b₀.abs mvs)
    (hf : HashFaithful ((boards K b₀ (mvs.map encodeMove)).map fun b => (b.abs, b.calcHash K))) :
    (run K b₀ (mvs.map encodeMove)).threefold =
      min 3 (occurrences (run K b₀ (mvs.map encodeMove)).abs (positions b₀.abs mvs)) := by
  obtain ⟨ht, htie, _, _, _⟩ := tied_and_hashTied K b₀ mvs hv hh hleg
  have hlen := ht.length_eq
  have h := threefold_eq_positions (run K b₀ (mvs.map encodeMove)) b₀.abs mvs
    ((boards K b₀ (mvs.map encodeMove)).map (calcHash K)) hleg (by rw [List.length_map]; exact hlen.symm)
    htie (faithful_transfer K ht hf)
  rw [h, occurrences_run_eq K b₀ mvs hv hh hleg]

/-! ### the same for engine move words -/

/-- a move word is the engine's encoding of its own decoding (true of every generated word). -/
def Canon (ms : List Move) : Prop := ∀ m ∈ ms, encodeMove (decodeMove m) = m

theorem canon_map {ms : List Move} (h : Canon ms) : (ms.map decodeMove).map encodeMove = ms := by
  induction ms with
  | nil => rfl
  | cons m ms ih =>
    simp only [List.map_cons]
    rw [h m (by simp), ih (fun x hx => h x (by simp [hx]))]

/-- **C10 closed, engine move words**: `ms` are canonical words whose decodings form a legal game. -/
theorem threefold_eq_closed_words (K : Keys) (b₀ : Board) (ms : List Move)
    (hv : ValidNC b₀) (hh : b₀.hashes = [calcHash K b₀])
    (hcanon : Canon ms) (hleg : legalGame b₀.abs (ms.map decodeMove))
    (hf : HashFaithful ((boards K b₀ ms).map fun b => (b.abs, b.calcHash K))) :
    (run K b₀ ms).threefold = min 3 (occurrences (run K b₀ ms).abs (positions b₀.abs (ms.map decodeMove))) := by
  have h := threefold_eq_closed_mv K b₀ (ms.map decodeMove) hv hh hleg
  rw [canon_map hcanon] at h
  exact h hf

/-- the hypothesis `HashTied` of `Rep.threefold_eq`, for words (C04 along the game, any clock). -/
theorem hashTied_closed (K : Keys) (b₀ : Board) (ms : List Move)
    (hv : ValidNC b₀) (hh : b₀.hashes = [calcHash K b₀])
    (hcanon : Canon ms) (hleg : legalGame b₀.abs (ms.map decodeMove)) : HashTied K b₀ ms := by
  have h := (tied_and_hashTied K b₀ (ms.map decodeMove) hv hh hleg).2.1
  rw [canon_map hcanon] at h
  exact h

/-! ### the engine's own notion: every move is playable (`MoveGen.playable`) when it is made -/

/-- a playable move of a `ValidNC` board is canonical and legal by the rule book (C01 on the
    clock-reset board). -/
theorem playable_legal (K : Keys) {b : Board} {m : Move} (hv : ValidNC b) (hm : m ∈ MoveGen.playable K b) :
    legal b.abs (decodeMove m) = true ∧ encodeMove (decodeMove m) = m := by
  rw [← playable_setFifty K b 0] at hm
  have h := (Props.C01.playable_eq_legal K hv m).1 hm
  rw [abs_setFifty0, legal_nc] at h
  exact ⟨h.2.1, h.2.2⟩

theorem legal_of_playableSeq (K : Keys) : ∀ (ms : List Move) (p : Pos) (hp : List Pos) (b : Board) (hb : List Board),
    GameInv K p hp b hb → EpTarget.PlayableSeq K b ms → legalFrom (p :: hp) (ms.map decodeMove) ∧ Canon ms
  | [], _, _, _, _, _, _ => ⟨trivial, fun _ h => by simp at h⟩
  | m :: ms, p, hp, b, hb, g, hs => by
    obtain ⟨hm, hrest⟩ := hs
    obtain ⟨hl, hc⟩ := playable_legal K g.valid hm
    have hpb : nc p = nc b.abs := by cases g.tied with | cons h _ _ => exact h
    have hlp : legal p (decodeMove m) = true := by rw [legal_congr hpb]; exact hl
    have S := step K g.valid g.inv hl
    have s1 := S.valid'; have s2 := S.inv'; have s3 := S.absNC; have s4 := S.hashes'
    rw [hc] at s1 s2 s3 s4
    have g' : GameInv K (Rules.apply p (decodeMove m)) (p :: hp) (b.makeMove K m).1 (b :: hb) :=
      { valid := s1
        inv := s2
        tied := Tied.cons ((apply_congr hpb _).trans s3.symm) s1 g.tied
        hashes := by rw [s4, g.hashes]; rfl }
    obtain ⟨h1, h2⟩ := legal_of_playableSeq K ms _ _ _ _ g' hrest
    refine ⟨⟨hlp, h1⟩, ?_⟩
    intro x hx
    rcases List.mem_cons.1 hx with rfl | hx
    · exact hc
    · exact h2 x hx

/-- **C10 closed, the engine's own legality**: every move is playable in the position it is made in
    (what `position … moves …` followed by the search does). -/
theorem threefold_eq_closed_playable (K : Keys) (b₀ : Board) (ms : List Move)
    (hv : ValidNC b₀) (hh : b₀.hashes = [calcHash K b₀])
    (hplay : EpTarget.PlayableSeq K b₀ ms)
    (hf : HashFaithful ((boards K b₀ ms).map fun b => (b.abs, b.calcHash K))) :
    legalGame b₀.abs (ms.map decodeMove) ∧
    (run K b₀ ms).threefold = min 3 (occurrences (run K b₀ ms).abs (positions b₀.abs (ms.map decodeMove))) := by
  obtain ⟨hleg, hcanon⟩ := legal_of_playableSeq K ms b₀.abs [] b₀ [] (gameInv_start K hv hh) hplay
  exact ⟨hleg, threefold_eq_closed_words K b₀ ms hv hh hcanon hleg hf⟩

end RepClosed
end ChessVerif
