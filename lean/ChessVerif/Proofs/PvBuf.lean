/-
  Lemmas about the triangular PV buffer (Model/Pv.lean): the closed form of `bufIx`, rows never
  overlap, and the flat operations simulate the list-of-rows model.
-/
import ChessVerif.Model.Pv

namespace ChessVerif
namespace Pv

/-! ## `bufIx`: closed form, step, monotonicity -/

theorem rowStart_succ : ∀ p, p < 64 → rowStart (p + 1) = rowStart p + (64 - p) := by decide

/-- the Go expression (int8 subtraction, truncating division — the product is `0 * -1` for ply 0)
    equals the closed form on every ply `0..64`. -/
theorem bufIx_eq_rowStart : ∀ p, p < 65 → bufIx (p : Nat) = (rowStart p : Int) := by decide

theorem rowStart_zero : rowStart 0 = 0 := by decide
theorem rowStart_last : rowStart 64 = bufLen := by decide

theorem bufIx_toNat {p : Nat} (h : p ≤ 64) : (bufIx (p : Nat)).toNat = rowStart p := by
  rw [bufIx_eq_rowStart p (by omega)]; simp

/-- row `p` ends where a later row `q` begins, or earlier. -/
theorem rowStart_mono {p q : Nat} (hpq : p < q) (hq : q ≤ 64) : rowStart p + (64 - p) ≤ rowStart q := by
  induction q with
  | zero => omega
  | succ q ih =>
    have hs := rowStart_succ q (by omega)
    by_cases h : p = q
    · subst h; omega
    · have := ih (by omega) (by omega); omega

theorem rowStart_end_le {p : Nat} (hp : p < 64) : rowStart p + (64 - p) ≤ bufLen := by
  have := rowStart_mono (p := p) (q := 64) hp (by omega)
  rw [rowStart_last] at this; exact this

/-! ## `copyRange` -/

theorem size_copyRange (dst src : Array Move) (di si l : Nat) :
    (copyRange dst src di si l).size = dst.size := by
  induction l with
  | zero => rfl
  | succ l ih => simp [copyRange, ih]

theorem getD_setIfInBounds (a : Array Move) (i x : Nat) (v : Move) (hi : i < a.size) :
    (a.setIfInBounds i v).getD x 0 = if x = i then v else a.getD x 0 := by
  simp only [Array.getD_eq_getD_getElem?, Array.getElem?_setIfInBounds]
  by_cases h : i = x
  · subst h; simp [hi]
  · have : ¬ x = i := fun e => h e.symm
    simp [h, this]

theorem getD_copyRange (dst src : Array Move) (di si l x : Nat) (hfit : di + l ≤ dst.size) :
    (copyRange dst src di si l).getD x 0 =
      if di ≤ x ∧ x < di + l then src.getD (si + (x - di)) 0 else dst.getD x 0 := by
  induction l with
  | zero => simp [copyRange]; intro h1 h2; omega
  | succ l ih =>
    have ih := ih (by omega)
    simp only [copyRange]
    rw [getD_setIfInBounds _ _ _ _ (by rw [size_copyRange]; omega), ih]
    by_cases hx : x = di + l
    · subst hx
      have : di + l - di = l := by omega
      simp [this]
    · by_cases hin : di ≤ x ∧ x < di + l
      · have : di ≤ x ∧ x < di + (l + 1) := by omega
        simp [hx, hin, this]
      · have : ¬ (di ≤ x ∧ x < di + (l + 1)) := by omega
        simp [hx, hin, this]

/-! ## slices -/

theorem slice_congr (a b : Array Move) (lo lo' len : Nat)
    (h : ∀ k, k < len → a.getD (lo + k) 0 = b.getD (lo' + k) 0) : slice a lo len = slice b lo' len := by
  unfold slice
  apply List.map_congr_left
  intro k hk
  exact h k (List.mem_range.1 hk)

theorem slice_succ (a : Array Move) (lo len : Nat) :
    slice a lo (len + 1) = a.getD lo 0 :: slice a (lo + 1) len := by
  unfold slice
  rw [List.range_succ_eq_map]
  simp only [List.map_cons, List.map_map, Nat.add_zero]
  congr 1
  apply List.map_congr_left
  intro k _
  simp only [Function.comp]
  congr 1; omega

/-! ## The flat buffer simulates the rows -/

theorem len_set (pv : Flat) (mv : Array Move) (ply p : Nat) (v : Int) (hply : ply < pv.depth.size) :
    Flat.len ⟨mv, pv.depth.setIfInBounds ply v⟩ p = if p = ply then v else pv.len p := by
  simp only [Flat.len, Array.getD_eq_getD_getElem?, Array.getElem?_setIfInBounds]
  by_cases h : ply = p
  · subst h; simp [hply]
  · have : ¬ p = ply := fun e => h e.symm
    simp [h, this]

theorem setNull_len {pv : Flat} (hI : BufInv pv) {ply : Nat} (hply : ply < maxPlies) (p : Nat) :
    (pv.setNull ply).len p = if p = ply then 0 else pv.len p :=
  len_set pv pv.moves ply p 0 (by rw [hI.dsize]; exact hply)

theorem setNull_inv {pv : Flat} (hI : BufInv pv) {ply : Nat} (hply : ply < maxPlies) : BufInv (pv.setNull ply) := by
  refine ⟨hI.msize, ?_, ?_⟩
  · simp [Flat.setNull, hI.dsize]
  · intro p hp
    rw [setNull_len hI hply]
    by_cases h : p = ply
    · simp only [h, if_true]; simp only [maxPlies] at *; omega
    · simp only [h, if_false]; exact hI.bound p hp

theorem setNull_refines {pv : Flat} {r : Rows} (hI : BufInv pv) (hR : Refines pv r) (ply : Nat) (hply : ply < maxPlies) :
    Refines (pv.setNull ply) (r.setNull ply) := by
  intro p hp
  simp only [rowOf, Rows.setNull]
  rw [setNull_len hI hply]
  by_cases h : p = ply
  · simp [h, slice]
  · simp only [h, if_false]
    exact hR p hp

/-- what `insert` leaves in the move array. -/
theorem insert_moves_getD {pv : Flat} (hI : BufInv pv) {ply : Nat} (hply : ply + 1 < maxPlies) (m : Move) (x : Nat) :
    (pv.insert ply m).moves.getD x 0 =
      if x = rowStart ply then m
      else if rowStart ply + 1 ≤ x ∧ x < rowStart ply + 1 + (pv.len (ply + 1)).toNat then
        pv.moves.getD (rowStart (ply + 1) + (x - (rowStart ply + 1))) 0
      else pv.moves.getD x 0 := by
  simp only [maxPlies] at hply
  have hb := hI.bound (ply + 1) (by simp [maxPlies]; omega)
  have hend := rowStart_end_le (p := ply) (by omega)
  have hstep := rowStart_succ ply (by omega)
  have hms := hI.msize
  simp only [maxPlies] at hb
  have hl : (pv.len (ply + 1)).toNat + (ply + 1) ≤ 64 := by omega
  simp only [Flat.insert]
  have e1 : (bufIx ((ply : Nat) : Int)).toNat = rowStart ply := bufIx_toNat (by omega)
  have e2 : (bufIx (((ply + 1 : Nat)) : Int)).toNat = rowStart (ply + 1) := bufIx_toNat (by omega)
  have e2' : (bufIx ((ply : Int) + 1)).toNat = rowStart (ply + 1) := by
    have : ((ply : Int) + 1) = ((ply + 1 : Nat) : Int) := by simp
    rw [this]; exact e2
  rw [e1, e2']
  rw [getD_copyRange _ _ _ _ _ _ (by simp; omega)]
  by_cases hx : x = rowStart ply
  · subst hx
    have : ¬ (rowStart ply + 1 ≤ rowStart ply ∧ rowStart ply < rowStart ply + 1 + (pv.len (ply + 1)).toNat) := by omega
    rw [if_neg this, getD_setIfInBounds _ _ _ _ (by omega)]
    simp
  · by_cases hin : rowStart ply + 1 ≤ x ∧ x < rowStart ply + 1 + (pv.len (ply + 1)).toNat
    · rw [if_pos hin, getD_setIfInBounds _ _ _ _ (by omega)]
      have : ¬ (rowStart (ply + 1) + (x - (rowStart ply + 1)) = rowStart ply) := by omega
      simp [hx, hin, this]
    · rw [if_neg hin, getD_setIfInBounds _ _ _ _ (by omega)]
      simp [hx, hin]

theorem insert_len {pv : Flat} (hI : BufInv pv) {ply : Nat} (hply : ply + 1 < maxPlies) (m : Move) (p : Nat) :
    (pv.insert ply m).len p = if p = ply then pv.len (ply + 1) + 1 else pv.len p := by
  simp only [maxPlies] at hply
  have hb := hI.bound (ply + 1) (by simp [maxPlies]; omega)
  simp only [maxPlies] at hb
  have := len_set pv (pv.insert ply m).moves ply p (wrapS8 (pv.len (ply + 1) + 1)) (by rw [hI.dsize]; simp [maxPlies]; omega)
  have e : pv.insert ply m = ⟨(pv.insert ply m).moves, pv.depth.setIfInBounds ply (wrapS8 (pv.len (ply + 1) + 1))⟩ := rfl
  rw [e, this]
  by_cases h : p = ply
  · simp only [h, if_true]
    unfold wrapS8
    omega
  · simp [h]

theorem insert_inv {pv : Flat} (hI : BufInv pv) {ply : Nat} (hply : ply + 1 < maxPlies) (m : Move) :
    BufInv (pv.insert ply m) := by
  refine ⟨?_, ?_, ?_⟩
  · simp [Flat.insert, size_copyRange, hI.msize]
  · simp [Flat.insert, hI.dsize]
  · intro p hp
    rw [insert_len hI hply m p]
    have hb := hI.bound (ply + 1) hply
    by_cases h : p = ply
    · subst h; simp only [if_true]; simp [maxPlies] at *; omega
    · simp only [h, if_false]; exact hI.bound p hp

theorem insert_refines {pv : Flat} {r : Rows} (hI : BufInv pv) (hR : Refines pv r) {ply : Nat}
    (hply : ply + 1 < maxPlies) (m : Move) : Refines (pv.insert ply m) (r.insert ply m) := by
  intro p hp
  have hb := hI.bound (ply + 1) hply
  have hply' : ply + 1 < 64 := by simpa [maxPlies] using hply
  have hp' : p < 64 := by simpa [maxPlies] using hp
  have hstep := rowStart_succ ply (by omega)
  simp only [maxPlies] at hb
  simp only [rowOf, Rows.insert]
  rw [insert_len hI hply m p]
  by_cases h : p = ply
  · subst h
    simp only [if_true]
    have hn : (pv.len (p + 1) + 1).toNat = (pv.len (p + 1)).toNat + 1 := by omega
    rw [hn, slice_succ]
    congr 1
    · rw [insert_moves_getD hI hply]; simp
    · rw [← hR (p + 1) hply]
      unfold rowOf
      apply slice_congr
      intro k hk
      rw [insert_moves_getD hI hply]
      have h1 : ¬ (rowStart p + 1 + k = rowStart p) := by omega
      have h2 : rowStart p + 1 ≤ rowStart p + 1 + k ∧ rowStart p + 1 + k < rowStart p + 1 + (pv.len (p + 1)).toNat := by omega
      rw [if_neg h1, if_pos h2]
      congr 1; omega
  · simp only [h, if_false]
    rw [← hR p hp]
    unfold rowOf
    apply slice_congr
    intro k hk
    rw [insert_moves_getD hI hply]
    have hbp := hI.bound p hp
    simp only [maxPlies] at hbp
    -- rows `p ≠ ply` do not meet row `ply`
    have hdis : rowStart p + k < rowStart ply ∨ rowStart ply + (64 - ply) ≤ rowStart p + k := by
      rcases Nat.lt_or_gt_of_ne h with hlt | hgt
      · left
        have := rowStart_mono (p := p) (q := ply) hlt (by omega)
        omega
      · right
        have := rowStart_mono (p := ply) (q := p) hgt (by omega)
        omega
    have h1 : ¬ (rowStart p + k = rowStart ply) := by omega
    have h2 : ¬ (rowStart ply + 1 ≤ rowStart p + k ∧ rowStart p + k < rowStart ply + 1 + (pv.len (ply + 1)).toNat) := by omega
    rw [if_neg h1, if_neg h2]

theorem active_refines {pv : Flat} {r : Rows} (hR : Refines pv r) : pv.active = r.active := by
  have := hR 0 (by decide)
  simpa [rowOf, rowStart_zero, Flat.active, Rows.active] using this

theorem new_inv : BufInv Flat.new := by
  refine ⟨by simp [Flat.new], by simp [Flat.new], ?_⟩
  intro p hp
  simp only [maxPlies] at hp
  have : Flat.new.len p = 0 := by
    simp [Flat.len, Flat.new, Array.getD_eq_getD_getElem?, maxPlies, hp]
  rw [this]; simp [maxPlies]; omega

theorem new_refines : Refines Flat.new Rows.new := by
  intro p hp
  simp only [maxPlies] at hp
  have : Flat.new.len p = 0 := by
    simp [Flat.len, Flat.new, Array.getD_eq_getD_getElem?, maxPlies, hp]
  simp [rowOf, this, slice, Rows.new]

end Pv
end ChessVerif
