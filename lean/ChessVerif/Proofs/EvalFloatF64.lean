/-
  C19 (a), float side, part 1: the properties of the IEEE-754 binary64 model (Model/F64.lean) that the
  evaluation proofs use.

  * `ilog2_le` / `ilog2_lt` — `ilog2 x` is `⌊log₂|x|⌋`:  `2^(ilog2 x) ≤ |x| < 2^(ilog2 x + 1)`;
  * `rne_err`, `rne_intCast` — round-to-nearest-even integer is within 1/2, exact on integers;
  * `round_err` — `|round x − x| ≤ ulp x / 2`, hence (`round_err'`) `≤ |x|·2^-53 + 2^-1075`
    (relative error 2^-53 in the normal range, absolute error half a subnormal spacing below it),
    and (`round_bound`) `≤ (B + 1)·2^-53` whenever `|x| ≤ B`;
  * `round_intCast` — every integer of magnitude ≤ 2^53 is a double: `round n = n`;
  * `finiteQ_of_le` — values of magnitude ≤ 2^1000 do not overflow.
-/
import ChessVerif.Model.F64
import Mathlib.Algebra.Order.Field.Rat
import Mathlib.Algebra.Order.Field.Power
import Mathlib.Tactic.Linarith
import Mathlib.Tactic.NormNum
import Mathlib.Tactic.Positivity
import Mathlib.Tactic.Ring
import Mathlib.Tactic.FieldSimp

namespace ChessVerif.IEEE

theorem absQ_eq (x : ℚ) : absQ x = |x| := by
  unfold absQ
  split
  · rw [abs_of_neg ‹_›]
  · rw [abs_of_nonneg (not_lt.mp ‹_›)]

/-! ### powers of two -/

theorem pow2_eq (e : ℤ) : pow2 e = (2 : ℚ) ^ e := by
  unfold pow2
  split
  · rename_i h
    obtain ⟨n, rfl⟩ := Int.eq_ofNat_of_zero_le h
    simp
  · rename_i h
    have h' : 0 ≤ -e := by omega
    obtain ⟨n, hn⟩ := Int.eq_ofNat_of_zero_le h'
    have he : e = -(n : ℤ) := by omega
    subst he
    simp

theorem pow2_pos (e : ℤ) : 0 < pow2 e := by rw [pow2_eq]; positivity

theorem pow2_add (a b : ℤ) : pow2 (a + b) = pow2 a * pow2 b := by
  simp only [pow2_eq]; exact zpow_add₀ (by norm_num) a b

theorem pow2_mono {a b : ℤ} (h : a ≤ b) : pow2 a ≤ pow2 b := by
  simp only [pow2_eq]; exact zpow_le_zpow_right₀ (by norm_num) h

theorem pow2_le_iff {a b : ℤ} : pow2 a ≤ pow2 b ↔ a ≤ b := by
  simp only [pow2_eq]; exact zpow_le_zpow_iff_right₀ (by norm_num)

theorem pow2_natCast (n : ℕ) : pow2 (n : ℤ) = (2 : ℚ) ^ n := by rw [pow2_eq, zpow_natCast]

/-! ### the binary exponent -/

theorem abs_eq_natAbs_div (x : ℚ) : |x| = (x.num.natAbs : ℚ) / (x.den : ℚ) := by
  conv_lhs => rw [← Rat.num_div_den x]
  rw [abs_div, Nat.cast_natAbs, Int.cast_abs]
  congr 1
  exact abs_of_pos (by exact_mod_cast x.den_pos)

/-- the estimate from the bit lengths brackets `|x|` within a factor 2 on either side. -/
theorem bitlen_bracket (x : ℚ) (hx : x ≠ 0) :
    pow2 ((x.num.natAbs.log2 : ℤ) - (x.den.log2 : ℤ) - 1) ≤ |x| ∧
    |x| < pow2 ((x.num.natAbs.log2 : ℤ) - (x.den.log2 : ℤ) + 1) := by
  have hn0 : x.num.natAbs ≠ 0 := by
    intro h; apply hx; exact Rat.zero_of_num_zero (Int.natAbs_eq_zero.mp h)
  have hd0 : x.den ≠ 0 := x.den_nz
  obtain ⟨n1, n2⟩ := (Nat.log2_eq_iff hn0).mp rfl
  obtain ⟨d1, d2⟩ := (Nat.log2_eq_iff hd0).mp rfl
  generalize x.num.natAbs.log2 = ln at *
  generalize x.den.log2 = ld at *
  rw [abs_eq_natAbs_div]
  have hdpos : (0 : ℚ) < x.den := by exact_mod_cast x.den_pos
  have N1 : (2 : ℚ) ^ ln ≤ x.num.natAbs := by exact_mod_cast n1
  have N2 : (x.num.natAbs : ℚ) < 2 ^ (ln + 1) := by exact_mod_cast n2
  have D1 : (2 : ℚ) ^ ld ≤ x.den := by exact_mod_cast d1
  have D2 : (x.den : ℚ) < 2 ^ (ld + 1) := by exact_mod_cast d2
  have e1 : pow2 ((ln : ℤ) - (ld : ℤ) - 1) = (2 : ℚ) ^ ln / 2 ^ (ld + 1) := by
    rw [pow2_eq, show (ln : ℤ) - (ld : ℤ) - 1 = (ln : ℤ) - ((ld + 1 : ℕ) : ℤ) by push_cast; ring,
      zpow_sub₀ (by norm_num), zpow_natCast, zpow_natCast]
  have e2 : pow2 ((ln : ℤ) - (ld : ℤ) + 1) = (2 : ℚ) ^ (ln + 1) / 2 ^ ld := by
    rw [pow2_eq, show (ln : ℤ) - (ld : ℤ) + 1 = ((ln + 1 : ℕ) : ℤ) - (ld : ℤ) by push_cast; ring,
      zpow_sub₀ (by norm_num), zpow_natCast, zpow_natCast]
  rw [e1, e2]
  have p1 : (0 : ℚ) < 2 ^ (ld + 1) := by positivity
  have p2 : (0 : ℚ) < 2 ^ ld := by positivity
  constructor
  · rw [div_le_div_iff₀ p1 hdpos]
    calc (2 : ℚ) ^ ln * x.den ≤ x.num.natAbs * x.den := by
          exact mul_le_mul_of_nonneg_right N1 hdpos.le
      _ ≤ x.num.natAbs * 2 ^ (ld + 1) := by
          exact mul_le_mul_of_nonneg_left D2.le (by positivity)
  · rw [div_lt_div_iff₀ hdpos p2]
    calc (x.num.natAbs : ℚ) * 2 ^ ld ≤ x.num.natAbs * x.den := by
          exact mul_le_mul_of_nonneg_left D1 (by positivity)
      _ < 2 ^ (ln + 1) * x.den := by
          exact mul_lt_mul_of_pos_right N2 hdpos

/-- `2^(ilog2 x) ≤ |x|` -/
theorem ilog2_le (x : ℚ) (hx : x ≠ 0) : pow2 (ilog2 x) ≤ |x| := by
  unfold ilog2
  simp only
  split
  · rename_i h; rwa [absQ_eq] at h
  · exact (bitlen_bracket x hx).1

/-- `|x| < 2^(ilog2 x + 1)` -/
theorem ilog2_lt (x : ℚ) (hx : x ≠ 0) : |x| < pow2 (ilog2 x + 1) := by
  unfold ilog2
  simp only
  split
  · exact (bitlen_bracket x hx).2
  · rename_i h
    rw [absQ_eq, not_le] at h
    simpa using h

/-! ### rounding to an integer -/

theorem rne_err (r : ℚ) : |((rne r : ℤ) : ℚ) - r| ≤ 1 / 2 := by
  have h1 := Rat.floor_le r
  have h2 := Rat.lt_floor_add_one r
  push_cast at h2
  unfold rne
  simp only
  rw [abs_le]
  split
  · constructor <;> linarith
  · split
    · push_cast; constructor <;> linarith
    · split
      · constructor <;> linarith
      · push_cast; constructor <;> linarith

theorem rne_intCast (n : ℤ) : rne (n : ℚ) = n := by
  unfold rne
  simp only [Rat.floor_intCast, sub_self]
  norm_num

/-! ### rounding to a double -/

theorem ulp_pos (x : ℚ) : 0 < ulp x := pow2_pos _

theorem round_err (x : ℚ) : |round x - x| ≤ ulp x / 2 := by
  unfold round
  split
  · subst x
    have := ulp_pos 0
    rw [sub_self, abs_zero]; linarith
  · have hq := ulp_pos x
    have h := rne_err (x / ulp x)
    have e : ((rne (x / ulp x) : ℤ) : ℚ) * ulp x - x = (((rne (x / ulp x) : ℤ) : ℚ) - x / ulp x) * ulp x := by
      field_simp
    rw [e, abs_mul, abs_of_pos hq]
    calc |((rne (x / ulp x) : ℤ) : ℚ) - x / ulp x| * ulp x ≤ 1 / 2 * ulp x :=
          mul_le_mul_of_nonneg_right h hq.le
      _ = ulp x / 2 := by ring

/-- half a unit in the last place: relative 2^-53 in the normal range, 2^-1075 below. -/
theorem half_ulp_le (x : ℚ) (hx : x ≠ 0) : ulp x / 2 ≤ |x| / 2 ^ 53 + 1 / 2 ^ 1075 := by
  unfold ulp
  have hl := ilog2_le x hx
  rcases le_total (ilog2 x) emin with h | h
  · rw [max_eq_right h]
    have : pow2 (emin - 52) / 2 = 1 / 2 ^ 1075 := by
      rw [pow2_eq, show emin - 52 = -((1074 : ℕ) : ℤ) by decide, zpow_neg, zpow_natCast,
        show (2 : ℚ) ^ 1075 = 2 ^ 1074 * 2 from pow_succ 2 1074]
      field_simp
    rw [this]
    have : 0 ≤ |x| / 2 ^ 53 := by positivity
    linarith
  · rw [max_eq_left h]
    have e : pow2 (ilog2 x - 52) / 2 = pow2 (ilog2 x) / 2 ^ 53 := by
      rw [show ilog2 x - 52 = ilog2 x + (-52) by ring, pow2_add, pow2_eq (-52)]
      norm_num
      ring
    rw [e]
    have : pow2 (ilog2 x) / 2 ^ 53 ≤ |x| / 2 ^ 53 := by
      apply div_le_div_of_nonneg_right hl (by positivity)
    have : (0 : ℚ) ≤ 1 / 2 ^ 1075 := by positivity
    linarith

theorem round_zero : round 0 = 0 := by simp [round]

theorem round_err' (x : ℚ) : |round x - x| ≤ |x| / 2 ^ 53 + 1 / 2 ^ 1075 := by
  by_cases hx : x = 0
  · subst hx; rw [round_zero]; simp
  · exact le_trans (round_err x) (half_ulp_le x hx)

/-- the form used by the error analysis: magnitude at most `B` ⇒ rounding error at most `(B+1)·2^-53`. -/
theorem round_bound (x B : ℚ) (h : |x| ≤ B) : |round x - x| ≤ (B + 1) / 2 ^ 53 := by
  have h1 := round_err' x
  have h2 : |x| / 2 ^ 53 ≤ B / 2 ^ 53 := div_le_div_of_nonneg_right h (by positivity)
  have h3 : (1 : ℚ) / 2 ^ 1075 ≤ 1 / 2 ^ 53 := by
    apply one_div_le_one_div_of_le (by positivity)
    exact pow_le_pow_right₀ (by norm_num) (by norm_num)
  calc |round x - x| ≤ |x| / 2 ^ 53 + 1 / 2 ^ 1075 := h1
    _ ≤ B / 2 ^ 53 + 1 / 2 ^ 53 := by linarith
    _ = (B + 1) / 2 ^ 53 := by ring

/-- a value on the grid of its own binade is a double. -/
theorem round_of_grid (x : ℚ) (m : ℤ) (h : x / ulp x = (m : ℚ)) : round x = x := by
  unfold round
  split
  · exact ‹x = 0›.symm
  · rw [h, rne_intCast, ← h]
    field_simp [(ulp_pos x).ne']

/-- **every integer of magnitude at most 2^53 is a double.** -/
theorem round_intCast (n : ℤ) (h1 : -(2 ^ 53) ≤ n) (h2 : n ≤ 2 ^ 53) : round (n : ℚ) = n := by
  by_cases hn : n = 0
  · subst hn; simp [round_zero]
  have hx : (n : ℚ) ≠ 0 := by exact_mod_cast hn
  have habs : |(n : ℚ)| ≤ 2 ^ 53 := by
    rw [abs_le]; constructor
    · exact_mod_cast h1
    · exact_mod_cast h2
  have hl := ilog2_le (n : ℚ) hx
  -- the exponent of the spacing is at most 1
  have he : ilog2 (n : ℚ) ≤ 53 := by
    have : pow2 (ilog2 (n : ℚ)) ≤ pow2 53 := by
      rw [pow2_eq 53]; norm_num; linarith
    exact pow2_le_iff.mp this
  set k := max (ilog2 (n : ℚ)) emin - 52 with hk
  have hk1 : k ≤ 1 := by
    have : emin ≤ 53 := by decide
    omega
  rcases lt_or_ge k 1 with hlt | hge
  · -- spacing 2^k with k ≤ 0 divides every integer
    have hk0 : 0 ≤ -k := by omega
    obtain ⟨j, hj⟩ := Int.eq_ofNat_of_zero_le hk0
    apply round_of_grid (n : ℚ) (n * 2 ^ j)
    unfold ulp
    rw [← hk, show k = -(j : ℤ) by omega, pow2_eq, zpow_neg, zpow_natCast]
    push_cast
    field_simp
  · -- k = 1: |n| = 2^53, an even number
    have hk' : k = 1 := by omega
    have hi : ilog2 (n : ℚ) = 53 := by
      have : emin = -1022 := rfl
      omega
    rw [hi, pow2_eq] at hl
    have hn53 : |(n : ℚ)| = 2 ^ 53 := le_antisymm habs (by simpa using hl)
    have : (n : ℚ) = 2 ^ 53 ∨ (n : ℚ) = -(2 ^ 53) := by
      rcases abs_cases (n : ℚ) with ⟨e, _⟩ | ⟨e, _⟩
      · left; linarith
      · right; linarith
    rcases this with e | e
    · apply round_of_grid (n : ℚ) (2 ^ 52)
      unfold ulp
      rw [← hk, hk', pow2_eq, e]; norm_num
    · apply round_of_grid (n : ℚ) (-(2 ^ 52))
      unfold ulp
      rw [← hk, hk', pow2_eq, e]; norm_num

/-- `rne r` is a NEAREST integer … -/
theorem rne_nearest (r : ℚ) (m : ℤ) : |((rne r : ℤ) : ℚ) - r| ≤ |(m : ℚ) - r| := by
  have h1 := Rat.floor_le r
  have h2 := Rat.lt_floor_add_one r
  push_cast at h2
  -- the distance of any integer from r is at least min(d, 1 - d)
  have hm : (m : ℚ) ≤ r.floor ∨ (r.floor : ℚ) + 1 ≤ m := by
    rcases le_or_gt m r.floor with h | h
    · left; exact_mod_cast h
    · right; exact_mod_cast h
  have key : ∀ y : ℚ, (y = r.floor ∧ r - r.floor ≤ 1 / 2) ∨ (y = r.floor + 1 ∧ 1 / 2 ≤ r - r.floor) →
      |y - r| ≤ |(m : ℚ) - r| := by
    intro y hy
    rw [abs_le]
    rcases hy with ⟨rfl, hd⟩ | ⟨rfl, hd⟩ <;> rcases hm with hm | hm
    · rw [abs_of_nonpos (by linarith)]; constructor <;> linarith
    · rw [abs_of_nonneg (by linarith)]; constructor <;> linarith
    · rw [abs_of_nonpos (by linarith)]; constructor <;> linarith
    · rw [abs_of_nonneg (by linarith)]; constructor <;> linarith
  apply key
  unfold rne
  simp only
  split
  · left; exact ⟨rfl, by linarith⟩
  · split
    · right; exact ⟨by push_cast; rfl, by linarith⟩
    · have hd : r - r.floor = 1 / 2 := le_antisymm (not_lt.mp ‹_›) (not_lt.mp ‹_›)
      split
      · left; exact ⟨rfl, by linarith⟩
      · right; exact ⟨by push_cast; rfl, by linarith⟩

/-- … and on a tie it is the EVEN one. -/
theorem rne_tie_even (r : ℚ) (h : r - r.floor = 1 / 2) : rne r % 2 = 0 := by
  unfold rne
  simp only [h]
  norm_num
  split
  · assumption
  · omega

/-- `round x` lies on the grid `ulp x · ℤ` of doubles of the binade of `x` … -/
theorem round_on_grid (x : ℚ) : ∃ m : ℤ, round x = (m : ℚ) * ulp x := by
  unfold round
  split
  · exact ⟨0, by simp⟩
  · exact ⟨_, rfl⟩

/-- … and no grid point is nearer to `x`: **`round` is IEEE-754 round-to-nearest** (ties to even by
    `rne_tie_even`). -/
theorem round_nearest (x : ℚ) (m : ℤ) : |round x - x| ≤ |(m : ℚ) * ulp x - x| := by
  unfold round
  split
  · subst x; simp only [sub_self, abs_zero]; exact abs_nonneg _
  · have hq := ulp_pos x
    have h := rne_nearest (x / ulp x) m
    have e1 : ((rne (x / ulp x) : ℤ) : ℚ) * ulp x - x = (((rne (x / ulp x) : ℤ) : ℚ) - x / ulp x) * ulp x := by
      field_simp
    have e2 : (m : ℚ) * ulp x - x = ((m : ℚ) - x / ulp x) * ulp x := by
      field_simp
    rw [e1, e2, abs_mul, abs_mul, abs_of_pos hq]
    exact mul_le_mul_of_nonneg_right h hq.le

/-! ### overflow -/

theorem maxFinite_ge : (2 : ℚ) ^ 1000 ≤ maxFinite := by
  unfold maxFinite
  rw [pow2_eq]
  have e : (2 : ℚ) ^ 1000 = 2 ^ 29 * 2 ^ 971 := by rw [← pow_add]
  have e2 : (2 : ℚ) ^ (971 : ℤ) = 2 ^ 971 := by rw [← zpow_natCast]; rfl
  rw [e, e2]
  apply mul_le_mul_of_nonneg_right _ (by positivity)
  norm_num

theorem finiteQ_of_le (r : ℚ) (h : |r| ≤ 2 ^ 1000) : finiteQ r = true := by
  unfold finiteQ
  rw [decide_eq_true_eq, absQ_eq]
  exact le_trans h maxFinite_ge

/-- rounding keeps a magnitude bound up to the relative error (crude: below `2·B + 1`). -/
theorem abs_round_le (x B : ℚ) (h : |x| ≤ B) : |round x| ≤ B + (B + 1) / 2 ^ 53 := by
  have h1 := round_bound x B h
  have : |round x| ≤ |x| + |round x - x| := by
    have := abs_add_le x (round x - x)
    simpa using this
  linarith

end ChessVerif.IEEE
