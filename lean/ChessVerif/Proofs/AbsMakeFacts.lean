/-
  C02 core, groundwork: what is known about a *generated* move `m` of a *valid* position `b`
  (`GenMove b m`), and the agreement between the rule book's classification of the decoded move
  (`Rules.isEnPassant`, `Rules.isCastling`, the man placed on the destination) and the engine's own
  (`Board.isEnPassant`, the castling table `hop`, `mvPut`).
-/
import ChessVerif.Proofs.BridgePL
import ChessVerif.Proofs.BridgeUpd
import ChessVerif.Proofs.MakeUndoPseudo
import ChessVerif.Proofs.MakeUndoNested

namespace ChessVerif.AbsMake
open ChessVerif Board Rules Bridge

/-- the facts about a generated move of a valid position that the C02/C01 proofs use. -/
structure GenMove (b : Board) (m : Move) : Prop where
  hv : Board.valid b = true
  hw : WF b
  ok : MakeOK b m
  lt : m < 32768
  pl : Rules.pseudoLegal (abs b) (decodeMove m) = true
  enc : encodeMove (decodeMove m) = m
  rl : RLk (abs b) (b.pieceAt (Move.src m)) (decodeMove m) = true

theorem genMove_of {b : Board} {m : Move} (hv : Board.valid b = true) (hm : m ∈ MoveGen.gen b) : GenMove b m := by
  obtain ⟨hlt, hpl, henc⟩ := (gen_iff_pseudoLegal hv m).1 hm
  have hd := PL.PLDomain_of_valid hv
  have hipl : b.isPseudoLegal m = true :=
    (PL.isPseudoLegal_iff_PL hd m).2 ((PL.gen_iff_PL hd m).1 hm).2
  have hw := WFP_of_valid hv
  have hk := (pseudoLegal_iff_kind hw (decodeMove m) (src_lt m) (dst_lt m)).1 hpl
  exact ⟨hv, hw, isPseudoLegal_makeOK hv hipl, hlt, hpl, henc, hk.2.2⟩

/-- the pawn clause of the rule book in propositional form. -/
theorem pawn_clause_cases {p : Pos} {mv : Mv} (h : RLk p .pawn mv = true) :
    (file mv.dst - file mv.src = 0 ∧ rank mv.dst - rank mv.src = up p.turn ∧ p.empty mv.dst = true) ∨
    (file mv.dst - file mv.src = 0 ∧ rank mv.dst - rank mv.src = 2 * up p.turn ∧
        rank mv.src = homeRank p.turn + up p.turn ∧ p.empty mv.dst = true) ∨
    ((file mv.dst - file mv.src).natAbs = 1 ∧ rank mv.dst - rank mv.src = up p.turn ∧
        (p.hasColor mv.dst p.turn.flip = true ∨ p.ep = some mv.dst)) := by
  unfold RLk at h
  simp only [Bool.and_eq_true, Bool.or_eq_true, beq_iff_eq] at h
  rcases h.2 with (h1 | h2) | h3
  · exact Or.inl ⟨h1.1.1, h1.1.2, h1.2⟩
  · exact Or.inr (Or.inl ⟨h2.1.1.1.1, h2.1.1.1.2, h2.1.1.2, h2.1.2⟩)
  · exact Or.inr (Or.inr ⟨h3.1.1, h3.1.2, h3.2⟩)

theorem captureSq_eq_dst {b : Board} {m : Move} (h : b.isEnPassant m = false) : b.captureSq m = Move.dst m := by
  unfold captureSq; simp [h]

theorem captureSq_eq_ep {b : Board} {m : Move} (h : b.isEnPassant m = true) :
    b.captureSq m = 8 * (Move.src m / 8) + Move.dst m % 8 := by
  unfold captureSq; simp [h]; omega

theorem file_diff_two : ∀ s d : Nat, (s = 4 ∧ d = 6) ∨ (s = 4 ∧ d = 2) ∨ (s = 60 ∧ d = 62) ∨ (s = 60 ∧ d = 58) →
    (Rules.file d - Rules.file s).natAbs = 2 := by
  rintro s d (⟨rfl, rfl⟩ | ⟨rfl, rfl⟩ | ⟨rfl, rfl⟩ | ⟨rfl, rfl⟩) <;> decide

/-- the man `Rules.applyCore` puts on the destination square. -/
def placedOf (p : Pos) (mv : Mv) : Option Man :=
  match mv.promo with | some q => some (p.turn, q) | none => p.at_ mv.src

section facts
variable {b : Board} {m : Move} (g : GenMove b m)
include g

theorem GenMove.rv : Rules.valid (abs b) = true := rulesValid_of_valid g.hv

theorem GenMove.src_man : (abs b).at_ (Move.src m) = some (b.stm, b.pieceAt (Move.src m)) :=
  abs_at_of_color g.hw _ _ g.ok.own_src

theorem GenMove.piece_ne : b.pieceAt (Move.src m) ≠ Piece.none :=
  (chain_of b.manAt b m g.hw.rep g.ok).piece_ne

theorem GenMove.has_src (k : Piece) :
    (abs b).has (Move.src m) b.stm k = true ↔ b.pieceAt (Move.src m) = k := by
  rw [Bridge.abs_has g.hw]
  exact ⟨fun h => h.2, fun h => ⟨g.ok.own_src, h⟩⟩

/-- the man on the origin square has the colour of the side to move only. -/
theorem GenMove.has_src_color (c : Color) (k : Piece) :
    (abs b).has (Move.src m) c k = true ↔ c = b.stm ∧ b.pieceAt (Move.src m) = k := by
  rw [has_iff_at, g.src_man]
  constructor
  · intro h; injection h with h; injection h with h1 h2; exact ⟨h1.symm, h2⟩
  · rintro ⟨rfl, rfl⟩; rfl

/-! ### en passant -/

/-- a pawn that moves onto the recorded en-passant square changes file (it cannot be a push: the
    square behind the target holds the enemy pawn, and a double push ends on the wrong rank). -/
theorem ep_file_ne (hp : b.pieceAt (Move.src m) = Piece.pawn) (hep : b.ep ≠ 0) (hd : b.ep = Move.dst m) :
    Rules.file (Move.src m) ≠ Rules.file (Move.dst m) := by
  have hrl := g.rl
  rw [hp] at hrl
  obtain ⟨hlt, _, hwhite, hblack⟩ := ep_facts g.hw g.rv hep
  have hs := src_lt m
  have hdl := dst_lt m
  have hown := g.ok.own_src
  intro hfe
  rcases pawn_clause_cases hrl with h | h | h
  · obtain ⟨_, hr, _⟩ := h
    simp only [decodeMove_src, decodeMove_dst, abs_turn] at hr
    cases hstm : b.stm
    · obtain ⟨_, hb, _⟩ := hwhite hstm
      have : Move.src m = b.ep - 8 := by
        rw [hstm] at hr; simp only [Rules.file, Rules.rank, up] at hr hfe; omega
      rw [← this] at hb; rw [hstm] at hown
      exact g.hw.disj_at _ ⟨hown, hb⟩
    · obtain ⟨_, hb, _⟩ := hblack hstm
      have : Move.src m = b.ep + 8 := by
        rw [hstm] at hr; simp only [Rules.file, Rules.rank, up] at hr hfe; omega
      rw [← this] at hb; rw [hstm] at hown
      exact g.hw.disj_at _ ⟨hb, hown⟩
  · obtain ⟨_, hr, hr2, _⟩ := h
    simp only [decodeMove_src, decodeMove_dst, abs_turn] at hr hr2
    cases hstm : b.stm
    · obtain ⟨h5, _⟩ := hwhite hstm
      rw [hstm] at hr hr2; simp only [Rules.rank, up, homeRank] at hr hr2; omega
    · obtain ⟨h5, _⟩ := hblack hstm
      rw [hstm] at hr hr2; simp only [Rules.rank, up, homeRank] at hr hr2; omega
  · obtain ⟨hf, _⟩ := h
    simp only [decodeMove_src, decodeMove_dst] at hf
    rw [hfe] at hf; simp at hf

/-- the rule book and the engine agree on which generated moves are en-passant captures. -/
theorem isEnPassant_eq : Rules.isEnPassant (abs b) (decodeMove m) = b.isEnPassant m := by
  rw [Bool.eq_iff_iff]
  unfold Rules.isEnPassant Board.isEnPassant
  simp only [decodeMove_src, decodeMove_dst, abs_turn, Bool.and_eq_true, beq_iff_eq, bne_iff_ne, ne_eq]
  rw [g.has_src, abs_ep_eq_some]
  constructor
  · rintro ⟨⟨⟨hp, h0, he⟩, _⟩, _⟩
    exact ⟨⟨h0, he.symm⟩, hp⟩
  · rintro ⟨⟨h0, he⟩, hp⟩
    refine ⟨⟨⟨hp, h0, he.symm⟩, decide_eq_true (ep_file_ne g hp h0 he)⟩, ?_⟩
    have hep : b.isEnPassant m = true := by
      unfold Board.isEnPassant
      simp only [Bool.and_eq_true, beq_iff_eq, bne_iff_ne, ne_eq]
      exact ⟨⟨h0, he⟩, hp⟩
    have hn := g.ok.ep_dst_empty hep
    rw [abs_empty_iff']
    cases ho : b.occ.getLsbD (Move.dst m)
    · rfl
    · exact absurd hn ((WFP.occ_iff g.hw _ (dst_lt m)).1 ho)

/-! ### castling -/

/-- a generated king move over two files is one of the four castling moves of the engine's table. -/
theorem isCastling_eq :
    Rules.isCastling (abs b) (decodeMove m) = (hop (b.pieceAt (Move.src m)) m).isSome := by
  rw [Bool.eq_iff_iff]
  unfold Rules.isCastling
  simp only [decodeMove_src, decodeMove_dst, abs_turn, Bool.and_eq_true, beq_iff_eq]
  rw [g.has_src]
  constructor
  · rintro ⟨hk, hdf⟩
    have hrl := g.rl
    rw [hk] at hrl
    unfold RLk at hrl
    simp only [Bool.and_eq_true, Bool.or_eq_true] at hrl
    have hc : castlingOK (abs b) (decodeMove m) = true := by
      rcases hrl.2 with h | h
      · exfalso
        unfold manAttacks at h
        simp only [decodeMove_src, decodeMove_dst, beq_iff_eq] at h
        omega
      · exact h
    unfold hop
    rw [if_pos hk]
    cases hstm : b.stm
    · have := (castlingOK_white_iff (abs b) (decodeMove m) hstm).1 hc
      simp only [decodeMove_src, decodeMove_dst] at this
      obtain ⟨h4, h | h⟩ := this
      · simp [h4, h.1]
      · simp [h4, h.1]
    · have := (castlingOK_black_iff (abs b) (decodeMove m) hstm).1 hc
      simp only [decodeMove_src, decodeMove_dst] at this
      obtain ⟨h4, h | h⟩ := this
      · simp [h4, h.1]
      · simp [h4, h.1]
  · intro h
    rw [Option.isSome_iff_exists] at h
    obtain ⟨⟨rf, rt⟩, hh⟩ := h
    obtain ⟨hk, hc⟩ := hop_some hh
    refine ⟨hk, file_diff_two _ _ ?_⟩
    rcases hc with h | h | h | h
    · exact Or.inl ⟨h.1, h.2.1⟩
    · exact Or.inr (Or.inl ⟨h.1, h.2.1⟩)
    · exact Or.inr (Or.inr (Or.inl ⟨h.1, h.2.1⟩))
    · exact Or.inr (Or.inr (Or.inr ⟨h.1, h.2.1⟩))

/-! ### the man placed on the destination -/

theorem placed_eq : placedOf (abs b) (decodeMove m) = man b.stm (mvPut b m) := by
  unfold placedOf
  simp only [decodeMove_promo, decodeMove_src, abs_turn]
  unfold mvPut
  by_cases hp : Move.promo m = 0
  · rw [hp]
    simp only [decPromo, ne_eq, not_true_eq_false, if_false]
    rw [g.src_man, man_of_ne g.piece_ne]
  · obtain ⟨_, h2, h5⟩ := g.ok.promo hp
    rw [if_pos hp]
    have : Move.promo m = 2 ∨ Move.promo m = 3 ∨ Move.promo m = 4 ∨ Move.promo m = 5 := by omega
    rcases this with h | h | h | h <;> rw [h] <;> rfl

end facts

end ChessVerif.AbsMake
