/-
  Score range, quiescence part — the development of Proofs/SearchScoreQ.lean GUARDED BY THE GHOST FLAG
  `St.ttOut` instead of `St.nmpOut`.

  `ttOut` is raised at the five table-store sites of the skeleton when the value handed to `tt.Insert`
  at `ply` is not ply-consistent (`ttBad ply v`, i.e. `¬ RelP ply v`).  So a run whose flag is down at
  the end is exactly a run in which NO out-of-band value was stored — the weakest run-level hypothesis
  under which the table law `ScoreLaws.tt_store` keeps the table predicate.  With that guard the range
  statements need not track ply-consistency of VALUES any more (the `RelP ply` of `QRange` / `ABRange`
  was there only to feed `tt_store`): plain `InR` (within `±Inf`) suffices for the window arithmetic,
  and at each store site `RelP ply v` is read off the flag (`relP_of_not_bad`).

  The `nmpOut`-guarded development (SearchScoreQ/AB/Root/Go/Free, SearchFinalFree) stays: the
  hypothesis-free theorems for components with the null-move guard (`NmpFloor`) are derived from it, and
  it proves that `nmpOut = false` implies `ttOut = false` (`go_free_ttOut`), i.e. that the hypothesis
  used here is the weaker one.  The flag lemmas (`flagTT_false`, `relP_of_not_bad`, `abort_ttOut`, …)
  are in Proofs/SearchScoreLaws.lean.
-/
import ChessVerif.Proofs.SearchScoreAB

namespace ChessVerif
namespace Search

variable {σ π : Type} [PsInv σ]

/-- the table predicate as far as it can be known: the persistent state satisfies the invariant of the
    component laws (unconditionally), and — unless an out-of-band value has been stored — the table
    predicate. -/
def TTA2 (TTok : σ → Prop) (s : St σ) : Prop := PsInv.ok s.ps ∧ (s.ttOut = false → TTok s.ps)

theorem TTA2.congr {TTok : σ → Prop} {s s' : St σ} (hps : s'.ps = s.ps) (ha : s'.ttOut = s.ttOut)
    (h : TTA2 TTok s) : TTA2 TTok s' :=
  ⟨by rw [hps]; exact h.1, fun h' => by rw [hps]; exact h.2 (by rw [← ha]; exact h')⟩

theorem inR_max {a b : Int} (ha : InR a) (hb : InR b) : InR (max a b) := by
  unfold InR at *; omega

/-! ### quiescence -/

/-- what a quiescence-like function guarantees about scores, guarded by `ttOut`: window and table
    hypotheses are needed only while `ttOut = false`, the conclusions hold when the state returned has
    `ttOut = false`. -/
def QRange2 (Good : Board → Prop) (TTok : σ → Prop) (μ : Board → Nat)
    (child : Score → Score → Int → St σ → Score × St σ) : Prop :=
  ∀ a b p s, Good s.board → 0 ≤ p → p + (μ s.board : Int) ≤ 111 → (s.ttOut = false → WinOK a b) → TTA2 TTok s →
    TTA2 TTok (child a b p s).2 ∧
      ((child a b p s).2.aborted = false → (child a b p s).2.ttOut = false → InR (child a b p s).1)

/-- the running values of the quiescence loop stay workable. -/
def QInv2 (l : QLoop) : Prop := -32767 ≤ l.alpha ∧ l.alpha ≤ 10000 ∧ InR l.maxim

theorem qAfter_range2 (c : Comp σ π) (L : Limits) {Good : Board → Prop} {TTok : σ → Prop} {μ : Board → Nat}
    (hlw : Laws c Good) (sl : ScoreLaws c Good TTok μ) (beta : Score) (ply : Int) (m : Move) (r : Board.Reverse)
    (l : QLoop) (v : Score) (s : St σ) (hp0 : 0 ≤ ply) (hp1 : ply ≤ 126) (htt : TTA2 TTok s)
    (hgb : Good (s.board.undoMove m r)) (hmb : m ∈ MoveGen.gen (s.board.undoMove m r))
    (hv : s.aborted = false → s.ttOut = false → InR v) (hl : s.ttOut = false → QInv2 l) :
    let o := qAfter c L beta ply m r l v s
    TTA2 TTok o.2 ∧ (∀ x, o.1 = .ret x → o.2.aborted = false → o.2.ttOut = false → InR x) ∧
      (∀ l', o.1 = .cont l' → o.2.ttOut = false → QInv2 l') := by
  simp only [qAfter]
  have hps := abort_ps L (s.setBoard (s.board.undoMove m r))
  have han : (abort L (s.setBoard (s.board.undoMove m r))).2.ttOut = s.ttOut := abort_ttOut L _
  have hfa := @abort_false σ _ L (s.setBoard (s.board.undoMove m r))
  have hat := abort_true_iff L (s.setBoard (s.board.undoMove m r))
  have hbd : (abort L (s.setBoard (s.board.undoMove m r))).2.board = s.board.undoMove m r :=
    (abort_frame L (s.setBoard (s.board.undoMove m r))).board
  generalize abort L (s.setBoard (s.board.undoMove m r)) = as at hps han hfa hat hbd ⊢
  have htt' : TTA2 TTok as.2 := htt.congr hps han
  split
  · next hab =>
    refine ⟨htt', fun x _ hna => ?_, (fun l' h => by cases h)⟩
    rw [← hat, hab] at hna; cases hna
  · next hab =>
    have hab' : as.1 = false := by simpa using hab
    have hsab : s.aborted = false := by simpa using (hfa hab').2
    have hvp : s.ttOut = false → InR (neg v) := fun hA => neg_inR (hv hsab hA)
    split
    · have hok := hlw.ok_store as.2.ps as.2.board 0 ply m (neg v) .lower htt'.1 (by rw [hbd]; exact hgb)
        (Or.inr (by rw [hbd]; exact hmb))
      refine ⟨⟨hok, fun hA => ?_⟩, fun x hx _ hA => ?_, (fun l' h => by cases h)⟩
      · obtain ⟨hA', hbad⟩ := flagTT_false hA
        have hA'' : as.2.ttOut = false := hA'
        exact sl.tt_store _ _ _ _ _ _ _ (htt'.2 hA'') hp0 (by omega) (relP_of_not_bad hbad) hok
      · cases hx
        have hA' : as.2.ttOut = false := (flagTT_false hA).1
        exact hvp (by rw [← han]; exact hA')
    · refine ⟨htt', (fun x h => by cases h), fun l' h hA => ?_⟩
      cases h
      have hAs : s.ttOut = false := by rw [← han]; exact hA
      obtain ⟨h1, h2, h3⟩ := hl hAs
      have hvr : InR (neg v) := hvp hAs
      exact ⟨le_max_of h1, max_le_of h2 hvr.2, inR_max h3 hvr⟩

theorem qLoop_range2 (c : Comp σ π) (L : Limits) {Good : Board → Prop} {TTok : σ → Prop} {μ : Board → Nat}
    (hl : Laws c Good) (sl : ScoreLaws c Good TTok μ)
    (child : Score → Score → Int → St σ → Score × St σ) (hc : QSpec L Good child) (hr : QRange2 Good TTok μ child)
    (beta sp : Score) (ply : Int) (hp0 : 0 ≤ ply) :
    ∀ (moves : List (Move × Score)) (l : QLoop) (s : St σ), Good s.board → s.board.fifty < 100 →
      (∀ mw ∈ moves, mw.1 ∈ MoveGen.gen s.board ∧ μ (s.board.makeMove c.keys mw.1).1 < μ s.board) →
      ply + (μ s.board : Int) ≤ 111 → TTA2 TTok s →
      (s.ttOut = false → -10000 ≤ beta ∧ beta ≤ 32767 ∧ QInv2 l) →
      let o := qLoop c L child beta sp ply moves l s
      TTA2 TTok o.2 ∧ (∀ x, o.1 = .ret x → o.2.aborted = false → o.2.ttOut = false → InR x) ∧
        (∀ l', o.1 = .done l' → o.2.ttOut = false → QInv2 l') := by
  intro moves
  induction moves with
  | nil =>
    intro l s _ _ _ _ htt hq
    exact ⟨htt, (fun x h => by cases h), fun l' h hA => by cases h; exact (hq hA).2.2⟩
  | cons mw rest ih =>
    intro l s hg hfl hm hpl htt hq
    obtain ⟨m, w⟩ := mw
    have hmem : m ∈ MoveGen.gen s.board := (hm (m, w) List.mem_cons_self).1
    have hmu : μ (s.board.makeMove c.keys m).1 < μ s.board := (hm (m, w) List.mem_cons_self).2
    have hrest : ∀ mw ∈ rest, mw.1 ∈ MoveGen.gen s.board ∧ μ (s.board.makeMove c.keys mw.1).1 < μ s.board :=
      fun mw h => hm mw (List.mem_cons_of_mem _ h)
    have hu := hl.undo_make s.board m hg hmem
    have hdone : TTA2 TTok s ∧ (∀ x, (Flow.done l : Flow QLoop) = .ret x → s.aborted = false → s.ttOut = false → InR x) ∧
        (∀ l', (Flow.done l : Flow QLoop) = .done l' → s.ttOut = false → QInv2 l') :=
      ⟨htt, (fun x h => by cases h), fun l' h hA => by cases h; exact (hq hA).2.2⟩
    simp only [qLoop]
    split
    · exact hdone
    · split
      · rw [hu, setBoard_self]; exact ih l s hg hfl hrest hpl htt hq
      · next hchk =>
        split
        · rw [hu, setBoard_self]; exact hdone
        · have hchk' : (s.board.makeMove c.keys m).1.inCheck s.board.stm = false := by simpa using hchk
          have hg' := hl.good_make s.board m hg hfl hmem hchk'
          have hw : wrapS8 (ply + 1) = ply + 1 := by unfold wrapS8; omega
          have hwin : s.ttOut = false → WinOK (neg beta) (neg l.alpha) := fun hA => by
            obtain ⟨hb1, hb2, hqi⟩ := hq hA
            exact winOK_full hqi.1 hqi.2.1 hb1 hb2
          have hcs := hc (neg beta) (neg l.alpha) (wrapS8 (ply + 1)) (s.setBoard (s.board.makeMove c.keys m).1) hg' htt.1
          have hrs := hr (neg beta) (neg l.alpha) (wrapS8 (ply + 1)) (s.setBoard (s.board.makeMove c.keys m).1) hg'
            (by rw [hw]; omega) (by rw [hw]; simp only [setBoard_board]; omega) hwin htt
          generalize child (neg beta) (neg l.alpha) (wrapS8 (ply + 1)) (s.setBoard (s.board.makeMove c.keys m).1) = r at hcs hrs ⊢
          have hub : r.2.board.undoMove m (s.board.makeMove c.keys m).2 = s.board := by
            rw [hcs.1.board]; simpa using hu
          have hback : r.2.ttOut = false → s.ttOut = false := fun h => hcs.1.mono.t_back h
          have ha := qAfter_spec c L hl beta ply m (s.board.makeMove c.keys m).2 l r.1 r.2
            (by rw [hub]; exact hg) (by rw [hub]; exact hmem)
          have har := qAfter_range2 c L hl sl beta ply m (s.board.makeMove c.keys m).2 l r.1 r.2 hp0 (by omega) hrs.1
            (by rw [hub]; exact hg) (by rw [hub]; exact hmem) hrs.2 (fun hA => (hq (hback hA)).2.2)
          simp only at ha har
          generalize qAfter c L beta ply m (s.board.makeMove c.keys m).2 l r.1 r.2 = o at ha har ⊢
          obtain ⟨hm1, hb1', _, _, _, hnb⟩ := ha
          obtain ⟨htt', hret, hcont⟩ := har
          have hboard : o.2.board = s.board := by
            rw [hb1', hcs.1.board]; simpa using hu
          have hback2 : o.2.ttOut = false → s.ttOut = false := fun h => hback (hm1.t_back h)
          obtain ⟨st, s'⟩ := o
          cases st with
          | ret x =>
            refine ⟨htt', fun y hy hna hA => ?_, (fun l' h => by cases h)⟩
            have : x = y := by simpa using hy
            subst this; exact hret x rfl hna hA
          | brk l' => exact absurd rfl (hnb l')
          | cont l' =>
            simp only at hboard htt' hback2 hcont ⊢
            exact ih l' s' (by rw [hboard]; exact hg) (by rw [hboard]; exact hfl) (by rw [hboard]; exact hrest)
              (by rw [hboard]; exact hpl) htt'
              (fun hA => ⟨(hq (hback2 hA)).1, (hq (hback2 hA)).2.1, hcont l' rfl hA⟩)

theorem ttCut_inR {e : TTHit} {a b v : Score} (he : InR e.value) (h : ttCut e a b = some v) : InR v := by
  unfold ttCut at h
  split at h
  · cases h; exact he
  · split at h
    · cases h; exact he
    · cases h
  · split at h
    · cases h; exact he
    · cases h

theorem qBody_range2 (c : Comp σ π) (L : Limits) {Good : Board → Prop} {TTok : σ → Prop} {μ : Board → Nat}
    (hl : Laws c Good) (sl : ScoreLaws c Good TTok μ)
    (child : Score → Score → Int → St σ → Score × St σ) (hc : QSpec L Good child) (hr : QRange2 Good TTok μ child)
    (alpha beta : Score) (ply : Int) (hp0 : 0 ≤ ply) (s : St σ) (hw : s.ttOut = false → WinOK alpha beta)
    (hg : Good s.board)
    (hfl : s.board.fifty < 100) (hpl : ply + (μ s.board : Int) ≤ 111) (htt : TTA2 TTok s) :
    let o := qBody c L child alpha beta ply s
    TTA2 TTok o.2 ∧ (o.2.aborted = false → o.2.ttOut = false → InR o.1) := by
  simp only [qBody]
  split
  · next v hcut =>
    refine ⟨htt, fun _ hA => ?_⟩
    split at hcut
    · next e he => exact ttCut_inR ((sl.tt_probe _ _ _ _ (htt.2 hA) hp0 (by omega) he).inR hp0) hcut
    · cases hcut
  · split
    · exact ⟨htt, fun _ _ => inR_mate hp0 (by omega)⟩
    · split
      · exact ⟨htt, fun _ _ => inR_zero⟩
      · have hse := inR_eval c s.board
        split
        · exact ⟨htt, fun _ _ => hse⟩
        · have hq0 : s.ttOut = false → -10000 ≤ beta ∧ beta ≤ 32767 ∧
              QInv2 { alpha := max alpha (evaluate c s.board), maxim := evaluate c s.board } := fun hA => by
            obtain ⟨hw1, hw2, hw3, hw4⟩ := hw hA
            exact ⟨hw3, hw4, le_max_of hw1, max_le_of hw2 hse.2, hse⟩
          have h := qLoop_range2 c L hl sl child hc hr beta (evaluate c s.board) ply hp0
            (c.qMoves s.ps s.board s.hstack)
            { alpha := max alpha (evaluate c s.board), maxim := evaluate c s.board } s.pushFrame hg hfl
            (fun mw hmw => ⟨hl.q_mem s.ps s.board s.hstack mw.1 mw.2 hg hmw,
              sl.q_measure s.ps s.board s.hstack mw.1 mw.2 hg hmw⟩) hpl htt hq0
          have hfs := (qLoop_spec c L hl child hc beta (evaluate c s.board) ply (c.qMoves s.ps s.board s.hstack)
            { alpha := max alpha (evaluate c s.board), maxim := evaluate c s.board } s.pushFrame hg ⟨htt.1, hfl⟩
            (fun mw hmw => hl.q_mem s.ps s.board s.hstack mw.1 mw.2 hg hmw)).1.board
          simp only at h
          generalize qLoop c L child beta (evaluate c s.board) ply (c.qMoves s.ps s.board s.hstack)
            { alpha := max alpha (evaluate c s.board), maxim := evaluate c s.board } s.pushFrame = r at h hfs ⊢
          obtain ⟨htt', hret, hdone⟩ := h
          obtain ⟨fl, s'⟩ := r
          cases fl with
          | ret x => exact ⟨htt', fun hna hA => hret x rfl hna hA⟩
          | done l' =>
            have hqs : Good s'.popFrame.board := by
              have : s'.board = s.board := hfs
              show Good s'.board
              rw [this]; exact hg
            have hok' := hl.ok_store s'.popFrame.ps s'.popFrame.board 0 ply 0 l'.maxim .upper htt'.1 hqs (Or.inl rfl)
            refine ⟨⟨hok', fun hA => ?_⟩, fun _ hA => ?_⟩
            · obtain ⟨hA1, hbad⟩ := flagTT_false hA
              have hA' : s'.ttOut = false := hA1
              exact sl.tt_store _ _ _ _ _ _ _ (htt'.2 hA') hp0 (by omega) (relP_of_not_bad hbad) hok'
            · have hA' : s'.ttOut = false := (flagTT_false hA).1
              exact (hdone l' rfl hA').2.2

theorem quiescence_range2 (c : Comp σ π) (L : Limits) {Good : Board → Prop} {TTok : σ → Prop} {μ : Board → Nat}
    (hl : Laws c Good) (sl : ScoreLaws c Good TTok μ) (fuel : Nat) :
    QRange2 Good TTok μ (quiescence c L fuel) := by
  induction fuel with
  | zero => intro a b p s _ _ _ _ htt; exact ⟨htt, fun h => by cases h⟩
  | succ fuel ih =>
    intro a b p s hg hp0 hpl hw htt
    simp only [quiescence]
    have h1 := incrementNodes_frame L s
    have h2 := abort_frame L (incrementNodes L s)
    have hps : (abort L (incrementNodes L s)).2.ps = s.ps := (abort_ps L _).trans (incrementNodes_ps L s)
    have han : (abort L (incrementNodes L s)).2.ttOut = s.ttOut :=
      (abort_ttOut L _).trans (incrementNodes_ttOut L s)
    have h12 := h1.trans h2
    have hat := abort_true_iff L (incrementNodes L s)
    generalize abort L (incrementNodes L s) = as at h12 hps han hat ⊢
    have htt' : TTA2 TTok as.2 := htt.congr hps han
    split
    · next hab => exact ⟨htt', fun hna => by rw [← hat, hab] at hna; cases hna⟩
    · split
      · exact ⟨htt', fun _ _ => inR_zero⟩
      · next hnd =>
        exact qBody_range2 c L hl sl (quiescence c L fuel) (quiescence_spec c L hl fuel) ih a b p hp0 as.2
          (fun hA => hw (by rw [← han]; exact hA))
          (by rw [h12.board]; exact hg) (fifty_lt_of_not_draw hnd) (by rw [h12.board]; exact hpl) htt'

end Search
end ChessVerif
