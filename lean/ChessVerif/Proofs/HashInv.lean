/-
  C04: the invariant `Inv K b` (representations agree ∧ the head of the hash history is the hash of
  the current position computed from scratch) is preserved by moves, null moves and `ResetHash`;
  `calcHash` depends only on placement, side to move, castling rights and the en-passant file state.
  Arbitrary key tables `K`.
-/
import ChessVerif.Proofs.HashFold
import ChessVerif.Proofs.MakeUndoNested

namespace ChessVerif.Board

/-- C04's invariant. -/
def Inv (K : Keys) (b : Board) : Prop := WF b ∧ b.hashes.head? = some (calcHash K b)

theorem Inv.hash_eq {K : Keys} {b : Board} (h : Inv K b) : b.hash = calcHash K b := by
  unfold hash
  cases hh : b.hashes with
  | nil => have h2 := h.2; rw [hh] at h2; simp at h2
  | cons x xs => have h2 := h.2; rw [hh] at h2; simpa using h2

/-! ### moves -/

theorem mvCanEP_ne (b : Board) (m : Move) (h : mvCanEP b m = true) : ((Move.src m) + (Move.dst m)) / 2 ≠ 0 := by
  unfold mvCanEP at h
  simp only [Bool.and_eq_true, beq_iff_eq] at h
  have := h.1.2
  split at this <;> omega

theorem epHash_newEP (K : Keys) (b : Board) (m : Move) :
    epHash K (mvNewEP b m) = if mvCanEP b m then K.epFile (mvNewEP b m % 8) else 0 := by
  unfold mvNewEP
  cases h : mvCanEP b m
  · simp [epHash]
  · simp [epHash, mvCanEP_ne b m h]

/-- the hash `makeMove` pushes, as a xor of independent contributions. -/
theorem mvHash_eq (K : Keys) (b : Board) (m : Move) :
    mvHash K b m =
      b.hash ^^^ castleHash K (b.castles ^^^ b.newCastles m) ^^^
      pkey K b.stm.flip (b.pieceAt (b.captureSq m)) (b.captureSq m) ^^^
      pkey K b.stm (b.pieceAt (Move.src m)) (Move.src m) ^^^ pkey K b.stm (mvPut b m) (Move.dst m) ^^^
      epHash K b.ep ^^^ epHash K (mvNewEP b m) ^^^ hopKey K b.stm (hop (b.pieceAt (Move.src m)) m) ^^^ K.stm := by
  rw [epHash_newEP]
  simp only [mvHash, castleHash, epHash]
  generalize mvCanEP b m = ce
  generalize K.epFile (mvNewEP b m % 8) = X
  generalize b.hash = H
  generalize b.castles ^^^ b.newCastles m = cc
  generalize pkey K b.stm.flip (b.pieceAt (b.captureSq m)) (b.captureSq m) = k1
  generalize pkey K b.stm (b.pieceAt (Move.src m)) (Move.src m) = k2
  generalize pkey K b.stm (mvPut b m) (Move.dst m) = k3
  generalize hopKey K b.stm (hop (b.pieceAt (Move.src m)) m) = k4
  generalize K.epFile (b.ep % 8) = Y
  generalize K.stm = T
  generalize hashEnable (BitVec.getLsbD cc 0) (K.castling 0) = c0
  generalize hashEnable (BitVec.getLsbD cc 1) (K.castling 1) = c1
  generalize hashEnable (BitVec.getLsbD cc 2) (K.castling 2) = c2
  generalize hashEnable (BitVec.getLsbD cc 3) (K.castling 3) = c3
  cases ce <;> by_cases h2 : b.ep = 0 <;> simp only [h2, if_true, if_false, ne_eq, not_true_eq_false, not_false_eq_true, Bool.false_eq_true] <;> xor_norm

theorem placeHash_cfg5 (K : Keys) {f : Cfg} {b : Board} {m : Move} (ch : Chain f b m) :
    placeHash K (cfg5 f b m) = placeHash K f ^^^ pkey K b.stm.flip (b.pieceAt (b.captureSq m)) (b.captureSq m) ^^^
      pkey K b.stm (b.pieceAt (Move.src m)) (Move.src m) ^^^ pkey K b.stm (mvPut b m) (Move.dst m) ^^^
      hopKey K b.stm (hop (b.pieceAt (Move.src m)) m) := by
  have h1 : placeHash K (cfg1 f b m) = placeHash K f ^^^ pkey K b.stm.flip (b.pieceAt (b.captureSq m)) (b.captureSq m) := by
    unfold cfg1
    rw [placeHash_upd K f _ (captureSq_lt b m), ch.f1, ckey_man]; simp [ckey]
  have h2 : placeHash K (cfg2 f b m) = placeHash K (cfg1 f b m) ^^^ pkey K b.stm (b.pieceAt (Move.src m)) (Move.src m) := by
    unfold cfg2
    rw [placeHash_upd K _ _ (src_lt m), ch.f2, ckey_man]; simp [ckey]
  have h3 : placeHash K (cfg3 f b m) = placeHash K (cfg2 f b m) ^^^ pkey K b.stm (mvPut b m) (Move.dst m) := by
    unfold cfg3
    rw [placeHash_upd K _ _ (dst_lt m), ch.f3, ckey_man]; simp [ckey]
  have h5 : placeHash K (cfg5 f b m) = placeHash K (cfg3 f b m) ^^^ hopKey K b.stm (hop (b.pieceAt (Move.src m)) m) := by
    unfold cfg5
    cases hh : hop (b.pieceAt (Move.src m)) m with
    | none => simp [hopCfg, hopKey]
    | some v =>
      obtain ⟨rf, rt⟩ := v
      obtain ⟨a1, a2, a3, a4, _⟩ := ch.f4 rf rt hh
      simp only [hopCfg, hopKey]
      rw [placeHash_upd K _ _ a2, a4, placeHash_upd K _ _ a1, a3, ckey_man, ckey_man]
      simp [ckey, BitVec.xor_assoc]
  rw [h5, h3, h2, h1]

theorem inv_make (K : Keys) {b : Board} {m : Move} (h : Inv K b) (ok : MakeOK b m) : Inv K (makeMove K b m).1 := by
  refine ⟨wf_make K h.1 ok, ?_⟩
  rw [makeMove_eq]
  have hr := h.1.rep
  have ch := chain_of _ b m hr ok
  have hB := make_rep K m hr ch
  rw [calcHash_rep K hB, make_stm, make_castles', make_ep, make_hashes, placeHash_cfg5 K ch, mvHash_eq, h.hash_eq,
    calcHash_rep K hr, stmHash_flip, castleHash_xor]
  simp only [List.head?_cons]
  refine congrArg some ?_
  generalize placeHash K b.manAt = P
  generalize stmHash K b.stm = S
  generalize castleHash K b.castles = C
  generalize castleHash K (b.newCastles m) = C'
  generalize epHash K b.ep = E
  generalize epHash K (mvNewEP b m) = E'
  generalize pkey K b.stm.flip (b.pieceAt (b.captureSq m)) (b.captureSq m) = k1
  generalize pkey K b.stm (b.pieceAt (Move.src m)) (Move.src m) = k2
  generalize pkey K b.stm (mvPut b m) (Move.dst m) = k3
  generalize hopKey K b.stm (hop (b.pieceAt (Move.src m)) m) = k4
  generalize K.stm = T
  xor_norm

/-! ### null moves, `ResetHash` -/

theorem makeNull_hash (K : Keys) (b : Board) :
    (makeNull K b).1.hashes.head? = some (b.hash ^^^ epHash K b.ep ^^^ K.stm) := by
  unfold makeNull epHash
  by_cases h : b.ep = 0 <;> simp [h]

theorem inv_null (K : Keys) {b : Board} (h : Inv K b) : Inv K (makeNull K b).1 := by
  refine ⟨wf_null K h.1, ?_⟩
  obtain ⟨h1, h2, h3, h4, h5, h6, _⟩ := makeNull_facts K b
  have hr := h.1.rep
  have hB : Rep (makeNull K b).1 b.manAt := hr.congr_board h1 h2 h3
  rw [calcHash_rep K hB, h4, h5, h6, makeNull_hash, h.hash_eq, calcHash_rep K hr, stmHash_flip]
  refine congrArg some ?_
  simp only [epHash, ne_eq, not_true_eq_false, if_false]
  xor_norm

theorem calcHash_setHashes (K : Keys) (b : Board) (hs : List BB) : calcHash K { b with hashes := hs } = calcHash K b := rfl

theorem inv_resetHash (K : Keys) {b : Board} (h : WF b) : Inv K (resetHash K b) := by
  have hr : Rep (resetHash K b) b.manAt := @Rep.congr_board b (resetHash K b) _ rfl rfl rfl h.rep
  refine ⟨hr.wf, ?_⟩
  unfold resetHash
  rw [calcHash_setHashes]; rfl

/-! ### reachable positions -/

theorem inv_doOp (K : Keys) {b : Board} {o : Op} (h : Inv K b) (ok : o.ok b) : Inv K (doOp K b o).1 := by
  cases o with
  | mk m => exact inv_make K h ok
  | null => exact inv_null K h

theorem inv_reachable (K : Keys) {b b' : Board} (ops : List Op) {toks : List Reverse} (h : Inv K b)
    (hrun : runMakes K b ops = some (b', toks)) : Inv K b' := by
  induction ops generalizing b b' toks with
  | nil => simp [runMakes] at hrun; rw [← hrun.1]; exact h
  | cons o ops ih =>
    simp only [runMakes] at hrun
    split at hrun
    · rename_i ok
      split at hrun
      · rename_i b1 t1 h1
        simp at hrun
        rw [← hrun.1]
        exact ih (inv_doOp K h ok) h1
      · simp at hrun
    · simp at hrun

/-! ### the hash is a function of the position -/

/-- same placement (per-square map and colour sets), side to move, castling rights and en-passant
    file state (`ep = 0` encodes "no en-passant capture possible"). -/
structure SamePosition (b₁ b₂ : Board) : Prop where
  sq : ∀ s, s < 64 → b₁.pieceAt s = b₂.pieceAt s
  col : ∀ c, b₁.colorBB c = b₂.colorBB c
  stm : b₁.stm = b₂.stm
  castles : b₁.castles = b₂.castles
  ep_none : b₁.ep = 0 ↔ b₂.ep = 0
  ep_file : b₁.ep % 8 = b₂.ep % 8

theorem calcHash_congr (K : Keys) {b₁ b₂ : Board} (h : SamePosition b₁ b₂) : calcHash K b₁ = calcHash K b₂ := by
  unfold calcHash
  simp only [foldl_xor_eq]
  rw [h.col, h.col, h.stm, h.castles, h.ep_file]
  have e1 : xsum (fun s => K.piece 0 (b₁.pieceAt s).toNat s) (bits (b₂.colorBB .white)) =
      xsum (fun s => K.piece 0 (b₂.pieceAt s).toNat s) (bits (b₂.colorBB .white)) :=
    xsum_congr (fun s hs => by rw [h.sq s (bits_lt hs)])
  have e2 : xsum (fun s => K.piece 1 (b₁.pieceAt s).toNat s) (bits (b₂.colorBB .black)) =
      xsum (fun s => K.piece 1 (b₂.pieceAt s).toNat s) (bits (b₂.colorBB .black)) :=
    xsum_congr (fun s hs => by rw [h.sq s (bits_lt hs)])
  rw [e1, e2]
  by_cases h0 : b₂.ep = 0
  · have := h.ep_none.2 h0; simp [h0, this]
  · have : b₁.ep ≠ 0 := fun e => h0 (h.ep_none.1 e); simp [h0, this]

theorem transposition_hash (K : Keys) {b₁ b₂ : Board} (h₁ : Inv K b₁) (h₂ : Inv K b₂) (h : SamePosition b₁ b₂) :
    b₁.hash = b₂.hash := by
  rw [h₁.hash_eq, h₂.hash_eq, calcHash_congr K h]

end ChessVerif.Board
