/-
  C01 closure, part 1: after a generated move of a valid position
   * no king is ever captured (the side not to move is not in check),
   * each side still has exactly one king,
   * the promoted-material bound still holds (a promotion turns a pawn into a piece; a capture only
     removes material),
   * no pawn stands on the first or last rank (a pawn reaching the last rank is promoted).
-/
import ChessVerif.Proofs.PlayableValidP

namespace ChessVerif.Playable
open ChessVerif Board Rules Bridge AbsMake

section closure
variable {b : Board} {m : Move} (g : GenMove b m)
include g

theorem _root_.ChessVerif.AbsMake.GenMove.validP : ValidP (abs b) := (validP_iff _).1 g.rv

theorem _root_.ChessVerif.AbsMake.GenMove.chain : Chain b.manAt b m := chain_of b.manAt b m g.hw.rep g.ok

/-- the abstraction of the board after the move shows the updated placement. -/
theorem at_new (K : Keys) (s : Nat) (hs : s < 64) :
    (abs (b.makeMove K m).1).at_ s = cfg5 b.manAt b m s := by
  rw [abs_at', make_manAt K g s hs]

theorem count_new (K : Keys) (c : Color) (k : Piece) :
    Rules.count (abs (b.makeMove K m).1) c k = cnt (cfg5 b.manAt b m) c k :=
  count_eq_cnt (fun s hs => at_new g K s hs) c k

omit g in
theorem count_old (b : Board) (c : Color) (k : Piece) : Rules.count (abs b) c k = cnt b.manAt c k :=
  count_eq_cnt (fun s _ => abs_at' b s) c k

/-! ### the captured man -/

/-- an en-passant capture removes a pawn. -/
theorem ep_cap_pawn (hep : b.isEnPassant m = true) : b.pieceAt (b.captureSq m) = Piece.pawn := by
  have hep' := hep
  unfold Board.isEnPassant at hep'
  simp only [Bool.and_eq_true, bne_iff_ne, ne_eq, beq_iff_eq] at hep'
  obtain ⟨⟨h0, he⟩, hp⟩ := hep'
  have hfn := ep_file_ne g hp h0 he
  have hrl := g.rl
  rw [hp] at hrl
  obtain ⟨hlt, _, hwhite, hblack⟩ := ep_facts g.hw g.rv h0
  have hs := src_lt m
  have hd := dst_lt m
  rw [captureSq_eq_ep hep]
  rcases pawn_clause_cases hrl with h | h | h
  · exact absurd (by have := h.1; simp only [decodeMove_src, decodeMove_dst] at this; omega) hfn
  · exact absurd (by have := h.1; simp only [decodeMove_src, decodeMove_dst] at this; omega) hfn
  · have hr := h.2.1
    simp only [decodeMove_src, decodeMove_dst, abs_turn] at hr
    cases hstm : b.stm
    · obtain ⟨h5, _, hpw⟩ := hwhite hstm
      rw [hstm] at hr
      have : 8 * (Move.src m / 8) + Move.dst m % 8 = b.ep - 8 := by
        simp only [Rules.rank, up] at hr; omega
      rw [this]; exact hpw
    · obtain ⟨h2, _, hpw⟩ := hblack hstm
      rw [hstm] at hr
      have : 8 * (Move.src m / 8) + Move.dst m % 8 = b.ep + 8 := by
        simp only [Rules.rank, up] at hr; omega
      rw [this]; exact hpw

omit g in
theorem RLk_piece (p : Pos) (k : Piece) (mv : Mv) (h1 : k ≠ .pawn) (h2 : k ≠ .king) (h : RLk p k mv = true) :
    manAttacks p (p.turn, k) mv.src mv.dst = true := by
  cases k
  · exact Bool.noConfusion h
  · exact absurd rfl h1
  all_goals first
    | exact absurd rfl h2
    | (unfold RLk at h; simp only [Bool.and_eq_true] at h; exact h.2)

omit g in
theorem castlingOK_dst_empty (p : Pos) (mv : Mv) (h : castlingOK p mv = true) : p.empty mv.dst = true := by
  cases ht : p.turn
  · obtain ⟨_, h | h⟩ := (castlingOK_white_iff p mv ht).1 h
    · rw [h.1]; exact h.2.2.2.1.2
    · rw [h.1]; exact h.2.2.2.1.2.1
  · obtain ⟨_, h | h⟩ := (castlingOK_black_iff p mv ht).1 h
    · rw [h.1]; exact h.2.2.2.1.2
    · rw [h.1]; exact h.2.2.2.1.2.1

/-- a generated move onto an occupied square is an attack of the moving man on that square. -/
theorem capture_attacks (hocc : (abs b).empty (Move.dst m) = false) :
    manAttacks (abs b) (b.stm, b.pieceAt (Move.src m)) (Move.src m) (Move.dst m) = true := by
  have hrl := g.rl
  by_cases hp : b.pieceAt (Move.src m) = Piece.pawn
  · rw [hp] at hrl ⊢
    rcases pawn_clause_cases hrl with h | h | h
    · have := h.2.2; simp only [decodeMove_dst] at this; rw [this] at hocc; exact Bool.noConfusion hocc
    · have := h.2.2.2; simp only [decodeMove_dst] at this; rw [this] at hocc; exact Bool.noConfusion hocc
    · obtain ⟨h1, h2, _⟩ := h
      simp only [decodeMove_src, decodeMove_dst, abs_turn] at h1 h2
      unfold manAttacks
      simp only [Bool.and_eq_true, beq_iff_eq]
      exact ⟨h1, h2⟩
  · by_cases hk : b.pieceAt (Move.src m) = Piece.king
    · rw [hk] at hrl ⊢
      unfold RLk at hrl
      simp only [Bool.and_eq_true, Bool.or_eq_true] at hrl
      rcases hrl.2 with h | h
      · exact h
      · have := castlingOK_dst_empty _ _ h
        simp only [decodeMove_dst] at this
        rw [this] at hocc; exact Bool.noConfusion hocc
    · exact RLk_piece _ _ _ hp hk hrl

/-- **no king is ever captured**: the side not to move is not in check. -/
theorem cap_ne_king : b.pieceAt (b.captureSq m) ≠ Piece.king := by
  intro hk
  cases hep : b.isEnPassant m
  · rw [captureSq_eq_dst hep] at hk
    have hd := dst_lt m
    have hs := src_lt m
    have hne : b.pieceAt (b.captureSq m) ≠ Piece.none := by rw [captureSq_eq_dst hep, hk]; decide
    have hcol := g.ok.cap_enemy hne
    rw [captureSq_eq_dst hep] at hcol
    have hocc : (abs b).empty (Move.dst m) = false := by
      rw [abs_empty_occ, colorBB_flip_occ b b.stm.flip, hcol]; rfl
    have hatt := capture_attacks g hocc
    have hsafe := g.validP.safe
    rw [abs_turn] at hsafe
    have : Rules.inCheck (abs b) b.stm.flip = true := by
      unfold Rules.inCheck
      rw [List.any_eq_true]
      refine ⟨Move.dst m, (mem_kingSquares _ _ _).2 ⟨hd, (Bridge.abs_has g.hw _ _ _).2 ⟨hcol, hk⟩⟩, ?_⟩
      rw [Color.flip_flip, attackedBy_iff]
      exact ⟨Move.src m, hs, _, g.src_man, hatt⟩
    rw [this] at hsafe; exact Bool.noConfusion hsafe
  · rw [ep_cap_pawn g hep] at hk; exact absurd hk (by decide)

/-! ### the man put on the destination -/

theorem put_cases : (Move.promo m = 0 ∧ mvPut b m = b.pieceAt (Move.src m)) ∨
    (b.pieceAt (Move.src m) = Piece.pawn ∧
      (mvPut b m = .knight ∨ mvPut b m = .bishop ∨ mvPut b m = .rook ∨ mvPut b m = .queen)) := by
  by_cases hp : Move.promo m = 0
  · exact Or.inl ⟨hp, g.chain.put_eq hp⟩
  · right
    obtain ⟨h1, h2, h5⟩ := g.ok.promo hp
    refine ⟨h1, ?_⟩
    unfold mvPut
    rw [if_pos hp]
    have : Move.promo m = 2 ∨ Move.promo m = 3 ∨ Move.promo m = 4 ∨ Move.promo m = 5 := by omega
    rcases this with h | h | h | h <;> rw [h] <;> simp [Piece.ofIx]

/-! ### one king each -/

theorem kings_new (K : Keys) (c : Color) : Rules.count (abs (b.makeMove K m).1) c .king = 1 := by
  have hold := g.validP.kings c
  rw [count_old] at hold
  rw [count_new g K]
  have h := cnt_cfg5 g.chain c Piece.king
  have e1 : ind (c = b.stm.flip ∧ b.pieceAt (b.captureSq m) = Piece.king ∧ Piece.king ≠ Piece.none) = 0 :=
    ind_neg (fun h => cap_ne_king g h.2.1)
  have e2 : ind (c = b.stm ∧ b.pieceAt (Move.src m) = Piece.king ∧ Piece.king ≠ Piece.none) =
      ind (c = b.stm ∧ mvPut b m = Piece.king ∧ Piece.king ≠ Piece.none) := by
    apply ind_congr
    rcases put_cases g with ⟨_, hp⟩ | ⟨hp, hq⟩
    · rw [hp]
    · rw [hp]
      constructor
      · intro h; exact absurd h.2.1 (by decide)
      · intro h; rcases hq with q | q | q | q <;> rw [q] at h <;> exact absurd h.2.1 (by decide)
  rw [e1, e2] at h
  omega

/-! ### the promoted-material bound -/

omit g in
theorem promotedBound_iff (p : Pos) (c : Color) :
    promotedBound p c = true ↔
      count p c .pawn + (count p c .knight - 2) + (count p c .bishop - 2) + (count p c .rook - 2) +
        (count p c .queen - 1) ≤ 8 := by
  unfold promotedBound
  simp only [decide_eq_true_eq]

theorem bound_new (K : Keys) (c : Color) : promotedBound (abs (b.makeMove K m).1) c = true := by
  have hold := (promotedBound_iff _ _).1 (g.validP.bound c)
  rw [promotedBound_iff]
  simp only [count_old] at hold
  simp only [count_new g K]
  have hP := cnt_cfg5 g.chain c Piece.pawn
  have hN := cnt_cfg5 g.chain c Piece.knight
  have hB := cnt_cfg5 g.chain c Piece.bishop
  have hR := cnt_cfg5 g.chain c Piece.rook
  have hQ := cnt_cfg5 g.chain c Piece.queen
  by_cases hc : c = b.stm
  · -- the mover: nothing of his is captured
    subst hc
    have hne : ¬ b.stm = b.stm.flip := Color.flip_ne' _
    have z : ∀ k, ind (b.stm = b.stm.flip ∧ b.pieceAt (b.captureSq m) = k ∧ k ≠ Piece.none) = 0 :=
      fun k => ind_neg (fun h => hne h.1)
    rw [z] at hP hN hB hR hQ
    rcases put_cases g with ⟨_, hp⟩ | ⟨hp, hq⟩
    · rw [hp] at hP hN hB hR hQ
      omega
    · rw [hp] at hP hN hB hR hQ
      rcases hq with q | q | q | q <;> rw [q] at hP hN hB hR hQ <;>
        simp only [ind, true_and, reduceCtorEq, ne_eq, not_false_eq_true, and_true, and_self, if_true,
          if_false] at hP hN hB hR hQ <;> omega
  · -- the opponent: material can only disappear
    have z1 : ∀ k, ind (c = b.stm ∧ b.pieceAt (Move.src m) = k ∧ k ≠ Piece.none) = 0 :=
      fun k => ind_neg (fun h => hc h.1)
    have z2 : ∀ k, ind (c = b.stm ∧ mvPut b m = k ∧ k ≠ Piece.none) = 0 :=
      fun k => ind_neg (fun h => hc h.1)
    rw [z1, z2] at hP hN hB hR hQ
    omega

/-! ### pawns stay off the first and last ranks -/

omit g in
/-- the promotion clause of the rule book. -/
theorem pawn_promoOK {p : Pos} {mv : Mv} (h : RLk p .pawn mv = true) :
    (if rank mv.dst == lastRank p.turn then (match mv.promo with | some q => isPromoPiece q | none => false)
      else mv.promo.isNone) = true := by
  unfold RLk at h
  simp only [Bool.and_eq_true] at h
  exact h.1

theorem pawns_new (K : Keys) (s : Nat) (hs : s < 64) (c : Color)
    (h : (abs (b.makeMove K m).1).has s c .pawn = true) : s / 8 ≠ 0 ∧ s / 8 ≠ 7 := by
  rw [has_iff_at, at_new g K s hs] at h
  have hold : ∀ t, t < 64 → ∀ d, b.manAt t = some (d, Piece.pawn) → t / 8 ≠ 0 ∧ t / 8 ≠ 7 := by
    intro t ht d hd
    exact g.validP.pawns t ht d (by rw [has_iff_at, abs_at']; exact hd)
  rcases cfg5_some s _ h with ⟨rf, rt, _, _, hx⟩ | ⟨hsd, hman⟩ | hf
  · injection hx with _ hx; exact absurd hx (by decide)
  · -- a pawn has arrived on the destination: it was a pawn move without promotion
    obtain ⟨hc, hput, _⟩ := (man_eq_some _ _ _ _).1 hman
    rcases put_cases g with ⟨hpr, hp⟩ | ⟨_, hq⟩
    · rw [hput] at hp
      have hrl := g.rl
      rw [← hp] at hrl
      have hok := pawn_promoOK hrl
      have hsrc := hold (Move.src m) (src_lt m) b.stm (by
        have := g.src_man; rw [abs_at'] at this; rw [this, ← hp])
      have hpn : (decodeMove m).promo = none := by rw [decodeMove_promo, hpr]; rfl
      rw [hpn] at hok
      have hlast : ¬ rank (Move.dst m) = lastRank b.stm := by
        intro e
        simp only [decodeMove_dst, abs_turn, e, beq_self_eq_true, if_true] at hok
        exact Bool.noConfusion hok
      have hsl := src_lt m
      have hdl := dst_lt m
      subst hsd
      rcases pawn_clause_cases hrl with h | h | h <;>
        (have hr := h.2.1
         simp only [decodeMove_src, decodeMove_dst, abs_turn] at hr
         cases hstm : b.stm <;> rw [hstm] at hr hlast <;>
           simp only [Rules.rank, up, lastRank] at hr hlast <;> omega)
    · rcases hq with q | q | q | q <;> rw [q] at hput <;> exact absurd hput (by decide)
  · exact hold s hs c hf

end closure

end ChessVerif.Playable
