/-
  C02, en-passant clause, part 3: the probe `IsAttacked(stm, occ', enemy king)` that `CanEnPassant`
  runs for the capturer on `a` (before the pushed pawn is relocated) answers exactly whether the
  capturer's king is in check in the rule-book position after the en-passant capture.
  (i) attackers: the pusher's men on the board vs. in the final position differ only by the pushed
  pawn (on its origin square on the board, captured in the final position), and that pawn cannot
  attack the enemy king from its origin in a valid position; (ii) lines of sight: `fin_emptyIs`;
  (iii) the king's square is unchanged.
-/
import ChessVerif.Proofs.EpTargetPos
namespace ChessVerif.EpTarget
open ChessVerif Board Rules Bridge

theorem not_inCheck_of_valid {b : Board} (hv : Board.valid b = true) :
    Rules.inCheck (abs b) b.stm.flip = false := by
  have hr := rulesValid_of_valid hv
  simp only [Rules.valid, Bool.and_eq_true] at hr
  obtain ⟨⟨⟨⟨⟨⟨⟨⟨⟨_, hD⟩, _⟩, _⟩, _⟩, _⟩, _⟩, _⟩, _⟩, _⟩ := hr
  rw [abs_turn] at hD
  simpa using hD

section
variable {b : Board} {m : Move}

theorem pieceAt_of_occ_false (hw : WFP b) {s : Nat} (hs : s < 64) (h : b.occ.getLsbD s = false) :
    b.pieceAt s = Piece.none := by
  cases hp : b.pieceAt s <;> first | rfl | (have := (hw.occ_iff s hs).2 (by rw [hp]; decide); rw [h] at this; exact Bool.noConfusion this)

theorem color_of_occ_false {s : Nat} (c : Color) (h : b.occ.getLsbD s = false) : (b.colorBB c).getLsbD s = false := by
  rw [colorBB_flip_occ b c s, Bool.or_eq_false_iff] at h
  exact h.1

/-- the pushed pawn does not attack the enemy king from its origin square (the side not to move is
    not in check in a valid position; pawn attacks do not depend on the occupancy). -/
theorem orig_no_attack (hv : Board.valid b = true) (h : DP b m) (p : Pos) (t : Nat) (ht : t < 64)
    (hk : (b.pieceBB .king &&& b.colorBB b.stm.flip).getLsbD t = true) :
    Rules.manAttacks p (b.stm, Piece.pawn) (Move.src m) t = false := by
  have hw := WFP_of_valid hv
  cases hm : Rules.manAttacks p (b.stm, Piece.pawn) (Move.src m) t
  · rfl
  · exfalso
    have h1 := (pawn_attacks_iff (abs b) b.stm _ t (PL.src_lt m) ht).1
      ((pawn_attacks_iff p b.stm _ t (PL.src_lt m) ht).2 hm)
    have hnc := not_inCheck_of_valid hv
    have : Rules.inCheck (abs b) b.stm.flip = true := by
      unfold Rules.inCheck
      rw [List.any_eq_true, Color.flip_flip]
      rw [BitVec.and_comm] at hk
      refine ⟨t, (mem_kingSquares _ _ _).2 ⟨ht, (abs_has_set hw t ht _ .king (by decide)).1 hk⟩, ?_⟩
      exact (attackedBy_iff _ _ _).2 ⟨Move.src m, PL.src_lt m, Piece.pawn, abs_at_src hw h, h1⟩
    rw [hnc] at this
    exact Bool.noConfusion this

/-- **the probe of `CanEnPassant` for the capturer `a`** is the rule book's "the capturer's king is in
    check after the en-passant capture". -/
theorem probe_eq_inCheck (hv : Board.valid b = true) (h : DP b m) {a : Nat} (ha : Able b (Move.dst m) a) :
    b.isAttacked b.stm (epOcc b m a) (b.pieceBB .king &&& b.colorBB b.stm.flip) =
      Rules.inCheck (fin b m a) b.stm.flip := by
  have hw := WFP_of_valid hv
  obtain ⟨_, _, n1, n2, n3, n4, n5, n6, _⟩ := able_nums h ha
  have hmid := h.mid_lt
  have hs := PL.src_lt m
  have hd := PL.dst_lt m
  rw [Bool.eq_iff_iff, isAttacked_iff hw (fin_emptyIs hw h ha)]
  unfold Rules.inCheck
  rw [List.any_eq_true, Color.flip_flip]
  constructor
  · rintro ⟨t, ht, htg, a', ha', hc, hm⟩
    have htg' := htg
    rw [BitVec.getLsbD_and, Bool.and_eq_true, hw.piece_iff t ht .king (by decide)] at htg'
    obtain ⟨hk, hcol⟩ := htg'
    -- the king square is none of the four squares that change
    have t1 : t ≠ mid m := by
      intro e; rw [e, pieceAt_of_occ_false hw hmid h.mid_empty] at hk; exact Piece.noConfusion hk
    have t2 : t ≠ a := by intro e; rw [e, ha.2.2.1] at hk; exact Piece.noConfusion hk
    have t3 : t ≠ Move.dst m := by
      intro e; rw [e, pieceAt_of_occ_false hw hd h.dst_empty] at hk; exact Piece.noConfusion hk
    have t4 : t ≠ Move.src m := by intro e; rw [e, h.pawn] at hk; exact Piece.noConfusion hk
    refine ⟨t, (mem_kingSquares _ _ _).2 ⟨ht, ?_⟩, ?_⟩
    · rw [has_iff_at, fin_at hw h ha, if_neg t1, if_neg (by rintro (e | e | e) <;> contradiction)]
      exact (manAt_eq_some hw t _ _).2 ⟨hcol, hk⟩
    · -- the attacker is none of the four squares either
      have a1 : a' ≠ mid m := by
        intro e; rw [e, color_of_occ_false _ h.mid_empty] at hc; exact Bool.noConfusion hc
      have a2 : a' ≠ a := by
        intro e; rw [e] at hc
        have := hw.color_flip_false a _ hc
        rw [ha.2.2.2] at this; exact Bool.noConfusion this
      have a3 : a' ≠ Move.dst m := by
        intro e; rw [e, color_of_occ_false _ h.dst_empty] at hc; exact Bool.noConfusion hc
      have a4 : a' ≠ Move.src m := by
        intro e; rw [e, h.pawn, orig_no_attack hv h _ t ht htg] at hm; exact Bool.noConfusion hm
      refine (attackedBy_iff _ _ _).2 ⟨a', ha', b.pieceAt a', ?_, hm⟩
      rw [fin_at hw h ha, if_neg a1, if_neg (by rintro (e | e | e) <;> contradiction)]
      exact (manAt_eq_some hw a' _ _).2 ⟨hc, rfl⟩
  · rintro ⟨t, hmem, hatt⟩
    obtain ⟨ht, hk⟩ := (mem_kingSquares _ _ _).1 hmem
    rw [has_iff_at, fin_at hw h ha] at hk
    have t1 : t ≠ mid m := by
      intro e; rw [if_pos e] at hk
      simp only [Option.some.injEq, Prod.mk.injEq] at hk
      exact Piece.noConfusion hk.2
    rw [if_neg t1] at hk
    have t2 : ¬ (t = a ∨ t = Move.dst m ∨ t = Move.src m) := by
      intro e; rw [if_pos e] at hk; exact absurd hk (by simp)
    rw [if_neg t2] at hk
    obtain ⟨hcol, hkk⟩ := (manAt_eq_some hw t _ _).1 hk
    obtain ⟨a', ha', k, hat, hm⟩ := (attackedBy_iff _ _ _).1 hatt
    rw [fin_at hw h ha] at hat
    have a1 : a' ≠ mid m := by
      intro e; rw [if_pos e] at hat
      simp only [Option.some.injEq, Prod.mk.injEq] at hat
      exact Color.flip_ne _ hat.1
    rw [if_neg a1] at hat
    have a2 : ¬ (a' = a ∨ a' = Move.dst m ∨ a' = Move.src m) := by
      intro e; rw [if_pos e] at hat; exact absurd hat (by simp)
    rw [if_neg a2] at hat
    obtain ⟨hc, hpk⟩ := (manAt_eq_some hw a' _ _).1 hat
    refine ⟨t, ht, ?_, a', ha', hc, by rw [hpk]; exact hm⟩
    rw [BitVec.getLsbD_and, Bool.and_eq_true, hw.piece_iff t ht .king (by decide)]
    exact ⟨hkk, hcol⟩
end
end ChessVerif.EpTarget
