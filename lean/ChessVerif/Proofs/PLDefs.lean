/-
  C05 — the domain predicate `PLDomain` (exactly the facts about a position that the proof uses),
  the set-level predicate `PL b f t p` ("the word with fields f, t, p is a pseudo-legal move"), and
  the consequences of the representation invariant `wf` that the proof needs.
-/
import ChessVerif.Model.Abs
import ChessVerif.Proofs.PLBits

namespace ChessVerif.PL
open ChessVerif

/-- king's home square. -/
def home (c : Color) : Nat :=
  match c with
  | .white => 4
  | .black => 60

/-- The hypotheses of C05, as an explicit conjunction (all implied by `Board.valid`, see
    `PLValid.lean`).  Only the side to move is constrained. -/
structure PLDomain (b : Board) : Prop where
  /-- representation invariant: the three encodings of the placement agree -/
  wf : b.wf = true
  /-- exactly one king of the side to move (the generator only moves the lowest-set king) -/
  oneKing : ∃ k, k < 64 ∧ b.colorBB b.stm &&& b.pieceBB .king = bit k
  /-- no pawn of the side to move on its last rank (its push would leave the board) -/
  noLastRankPawn : ∀ s, s < 64 → (b.colorBB b.stm).getLsbD s = true → (b.pieceBB .pawn).getLsbD s = true →
    relRank b.stm s ≠ 7
  /-- a castling right of the side to move ⇒ its king is on the home square -/
  castleShortHome : b.castles &&& Board.castleBit b.stm 0 ≠ 0 →
    (b.colorBB b.stm &&& b.pieceBB .king).getLsbD (home b.stm) = true
  castleLongHome : b.castles &&& Board.castleBit b.stm 1 ≠ 0 →
    (b.colorBB b.stm &&& b.pieceBB .king).getLsbD (home b.stm) = true
  /-- an en-passant target is a vacant square that is not on the mover's last rank (so that an
      en-passant capture never starts from the 7th rank, where the promotion bits are required) -/
  ep : b.ep ≠ 0 → b.ep < 64 ∧ relRank b.stm b.ep ≠ 7 ∧ b.occ.getLsbD b.ep = false

/-! ### the set-level predicate -/

/-- a non-pawn, non-castling move of the piece kind `q` with attack set `att`. -/
def PLpiece (b : Board) (q : Piece) (att : BB) (f t p : Nat) : Prop :=
  p = 0 ∧ (b.pieceBB q).getLsbD f = true ∧ att.getLsbD t = true

def shortMask (c : Color) : BB :=
  match c with
  | .white => bit 4 ||| bit 5 ||| bit 6
  | .black => bit 60 ||| bit 61 ||| bit 62

def longMask (c : Color) : BB :=
  match c with
  | .white => bit 4 ||| bit 3 ||| bit 2
  | .black => bit 60 ||| bit 59 ||| bit 58

/-- king-side castling: right held, king at home, the two squares beside it vacant, none of the three
    squares e/f/g attacked (attack detection is the engine's own `isAttacked`, treated as opaque). -/
def PLshort (b : Board) (f t p : Nat) : Prop :=
  p = 0 ∧ f = home b.stm ∧ t = home b.stm + 2 ∧ (b.pieceBB .king).getLsbD f = true ∧
  b.castles &&& Board.castleBit b.stm 0 ≠ 0 ∧
  b.occ.getLsbD (home b.stm + 1) = false ∧ b.occ.getLsbD (home b.stm + 2) = false ∧
  b.isAttacked b.stm.flip b.occ (shortMask b.stm) = false

def PLlong (b : Board) (f t p : Nat) : Prop :=
  p = 0 ∧ f = home b.stm ∧ t = home b.stm - 2 ∧ (b.pieceBB .king).getLsbD f = true ∧
  b.castles &&& Board.castleBit b.stm 1 ≠ 0 ∧
  b.occ.getLsbD (home b.stm - 1) = false ∧ b.occ.getLsbD (home b.stm - 2) = false ∧
  b.occ.getLsbD (home b.stm - 3) = false ∧
  b.isAttacked b.stm.flip b.occ (longMask b.stm) = false

/-- promotion bits: a piece in Knight..Queen exactly when the pawn leaves its 7th rank, else none. -/
def promoOK (b : Board) (f p : Nat) : Prop :=
  if relRank b.stm f = 6 then 2 ≤ p ∧ p ≤ 5 else p = 0

def PLpush1 (b : Board) (f t : Nat) : Prop :=
  ahead b.stm f 8 t ∧ b.occ.getLsbD t = false

def PLpush2 (b : Board) (f t : Nat) : Prop :=
  ahead b.stm f 16 t ∧ relRank b.stm f = 1 ∧ b.occ.getLsbD t = false ∧ b.occ.getLsbD ((f + t) / 2) = false

def PLcapture (b : Board) (f t : Nat) : Prop :=
  capGeom b.stm f t ∧ (b.colorBB b.stm.flip).getLsbD t = true

def PLep (b : Board) (f t : Nat) : Prop :=
  capGeom b.stm f t ∧ b.ep ≠ 0 ∧ t = b.ep

def PLpawn (b : Board) (f t p : Nat) : Prop :=
  (b.pieceBB .pawn).getLsbD f = true ∧ promoOK b f p ∧
  (PLpush1 b f t ∨ PLpush2 b f t ∨ PLcapture b f t ∨ PLep b f t)

/-- `PL b f t p`: the move word with origin `f`, destination `t` and promotion bits `p` is a
    pseudo-legal move of `b` (own man on `f`, no own man on `t`, and one clause per kind). -/
def PL (b : Board) (f t p : Nat) : Prop :=
  (b.colorBB b.stm).getLsbD f = true ∧ (b.colorBB b.stm).getLsbD t = false ∧
  ( PLpiece b .king (Attacks.kingMoves f) f t p ∨
    PLpiece b .knight (Attacks.knightMoves f) f t p ∨
    PLpiece b .bishop (Attacks.bishopMoves f b.occ) f t p ∨
    PLpiece b .rook (Attacks.rookMoves f b.occ) f t p ∨
    PLpiece b .queen (Attacks.bishopMoves f b.occ ||| Attacks.rookMoves f b.occ) f t p ∨
    PLshort b f t p ∨ PLlong b f t p ∨ PLpawn b f t p )

/-! ### consequences of `wf` -/

theorem wf_disjoint {b : Board} (h : b.wf = true) (s : Nat) (_hs : s < 64) :
    ¬ ((b.colorBB .white).getLsbD s = true ∧ (b.colorBB .black).getLsbD s = true) := by
  unfold Board.wf at h
  simp only [Bool.and_eq_true, beq_iff_eq] at h
  have := congrArg (fun x => x.getLsbD s) h.1.1
  simpa using this

theorem wf_piece {b : Board} (h : b.wf = true) (s : Nat) (hs : s < 64) (q : Piece) (hq : q ≠ .none) :
    (b.pieceBB q).getLsbD s = true ↔ b.pieceAt s = q := by
  unfold Board.wf at h
  simp only [Bool.and_eq_true, List.all_eq_true, List.mem_range, beq_iff_eq] at h
  have := (h.2 s hs).1
  cases q <;> first | exact absurd rfl hq | (simp at this; simp [this])

theorem wf_occupied {b : Board} (h : b.wf = true) (s : Nat) (hs : s < 64) :
    ((b.colorBB .white).getLsbD s = true ∨ (b.colorBB .black).getLsbD s = true) ↔ b.pieceAt s ≠ .none := by
  unfold Board.wf at h
  simp only [Bool.and_eq_true, List.all_eq_true, List.mem_range, beq_iff_eq] at h
  have := (h.2 s hs).2
  rw [← Bool.or_eq_true, this]; simp

theorem occ_get (b : Board) (s : Nat) :
    b.occ.getLsbD s = ((b.colorBB b.stm).getLsbD s || (b.colorBB b.stm.flip).getLsbD s) := by
  unfold Board.occ
  cases b.stm <;> simp [Color.flip, Bool.or_comm]

/-- own and enemy men never share a square. -/
theorem self_them_disjoint {b : Board} (h : b.wf = true) (s : Nat) (hs : s < 64)
    (h1 : (b.colorBB b.stm).getLsbD s = true) : (b.colorBB b.stm.flip).getLsbD s = false := by
  have := wf_disjoint h s hs
  cases hc : b.stm <;> simp_all [Color.flip]

theorem them_not_self {b : Board} (h : b.wf = true) (s : Nat) (hs : s < 64)
    (h1 : (b.colorBB b.stm.flip).getLsbD s = true) : (b.colorBB b.stm).getLsbD s = false := by
  have := wf_disjoint h s hs
  cases hc : b.stm <;> simp_all [Color.flip]

theorem relRank_le (c : Color) (s : Nat) (hs : s < 64) : relRank c s ≤ 7 := by
  cases c <;> simp only [relRank] <;> omega

end ChessVerif.PL
