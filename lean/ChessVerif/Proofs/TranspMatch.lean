/-
  C15 helper lemmas, part 1: 16-bit lanes of a 64-bit word, `match64`, `bucketIx`.

  `match64` is proved by lane arithmetic on `toNat` (no SAT/bit-blasting): the borrow of
  `x - rep16` enters lane `i` only if a lower lane of `x` is zero, i.e. only above a true match.
-/
import ChessVerif.Model.Transp

namespace ChessVerif.Model.Transp
open ChessVerif

/-! ### regenerated constants, pinned to the values the proofs use -/

theorem keyBits_eq : keyBits = 16 := by decide
theorem entryCnt_eq : entryCnt = 4 := by decide
theorem bucketBytes_eq : bucketBytes = 32 := by decide
theorem rep16_eq : rep16 = 0x0001000100010001#64 := by decide
theorem hi16_eq : hi16 = 0x8000800080008000#64 := by decide
theorem laneMask_eq : laneMask = 0xffff#64 := by decide

/-! ### lanes -/

theorem lane_toNat (w : BitVec 64) (i : Nat) : (lane w i).toNat = w.toNat / 2 ^ (16 * i) % 65536 := by
  simp [lane, keyBits_eq, Nat.shiftRight_eq_div_pow, Nat.mul_comm]

theorem lane_getLsbD (w : BitVec 64) (i j : Nat) :
    (lane w i).getLsbD j = (decide (j < 16) && w.getLsbD (i * 16 + j)) := by
  simp [lane, keyBits_eq]

theorem lane_getElem (w : BitVec 64) (i j : Nat) (hj : j < 16) :
    (lane w i)[j] = w.getLsbD (i * 16 + j) := by
  rw [← BitVec.getLsbD_eq_getElem, lane_getLsbD]
  simp [hj]

theorem lane_xor (a b : BitVec 64) (i : Nat) : lane (a ^^^ b) i = lane a i ^^^ lane b i := by
  apply BitVec.eq_of_getLsbD_eq
  intro j hj
  simp [hj]
  simp [lane_getElem]

theorem setLane_getLsbD (w : BitVec 64) (r : Nat) (k : Sig) (n : Nat) (hn : n < 64) :
    (setLane w r k).getLsbD n =
      if r * 16 ≤ n ∧ n < r * 16 + 16 then k.getLsbD (n - r * 16) else w.getLsbD n := by
  simp only [setLane, keyBits_eq, laneMask_eq, BitVec.getLsbD_or, BitVec.getLsbD_and,
    BitVec.getLsbD_not, BitVec.getLsbD_shiftLeft, BitVec.getLsbD_setWidth, hn, decide_true,
    Bool.true_and]
  have hm : ∀ m, (0xffff#64).getLsbD m = decide (m < 16) := by
    intro m
    by_cases h : m < 64
    · have : ∀ m : Fin 64, (0xffff#64).getLsbD m.val = decide (m.val < 16) := by decide
      exact this ⟨m, h⟩
    · have h16 : ¬ m < 16 := by omega
      simp [h16, BitVec.getLsbD_of_ge _ _ (Nat.le_of_not_lt h)]
  rw [hm]
  by_cases h1 : n < r * 16
  · have : ¬ (r * 16 ≤ n ∧ n < r * 16 + 16) := by omega
    simp [h1, this]
  · by_cases h2 : n < r * 16 + 16
    · have h3 : r * 16 ≤ n ∧ n < r * 16 + 16 := by omega
      have h4 : n - r * 16 < 16 := by omega
      simp [h1, h3, h4]
      omega
    · have h3 : ¬ (r * 16 ≤ n ∧ n < r * 16 + 16) := by omega
      have h4 : ¬ n - r * 16 < 16 := by omega
      have h5 : k.getLsbD (n - r * 16) = false := BitVec.getLsbD_of_ge _ _ (by omega)
      simp [h1, h3, h4, h5]

/-- Writing lane `r` changes lane `r` to `k` and no other lane. -/
theorem lane_setLane (w : BitVec 64) (r i : Nat) (k : Sig) (hr : r < 4) (hi : i < 4) :
    lane (setLane w r k) i = if i = r then k else lane w i := by
  apply BitVec.eq_of_getLsbD_eq
  intro j hj
  rw [lane_getLsbD, setLane_getLsbD _ _ _ _ (by omega)]
  by_cases h : i = r
  · subst h
    have : i * 16 ≤ i * 16 + j ∧ i * 16 + j < i * 16 + 16 := by omega
    simp [hj, this]
  · have : ¬ (r * 16 ≤ i * 16 + j ∧ i * 16 + j < r * 16 + 16) := by omega
    simp [h, this, hj, lane_getElem]

/-! ### trailing zeros -/

theorem lowestSet_eq (b : BB) (n : Nat) (hn : n < 64) (hb : b.getLsbD n = true)
    (hlow : ∀ m, m < n → b.getLsbD m = false) : lowestSet b = n := by
  unfold lowestSet
  have hmem : n ∈ bits b := mem_bits.2 ⟨hn, hb⟩
  have hsorted : (bits b).Pairwise (· < ·) := by
    unfold bits
    exact List.Pairwise.filter _ List.pairwise_lt_range
  cases hbits : bits b with
  | nil => rw [hbits] at hmem; cases hmem
  | cons h t =>
    rw [hbits] at hmem hsorted
    simp only [List.headD_cons]
    have hh : h ∈ bits b := by rw [hbits]; exact List.mem_cons_self
    have hhb := (mem_bits.1 hh).2
    have h1 : ¬ h < n := fun hlt => by rw [hlow h hlt] at hhb; cases hhb
    rcases List.mem_cons.1 hmem with rfl | hmt
    · rfl
    · have := (List.pairwise_cons.1 hsorted).1 n hmt
      omega

/-! ### match64 -/

/-- The arithmetic heart of the zero-lane trick, on `X = x.toNat`:
    with `Y = X - rep16 (mod 2^64)`, as long as no lane below lane `i` is zero, bit 15 of lane `i`
    of `Y & ^X` is set iff lane `i` of `X` is zero. -/
theorem zeroLane_arith (X : Nat) (hX : X < 2 ^ 64) :
    let Y := (2 ^ 64 - 0x0001000100010001 + X) % 2 ^ 64
    ((Y / 2 ^ 15 % 2 = 1 ∧ X / 2 ^ 15 % 2 = 0) ↔ X % 65536 = 0) ∧
    (X % 65536 ≠ 0 →
      ((Y / 2 ^ 31 % 2 = 1 ∧ X / 2 ^ 31 % 2 = 0) ↔ X / 2 ^ 16 % 65536 = 0)) ∧
    (X % 65536 ≠ 0 → X / 2 ^ 16 % 65536 ≠ 0 →
      ((Y / 2 ^ 47 % 2 = 1 ∧ X / 2 ^ 47 % 2 = 0) ↔ X / 2 ^ 32 % 65536 = 0)) ∧
    (X % 65536 ≠ 0 → X / 2 ^ 16 % 65536 ≠ 0 → X / 2 ^ 32 % 65536 ≠ 0 →
      ((Y / 2 ^ 63 % 2 = 1 ∧ X / 2 ^ 63 % 2 = 0) ↔ X / 2 ^ 48 % 65536 = 0)) := by
  intro Y
  refine ⟨?_, ?_, ?_, ?_⟩ <;> (simp only [Y]; omega)

theorem getLsbD_arith (x : BitVec 64) (n : Nat) :
    x.getLsbD n = decide (x.toNat / 2 ^ n % 2 = 1) := by
  rw [BitVec.getLsbD, Nat.testBit_eq_decide_div_mod_eq]

theorem hi16_getLsbD (n : Nat) (hn : n < 64) : hi16.getLsbD n = decide (n % 16 = 15) := by
  have : ∀ m : Fin 64, hi16.getLsbD m.val = decide (m.val % 16 = 15) := by decide
  exact this ⟨n, hn⟩

/-- `(x - rep16) & ^x & hi16` -/
def zmask (x : BitVec 64) : BitVec 64 := (x - rep16) &&& ~~~x &&& hi16

theorem zmask_getLsbD (x : BitVec 64) (n : Nat) (hn : n < 64) :
    (zmask x).getLsbD n =
      (decide (n % 16 = 15) && ((x - rep16).getLsbD n && !x.getLsbD n)) := by
  simp only [zmask, BitVec.getLsbD_and, BitVec.getLsbD_not, hi16_getLsbD n hn, hn, decide_true,
    Bool.true_and]
  cases (x - rep16).getLsbD n <;> cases x.getLsbD n <;> simp

theorem zmask_low (x : BitVec 64) (n : Nat) (hn : n < 64) (h : n % 16 ≠ 15) :
    (zmask x).getLsbD n = false := by
  rw [zmask_getLsbD x n hn]; simp [h]

theorem zmask_hi (x : BitVec 64) (n : Nat) (hn : n < 64) (h : n % 16 = 15) :
    (zmask x).getLsbD n = true ↔
      ((2 ^ 64 - 0x0001000100010001 + x.toNat) % 2 ^ 64 / 2 ^ n % 2 = 1 ∧ x.toNat / 2 ^ n % 2 = 0) := by
  rw [zmask_getLsbD x n hn, getLsbD_arith, getLsbD_arith, BitVec.toNat_sub, rep16_eq]
  simp only [h, decide_true, Bool.true_and, Bool.and_eq_true, decide_eq_true_eq,
    Bool.not_eq_eq_eq_not, Bool.not_true, decide_eq_false_iff_not]
  have : (0x0001000100010001#64).toNat = 0x0001000100010001 := by decide
  rw [this]
  omega

/-- `if mask == 0 { return }; return bits.TrailingZeros64(mask) / 16, true` -/
def zres (x : BitVec 64) : Option Nat := if zmask x = 0 then none else some (tz64 (zmask x) / keyBits)

theorem zres_some (x : BitVec 64) (j : Nat) (hj : j < 4)
    (hset : (zmask x).getLsbD (16 * j + 15) = true)
    (hlow : ∀ i, i < j → (zmask x).getLsbD (16 * i + 15) = false) : zres x = some j := by
  have hne : zmask x ≠ 0 := by
    intro h; rw [h] at hset; simp at hset
  have htz : tz64 (zmask x) = 16 * j + 15 := by
    apply lowestSet_eq _ _ (by omega) hset
    intro m hm
    by_cases h15 : m % 16 = 15
    · have := hlow (m / 16) (by omega)
      have e : 16 * (m / 16) + 15 = m := by omega
      rw [e] at this; exact this
    · exact zmask_low x m (by omega) h15
  simp only [zres, hne, if_false, htz, keyBits_eq]
  congr 1; omega

theorem zres_none (x : BitVec 64) (h : ∀ i, i < 4 → (zmask x).getLsbD (16 * i + 15) = false) :
    zres x = none := by
  have : zmask x = 0 := by
    apply BitVec.eq_of_getLsbD_eq
    intro n hn
    rw [show (0 : BitVec 64).getLsbD n = false from BitVec.getLsbD_zero]
    by_cases h15 : n % 16 = 15
    · have := h (n / 16) (by omega)
      have e : 16 * (n / 16) + 15 = n := by omega
      rw [e] at this; exact this
    · exact zmask_low x n hn h15
  simp [zres, this]

/-- The zero-lane trick finds the lowest zero lane of `x`. -/
theorem zres_spec (x : BitVec 64) :
    (∀ j, zres x = some j ↔ (j < 4 ∧ lane x j = 0 ∧ ∀ i, i < j → lane x i ≠ 0)) ∧
    (zres x = none ↔ ∀ i, i < 4 → lane x i ≠ 0) := by
  have hz : ∀ i, lane x i = 0 ↔ x.toNat / 2 ^ (16 * i) % 65536 = 0 := by
    intro i
    rw [← lane_toNat]
    constructor
    · intro h; rw [h]; rfl
    · intro h; apply BitVec.eq_of_toNat_eq; rw [h]; rfl
  obtain ⟨a0, a1, a2, a3⟩ := zeroLane_arith x.toNat x.isLt
  have b0 := zmask_hi x 15 (by omega) (by omega)
  have b1 := zmask_hi x 31 (by omega) (by omega)
  have b2 := zmask_hi x 47 (by omega) (by omega)
  have b3 := zmask_hi x 63 (by omega) (by omega)
  have z0 : lane x 0 = 0 ↔ x.toNat % 65536 = 0 := by
    have := hz 0; simpa using this
  have z1 : lane x 1 = 0 ↔ x.toNat / 2 ^ 16 % 65536 = 0 := hz 1
  have z2 : lane x 2 = 0 ↔ x.toNat / 2 ^ 32 % 65536 = 0 := hz 2
  have z3 : lane x 3 = 0 ↔ x.toNat / 2 ^ 48 % 65536 = 0 := hz 3
  -- the value of zres in each of the five cases
  have key : (lane x 0 = 0 → zres x = some 0) ∧
      (lane x 0 ≠ 0 → lane x 1 = 0 → zres x = some 1) ∧
      (lane x 0 ≠ 0 → lane x 1 ≠ 0 → lane x 2 = 0 → zres x = some 2) ∧
      (lane x 0 ≠ 0 → lane x 1 ≠ 0 → lane x 2 ≠ 0 → lane x 3 = 0 → zres x = some 3) ∧
      (lane x 0 ≠ 0 → lane x 1 ≠ 0 → lane x 2 ≠ 0 → lane x 3 ≠ 0 → zres x = none) := by
    refine ⟨?_, ?_, ?_, ?_, ?_⟩
    · intro h0
      apply zres_some x 0 (by omega)
      · exact b0.2 (a0.2 (z0.1 h0))
      · intro i hi; omega
    · intro h0 h1
      have n0 : x.toNat % 65536 ≠ 0 := fun h => h0 (z0.2 h)
      apply zres_some x 1 (by omega)
      · exact b1.2 ((a1 n0).2 (z1.1 h1))
      · intro i hi
        have : i = 0 := by omega
        subst this
        cases hb : (zmask x).getLsbD (16 * 0 + 15) with
        | false => rfl
        | true => exact absurd (a0.1 (b0.1 hb)) n0
    · intro h0 h1 h2
      have n0 : x.toNat % 65536 ≠ 0 := fun h => h0 (z0.2 h)
      have n1 : x.toNat / 2 ^ 16 % 65536 ≠ 0 := fun h => h1 (z1.2 h)
      apply zres_some x 2 (by omega)
      · exact b2.2 ((a2 n0 n1).2 (z2.1 h2))
      · intro i hi
        rcases (by omega : i = 0 ∨ i = 1) with rfl | rfl
        · cases hb : (zmask x).getLsbD (16 * 0 + 15) with
          | false => rfl
          | true => exact absurd (a0.1 (b0.1 hb)) n0
        · cases hb : (zmask x).getLsbD (16 * 1 + 15) with
          | false => rfl
          | true => exact absurd ((a1 n0).1 (b1.1 hb)) n1
    · intro h0 h1 h2 h3
      have n0 : x.toNat % 65536 ≠ 0 := fun h => h0 (z0.2 h)
      have n1 : x.toNat / 2 ^ 16 % 65536 ≠ 0 := fun h => h1 (z1.2 h)
      have n2 : x.toNat / 2 ^ 32 % 65536 ≠ 0 := fun h => h2 (z2.2 h)
      apply zres_some x 3 (by omega)
      · exact b3.2 ((a3 n0 n1 n2).2 (z3.1 h3))
      · intro i hi
        rcases (by omega : i = 0 ∨ i = 1 ∨ i = 2) with rfl | rfl | rfl
        · cases hb : (zmask x).getLsbD (16 * 0 + 15) with
          | false => rfl
          | true => exact absurd (a0.1 (b0.1 hb)) n0
        · cases hb : (zmask x).getLsbD (16 * 1 + 15) with
          | false => rfl
          | true => exact absurd ((a1 n0).1 (b1.1 hb)) n1
        · cases hb : (zmask x).getLsbD (16 * 2 + 15) with
          | false => rfl
          | true => exact absurd ((a2 n0 n1).1 (b2.1 hb)) n2
    · intro h0 h1 h2 h3
      have n0 : x.toNat % 65536 ≠ 0 := fun h => h0 (z0.2 h)
      have n1 : x.toNat / 2 ^ 16 % 65536 ≠ 0 := fun h => h1 (z1.2 h)
      have n2 : x.toNat / 2 ^ 32 % 65536 ≠ 0 := fun h => h2 (z2.2 h)
      have n3 : x.toNat / 2 ^ 48 % 65536 ≠ 0 := fun h => h3 (z3.2 h)
      apply zres_none
      intro i hi
      rcases (by omega : i = 0 ∨ i = 1 ∨ i = 2 ∨ i = 3) with rfl | rfl | rfl | rfl
      · cases hb : (zmask x).getLsbD (16 * 0 + 15) with
        | false => rfl
        | true => exact absurd (a0.1 (b0.1 hb)) n0
      · cases hb : (zmask x).getLsbD (16 * 1 + 15) with
        | false => rfl
        | true => exact absurd ((a1 n0).1 (b1.1 hb)) n1
      · cases hb : (zmask x).getLsbD (16 * 2 + 15) with
        | false => rfl
        | true => exact absurd ((a2 n0 n1).1 (b2.1 hb)) n2
      · cases hb : (zmask x).getLsbD (16 * 3 + 15) with
        | false => rfl
        | true => exact absurd ((a3 n0 n1 n2).1 (b3.1 hb)) n3
  obtain ⟨k0, k1, k2, k3, k4⟩ := key
  -- read the characterisation off the case table
  by_cases h0 : lane x 0 = 0
  · have r := k0 h0
    refine ⟨fun j => ?_, ?_⟩
    · rw [r]
      constructor
      · intro h; cases h; exact ⟨by omega, h0, fun i hi => by omega⟩
      · rintro ⟨_, hj, hl⟩
        by_cases e : j = 0
        · rw [e]
        · exact absurd h0 (hl 0 (by omega))
    · rw [r]; constructor
      · intro h; cases h
      · intro h; exact absurd h0 (h 0 (by omega))
  by_cases h1 : lane x 1 = 0
  · have r := k1 h0 h1
    refine ⟨fun j => ?_, ?_⟩
    · rw [r]
      constructor
      · intro h; cases h
        exact ⟨by omega, h1, fun i hi => by
          have : i = 0 := by omega
          subst this; exact h0⟩
      · rintro ⟨hj4, hj, hl⟩
        rcases (by omega : j = 0 ∨ j = 1 ∨ 1 < j) with rfl | rfl | hgt
        · exact absurd hj h0
        · rfl
        · exact absurd h1 (hl 1 hgt)
    · rw [r]; constructor
      · intro h; cases h
      · intro h; exact absurd h1 (h 1 (by omega))
  by_cases h2 : lane x 2 = 0
  · have r := k2 h0 h1 h2
    refine ⟨fun j => ?_, ?_⟩
    · rw [r]
      constructor
      · intro h; cases h
        exact ⟨by omega, h2, fun i hi => by
          rcases (by omega : i = 0 ∨ i = 1) with rfl | rfl
          · exact h0
          · exact h1⟩
      · rintro ⟨hj4, hj, hl⟩
        rcases (by omega : j = 0 ∨ j = 1 ∨ j = 2 ∨ 2 < j) with rfl | rfl | rfl | hgt
        · exact absurd hj h0
        · exact absurd hj h1
        · rfl
        · exact absurd h2 (hl 2 hgt)
    · rw [r]; constructor
      · intro h; cases h
      · intro h; exact absurd h2 (h 2 (by omega))
  by_cases h3 : lane x 3 = 0
  · have r := k3 h0 h1 h2 h3
    refine ⟨fun j => ?_, ?_⟩
    · rw [r]
      constructor
      · intro h; cases h
        exact ⟨by omega, h3, fun i hi => by
          rcases (by omega : i = 0 ∨ i = 1 ∨ i = 2) with rfl | rfl | rfl
          · exact h0
          · exact h1
          · exact h2⟩
      · rintro ⟨hj4, hj, hl⟩
        rcases (by omega : j = 0 ∨ j = 1 ∨ j = 2 ∨ j = 3) with rfl | rfl | rfl | rfl
        · exact absurd hj h0
        · exact absurd hj h1
        · exact absurd hj h2
        · rfl
    · rw [r]; constructor
      · intro h; cases h
      · intro h; exact absurd h3 (h 3 (by omega))
  · have r := k4 h0 h1 h2 h3
    refine ⟨fun j => ?_, ?_⟩
    · rw [r]
      constructor
      · intro h; cases h
      · rintro ⟨hj4, hj, _⟩
        rcases (by omega : j = 0 ∨ j = 1 ∨ j = 2 ∨ j = 3) with rfl | rfl | rfl | rfl
        · exact absurd hj h0
        · exact absurd hj h1
        · exact absurd hj h2
        · exact absurd hj h3
    · rw [r]
      constructor
      · intro _ i hi
        rcases (by omega : i = 0 ∨ i = 1 ∨ i = 2 ∨ i = 3) with rfl | rfl | rfl | rfl
        · exact h0
        · exact h1
        · exact h2
        · exact h3
      · intro _; rfl

/-- Every lane of `uint64(key) * rep16` is `key`. -/
theorem lane_rep (key : Sig) (i : Nat) (hi : i < 4) : lane (key.setWidth 64 * rep16) i = key := by
  apply BitVec.eq_of_toNat_eq
  rw [lane_toNat, rep16_eq, BitVec.toNat_mul, BitVec.toNat_setWidth]
  have hk := key.isLt
  have : (0x0001000100010001#64).toNat = 0x0001000100010001 := by decide
  rw [this]
  have hk' : key.toNat % 2 ^ 64 = key.toNat := Nat.mod_eq_of_lt (by omega)
  rw [hk']
  have hp : key.toNat * 281479271743489 % 2 ^ 64 = key.toNat * 281479271743489 :=
    Nat.mod_eq_of_lt (by omega)
  rw [hp]
  generalize key.toNat = a at hk ⊢
  have e1 : a * 281479271743489 = (a + 65536 * (a + 65536 * a)) * 65536 + a := by omega
  have e2 : a * 281479271743489 = 4294967296 * (a + 65536 * a) + (a + 65536 * a) := by omega
  have e3 : a * 281479271743489 = 281474976710656 * a + (a + 65536 * (a + 65536 * a)) := by omega
  rcases (by omega : i = 0 ∨ i = 1 ∨ i = 2 ∨ i = 3) with rfl | rfl | rfl | rfl
  · omega
  · have : a * 281479271743489 / 2 ^ (16 * 1) = a + 65536 * (a + 65536 * a) := by
      rw [e1]; omega
    rw [this]; omega
  · have : a * 281479271743489 / 2 ^ (16 * 2) = a + 65536 * a := by
      rw [e2]; omega
    rw [this]; omega
  · have : a * 281479271743489 / 2 ^ (16 * 3) = a := by
      rw [e3]; omega
    rw [this]; omega

theorem match64_eq_zres (w : BitVec 64) (key : Sig) :
    match64 w key = zres (w ^^^ (key.setWidth 64 * rep16)) := rfl

theorem lane_xor_rep_eq_zero (w : BitVec 64) (key : Sig) (i : Nat) (hi : i < 4) :
    lane (w ^^^ (key.setWidth 64 * rep16)) i = 0 ↔ lane w i = key := by
  rw [lane_xor, lane_rep key i hi]
  exact BitVec.xor_eq_zero_iff

/-- **match64_spec**: for every word and key, `match64` returns the lowest lane equal to `key`,
    and `none` exactly when no lane matches. -/
theorem match64_some_iff (w : BitVec 64) (key : Sig) (j : Nat) :
    match64 w key = some j ↔ (j < 4 ∧ lane w j = key ∧ ∀ i, i < j → lane w i ≠ key) := by
  rw [match64_eq_zres, (zres_spec _).1 j]
  constructor
  · rintro ⟨hj, h1, h2⟩
    refine ⟨hj, (lane_xor_rep_eq_zero w key j hj).1 h1, fun i hi h => ?_⟩
    exact h2 i hi ((lane_xor_rep_eq_zero w key i (by omega)).2 h)
  · rintro ⟨hj, h1, h2⟩
    refine ⟨hj, (lane_xor_rep_eq_zero w key j hj).2 h1, fun i hi h => ?_⟩
    exact h2 i hi ((lane_xor_rep_eq_zero w key i (by omega)).1 h)

theorem match64_none_iff (w : BitVec 64) (key : Sig) :
    match64 w key = none ↔ ∀ i, i < 4 → lane w i ≠ key := by
  rw [match64_eq_zres, (zres_spec _).2]
  constructor
  · intro h i hi e; exact h i hi ((lane_xor_rep_eq_zero w key i hi).2 e)
  · intro h i hi e; exact h i hi ((lane_xor_rep_eq_zero w key i hi).1 e)

theorem match64_lt (w : BitVec 64) (key : Sig) (j : Nat) (h : match64 w key = some j) : j < 4 :=
  ((match64_some_iff w key j).1 h).1

/-! ### bucketIx -/

/-- **bucketIx_lt**: the Lemire index is in range for every non-empty table, of any length
    (for `n ≥ 2^32` the 64-bit product wraps, but the result is `< 2^32 ≤ n` anyway). -/
theorem bucketIx_lt (h : BitVec 64) (n : Nat) (hn : 0 < n) : bucketIx h n < n := by
  unfold bucketIx
  rw [Nat.shiftRight_eq_div_pow]
  have h32 : h.toNat % 2 ^ 32 < 2 ^ 32 := Nat.mod_lt _ (by decide)
  by_cases hbig : n < 2 ^ 32
  · have hn64 : n % 2 ^ 64 = n := Nat.mod_eq_of_lt (by omega)
    rw [hn64]
    have hprod : h.toNat % 2 ^ 32 * n < 2 ^ 32 * n := Nat.mul_lt_mul_of_pos_right h32 hn
    have hlt64 : h.toNat % 2 ^ 32 * n < 2 ^ 64 := by
      calc h.toNat % 2 ^ 32 * n < 2 ^ 32 * n := hprod
        _ ≤ 2 ^ 32 * 2 ^ 32 := Nat.mul_le_mul_left _ (by omega)
        _ = 2 ^ 64 := by decide
    rw [Nat.mod_eq_of_lt hlt64]
    apply Nat.div_lt_of_lt_mul
    exact hprod
  · have : h.toNat % 2 ^ 32 * (n % 2 ^ 64) % 2 ^ 64 < 2 ^ 64 := Nat.mod_lt _ (by decide)
    have : h.toNat % 2 ^ 32 * (n % 2 ^ 64) % 2 ^ 64 / 2 ^ 32 < 2 ^ 32 := by
      apply Nat.div_lt_of_lt_mul
      calc _ < 2 ^ 64 := this
        _ = 2 ^ 32 * 2 ^ 32 := by decide
    omega

/-- Below 2^32 buckets the index is the exact Lemire reduction `⌊h32 · n / 2^32⌋`. -/
theorem bucketIx_eq (h : BitVec 64) (n : Nat) (hn : n < 2 ^ 32) :
    bucketIx h n = (h.toNat % 2 ^ 32) * n / 2 ^ 32 := by
  unfold bucketIx
  rw [Nat.shiftRight_eq_div_pow]
  have h32 : h.toNat % 2 ^ 32 < 2 ^ 32 := Nat.mod_lt _ (by decide)
  have hn64 : n % 2 ^ 64 = n := Nat.mod_eq_of_lt (by omega)
  rw [hn64]
  have hlt64 : h.toNat % 2 ^ 32 * n < 2 ^ 64 := by
    calc h.toNat % 2 ^ 32 * n ≤ 2 ^ 32 * n := Nat.mul_le_mul_right _ (by omega)
      _ < 2 ^ 32 * 2 ^ 32 := Nat.mul_lt_mul_of_pos_left hn (by decide)
      _ = 2 ^ 64 := by decide
  rw [Nat.mod_eq_of_lt hlt64]

end ChessVerif.Model.Transp
