/-
  C09: `Attackers(squares, occ, color)` and `Block(squares, color)` of board/attacks.go, bit by bit.
-/
import ChessVerif.Proofs.MatePawnBits

namespace ChessVerif.Mate
open ChessVerif Board Rules Bridge

theorem foldl_or_get (f : Nat → BB) (l : List Nat) (init : BB) (a : Nat) :
    (l.foldl (fun res sq => res ||| f sq) init).getLsbD a =
      (init.getLsbD a || l.any (fun sq => (f sq).getLsbD a)) := by
  induction l generalizing init with
  | nil => simp
  | cons x xs ih =>
    rw [List.foldl_cons, ih, List.any_cons, BitVec.getLsbD_or, Bool.or_assoc]

theorem ahead_flip (c : Color) (t d k : Nat) : PL.ahead c.flip t k d ↔ PL.ahead c d k t := by
  cases c <;> simp only [PL.ahead, Color.flip] <;> omega

variable {b : Board}

theorem zero_get (i : Nat) : (0 : BB).getLsbD i = false := by simp

/-- **`Attackers(squares, occ, color)`**: the men of colour `color` that attack some member of
    `squares` under the occupancy `occ`. -/
theorem attackers_get (hw : WFP b) (squares occ : BB) (color : Color) (a : Nat) (ha : a < 64) :
    (b.attackers squares occ color).getLsbD a = true ↔
      (b.colorBB color).getLsbD a = true ∧
        ∃ t, t < 64 ∧ squares.getLsbD t = true ∧ Att occ color (b.pieceAt a) a t := by
  unfold Board.attackers
  simp only []
  rw [BitVec.getLsbD_or, Bool.or_eq_true, foldl_or_get
    (fun sq => ((Attacks.kingMoves sq &&& b.pieceBB .king ||| Attacks.knightMoves sq &&& b.pieceBB .knight |||
      Attacks.bishopMoves sq occ &&& (b.pieceBB .bishop ||| b.pieceBB .queen) |||
      Attacks.rookMoves sq occ &&& (b.pieceBB .rook ||| b.pieceBB .queen)) &&& b.colorBB color))]
  simp only [zero_get, Bool.false_or, Bool.false_eq_true, false_or, any_bits_iff, BitVec.getLsbD_and, BitVec.getLsbD_or,
    Bool.and_eq_true, Bool.or_eq_true, hw.piece_iff a ha .king (by decide), hw.piece_iff a ha .knight (by decide),
    hw.piece_iff a ha .bishop (by decide), hw.piece_iff a ha .rook (by decide), hw.piece_iff a ha .queen (by decide),
    hw.piece_iff a ha .pawn (by decide)]
  constructor
  · rintro (⟨t, ht, hsq, hsub, hc⟩ | ⟨⟨hcap, hc⟩, hp⟩)
    · refine ⟨hc, t, ht, hsq, ?_⟩
      rcases hsub with ((⟨h1, hk⟩ | ⟨h1, hk⟩) | ⟨h1, hk⟩) | ⟨h1, hk⟩
      · rw [hk, Att_symm ha ht (by decide)]; exact (king_lookup ht ha).1 h1
      · rw [hk, Att_symm ha ht (by decide)]; exact (knight_lookup ht ha).1 h1
      · have := (bishop_lookup (c := color) ht ha).1 h1
        rw [Att_symm ht ha (by decide)] at this
        rcases hk with hk | hk <;> rw [hk]
        · exact this
        · exact Att_queen.2 (Or.inl this)
      · have := (rook_lookup (c := color) ht ha).1 h1
        rw [Att_symm ht ha (by decide)] at this
        rcases hk with hk | hk <;> rw [hk]
        · exact this
        · exact Att_queen.2 (Or.inr this)
    · obtain ⟨t, ht, hsq, hg⟩ := (cap_get color.flip squares a ha).1 hcap
      refine ⟨hc, t, ht, hsq, ?_⟩
      rw [hp]
      exact Att_pawn.2 ((PL.capGeom_flip color a t).1 hg)
  · rintro ⟨hc, t, ht, hsq, hatt⟩
    cases hk : b.pieceAt a <;> rw [hk] at hatt
    · exact absurd hatt Att_none
    · right
      refine ⟨⟨(cap_get color.flip squares a ha).2 ⟨t, ht, hsq, (PL.capGeom_flip color a t).2 (Att_pawn.1 hatt)⟩, hc⟩, rfl⟩
    · left
      refine ⟨t, ht, hsq, Or.inl (Or.inl (Or.inr ⟨?_, rfl⟩)), hc⟩
      rw [Att_symm ha ht (by decide)] at hatt
      exact (knight_lookup ht ha).2 hatt
    · left
      refine ⟨t, ht, hsq, Or.inl (Or.inr ⟨?_, Or.inl rfl⟩), hc⟩
      rw [Att_symm ha ht (by decide)] at hatt
      exact (bishop_lookup ht ha).2 hatt
    · left
      refine ⟨t, ht, hsq, Or.inr ⟨?_, Or.inl rfl⟩, hc⟩
      rw [Att_symm ha ht (by decide)] at hatt
      exact (rook_lookup ht ha).2 hatt
    · left
      rcases Att_queen.1 hatt with h | h
      · refine ⟨t, ht, hsq, Or.inl (Or.inr ⟨?_, Or.inr rfl⟩), hc⟩
        rw [Att_symm ha ht (by decide)] at h
        exact (bishop_lookup ht ha).2 h
      · refine ⟨t, ht, hsq, Or.inr ⟨?_, Or.inr rfl⟩, hc⟩
        rw [Att_symm ha ht (by decide)] at h
        exact (rook_lookup ht ha).2 h
    · left
      refine ⟨t, ht, hsq, Or.inl (Or.inl (Or.inl ⟨?_, rfl⟩)), hc⟩
      rw [Att_symm ha ht (by decide)] at hatt
      exact (king_lookup ht ha).2 hatt

/-- the attackers of a single square. -/
theorem attackers_bit (hw : WFP b) (T : Nat) (hT : T < 64) (occ : BB) (color : Color) (a : Nat) (ha : a < 64) :
    (b.attackers (bit T) occ color).getLsbD a = true ↔
      (b.colorBB color).getLsbD a = true ∧ Att occ color (b.pieceAt a) a T := by
  rw [attackers_get hw _ _ _ a ha]
  constructor
  · rintro ⟨hc, t, ht, hb, hatt⟩
    rw [bit_getLsbD T t hT, decide_eq_true_eq] at hb
    subst hb
    exact ⟨hc, hatt⟩
  · rintro ⟨hc, hatt⟩
    exact ⟨hc, T, hT, by rw [bit_getLsbD T T hT]; simp, hatt⟩

/-- **`Block(squares, color)`**: the men of colour `color` (kings excepted) that can move onto a
    member of `squares` assuming those squares are vacant: knights and sliders by their attack,
    pawns by a single or a double advance. -/
theorem block_get (hw : WFP b) (squares : BB) (color : Color) (d : Nat) (hd : d < 64) :
    (b.block squares color).getLsbD d = true ↔
      (b.colorBB color).getLsbD d = true ∧
      ( (∃ t, t < 64 ∧ squares.getLsbD t = true ∧
            (b.pieceAt d = .knight ∨ b.pieceAt d = .bishop ∨ b.pieceAt d = .rook ∨ b.pieceAt d = .queen) ∧
            Att b.occ color (b.pieceAt d) d t) ∨
        (b.pieceAt d = .pawn ∧ ∃ t, t < 64 ∧ squares.getLsbD t = true ∧ PL.ahead color d 8 t) ∨
        (b.pieceAt d = .pawn ∧ ∃ t m, t < 64 ∧ m < 64 ∧ squares.getLsbD t = true ∧ PL.relRank color t = 3 ∧
            PL.ahead color m 8 t ∧ b.occ.getLsbD m = false ∧ PL.ahead color d 8 m) ) := by
  unfold Board.block
  simp only []
  rw [BitVec.getLsbD_or, Bool.or_eq_true, foldl_or_get
    (fun sq => ((0 ||| Attacks.knightMoves sq &&& b.pieceBB .knight |||
      Attacks.bishopMoves sq b.occ &&& (b.pieceBB .bishop ||| b.pieceBB .queen) |||
      Attacks.rookMoves sq b.occ &&& (b.pieceBB .rook ||| b.pieceBB .queen)) &&& b.colorBB color))]
  simp only [zero_get, Bool.false_or, Bool.false_eq_true, false_or, any_bits_iff, BitVec.getLsbD_and, BitVec.getLsbD_or,
    BitVec.getLsbD_not, hd, decide_true, Bool.true_and,
    Bool.and_eq_true, Bool.or_eq_true, hw.piece_iff d hd .knight (by decide),
    hw.piece_iff d hd .bishop (by decide), hw.piece_iff d hd .rook (by decide), hw.piece_iff d hd .queen (by decide),
    hw.piece_iff d hd .pawn (by decide), push_get _ _ d hd, ahead_flip, Bool.not_eq_true',
    Bool.and_eq_false_imp, Bool.not_eq_false']
  constructor
  · rintro (⟨t, ht, hsq, hsub, hc⟩ | ⟨⟨hpush, hc⟩, hp⟩)
    · refine ⟨hc, Or.inl ⟨t, ht, hsq, ?_⟩⟩
      rcases hsub with (⟨h1, hk⟩ | ⟨h1, hk⟩) | ⟨h1, hk⟩
      · refine ⟨Or.inl hk, ?_⟩
        rw [hk, Att_symm hd ht (by decide)]; exact (knight_lookup ht hd).1 h1
      · have := (bishop_lookup (c := color) ht hd).1 h1
        rw [Att_symm ht hd (by decide)] at this
        rcases hk with hk | hk
        · exact ⟨Or.inr (Or.inl hk), by rw [hk]; exact this⟩
        · exact ⟨Or.inr (Or.inr (Or.inr hk)), by rw [hk]; exact Att_queen.2 (Or.inl this)⟩
      · have := (rook_lookup (c := color) ht hd).1 h1
        rw [Att_symm ht hd (by decide)] at this
        rcases hk with hk | hk
        · exact ⟨Or.inr (Or.inr (Or.inl hk)), by rw [hk]; exact this⟩
        · exact ⟨Or.inr (Or.inr (Or.inr hk)), by rw [hk]; exact Att_queen.2 (Or.inr this)⟩
    · refine ⟨hc, Or.inr ?_⟩
      rcases hpush with ⟨⟨t, ht, hsq, hah⟩, _⟩ | ⟨⟨m, hm, ⟨hin, _, hocc⟩, hah2⟩, _⟩
      · exact Or.inl ⟨hp, t, ht, hsq, hah⟩
      · obtain ⟨t, ht, hrs, hah1⟩ := (push_get _ _ m hm).1 hin
        rw [BitVec.getLsbD_and, Bool.and_eq_true, PL.relRankBB_get color 3 t (by decide) ht,
          decide_eq_true_eq] at hrs
        exact Or.inr ⟨hp, t, m, ht, hm, hrs.2, hrs.1, (ahead_flip _ _ _ _).1 hah1, hocc, hah2⟩
  · rintro ⟨hc, (⟨t, ht, hsq, hk, hatt⟩ | ⟨hp, t, ht, hsq, hah⟩ | ⟨hp, t, m, ht, hm, hsq, hr, hah1, hocc, hah2⟩)⟩
    · left
      refine ⟨t, ht, hsq, ?_, hc⟩
      rcases hk with hk | hk | hk | hk <;> rw [hk] at hatt
      · rw [Att_symm hd ht (by decide)] at hatt
        exact Or.inl (Or.inl ⟨(knight_lookup ht hd).2 hatt, hk⟩)
      · rw [Att_symm hd ht (by decide)] at hatt
        exact Or.inl (Or.inr ⟨(bishop_lookup ht hd).2 hatt, Or.inl hk⟩)
      · rw [Att_symm hd ht (by decide)] at hatt
        exact Or.inr ⟨(rook_lookup ht hd).2 hatt, Or.inl hk⟩
      · rcases Att_queen.1 hatt with h | h
        · rw [Att_symm hd ht (by decide)] at h
          exact Or.inl (Or.inr ⟨(bishop_lookup ht hd).2 h, Or.inr hk⟩)
        · rw [Att_symm hd ht (by decide)] at h
          exact Or.inr ⟨(rook_lookup ht hd).2 h, Or.inr hk⟩
    · right
      exact ⟨⟨Or.inl ⟨⟨t, ht, hsq, hah⟩, fun _ => ⟨hp, hc⟩⟩, hc⟩, hp⟩
    · right
      refine ⟨⟨Or.inr ⟨⟨m, hm, ⟨?_, by simp [hm], hocc⟩, hah2⟩, fun _ => ⟨hp, hc⟩⟩, hc⟩, hp⟩
      refine (push_get _ _ m hm).2 ⟨t, ht, ?_, (ahead_flip _ _ _ _).2 hah1⟩
      rw [BitVec.getLsbD_and, Bool.and_eq_true, PL.relRankBB_get color 3 t (by decide) ht, decide_eq_true_eq]
      exact ⟨hr, hsq⟩

end ChessVerif.Mate
