/-
  C12, structural part for the sliders (valid for all 2^64 occupancies):
   * `calcRookAttacks_eq` / `calcBishopAttacks_eq` : the Go reference walkers (model) equal the
     geometric ray walk (spec);
   * `rayWalkFrom_and_mask` : squares whose successor on the ray is off the board never influence
     the walk, so an occupancy may be intersected with any mask covering the "inner" ray squares
     (`innerOK`);  the extracted masks are checked to cover them (kernel, 64 squares);
   * `rayN_eq` : the natural-number ray of the kernel checker equals the spec ray.
-/
import ChessVerif.Proofs.AttacksCheck
import ChessVerif.Model.Attacks
import ChessVerif.Spec.Geometry

set_option linter.unusedSimpArgs false
set_option linter.unusedVariables false

open ChessVerif

namespace ChessVerif.AttacksProofs

/-! ### Bit tests -/

theorem and_bit_ne_zero (occ : BB) (s : Nat) (hs : s < 64) :
    (occ &&& bit s != 0) = occ.getLsbD s := by
  rw [Bool.eq_iff_iff]
  simp only [bne_iff_ne, ne_eq]
  constructor
  · intro h
    apply Classical.byContradiction
    intro hn
    apply h
    apply BitVec.eq_of_getLsbD_eq
    intro i hi
    simp only [BitVec.getLsbD_and, bit_getLsbD s i hs, BitVec.getLsbD_zero]
    by_cases hsi : s = i
    · subst hsi; simpa using hn
    · simp [hsi]
  · intro h h0
    have : (occ &&& bit s).getLsbD s = true := by
      simp [BitVec.getLsbD_and, bit_getLsbD s s hs, h]
    rw [h0] at this
    simp at this

/-! ### Model walker = spec walker -/

/-- One Go ray loop equals the spec ray, provided the Go loop condition agrees with `onBoard` on
    the successor of every on-board square (true for each of the eight loops). -/
theorem walkLoop_eq (occ : BB) (cond : Int → Int → Bool) (df dr : Int)
    (hc : ∀ f r, Geometry.onBoard f r = true → cond (r + dr) (f + df) = Geometry.onBoard (f + df) (r + dr)) :
    ∀ (n : Nat) (f r : Int) (res : BB), Geometry.onBoard f r = true →
      Attacks.walkLoop occ cond df dr n (f + df) (r + dr) res
        = res ||| Geometry.rayWalkFrom occ df dr n f r := by
  intro n
  induction n with
  | zero => intro f r res _; simp [Attacks.walkLoop, Geometry.rayWalkFrom]
  | succ n ih =>
    intro f r res hb
    rw [Attacks.walkLoop, Geometry.rayWalkFrom, hc f r hb]
    by_cases hob : Geometry.onBoard (f + df) (r + dr) = true
    · have hs : (f + df + (r + dr) * 8).toNat = Geometry.sqAt (f + df) (r + dr) := by
        unfold Geometry.sqAt; congr 1; omega
      have hlt : Geometry.sqAt (f + df) (r + dr) < 64 := by
        unfold Geometry.sqAt
        simp only [Geometry.onBoard, Bool.and_eq_true, decide_eq_true_eq] at hob
        omega
      simp only [hob, if_true, hs, and_bit_ne_zero occ _ hlt]
      by_cases ho : occ.getLsbD (Geometry.sqAt (f + df) (r + dr)) = true
      · simp [ho]
      · simp only [ho, if_false, Bool.false_eq_true]
        rw [ih (f + df) (r + dr) _ hob, BitVec.or_assoc]
    · simp [hob]

theorem walk_eq (occ : BB) (cond : Int → Int → Bool) (df dr : Int)
    (hc : ∀ f r, Geometry.onBoard f r = true → cond (r + dr) (f + df) = Geometry.onBoard (f + df) (r + dr))
    (sq : Nat) (hsq : sq < 64) (res : BB) :
    Attacks.walk occ cond ((sq % 8 : Nat) : Int) ((sq / 8 : Nat) : Int) df dr res
      = res ||| Geometry.rayWalk occ sq df dr := by
  unfold Attacks.walk Geometry.rayWalk Geometry.fileI Geometry.rankI
  apply walkLoop_eq occ cond df dr hc
  simp only [Geometry.onBoard, Bool.and_eq_true, decide_eq_true_eq]
  omega

/-- Tactic for the eight loop conditions. -/
macro "cond_ok" : tactic =>
  `(tactic| (intro f r hb
             simp only [Geometry.onBoard, Bool.and_eq_true, decide_eq_true_eq] at hb
             rw [Bool.eq_iff_iff]
             simp only [Geometry.onBoard, Bool.and_eq_true, decide_eq_true_eq, ge_iff_le]
             omega))

theorem calcRookAttacks_eq (sq : Nat) (hsq : sq < 64) (occ : BB) :
    Attacks.calcRookAttacks sq occ = Geometry.rookRay occ sq := by
  unfold Attacks.calcRookAttacks Geometry.rookRay
  simp only []
  rw [walk_eq occ _ 0 1 (by cond_ok) sq hsq, walk_eq occ _ 0 (-1) (by cond_ok) sq hsq,
    walk_eq occ _ 1 0 (by cond_ok) sq hsq, walk_eq occ _ (-1) 0 (by cond_ok) sq hsq]
  simp

theorem calcBishopAttacks_eq (sq : Nat) (hsq : sq < 64) (occ : BB) :
    Attacks.calcBishopAttacks sq occ = Geometry.bishopRay occ sq := by
  unfold Attacks.calcBishopAttacks Geometry.bishopRay
  simp only []
  rw [walk_eq occ _ 1 1 (by cond_ok) sq hsq, walk_eq occ _ (-1) 1 (by cond_ok) sq hsq,
    walk_eq occ _ 1 (-1) (by cond_ok) sq hsq, walk_eq occ _ (-1) (-1) (by cond_ok) sq hsq]
  simp

/-! ### Squares outside the relevant-occupancy mask never influence the walk -/

/-- `m` contains every square of the ray from `(f, r)` whose successor on the ray is still on the board. -/
def innerOK (m : BB) (df dr : Int) : Nat → Int → Int → Bool
  | 0, _, _ => true
  | n + 1, f, r =>
    let f' := f + df
    let r' := r + dr
    if Geometry.onBoard f' r' && Geometry.onBoard (f' + df) (r' + dr) then
      m.getLsbD (Geometry.sqAt f' r') && innerOK m df dr n f' r'
    else true

theorem rayWalkFrom_offboard (occ : BB) (df dr : Int) (n : Nat) (f r : Int)
    (h : Geometry.onBoard (f + df) (r + dr) = false) : Geometry.rayWalkFrom occ df dr n f r = 0 := by
  cases n with
  | zero => rfl
  | succ n => simp [Geometry.rayWalkFrom, h]

theorem rayWalkFrom_and_mask (occ m : BB) (df dr : Int) :
    ∀ (n : Nat) (f r : Int), innerOK m df dr n f r = true →
      Geometry.rayWalkFrom (occ &&& m) df dr n f r = Geometry.rayWalkFrom occ df dr n f r := by
  intro n
  induction n with
  | zero => intro f r _; rfl
  | succ n ih =>
    intro f r hin
    rw [Geometry.rayWalkFrom, Geometry.rayWalkFrom]
    by_cases hob : Geometry.onBoard (f + df) (r + dr) = true
    · simp only [hob, if_true]
      by_cases hnext : Geometry.onBoard (f + df + df) (r + dr + dr) = true
      · simp only [innerOK, hob, hnext, Bool.and_self, if_true, Bool.and_eq_true] at hin
        rw [ih _ _ hin.2]
        simp [BitVec.getLsbD_and, hin.1]
      · have hnext' : Geometry.onBoard (f + df + df) (r + dr + dr) = false := by simpa using hnext
        rw [rayWalkFrom_offboard _ df dr n _ _ hnext', rayWalkFrom_offboard _ df dr n _ _ hnext']
        simp
    · simp [hob]

/-- The mask covers the inner squares of the four rook rays of `sq`. -/
def rookMaskCovers (m : BB) (sq : Nat) : Bool :=
  innerOK m 0 1 7 (Geometry.fileI sq) (Geometry.rankI sq) && innerOK m 0 (-1) 7 (Geometry.fileI sq) (Geometry.rankI sq) &&
  innerOK m 1 0 7 (Geometry.fileI sq) (Geometry.rankI sq) && innerOK m (-1) 0 7 (Geometry.fileI sq) (Geometry.rankI sq)

/-- The mask covers the inner squares of the four bishop rays of `sq`. -/
def bishopMaskCovers (m : BB) (sq : Nat) : Bool :=
  innerOK m 1 1 7 (Geometry.fileI sq) (Geometry.rankI sq) && innerOK m (-1) 1 7 (Geometry.fileI sq) (Geometry.rankI sq) &&
  innerOK m 1 (-1) 7 (Geometry.fileI sq) (Geometry.rankI sq) && innerOK m (-1) (-1) 7 (Geometry.fileI sq) (Geometry.rankI sq)

theorem rookRay_and_mask (occ m : BB) (sq : Nat) (h : rookMaskCovers m sq = true) :
    Geometry.rookRay (occ &&& m) sq = Geometry.rookRay occ sq := by
  simp only [rookMaskCovers, Bool.and_eq_true] at h
  obtain ⟨⟨⟨h1, h2⟩, h3⟩, h4⟩ := h
  simp only [Geometry.rookRay, Geometry.rayWalk, rayWalkFrom_and_mask occ m _ _ _ _ _ h1,
    rayWalkFrom_and_mask occ m _ _ _ _ _ h2, rayWalkFrom_and_mask occ m _ _ _ _ _ h3,
    rayWalkFrom_and_mask occ m _ _ _ _ _ h4]

theorem bishopRay_and_mask (occ m : BB) (sq : Nat) (h : bishopMaskCovers m sq = true) :
    Geometry.bishopRay (occ &&& m) sq = Geometry.bishopRay occ sq := by
  simp only [bishopMaskCovers, Bool.and_eq_true] at h
  obtain ⟨⟨⟨h1, h2⟩, h3⟩, h4⟩ := h
  simp only [Geometry.bishopRay, Geometry.rayWalk, rayWalkFrom_and_mask occ m _ _ _ _ _ h1,
    rayWalkFrom_and_mask occ m _ _ _ _ _ h2, rayWalkFrom_and_mask occ m _ _ _ _ _ h3,
    rayWalkFrom_and_mask occ m _ _ _ _ _ h4]

/-- The extracted rook masks cover the inner ray squares (kernel evaluation, 64 squares). -/
theorem rookMasks_cover : ∀ sq, sq < 64 →
    rookMaskCovers (BitVec.ofNat 64 (Gen.Tables.rookMasks.getD sq 0)) sq = true := by
  decide +kernel

/-- The extracted bishop masks cover the inner ray squares (kernel evaluation, 64 squares). -/
theorem bishopMasks_cover : ∀ sq, sq < 64 →
    bishopMaskCovers (BitVec.ofNat 64 (Gen.Tables.bishopMasks.getD sq 0)) sq = true := by
  decide +kernel

end ChessVerif.AttacksProofs
