/-
  C10 closed, part 5: "however it was set up" — the game starts with the UCI command
  `position fen <F> moves m₁ … mₖ` and continues with moves made by `MakeMove` (the search).

  `applyMoves` on the printed moves is `MakeMove` folded (C02's `applyMoves_toUCI`), here WITHOUT the
  clock bound that `PlayableRun` carries: `parseUCIMove` does not read the halfmove clock, so C02's
  `parse_toUCI` is used on the clock-reset board.
-/
import ChessVerif.Proofs.RepClosedHash

namespace ChessVerif
namespace RepClosed
open Rules Board Rep UciPosition

theorem parseUCIMove_setFifty (b : Board) (x : Int) (bytes : Fen.Bytes) :
    parseUCIMove (setFifty b x) bytes = parseUCIMove b bytes := rfl

/-- `applyMoves` on the printed moves of a playable sequence is `MakeMove` folded — any clock. -/
theorem applyMoves_toUCI_nc (K : Keys) : ∀ (ms : List Move) (b : Board), ValidNC b → Board.Inv K b →
    EpTarget.PlayableSeq K b ms → applyMoves K b (ms.map EpTarget.uciBytes) = run K b ms := by
  intro ms
  induction ms with
  | nil => intro b _ _ _; rfl
  | cons m ms ih =>
    intro b hv hi hs
    obtain ⟨hm, hrest⟩ := hs
    obtain ⟨hl, hc⟩ := playable_legal K hv hm
    have S := step K hv hi hl
    have s1 := S.valid'; have s2 := S.inv'
    rw [hc] at s1 s2
    have hgz : m ∈ MoveGen.gen (setFifty b 0) := by
      rw [gen_setFifty]; exact EpTarget.playable_gen hm
    have hparse : parseUCIMove b (Move.toUCI m).toUTF8.data = some m := by
      rw [← parseUCIMove_setFifty b 0]; exact EpTarget.parse_toUCI hv hgz
    rw [List.map_cons, applyMoves]
    show (match parseUCIMove b (Move.toUCI m).toUTF8.data with
      | none => b
      | some mv => applyMoves K (b.makeMove K mv).1 (ms.map EpTarget.uciBytes)) = _
    rw [hparse]
    exact ih _ s1 s2 hrest

/-- the board `position fen <FEN of b>` installs is a loaded start board. -/
theorem installed_facts (K : Keys) {b : Board} (hv : Board.valid b = true) :
    Board.valid (EpTarget.installed K b) = true ∧
    (EpTarget.installed K b).hashes = [calcHash K (EpTarget.installed K b)] ∧
    (EpTarget.installed K b).abs = b.abs :=
  ⟨hv, rfl, rfl⟩

/-- `position fen <FEN of b> moves m₁ … mₖ` for every valid `b` and every sequence of moves each
    playable in turn (no clock bound): the driver's board is `MakeMove` folded over the moves from the
    installed position. -/
theorem uci_position_moves (K : Keys) (cur b : Board) (ms : List Move) (hv : Board.valid b = true)
    (hfm : b.fullMoves < 2 ^ 63) (hplay : EpTarget.PlayableSeq K (EpTarget.installed K b) ms) :
    handlePositionS K cur ("fen" :: (Fen.printFields b ++ "moves" :: ms.map Move.toUCI)) =
      run K (EpTarget.installed K b) ms := by
  have hrt : Fen.RoundTripOK b := Fen.roundtrip_full b hv hfm
  have hparse : Fen.fromFEN K (joinSp ((Fen.printFields b).map fun s => s.toUTF8.data)) =
      .ok (EpTarget.installed K b) := by
    rw [Fen.join_fields, Fen.fromFEN, hrt]; rfl
  have hgate : (EpTarget.installed K b).invalidPieceCount = false := by
    unfold EpTarget.installed
    rw [Fen.ipc_stripHash_resetHash]; exact Board.pieceCount_accepts_valid b hv
  have hkw : "fen".toUTF8.data = kwFen := by decide
  have hkm : "moves".toUTF8.data = kwMoves := by decide
  obtain ⟨hvi, hhi, _⟩ := installed_facts K hv
  have hinv : Board.Inv K (EpTarget.installed K b) :=
    (gameInv_start K (validNC_of_valid hvi) hhi).inv
  unfold handlePositionS
  rw [List.map_cons, List.map_append, List.map_cons, hkw, hkm, List.map_map]
  rw [EpTarget.position_fen_moves K cur _ _ (by simp [Fen.printFields]) hparse hgate]
  exact applyMoves_toUCI_nc K ms _ (validNC_of_valid hvi) hinv hplay

theorem run_append (K : Keys) (b : Board) (ms₁ ms₂ : List Move) :
    run K b (ms₁ ++ ms₂) = run K (run K b ms₁) ms₂ := by
  unfold run; rw [List.foldl_append]

theorem playableSeq_left (K : Keys) : ∀ (ms₁ ms₂ : List Move) (b : Board),
    EpTarget.PlayableSeq K b (ms₁ ++ ms₂) → EpTarget.PlayableSeq K b ms₁
  | [], _, _, _ => trivial
  | _ :: ms₁, ms₂, _, h => ⟨h.1, playableSeq_left K ms₁ ms₂ _ h.2⟩

/-- **C10 closed, through the UCI position command**: the position is set up by
    `position fen <FEN of b> moves ms₁` (any valid `b`), then the moves `ms₂` are made with `MakeMove`;
    all moves playable in turn; no collision in the history.  `Threefold()` of the resulting board is
    the number of occurrences of the current position in the whole game since the FEN, capped at 3. -/
theorem threefold_eq_uci (K : Keys) (cur b : Board) (ms₁ ms₂ : List Move)
    (hv : Board.valid b = true) (hfm : b.fullMoves < 2 ^ 63) (hstart : epNormal b.abs = true)
    (hplay : EpTarget.PlayableSeq K (EpTarget.installed K b) (ms₁ ++ ms₂))
    (hc : NoCollision K (boards K (EpTarget.installed K b) (ms₁ ++ ms₂))) :
    legalGame b.abs ((ms₁ ++ ms₂).map decodeMove) ∧
    (run K (handlePositionS K cur ("fen" :: (Fen.printFields b ++ "moves" :: ms₁.map Move.toUCI))) ms₂).threefold =
      min 3 (occurrences
        (run K (handlePositionS K cur ("fen" :: (Fen.printFields b ++ "moves" :: ms₁.map Move.toUCI))) ms₂).abs
        (positions b.abs ((ms₁ ++ ms₂).map decodeMove))) := by
  rw [uci_position_moves K cur b ms₁ hv hfm (playableSeq_left K ms₁ ms₂ _ hplay), ← run_append]
  obtain ⟨hvi, hhi, habs⟩ := installed_facts K hv
  have h := threefold_eq_nocollision_playable K (EpTarget.installed K b) (ms₁ ++ ms₂)
    (validNC_of_valid hvi) (by rw [habs]; exact hstart) hhi hplay hc
  rw [habs] at h
  exact h

end RepClosed
end ChessVerif
