/-
  C10 non-vacuity data: a concrete knight-shuffle game (K+N v K+N) with concrete Zobrist keys, and
  the kernel-checked facts that it satisfies the hypotheses of `Rep.threefold_eq`
  (legal by the rule book, hash column tied, hashes faithful).  The `AbsSteps` hypothesis is
  checked in `RepExampleAbs.lean` (separate file to keep compile times low).
-/
import ChessVerif.Proofs.RepGame
import ChessVerif.Model.Fen

namespace ChessVerif
namespace Rep
namespace Example

def testKeys : Keys :=
  { piece := fun c p s => BitVec.ofNat 64 ((c * 7 + p) * 64 + s + 1) * 0x9E3779B97F4A7C15#64,
    stm := 0xF1E2D3C4B5A69788#64,
    castling := fun i => BitVec.ofNat 64 (i + 1000) * 0xC2B2AE3D27D4EB4F#64,
    epFile := fun i => BitVec.ofNat 64 (i + 2000) * 0x165667B19E3779F9#64 }

/-- `4k1n1/8/8/8/8/8/8/4K1N1 w - - 0 1`, loaded by the FEN model (hash history reset). -/
def sparseB : Board :=
  match Fen.fromFEN testKeys "4k1n1/8/8/8/8/8/8/4K1N1 w - - 0 1".toUTF8.data with
  | .ok b => b
  | _ => Board.empty

def nf3 : Move := Move.mk 6 21 0    -- g1f3
def nf6 : Move := Move.mk 62 45 0   -- g8f6
def ng1 : Move := Move.mk 21 6 0    -- f3g1
def ng8 : Move := Move.mk 45 62 0   -- f6g8
/-- Ng1-f3 Ng8-f6 Nf3-g1 Nf6-g8: back to the start position. -/
def shuffle : List Move := [nf3, nf6, ng1, ng8]

set_option maxRecDepth 100000

theorem shuffle_legal : legalGame sparseB.abs (shuffle.map decodeMove) :=
  legalFromB_sound _ _ (by decide +kernel)

theorem shuffle_tied : HashTied testKeys sparseB shuffle := by
  unfold HashTied; decide +kernel

theorem shuffle_faithful :
    HashFaithful ((boards testKeys sparseB shuffle).map fun b => (b.abs, b.calcHash testKeys)) :=
  faithfulB_sound (by decide +kernel)

/-- the executable model on the shuffle: the count reaches 2 after one round trip … -/
theorem shuffle_two : (run testKeys sparseB shuffle).threefold = 2 := by decide +kernel
/-- … and 3 (the cap) after two; it stays 3 after three. -/
theorem shuffle_three : (run testKeys sparseB (shuffle ++ shuffle)).threefold = 3 := by decide +kernel
theorem shuffle_cap : (run testKeys sparseB (shuffle ++ shuffle ++ shuffle)).threefold = 3 := by decide +kernel
/-- one ply later the position (knight on f3) has occurred twice before. -/
theorem shuffle_mid : (run testKeys sparseB (shuffle ++ shuffle ++ [nf3])).threefold = 3 := by decide +kernel
theorem shuffle_mid2 : (run testKeys sparseB (shuffle ++ [nf3])).threefold = 2 := by decide +kernel
theorem shuffle_one : (run testKeys sparseB [nf3, nf6]).threefold = 1 := by decide +kernel

end Example
end Rep
end ChessVerif
