/-
  The component laws of the search skeleton (`Search.Laws`, Proofs/SearchLaws.lean) hold for the REAL
  component models `SearchReal.realCompWith K cs` (Model/SearchReal.lean: transposition table =
  Model/Transp, ranker = Model/Heur, picker = Model/Picker, qMoves = genNoisy + rankNoisy + selection
  order; any Zobrist keys `K`, any coefficient set `cs` — in particular `realComp K`, the shipped
  coefficients), with

    Good          := `Board.valid`                       (the quantifier text of the properties)
    PsInv.ok      := `SearchReal.PSok`                   (Proofs/SearchRealInv.lean: every move word in the
                                                          table has bit 15 clear; every history cell
                                                          within ±MaxHistory)

  Where each law comes from:
    undo_make      C03 `undo_make_valid` + C05 (generated ⇒ pseudo-legal)            (SearchRealBoard)
    good_make      C01 `valid_make_of_clock_lt` (clock < 100: the node passed the draw test)
    undo_null      C03 `undoNull_makeNull`;  good_null  NEW `valid_null` (a null move does not touch the clock)
    pick_mem / pick_complete
                   the picker invariant along arbitrary interleavings of `Next()` with changing ranking
                   functions and weight overwrites (`PReach`, Proofs/SearchRealPicker.lean); the bands of
                   the ranking functions from `RankerOK` (C16 `rankOf_bands`); the hash move is one of the
                   32 768 encodings because the table only holds such words (`ttProbe_move_lt`) — for a
                   word with bit 15 set the law is FALSE (`C16_allwords_false`)
    q_mem          `qMoves ⊆ genNoisy ⊆ gen`            gen_ne_zero  C05 (`PL`: origin ≠ destination)
    ok_store       `Insert` writes the given word (a generated move: < 32768 by C05 `gen_lt`) or keeps a
                   move already in the bucket;  ok_failHigh  C16 `failHigh_ok` (any arguments);  ok_nextGen.
-/
import ChessVerif.Proofs.SearchRealPicker
import ChessVerif.Proofs.SearchRealTT
import ChessVerif.Proofs.SearchRealBoard

namespace ChessVerif
namespace SearchReal
open Search ChessVerif.Proofs.SearchRealPicker

/-- the invariant of the persistent state of the real components. -/
instance instPsInv : PsInv PS := ⟨PSok⟩

theorem psInv_ok_iff (ps : PS) : PsInv.ok ps ↔ PSok ps := Iff.rfl

/-- the boards the real component laws are stated on: the valid positions (`Board.valid`, the domain
    of C01–C05). -/
def RealGood (b : Board) : Prop := Board.valid b = true

/-- a component record that agrees with the real one in every field the laws speak about (the
    pruning predicates and the evaluation are free): `realCompWith K cs`, `realCompG K cs`
    (Proofs/SearchRealScore.lean), the same record with the null-move guard, and `realCompP K cs P`
    (Model/SearchRealP.lean), the record of the spsa build for ANY parameter vector.  Of `failHigh` the
    laws need only that it keeps the state invariant and does not touch the table (`FailHigh` with any
    history parameters does: the gravity bound holds for every bonus), so the field is not an equation. -/
structure IsReal (K : Keys) (c : Comp PS Pick) : Prop where
  keys : c.keys = K
  ttProbe : c.ttProbe = ttProbe
  ttStore : c.ttStore = ttStore
  failHigh_ok : ∀ ps d b p hs, PSok ps → PSok (c.failHigh ps d b p hs)
  failHigh_tt : ∀ ps d b p hs, (c.failHigh ps d b p hs).tt = ps.tt
  pickInit : c.pickInit = pickInit
  pickNext : c.pickNext = pickNext
  setWeight : c.setWeight = setWeight
  qMoves : c.qMoves = qMoves
  nextGen : c.nextGen = nextGen

theorem isReal_realCompWith (K : Keys) (cs : Eval.CoeffSet Int) : IsReal K (realCompWith K cs) :=
  ⟨rfl, rfl, rfl, fun _ d b p hs h => failHigh_ok h d b p hs, fun _ _ _ _ _ => rfl, rfl, rfl, rfl, rfl, rfl⟩

variable {K : Keys} {c : Comp PS Pick} (hc : IsReal K c)
include hc

/-- a hash move the table can answer is one of the 32 768 encodings. -/
theorem hashOK_lt {b : Board} {hm : Move} (h : HashOK c b hm) : hm < 32768 := by
  rcases h with h | ⟨ps, ply, e, hok, hp, he⟩
  · rw [h]; decide
  · rw [hc.ttProbe] at hp
    rw [← he]; exact ttProbe_move_lt hok hp

omit hc in
/-- `pickNext` spelled out. -/
theorem pickNext_some {ps : PS} {b : Board} {hs : List Search.StackMove} {p : Pick} {m : Move} {p' : Pick}
    (h : pickNext ps b hs p = some (m, p')) :
    ∃ st', Picker.next b p.hm (Picker.rankOf ps.ranker b (hstackOf hs)) p.st = (true, st') ∧
      m = (Picker.current st').move ∧ p' = { p with st := st' } := by
  unfold pickNext at h
  generalize Picker.next b p.hm (Picker.rankOf ps.ranker b (hstackOf hs)) p.st = r at h
  obtain ⟨ok, st'⟩ := r
  cases ok with
  | false => cases h
  | true =>
    simp only [Option.some.injEq, Prod.mk.injEq] at h
    exact ⟨st', rfl, h.1.symm, h.2.symm⟩

omit hc in
theorem pickNext_none {ps : PS} {b : Board} {hs : List Search.StackMove} {p : Pick}
    (h : pickNext ps b hs p = none) :
    ∃ st', Picker.next b p.hm (Picker.rankOf ps.ranker b (hstackOf hs)) p.st = (false, st') := by
  unfold pickNext at h
  generalize Picker.next b p.hm (Picker.rankOf ps.ranker b (hstackOf hs)) p.st = r at h
  obtain ⟨ok, st'⟩ := r
  cases ok with
  | false => exact ⟨st', rfl⟩
  | true => cases h

/-- the picker states the skeleton can reach are frames reachable in the sense of
    Proofs/SearchRealPicker.lean (every `Next()` with in-band ranking functions: `rankOf_bands`). -/
theorem reach_preach {b : Board} {hm : Move} {p : Pick} {ys : List Move}
    (h : Reach c b hm p ys) : p.hm = hm ∧ PReach b hm p.st ys := by
  induction h with
  | init => rw [hc.pickInit]; exact ⟨rfl, PReach.init⟩
  | next hr hok hp ih =>
    rw [hc.pickNext] at hp
    obtain ⟨st', hn, hm', hp'⟩ := pickNext_some hp
    rw [hp', hm']
    rw [ih.1] at hn
    exact ⟨ih.1, PReach.next ih.2 (Proofs.HeurBands.rankOf_bands hok.2 _ _) hn⟩
  | weight hr ih => rw [hc.setWeight]; exact ⟨ih.1, PReach.weight ih.2⟩

/-- **The laws of the search skeleton hold for the real components** on valid boards, under the
    state invariant `PSok` — for every key table and whatever the pruning predicates and the
    evaluation are. -/
theorem laws_of_isReal : Laws c RealGood where
  undo_make := fun _ _ hg hm => by rw [hc.keys]; exact undo_make_gen K hg hm
  good_make := fun _ _ hg hf hm hs => by rw [hc.keys] at hs ⊢; exact valid_make_gen K hg hf hm hs
  undo_null := fun _ hg _ => by rw [hc.keys]; exact undo_null_valid K hg
  good_null := fun _ hg hcx => by rw [hc.keys]; exact valid_null K hg hcx
  pick_mem := fun ps b hs hm p ys m p' hg hh hr hok hp => by
    obtain ⟨e, hpr⟩ := reach_preach hc hr
    rw [hc.pickNext] at hp
    obtain ⟨st', hn, hm', _⟩ := pickNext_some hp
    rw [e] at hn
    rw [hm']
    exact preach_mem hg (hashOK_lt hc hh) hpr (Proofs.HeurBands.rankOf_bands hok.2 _ _) hn
  pick_complete := fun ps b hs hm p ys hg hh hr hok hp => by
    obtain ⟨e, hpr⟩ := reach_preach hc hr
    rw [hc.pickNext] at hp
    obtain ⟨st', hn⟩ := pickNext_none hp
    rw [e] at hn
    exact preach_complete hg (hashOK_lt hc hh) hpr (Proofs.HeurBands.rankOf_bands hok.2 _ _) hn
  q_mem := fun ps b hs m w _ h => by
    rw [hc.qMoves] at h
    exact genNoisy_sub_gen (qMoves_mem (ps := ps) (b := b) (hs := hs) (m := m) (w := w) h)
  gen_ne_zero := fun _ _ hg hm => gen_ne_zero hg hm
  ok_store := fun ps b d ply m v bd hok hg hm => by
    rw [hc.ttStore]
    refine ttStore_ok hok b d ply ?_ v bd
    rcases hm with h | h
    · rw [h]; decide
    · exact Props.C05.gen_lt hg h
  ok_failHigh := fun ps d b p hs hok => hc.failHigh_ok ps d b p hs hok
  ok_nextGen := fun _ hok => by rw [hc.nextGen]; exact nextGen_ok hok

omit hc

theorem real_laws (K : Keys) (cs : Eval.CoeffSet Int) : Laws (realCompWith K cs) RealGood :=
  laws_of_isReal (isReal_realCompWith K cs)

/-- … in particular for THE real search (shipped coefficients). -/
theorem realComp_laws (K : Keys) : Laws (realComp K) RealGood := real_laws K Eval.shipped

/-- the invariant holds of a new `Search` object and after `Clear()`. -/
theorem newEngine_ok (buckets : Nat) : PsInv.ok (newEngine buckets).ps := new_ok buckets
theorem clearEngine_ok (e : Engine PS) : PsInv.ok (clearEngine e).ps := clear_ok e.ps

end SearchReal
end ChessVerif
