/-
  C16: the selection loop of the move picker, on lists.

  `Picker.scan` / `selectBest` (first strictly greatest weight above a threshold) and `takeAt` (the
  swap-to-front) are analysed independently of chess:

  * `selectBest_none`  : no index ⇔ every remaining weight is ≤ the threshold;
  * `selectBest_some`  : the index returned is in range and its weight is above the threshold;
  * `takeAt_perm`      : extracting keeps the multiset (`w :: rest' ~ rest`);
  * `drain`            : the loop "select, extract, repeat until nothing is above the threshold";
  * `drain_spec`       : it yields a permutation of the elements above the threshold and leaves the
                         others (`ys ++ left ~ rest`, all of `ys` above, all of `left` not above).
  Core Lean only.
-/
import ChessVerif.Model.Picker

namespace ChessVerif.Proofs.PickerSelect
open ChessVerif Picker

/-- what `scan` returns: either the incoming `best`, or an index of the scanned part whose weight
    exceeds the incoming `maxim`. -/
theorem scan_some : ∀ (l : List WMove) (i : Nat) (maxim : Int) (best : Option Nat) (j : Nat),
    scan l i maxim best = some j →
      best = some j ∨ (i ≤ j ∧ ∃ x, l[j - i]? = some x ∧ maxim < x.weight) := by
  intro l
  induction l with
  | nil => intro i maxim best j h; left; exact h
  | cons w ws ih =>
    intro i maxim best j h
    unfold scan at h
    split at h
    · rename_i hlt
      rcases ih (i + 1) w.weight (some i) j h with h1 | ⟨h1, x, h2, h3⟩
      · right
        have : i = j := Option.some.inj h1
        subst this
        exact ⟨Nat.le_refl _, w, by simp, hlt⟩
      · right
        refine ⟨by omega, x, ?_, by omega⟩
        have e : j - i = (j - (i + 1)) + 1 := by omega
        rw [e, List.getElem?_cons_succ]; exact h2
    · rcases ih (i + 1) maxim best j h with h1 | ⟨h1, x, h2, h3⟩
      · left; exact h1
      · right
        refine ⟨by omega, x, ?_, h3⟩
        have e : j - i = (j - (i + 1)) + 1 := by omega
        rw [e, List.getElem?_cons_succ]; exact h2

theorem scan_none : ∀ (l : List WMove) (i : Nat) (maxim : Int) (best : Option Nat),
    scan l i maxim best = none → best = none ∧ ∀ w ∈ l, w.weight ≤ maxim := by
  intro l
  induction l with
  | nil => intro i maxim best h; exact ⟨h, by simp⟩
  | cons w ws ih =>
    intro i maxim best h
    unfold scan at h
    split at h
    · exact absurd (ih _ _ _ h).1 (by simp)
    · rename_i hlt
      obtain ⟨h1, h2⟩ := ih _ _ _ h
      refine ⟨h1, ?_⟩
      intro x hx
      rcases List.mem_cons.1 hx with rfl | hx
      · omega
      · exact h2 x hx

theorem selectBest_some {thr : Int} {rest : List WMove} {k : Nat} (h : selectBest thr rest = some k) :
    ∃ x, rest[k]? = some x ∧ thr < x.weight := by
  rcases scan_some rest 0 thr none k h with h1 | ⟨_, x, h2, h3⟩
  · cases h1
  · exact ⟨x, by simpa using h2, h3⟩

theorem selectBest_none {thr : Int} {rest : List WMove} (h : selectBest thr rest = none) :
    ∀ w ∈ rest, w.weight ≤ thr := (scan_none rest 0 thr none h).2

/-- if every weight is at most the threshold nothing is selected. -/
theorem scan_le : ∀ (l : List WMove) (i : Nat) (maxim : Int) (best : Option Nat),
    (∀ w ∈ l, w.weight ≤ maxim) → scan l i maxim best = best := by
  intro l
  induction l with
  | nil => intros; rfl
  | cons w ws ih =>
    intro i maxim best h
    unfold scan
    have hw := h w List.mem_cons_self
    rw [if_neg (by omega)]
    exact ih _ _ _ (fun x hx => h x (List.mem_cons_of_mem _ hx))

theorem selectBest_eq_none {thr : Int} {rest : List WMove} (h : ∀ w ∈ rest, w.weight ≤ thr) :
    selectBest thr rest = none := scan_le rest 0 thr none h

/-- swapping an element to the front and dropping the front keeps the multiset. -/
theorem set_tail_perm (a : WMove) : ∀ (tl : List WMove) (k : Nat) (c : WMove),
    tl[k]? = some c → (c :: tl.set k a).Perm (a :: tl) := by
  intro tl
  induction tl with
  | nil => intro k c h; simp at h
  | cons t ts ih =>
    intro k c h
    cases k with
    | zero =>
      simp at h; subst h
      simp only [List.set_cons_zero]
      exact List.Perm.swap a t ts
    | succ k =>
      simp only [List.getElem?_cons_succ] at h
      simp only [List.set_cons_succ]
      have p1 : (c :: t :: ts.set k a).Perm (t :: c :: ts.set k a) := List.Perm.swap t c _
      have p2 : (t :: c :: ts.set k a).Perm (t :: a :: ts) := List.Perm.cons t (ih k c h)
      have p3 : (t :: a :: ts).Perm (a :: t :: ts) := List.Perm.swap a t ts
      exact p1.trans (p2.trans p3)

theorem takeAt_perm {rest : List WMove} {k : Nat} {x : WMove} (h : rest[k]? = some x) :
    (takeAt rest k).1 = x ∧ ((takeAt rest k).1 :: (takeAt rest k).2).Perm rest := by
  unfold takeAt
  cases rest with
  | nil => simp at h
  | cons a tl =>
    have hx : (a :: tl).getD k default = x := by simp [List.getD, h]
    refine ⟨hx, ?_⟩
    simp only [hx, List.headD_cons]
    cases k with
    | zero =>
      simp at h; subst h
      simp
    | succ k =>
      simp only [List.getElem?_cons_succ] at h
      simp only [List.set_cons_succ, List.tail_cons]
      exact set_tail_perm a tl k x h

theorem takeAt_length {rest : List WMove} {k : Nat} {x : WMove} (h : rest[k]? = some x) :
    (takeAt rest k).2.length + 1 = rest.length := by
  have := (takeAt_perm h).2.length_eq
  simpa using this

/-- "select, extract, repeat": the yielded elements (in order) and what is left. -/
def drain (thr : Int) : Nat → List WMove → List WMove × List WMove
  | 0, rest => ([], rest)
  | n + 1, rest =>
    match selectBest thr rest with
    | none => ([], rest)
    | some k =>
      let t := takeAt rest k
      let d := drain thr n t.2
      (t.1 :: d.1, d.2)

/-- The selection loop yields a permutation of the elements above the threshold, and leaves the rest. -/
theorem drain_spec (thr : Int) : ∀ (n : Nat) (rest : List WMove), rest.length ≤ n →
    ((drain thr n rest).1 ++ (drain thr n rest).2).Perm rest ∧
    (∀ y ∈ (drain thr n rest).1, thr < y.weight) ∧
    (∀ x ∈ (drain thr n rest).2, x.weight ≤ thr) := by
  intro n
  induction n with
  | zero =>
    intro rest h
    have : rest = [] := List.eq_nil_of_length_eq_zero (by omega)
    subst this
    simp [drain]
  | succ n ih =>
    intro rest h
    unfold drain
    split
    · rename_i hnone
      exact ⟨by simp, by simp, selectBest_none hnone⟩
    · rename_i k hsome
      obtain ⟨x, hx, hw⟩ := selectBest_some hsome
      obtain ⟨h1, h2⟩ := takeAt_perm hx
      have hl := takeAt_length hx
      obtain ⟨p, q, r⟩ := ih (takeAt rest k).2 (by omega)
      refine ⟨?_, ?_, r⟩
      · simp only [List.cons_append]
        exact (List.Perm.cons _ p).trans h2
      · intro y hy
        rcases List.mem_cons.1 hy with rfl | hy
        · rw [h1]; exact hw
        · exact q y hy

theorem drain_length (thr : Int) (n : Nat) (rest : List WMove) (h : rest.length ≤ n) :
    (drain thr n rest).1.length + (drain thr n rest).2.length = rest.length := by
  have := (drain_spec thr n rest h).1.length_eq
  simpa using this

/-- after draining nothing above the threshold is left: the next selection fails. -/
theorem drain_exhausted (thr : Int) (n : Nat) (rest : List WMove) (h : rest.length ≤ n) :
    selectBest thr (drain thr n rest).2 = none :=
  selectBest_eq_none (drain_spec thr n rest h).2.2

/-- a list split into "above" and "not above" parts, up to order, is the two filters. -/
theorem perm_filter_of_split {p : WMove → Bool} {ys left l : List WMove}
    (h : (ys ++ left).Perm l) (hy : ∀ y ∈ ys, p y = true) (hl : ∀ x ∈ left, p x = false) :
    ys.Perm (l.filter p) := by
  have h1 := h.filter p
  rw [List.filter_append] at h1
  have e1 : ys.filter p = ys := List.filter_eq_self.2 hy
  have e2 : left.filter p = [] := List.filter_eq_nil_iff.2 (fun x hx => by simp [hl x hx])
  rw [e1, e2, List.append_nil] at h1
  exact h1

end ChessVerif.Proofs.PickerSelect
