/-
  C18 (a): the arithmetic of the static exchange test on the bare sequence of capturers.

  `absLoop` is the `for { … }` loop of heur.SEE with the geometry abstracted to the list of
  capturers it walks through: the running `swap` (int16, wrapped), the parity flag `res`, the early
  exit `if swap < res { return res == 1 }`, and the king rule.  `see_loop_eq_minimax` shows that it
  answers exactly the comparison of the threshold with the textbook minimax value
  `SeeSpec.best` of the same sequence; `see_header_eq_minimax` adds the two tests in front of the loop.
  Self-contained list/integer arithmetic (induction on the list, `omega`); core Lean only.
-/
import ChessVerif.Spec.SeeMinimax

namespace ChessVerif.Proofs.SeeAbstract
open ChessVerif SeeSpec

/-- Go `res` as a `Score`. -/
@[inline] def resVal (res : Bool) : Int := if res then 1 else 0

/-- The loop of heur.SEE over a given sequence of capturers. -/
def absLoop : List Cap → Int → Bool → Bool
  | [], _, res => res
  | .king ok :: _, _, res =>
    let res := !res
    if !ok then !res else res
  | .piece a :: rest, swap, res =>
    let res := !res
    let swap := wrapS16 (a - swap)
    if swap < resVal res then res else absLoop rest swap res

/-- every capturer's value is a sane piece value (no int16 wrap can occur below this bound). -/
def CapsOK (l : List Cap) : Prop := ∀ c ∈ l, match c with | .piece a => 0 ≤ a ∧ a ≤ 20000 | .king _ => True

theorem capsOK_nil : CapsOK [] := by intro c hc; cases hc

theorem capsOK_cons {c : Cap} {l : List Cap} (h : CapsOK (c :: l)) : CapsOK l :=
  fun d hd => h d (List.mem_cons_of_mem _ hd)

theorem capsOK_head {a : Int} {l : List Cap} (h : CapsOK (.piece a :: l)) : 0 ≤ a ∧ a ≤ 20000 :=
  h (.piece a) (List.mem_cons_self)

/-- a side never gains more than what stands on the square, and never loses (it may stop). -/
theorem best_bounds (v : Int) (l : List Cap) : 0 ≤ best v l ∧ best v l ≤ max 0 v := by
  cases l with
  | nil => simp only [best]; omega
  | cons c rest =>
    cases c with
    | piece a =>
      have h : 0 ≤ best a rest := by
        cases rest with
        | nil => simp only [best]; omega
        | cons d r => cases d <;> simp only [best] <;> (try split) <;> omega
      simp only [best]; omega
    | king ok => simp only [best]; split <;> omega

theorem wrapS16_id {x : Int} (h : -32768 ≤ x ∧ x ≤ 32767) : wrapS16 x = x := by unfold wrapS16; omega

theorem best_piece (v a : Int) (rest : List Cap) : best v (.piece a :: rest) = max 0 (v - best a rest) := rfl
theorem best_king (v : Int) (ok : Bool) (rest : List Cap) : best v (.king ok :: rest) = if ok then max 0 v else 0 := rfl
theorem best_nil (v : Int) : best v [] = 0 := rfl

/-- **The loop invariant.**  `v` is the value of the man standing on the square, `v - swap` the
    balance the side that has just captured must keep (`res = true`: "at most"; `res = false`: "at
    least").  With `res = true` the loop answers `best v l ≤ v - swap`, with `res = false` it answers
    `v - swap ≤ best v l`. -/
theorem see_loop_iff :
    ∀ (l : List Cap) (v swap : Int), CapsOK l → v ≤ 20000 →
      (0 < swap → swap ≤ v → (absLoop l swap true = true ↔ best v l ≤ v - swap)) ∧
      (0 ≤ swap → swap < v → (absLoop l swap false = true ↔ v - swap ≤ best v l)) := by
  intro l
  induction l with
  | nil =>
    intro v swap _ _
    refine ⟨fun h1 h2 => ?_, fun h1 h2 => ?_⟩
    · rw [best_nil]; simp only [absLoop, true_iff]; omega
    · rw [best_nil]; simp only [absLoop, Bool.false_eq_true, false_iff]; omega
  | cons c rest ih =>
    intro v swap hok hv
    cases c with
    | king ok =>
      refine ⟨fun h1 h2 => ?_, fun h1 h2 => ?_⟩
      · rw [best_king]; cases ok <;> simp [absLoop] <;> omega
      · rw [best_king]; cases ok <;> simp [absLoop] <;> omega
    | piece a =>
      have ha := capsOK_head hok
      have ih' := ih a (wrapS16 (a - swap)) (capsOK_cons hok) ha.2
      have hb := best_bounds a rest
      refine ⟨fun h1 h2 => ?_, fun h1 h2 => ?_⟩
      · -- res = true → false
        have hw : wrapS16 (a - swap) = a - swap := wrapS16_id (by omega)
        rw [hw] at ih'
        rw [best_piece]
        simp only [absLoop, hw, resVal, Bool.not_true, Bool.false_eq_true, ↓reduceIte]
        by_cases hlt : a - swap < 0
        · rw [if_pos hlt]; simp only [Bool.false_eq_true, false_iff]; omega
        · rw [if_neg hlt, ih'.2 (by omega) (by omega)]; omega
      · -- res = false → true
        have hw : wrapS16 (a - swap) = a - swap := wrapS16_id (by omega)
        rw [hw] at ih'
        rw [best_piece]
        simp only [absLoop, hw, resVal, Bool.not_false, ↓reduceIte]
        by_cases hlt : a - swap < 1
        · rw [if_pos hlt]; simp only [true_iff]; omega
        · rw [if_neg hlt, ih'.1 (by omega) (by omega)]; omega

theorem bool_eq_decide {x : Bool} {p : Prop} [Decidable p] (h : x = true ↔ p) : x = decide p := by
  cases x
  · symm; rw [decide_eq_false_iff_not]; intro hp; exact Bool.false_ne_true (h.2 hp)
  · symm; rw [decide_eq_true_iff]; exact h.1 rfl

/-- The early-exit threshold loop with its parity flag equals the minimax comparison. -/
theorem see_loop_eq_minimax (l : List Cap) (v swap : Int) (hl : CapsOK l) (hv : v ≤ 20000) :
      (0 < swap → swap ≤ v → absLoop l swap true = decide (best v l ≤ v - swap)) ∧
      (0 ≤ swap → swap < v → absLoop l swap false = decide (v - swap ≤ best v l)) :=
  ⟨fun h1 h2 => bool_eq_decide ((see_loop_iff l v swap hl hv).1 h1 h2),
   fun h1 h2 => bool_eq_decide ((see_loop_iff l v swap hl hv).2 h1 h2)⟩

/-- The whole function on the bare values: the two tests in front of the loop and the loop.
    `g0` = value captured by the move (+ promotion gain), `v1` = value of the man that then stands on
    the square, `l` = the recapturers, `thr` the threshold (`|thr| ≤ 2·Q`, `Q = 900`). -/
def absSee (g0 v1 thr : Int) (l : List Cap) : Bool :=
  let swap := wrapS16 (wrapS16 g0 - thr)
  if swap < 0 then false else
  let swap := wrapS16 (wrapS16 v1 - swap)
  if swap ≤ 0 then true else
  absLoop l swap true

theorem see_header_eq_minimax {g0 v1 thr : Int} {l : List Cap}
    (hg : 0 ≤ g0 ∧ g0 ≤ 20000) (hv : 0 ≤ v1 ∧ v1 ≤ 20000) (ht : -1800 ≤ thr ∧ thr ≤ 1800) (hl : CapsOK l) :
    absSee g0 v1 thr l = decide (thr ≤ g0 - best v1 l) := by
  have hb := best_bounds v1 l
  apply bool_eq_decide
  unfold absSee
  rw [wrapS16_id (x := g0) (by omega), wrapS16_id (x := g0 - thr) (by omega), wrapS16_id (x := v1) (by omega)]
  simp only
  by_cases h0 : g0 - thr < 0
  · rw [if_pos h0]; simp only [Bool.false_eq_true, false_iff]; omega
  · rw [if_neg h0, wrapS16_id (x := v1 - (g0 - thr)) (by omega)]
    by_cases h1 : v1 - (g0 - thr) ≤ 0
    · rw [if_pos h1]; simp only [true_iff]; omega
    · rw [if_neg h1, (see_loop_iff l v1 (v1 - (g0 - thr)) hl hv.2).1 (by omega) (by omega)]; omega

/-- Monotone in the threshold (on the bare values). -/
theorem absSee_monotone {g0 v1 thr thr' : Int} {l : List Cap}
    (hg : 0 ≤ g0 ∧ g0 ≤ 20000) (hv : 0 ≤ v1 ∧ v1 ≤ 20000) (ht : -1800 ≤ thr ∧ thr ≤ 1800)
    (ht' : -1800 ≤ thr' ∧ thr' ≤ 1800) (hl : CapsOK l) (hle : thr' ≤ thr)
    (h : absSee g0 v1 thr l = true) : absSee g0 v1 thr' l = true := by
  rw [see_header_eq_minimax hg hv ht hl, decide_eq_true_iff] at h
  rw [see_header_eq_minimax hg hv ht' hl, decide_eq_true_iff]
  omega

end ChessVerif.Proofs.SeeAbstract
