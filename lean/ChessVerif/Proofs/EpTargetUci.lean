/-
  C02, the UCI half: `parseUCIMove (toUCI m) = m` for generated moves, hence `applyMoves` on the printed
  moves is `MakeMove` folded, and `position fen <printed FEN> moves …` refines the rule book
  (relative to the FEN round trip of the printed board, `Fen.RoundTripOK`, C11).
-/
import ChessVerif.Proofs.FenRound
import ChessVerif.Proofs.EpTargetPlayable
namespace ChessVerif.EpTarget
open ChessVerif Board UciPosition Bridge

theorem sqName_bytes : ∀ s : Fin 64,
    (sqName s.val).toUTF8.data = #[(97 + s.val % 8).toUInt8, (49 + s.val / 8).toUInt8] := by decide

theorem sqOfBytes_name : ∀ s : Fin 64,
    sqOfBytes (97 + s.val % 8).toUInt8 (49 + s.val / 8).toUInt8 = (s.val : Int) := by decide

/-- the text of a non-null move word as bytes. -/
def promoBytes (p : Nat) : Array UInt8 :=
  match p with | 1 => #[112] | 2 => #[110] | 3 => #[98] | 4 => #[114] | 5 => #[113] | 6 => #[107] | _ => #[]

theorem toUCI_bytes (m : Move) (h0 : m ≠ 0) :
    (Move.toUCI m).toUTF8.data =
      #[(97 + Move.src m % 8).toUInt8, (49 + Move.src m / 8).toUInt8,
        (97 + Move.dst m % 8).toUInt8, (49 + Move.dst m / 8).toUInt8] ++ promoBytes (Move.promo m) := by
  unfold Move.toUCI
  rw [if_neg h0]
  simp only [String.toUTF8, String.toByteArray_append, ByteArray.data_append]
  have h1 := sqName_bytes ⟨Move.src m, PL.src_lt m⟩
  have h2 := sqName_bytes ⟨Move.dst m, PL.dst_lt m⟩
  simp only [String.toUTF8] at h1 h2
  rw [h1, h2]
  generalize Move.promo m = p
  rcases p with _ | _ | _ | _ | _ | _ | _ | p <;> simp [promoBytes] <;> decide

/-- **`parseUCIMove (toUCI m) = m`** for a word the pseudo-legality test accepts whose promotion bits
    are none or Knight..Queen, and which is not the null word. -/
theorem parse_toUCI_of (b : Board) (m : Move) (hlt : m < 32768) (h0 : m ≠ 0)
    (hp : Move.promo m = 0 ∨ (2 ≤ Move.promo m ∧ Move.promo m ≤ 5)) (hpl : b.isPseudoLegal m = true) :
    parseUCIMove b (Move.toUCI m).toUTF8.data = some m := by
  rw [toUCI_bytes m h0]
  have hs := sqOfBytes_name ⟨Move.src m, PL.src_lt m⟩
  have hd := sqOfBytes_name ⟨Move.dst m, PL.dst_lt m⟩
  simp only at hs hd
  generalize (97 + Move.src m % 8).toUInt8 = a1 at hs ⊢
  generalize (49 + Move.src m / 8).toUInt8 = a2 at hs ⊢
  generalize (97 + Move.dst m % 8).toUInt8 = a3 at hd ⊢
  generalize (49 + Move.dst m / 8).toUInt8 = a4 at hd ⊢
  have hsl := PL.src_lt m
  have hdl := PL.dst_lt m
  have hparts := PL.mk_parts m hlt
  have hcases : Move.promo m = 0 ∨ Move.promo m = 2 ∨ Move.promo m = 3 ∨ Move.promo m = 4 ∨ Move.promo m = 5 := by
    omega
  unfold parseUCIMove
  rcases hcases with e | e | e | e | e <;> rw [e] at hparts ⊢ <;>
    simp [promoBytes, hs, hd, hparts, hpl] <;> omega

theorem src_zero : Move.src 0 = 0 := rfl
theorem dst_zero : Move.dst 0 = 0 := rfl

/-- **`parseUCIMove (toUCI m) = m` for every generated move of a valid position.** -/
theorem parse_toUCI {b : Board} {m : Move} (hv : Board.valid b = true) (hm : m ∈ MoveGen.gen b) :
    parseUCIMove b (Move.toUCI m).toUTF8.data = some m := by
  have g := AbsMake.genMove_of hv hm
  have hd := PL.PLDomain_of_valid hv
  have hipl : b.isPseudoLegal m = true :=
    (PL.isPseudoLegal_iff_PL hd m).2 ((PL.gen_iff_PL hd m).1 hm).2
  have h0 : m ≠ 0 := by
    intro e
    have h1 := g.ok.own_src
    have h2 := g.ok.not_own_dst
    rw [e, src_zero] at h1
    rw [e, dst_zero, h1] at h2
    exact Bool.noConfusion h2
  have hp : Move.promo m = 0 ∨ (2 ≤ Move.promo m ∧ Move.promo m ≤ 5) := by
    by_cases e : Move.promo m = 0
    · exact Or.inl e
    · exact Or.inr (g.ok.promo e).2
  exact parse_toUCI_of b m g.lt h0 hp hipl

/-- the UCI text of a move, as the byte string `applyMoves` receives. -/
def uciBytes (m : Move) : Fen.Bytes := (Move.toUCI m).toUTF8.data

/-- **`applyMoves` on the printed moves is `MakeMove` folded** (every move playable in turn). -/
theorem applyMoves_toUCI (K : Keys) :
    ∀ (ms : List Move) (b : Board), PlayableRun K b ms → applyMoves K b (ms.map uciBytes) = run K b ms := by
  intro ms
  induction ms with
  | nil => intro b _; rfl
  | cons m ms ih =>
    intro b h
    obtain ⟨hv, hm, hrest⟩ := h
    rw [List.map_cons, applyMoves]
    show (match parseUCIMove b (Move.toUCI m).toUTF8.data with
      | none => b
      | some mv => applyMoves K (b.makeMove K mv).1 (ms.map uciBytes)) = _
    rw [parse_toUCI hv (playable_gen hm)]
    exact ih _ hrest

/-- `position fen <six fields> moves <moves…>`: the parsed board is installed and the moves applied. -/
theorem position_fen_moves (K : Keys) (cur b0 : Board) (fields : List Fen.Bytes) (hlen : fields.length = 6)
    (hparse : Fen.fromFEN K (joinSp fields) = .ok b0) (hgate : b0.invalidPieceCount = false)
    (moves : List Fen.Bytes) :
    handlePosition K cur (kwFen :: (fields ++ kwMoves :: moves)) = applyMoves K b0 moves := by
  unfold handlePosition
  have h1 : ¬ (kwFen = kwStartpos) := by decide
  have h2 : ¬ ((kwFen :: (fields ++ kwMoves :: moves)).length < 7) := by simp; omega
  have h3 : (fields ++ kwMoves :: moves).take 6 = fields := by
    rw [List.take_append_of_le_length (by omega), List.take_of_length_le (by omega)]
  have h4 : (fields ++ kwMoves :: moves).drop 6 = kwMoves :: moves := by
    rw [← hlen, List.drop_left]
  simp only [h1, if_false, if_true, h2, h3, hparse, hgate, h4, Bool.false_eq_true]

/-- the board `position fen <printed FEN of b>` installs: `b` with a fresh hash history. -/
def installed (K : Keys) (b : Board) : Board := (Fen.stripHash b).resetHash K

theorem abs_installed (K : Keys) (b : Board) : abs (installed K b) = abs b := rfl

/-- **C02 through the UCI position command.**  For a valid position `b` whose printed FEN parses back
    (`Fen.RoundTripOK b`, the C11 round trip of that board) and a list of moves each playable in turn,
    `position fen <FEN of b> moves <m₁ … mₙ>` leaves the driver with exactly the board obtained by
    playing the moves with `MakeMove` from the installed position, and its abstraction is the position
    the rule book prescribes. -/
theorem uci_moves_refine_of_core (K : Keys) (hcore : CoreHyp K) (cur b : Board) (ms : List Move)
    (hv : Board.valid b = true) (hrt : Fen.RoundTripOK b) (hrun : PlayableRun K (installed K b) ms) :
    handlePositionS K cur ("fen" :: (Fen.printFields b ++ "moves" :: ms.map Move.toUCI)) =
        run K (installed K b) ms ∧
    abs (handlePositionS K cur ("fen" :: (Fen.printFields b ++ "moves" :: ms.map Move.toUCI))) =
        runRules (abs b) ms := by
  have hparse : Fen.fromFEN K (joinSp ((Fen.printFields b).map fun s => s.toUTF8.data)) =
      .ok (installed K b) := by
    rw [Fen.join_fields, Fen.fromFEN, hrt]; rfl
  have hgate : (installed K b).invalidPieceCount = false := by
    unfold installed
    rw [Fen.ipc_stripHash_resetHash]; exact Board.pieceCount_accepts_valid b hv
  have hkw : "fen".toUTF8.data = kwFen := by decide
  have hkm : "moves".toUTF8.data = kwMoves := by decide
  have key : handlePositionS K cur ("fen" :: (Fen.printFields b ++ "moves" :: ms.map Move.toUCI)) =
      run K (installed K b) ms := by
    unfold handlePositionS
    rw [List.map_cons, List.map_append, List.map_cons, hkw, hkm, List.map_map]
    rw [position_fen_moves K cur _ _ (by simp [Fen.printFields]) hparse hgate]
    exact applyMoves_toUCI K ms _ hrun
  refine ⟨key, ?_⟩
  rw [key, run_refines_of_core K hcore ms _ hrun, abs_installed]
/-! ### the hash history is irrelevant for playability -/

theorem doHop_setHashes (K : Keys) (b : Board) (c : Color) (h : Option (Nat × Nat)) (x : List BB) :
    doHop K (setHashes b x) c h = setHashes (doHop K b c h) x := by
  cases h with
  | none => rfl
  | some v => obtain ⟨rf, rt⟩ := v; simp only [doHop, board_form]

theorem mvNewEP_setHashes (b : Board) (x : List BB) (m : Move) : mvNewEP (setHashes b x) m = mvNewEP b m := rfl
theorem mvPut_setHashes (b : Board) (x : List BB) (m : Move) : mvPut (setHashes b x) m = mvPut b m := rfl
theorem captureSq_setHashes (b : Board) (x : List BB) (m : Move) : (setHashes b x).captureSq m = b.captureSq m := rfl
theorem newCastles_setHashes (b : Board) (x : List BB) (m : Move) : (setHashes b x).newCastles m = b.newCastles m := rfl

/-- `MakeMove` does not read the hash history except to extend it. -/
theorem make_setHashes (K : Keys) (b : Board) (x : List BB) (m : Move) :
    ((setHashes b x).makeMove K m).1 =
      setHashes (b.makeMove K m).1 (mvHash K (setHashes b x) m :: x) := by
  rw [makeMove_eq, makeMove_eq]
  apply board_ext <;>
    simp only [makeW, board_form, doHop_setHashes, mvNewEP_setHashes, mvPut_setHashes, captureSq_setHashes,
      newCastles_setHashes]
  all_goals rfl

theorem valid_setHashes (b : Board) (x : List BB) : Board.valid (setHashes b x) = Board.valid b := rfl
theorem gen_setHashes (b : Board) (x : List BB) : MoveGen.gen (setHashes b x) = MoveGen.gen b := rfl
theorem inCheck_setHashes (b : Board) (x : List BB) (c : Color) : (setHashes b x).inCheck c = b.inCheck c := rfl

theorem playable_setHashes (K : Keys) (b : Board) (x : List BB) :
    MoveGen.playable K (setHashes b x) = MoveGen.playable K b := by
  unfold MoveGen.playable
  rw [gen_setHashes]
  apply List.filter_congr
  intro m _
  rw [make_setHashes, inCheck_setHashes]
  rfl

/-- playability of a move list does not depend on the hash history. -/
theorem playableRun_setHashes (K : Keys) :
    ∀ (ms : List Move) (b : Board) (x : List BB), PlayableRun K b ms → PlayableRun K (setHashes b x) ms := by
  intro ms
  induction ms with
  | nil => intro _ _ _; trivial
  | cons m ms ih =>
    intro b x h
    obtain ⟨hv, hm, hrest⟩ := h
    refine ⟨by rw [valid_setHashes]; exact hv, by rw [playable_setHashes]; exact hm, ?_⟩
    rw [make_setHashes]
    exact ih _ _ hrest

theorem installed_eq (K : Keys) (b : Board) :
    installed K b = setHashes b [(Fen.stripHash b).calcHash K] := rfl

/-- **C02 through the UCI position command**, hypotheses on the printed position itself. -/
theorem uci_moves_refine_of_core' (K : Keys) (hcore : CoreHyp K) (cur b : Board) (ms : List Move)
    (hrt : Fen.RoundTripOK b) (hrun : PlayableRun K b ms) (hv : Board.valid b = true) :
    handlePositionS K cur ("fen" :: (Fen.printFields b ++ "moves" :: ms.map Move.toUCI)) =
        run K (installed K b) ms ∧
    abs (handlePositionS K cur ("fen" :: (Fen.printFields b ++ "moves" :: ms.map Move.toUCI))) =
        runRules (abs b) ms :=
  uci_moves_refine_of_core K hcore cur b ms hv hrt (by rw [installed_eq]; exact playableRun_setHashes K ms b _ hrun)

/-- `position startpos moves <m₁ … mₙ>` (the Go code requires at least one move after the keyword;
    with none the start position itself is installed, which is the same board). -/
theorem uci_startpos_moves_of_core (K : Keys) (hcore : CoreHyp K) (cur : Board) (ms : List Move)
    (hrun : PlayableRun K (startPos K) ms) :
    handlePositionS K cur ("startpos" :: "moves" :: ms.map Move.toUCI) = run K (startPos K) ms ∧
    abs (handlePositionS K cur ("startpos" :: "moves" :: ms.map Move.toUCI)) =
        runRules (abs (startPos K)) ms := by
  have hks : "startpos".toUTF8.data = kwStartpos := by decide
  have hkm : "moves".toUTF8.data = kwMoves := by decide
  have key : handlePositionS K cur ("startpos" :: "moves" :: ms.map Move.toUCI) = run K (startPos K) ms := by
    unfold handlePositionS
    rw [List.map_cons, List.map_cons, hks, hkm, List.map_map]
    unfold handlePosition
    simp only [if_true]
    cases ms with
    | nil => rfl
    | cons m ms =>
      simp only [List.map_cons, if_true]
      exact applyMoves_toUCI K (m :: ms) _ hrun
  exact ⟨key, by rw [key, run_refines_of_core K hcore ms _ hrun]⟩

end ChessVerif.EpTarget
