/-
  Bridge, auxiliary: point updates of a rule-book position (`Rules.setMan`, used by
  `Rules.applyCore`) and what they do to `at_`, `empty` and to the occupancy view `EmptyIs` — the
  shape in which MakeMove / CanEnPassant / IsCheckmate call `IsAttacked` with a modified occupancy
  (`occ &&& ~~~ king`, `(occ ||| dest) &&& ~~~ (target ||| able ||| orig)`, …).
-/
import ChessVerif.Proofs.BridgeGeom

namespace ChessVerif.Bridge
open ChessVerif Board Rules

theorem getD_setMan (men : Vector (Option Man) 64) (s u : Nat) (m : Option Man) (hs : s < 64) :
    (Rules.setMan men s m).getD u none = if u = s then m else men.getD u none := by
  unfold Rules.setMan
  exact Board.getD_setIfInBounds men s u m none hs

theorem getD_setMan_oob (men : Vector (Option Man) 64) (s u : Nat) (m : Option Man) (hs : 64 ≤ s) :
    (Rules.setMan men s m).getD u none = men.getD u none := by
  unfold Rules.setMan
  simp only [Board.vgetD_eq, Vector.getElem_setIfInBounds]
  by_cases hu : u < 64
  · have : ¬ s = u := by omega
    simp [hu, this]
  · simp [hu]

/-- the position with the content of square `s` replaced. -/
def setAt (p : Pos) (s : Nat) (m : Option Man) : Pos := { p with men := Rules.setMan p.men s m }

theorem at_setAt (p : Pos) (s u : Nat) (m : Option Man) (hs : s < 64) :
    (setAt p s m).at_ u = if u = s then m else p.at_ u := by
  unfold setAt Pos.at_
  exact getD_setMan p.men s u m hs

theorem at_setAt_ne (p : Pos) (s u : Nat) (m : Option Man) (h : u ≠ s) : (setAt p s m).at_ u = p.at_ u := by
  by_cases hs : s < 64
  · rw [at_setAt p s u m hs, if_neg h]
  · unfold setAt Pos.at_
    exact getD_setMan_oob p.men s u m (by omega)

theorem at_setAt_same (p : Pos) (s : Nat) (m : Option Man) (hs : s < 64) : (setAt p s m).at_ s = m := by
  rw [at_setAt p s s m hs, if_pos rfl]

@[simp] theorem setAt_turn (p : Pos) (s : Nat) (m : Option Man) : (setAt p s m).turn = p.turn := rfl
@[simp] theorem setAt_rights (p : Pos) (s : Nat) (m : Option Man) : (setAt p s m).rights = p.rights := rfl
@[simp] theorem setAt_ep (p : Pos) (s : Nat) (m : Option Man) : (setAt p s m).ep = p.ep := rfl

theorem empty_setAt (p : Pos) (s u : Nat) (m : Option Man) (hs : s < 64) :
    (setAt p s m).empty u = if u = s then m.isNone else p.empty u := by
  unfold Pos.empty
  rw [at_setAt p s u m hs]
  split <;> rfl

/-- lifting a man off `s` removes `s` from the occupancy. -/
theorem EmptyIs.clear {p : Pos} {o : BB} (hp : EmptyIs p o) (s : Nat) (hs : s < 64) :
    EmptyIs (setAt p s none) (o &&& ~~~ bit s) := by
  intro u hu
  rw [empty_setAt p s u none hs, Board.getLsbD_andNot_bit o s u hs]
  by_cases e : u = s
  · subst e; simp
  · have e' : ¬ s = u := fun h => e h.symm
    simp only [e, e', if_false, decide_false, Bool.not_false, Bool.and_true]
    exact hp u hu

/-- putting a man on `s` adds `s` to the occupancy. -/
theorem EmptyIs.set {p : Pos} {o : BB} (hp : EmptyIs p o) (s : Nat) (hs : s < 64) (m : Man) :
    EmptyIs (setAt p s (some m)) (o ||| bit s) := by
  intro u hu
  rw [empty_setAt p s u (some m) hs, Board.getLsbD_or_bit o s u hs]
  by_cases e : u = s
  · subst e; simp
  · have e' : ¬ s = u := fun h => e h.symm
    simp only [e, e', if_false, decide_false, Bool.or_false]
    exact hp u hu

/-- `EmptyIs` only looks at the occupancy bit by bit. -/
theorem EmptyIs.congr {p : Pos} {o o' : BB} (hp : EmptyIs p o) (h : ∀ u, u < 64 → o'.getLsbD u = o.getLsbD u) :
    EmptyIs p o' := fun u hu => by rw [h u hu]; exact hp u hu

theorem EmptyIs.congr_pos {p q : Pos} {o : BB} (hp : EmptyIs p o) (h : ∀ u, u < 64 → q.empty u = p.empty u) :
    EmptyIs q o := fun u hu => by rw [h u hu]; exact hp u hu

end ChessVerif.Bridge
