/-
  C02, example positions, part 3: a two-move game from `okp` — the double push e2e4, after which the
  target e3 is recorded, and the en-passant capture d4xe3 — is a `PlayableRun` for every key table.
  Everything about the intermediate board is read on the rule-book side through the theorems
  (`make_refines_of_core`, `mem_playable_iff`), where the kernel can evaluate it.
-/
import ChessVerif.Proofs.EpTargetExamplesCaps
import ChessVerif.Proofs.EpTargetExamplesCaps2
import ChessVerif.Proofs.EpTargetUci

namespace ChessVerif.EpTarget.Examples
open ChessVerif Board Bridge
open ChessVerif.Props.C02core (mem_gen_of_rules)

/-- d4xe3 en passant. -/
def dxe3 : Move := Move.mk 27 20 0

/-- the board after e2e4 in `okp`. -/
def okp1 (K : Keys) : Board := (okp.makeMove K e2e4).1

theorem okp1_abs (K : Keys) : abs (okp1 K) = Rules.apply (abs okp) (decodeMove e2e4) :=
  make_refines_of_core K okp_valid okp_gen (coreAgrees_make K okp_valid okp_gen)

theorem okp1_stm (K : Keys) : (okp1 K).stm = Color.black := by
  unfold okp1; rw [makeMove_eq, make_stm]; rfl

theorem okp1_valid (K : Keys) : Board.valid (okp1 K) = true := by
  unfold Board.valid
  rw [Bool.and_eq_true]
  refine ⟨wf_of_WFP (wf_make K okp_valid okp_gen), ?_⟩
  rw [okp1_abs]
  decide +kernel

theorem okp1_gen (K : Keys) : dxe3 ∈ MoveGen.gen (okp1 K) :=
  mem_gen_of_rules (okp1_valid K) (by decide) (by rw [okp1_abs]; decide +kernel) (by decide)

theorem okp_playable (K : Keys) : e2e4 ∈ MoveGen.playable K okp :=
  (mem_playable_iff K okp_valid).2 ⟨okp_gen, by decide +kernel⟩

theorem okp1_playable (K : Keys) : dxe3 ∈ MoveGen.playable K (okp1 K) :=
  (mem_playable_iff K (okp1_valid K)).2 ⟨okp1_gen K, by rw [okp1_abs, okp1_stm]; decide +kernel⟩

theorem okp_run (K : Keys) : PlayableRun K okp [e2e4, dxe3] :=
  ⟨okp_valid, okp_playable K, okp1_valid K, okp1_playable K, trivial⟩

set_option maxRecDepth 100000 in
theorem okp_roundtrip : Fen.RoundTripOK okp := by decide +kernel

end ChessVerif.EpTarget.Examples
