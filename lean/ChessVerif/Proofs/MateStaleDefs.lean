/-
  C09, stalemate: the eight exits of `IsStalemate` as separate Boolean flags, `isStalemate_eq`
  (the model is the negated disjunction of the flags), and the notion `HasLegal b k`
  ("some man of kind `k` has a legal move") in which each flag is specified.
-/
import ChessVerif.Proofs.MateKing

namespace ChessVerif.Mate
open ChessVerif Board Rules Bridge

/-- some man of kind `k` of the side to move has a legal move. -/
def HasLegal (b : Board) (k : Piece) : Prop :=
  ∃ s t pr, s < 64 ∧ t < 64 ∧ pr < 8 ∧ b.pieceAt s = k ∧ PL.PL b s t pr ∧
    Rules.inCheck (Rules.applyCore (abs b) ⟨s, t, decPromo pr⟩) b.stm = false

variable {b : Board} {K : Nat}

theorem noLegal_iff_HasLegal (cx : Ctx b K) :
    Rules.legalMoves (abs b) = [] ↔ ∀ k, ¬ HasLegal b k := by
  rw [noLegal_iff_PL cx]
  constructor
  · rintro h k ⟨s, t, pr, hs, ht, hpr, _, hPL, hi⟩
    rw [h s t pr hs ht hpr hPL] at hi
    exact Bool.noConfusion hi
  · intro h s t pr hs ht hpr hPL
    cases hi : Rules.inCheck (Rules.applyCore (abs b) ⟨s, t, decPromo pr⟩) b.stm
    · exact absurd ⟨s, t, pr, hs, ht, hpr, rfl, hPL, hi⟩ (h (b.pieceAt s))
    · rfl

theorem hasLegal_none (cx : Ctx b K) : ¬ HasLegal b .none := by
  rintro ⟨s, t, pr, hs, _, _, hk, hPL, _⟩
  have := ((PL_iff_kind cx.wf s t pr hs).1 hPL).2.2
  rw [hk] at this
  exact this

/-- the king has a legal move iff the flight loop finds a square. -/
theorem hasLegal_king_iff (cx : Ctx b K) : HasLegal b .king ↔ ¬ KingStuck b K := by
  constructor
  · rintro ⟨s, t, pr, hs, ht, _, hk, hPL, hi⟩ hst
    have hown := ((PL_iff_kind cx.wf s t pr hs).1 hPL).1
    have : s = K := (cx.king_iff s hs).1 ⟨hown, hk⟩
    subst this
    rw [king_moves_unsafe cx hst t pr ht hPL] at hi
    exact Bool.noConfusion hi
  · intro h
    obtain ⟨t, ht, hPL, hi⟩ := king_escape cx h
    exact ⟨K, t, 0, cx.hK, ht, by decide, cx.king_piece, hPL, hi⟩

/-! ### the flags of `IsStalemate` -/

/-- own men seen from the king along queen lines. -/
def maybePinnedBB (b : Board) (K : Nat) : BB :=
  (Attacks.bishopMoves K b.occ ||| Attacks.rookMoves K b.occ) &&& b.colorBB b.stm

def stFreePawn (b : Board) (K : Nat) : Bool :=
  let occ := b.occ
  let opp := b.colorBB b.stm.flip
  let pawns := b.pieceBB .pawn &&& b.colorBB b.stm &&& ~~~ maybePinnedBB b K
  match b.stm with
  | .white =>
    ((pawns <<< 8) &&& ~~~ occ != 0) ||
    ((((pawns &&& ~~~ AFile) <<< 7) ||| ((pawns &&& ~~~ HFile) <<< 9)) &&& opp != 0)
  | .black =>
    ((pawns >>> 8) &&& ~~~ occ != 0) ||
    ((((pawns &&& ~~~ HFile) >>> 7) ||| ((pawns &&& ~~~ AFile) >>> 9)) &&& opp != 0)

def stQueens (b : Board) : Bool :=
  (bits (b.pieceBB .queen &&& b.colorBB b.stm)).any (fun sq =>
    (Attacks.bishopMoves sq b.occ ||| Attacks.rookMoves sq b.occ) &&& ~~~ b.colorBB b.stm != 0)

def stBishops (b : Board) (K : Nat) : Bool :=
  (bits (b.pieceBB .bishop &&& b.colorBB b.stm)).any (fun sq =>
    let nocc := b.occ &&& ~~~ bit sq
    (Attacks.rookMoves K nocc &&& (b.pieceBB .rook ||| b.pieceBB .queen) &&& b.colorBB b.stm.flip == 0) &&
    (Attacks.bishopMoves sq nocc &&& ~~~ b.colorBB b.stm != 0))

def stRooks (b : Board) (K : Nat) : Bool :=
  (bits (b.pieceBB .rook &&& b.colorBB b.stm)).any (fun sq =>
    let nocc := b.occ &&& ~~~ bit sq
    (Attacks.bishopMoves K nocc &&& (b.pieceBB .bishop ||| b.pieceBB .queen) &&& b.colorBB b.stm.flip == 0) &&
    (Attacks.rookMoves sq nocc &&& ~~~ b.colorBB b.stm != 0))

def stKnights (b : Board) (K : Nat) : Bool :=
  (bits (b.pieceBB .knight &&& b.colorBB b.stm)).any (fun sq =>
    let piece := bit sq
    let nocc := b.occ &&& ~~~ piece
    let pinned := (piece &&& maybePinnedBB b K != 0) && b.sliderHits K nocc (b.colorBB b.stm.flip)
    !pinned && (Attacks.knightMoves sq &&& ~~~ b.colorBB b.stm != 0))

def stKingLoop (b : Board) (K : Nat) : Bool :=
  (bits (Attacks.kingMoves K &&& ~~~ b.colorBB b.stm)).any (fun t =>
    !(b.isAttacked b.stm.flip (b.occ &&& ~~~ bit K) (bit t)))

def stPawns (b : Board) (K : Nat) : Bool :=
  (bits (b.pieceBB .pawn &&& b.colorBB b.stm &&& maybePinnedBB b K)).any (fun sq =>
    let occ := b.occ
    let opp := b.colorBB b.stm.flip
    let piece := bit sq
    let targets := Attacks.pawnSinglePushMoves piece b.stm &&& ~~~ occ
    let nocc := (occ &&& ~~~ piece) ||| targets
    let pinned := b.sliderHits K nocc opp
    if !pinned && targets != 0 then true else
    let targets := Attacks.pawnCaptureMoves piece b.stm &&& opp
    let nocc := (occ &&& ~~~ piece) ||| targets
    let pinned :=
      (Attacks.bishopMoves K nocc &&& (b.pieceBB .bishop ||| b.pieceBB .queen) &&& ~~~ targets &&& opp != 0) ||
      (Attacks.rookMoves K nocc &&& (b.pieceBB .rook ||| b.pieceBB .queen) &&& opp != 0)
    !pinned && targets != 0)

def stEp (b : Board) (K : Nat) : Bool :=
  if b.ep ≠ 0 then
    let occ := b.occ
    let opp := b.colorBB b.stm.flip
    let epBB := bit b.ep
    let pawns := Attacks.pawnCaptureMoves epBB b.stm.flip &&& b.pieceBB .pawn &&& b.colorBB b.stm
    let remove := Attacks.pawnSinglePushMoves epBB b.stm.flip
    (bits pawns).any fun sq =>
      let nocc := (occ &&& ~~~ bit sq &&& ~~~ remove) ||| epBB
      let pinned :=
        (Attacks.rookMoves K nocc &&& (b.pieceBB .rook ||| b.pieceBB .queen) &&& opp != 0) ||
        (Attacks.bishopMoves K nocc &&& (b.pieceBB .bishop ||| b.pieceBB .queen) &&& opp != 0)
      !pinned
  else false

theorem occ_eq_me_opp (b : Board) : b.colorBB b.stm ||| b.colorBB b.stm.flip = b.occ := by
  unfold Board.occ
  cases b.stm
  · rfl
  · exact BitVec.or_comm _ _

theorem ite_chain8 (a1 a2 a3 a4 a5 a6 a7 a8 : Bool) :
    (if a1 = true then false else if a2 = true then false else if a3 = true then false else
      if a4 = true then false else if a5 = true then false else if a6 = true then false else
      if a7 = true then false else if a8 = true then false else true) =
      !(a1 || a2 || a3 || a4 || a5 || a6 || a7 || a8) := by
  cases a1 <;> cases a2 <;> cases a3 <;> cases a4 <;> cases a5 <;> cases a6 <;> cases a7 <;> cases a8 <;> rfl

/-- **`IsStalemate` is the negated disjunction of its eight exits.** -/
theorem isStalemate_eq (cx : Ctx b K) :
    b.isStalemate =
      !(stFreePawn b K || stQueens b || stBishops b K || stRooks b K || stKnights b K ||
        stKingLoop b K || stPawns b K || stEp b K) := by
  rw [← ite_chain8]
  unfold Board.isStalemate stFreePawn stQueens stBishops stRooks stKnights stKingLoop stPawns stEp maybePinnedBB
  simp only [occ_eq_me_opp, cx.kingBB, PL.lowestSet_bit K cx.hK]
  rfl

end ChessVerif.Mate
