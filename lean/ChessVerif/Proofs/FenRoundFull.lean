/-
  C11 round trip, assembly: `parseFEN (printFEN b) = ok (b without hash history)` for every valid
  board whose move number fits the Go `int`.

  * `valid_scalars`        what `Board.valid` gives for the scalar fields;
  * `bytesOf_stmStr`, `castle_table`, `bytesOf_epStr`   the three short fields as bytes;
  * `bytesOf_printFEN`     the printed text as a byte list of the shape the parsers consume;
  * `position_print`       `position()` on the printed text: the board holds exactly `b`'s placement;
  * `roundtrip_of_wf`      the round trip from the representation invariant and the scalar ranges;
  * `roundtrip_full`       `C11_roundtrip_full`.
-/
import ChessVerif.Proofs.FenPlacement

namespace ChessVerif
namespace Fen
open Board

/-! ### what validity gives -/

theorem valid_scalars {b : Board} (hv : b.valid = true) :
    WF b ∧ b.ep < 64 ∧ 0 ≤ b.fifty ∧ b.fifty ≤ 100 ∧ 1 ≤ b.fullMoves := by
  unfold Board.valid at hv
  rw [Bool.and_eq_true] at hv
  obtain ⟨hw, hr⟩ := hv
  unfold Rules.valid at hr
  simp only [Bool.and_eq_true, decide_eq_true_eq] at hr
  obtain ⟨⟨⟨⟨_, hep⟩, h0⟩, h100⟩, h1⟩ := hr
  refine ⟨(wf_iff b).2 hw, ?_, h0, h100, h1⟩
  by_cases he : b.ep = 0
  · omega
  · have e : b.abs.ep = some b.ep := by simp [Board.abs, he]
    rw [e] at hep
    simp only [Bool.and_eq_true, decide_eq_true_eq] at hep
    exact hep.1.1.1

/-! ### the short fields -/

def stmByte (b : Board) : UInt8 := match b.stm with | .white => 119 | .black => 98

theorem bytesOf_stmStr (b : Board) : bytesOf (stmStr b) = [stmByte b] := by
  unfold stmStr stmByte
  cases b.stm <;> decide

theorem stmByte_cases (b : Board) : stmByte b = 119 ∨ stmByte b = 98 := by
  unfold stmByte; cases b.stm <;> simp

theorem stmByte_color (b : Board) : (if stmByte b = 119 then Color.white else Color.black) = b.stm := by
  unfold stmByte; cases b.stm <;> decide

/-- the castling field as a function of the rights alone. -/
def castleStrOf (c : Castles) : String :=
  let cs :=
    (if c &&& shortWhite != 0 then "K" else "") ++
    (if c &&& longWhite != 0 then "Q" else "") ++
    (if c &&& shortBlack != 0 then "k" else "") ++
    (if c &&& longBlack != 0 then "q" else "")
  if c == 0 then cs ++ "-" else cs

theorem castleStr_eq (b : Board) : castleStr b = castleStrOf b.castles := rfl

instance : DecidablePred isCastleLetter := fun c => by unfold isCastleLetter; infer_instance

def castleOK (c : Castles) : Bool :=
  let ls := bytesOf (castleStrOf c)
  ls.all (fun x => decide (isCastleLetter x)) && !ls.isEmpty &&
    (ls.foldl (fun acc x => acc ||| letterRight x) 0 == c)

theorem castle_table : ∀ n : Fin 16, castleOK (BitVec.ofFin n) = true := by decide +kernel

theorem castle_facts (c : Castles) :
    (∀ x ∈ bytesOf (castleStrOf c), isCastleLetter x) ∧ bytesOf (castleStrOf c) ≠ [] ∧
    (bytesOf (castleStrOf c)).foldl (fun acc x => acc ||| letterRight x) 0 = c := by
  have h := castle_table c.toFin
  have e : BitVec.ofFin c.toFin = c := rfl
  rw [e] at h
  simp only [castleOK, Bool.and_eq_true, List.all_eq_true, decide_eq_true_eq, Bool.not_eq_true',
    List.isEmpty_eq_false_iff, beq_iff_eq] at h
  exact ⟨h.1.1, h.1.2, h.2⟩

def epBytes (b : Board) : List UInt8 :=
  if (decide (b.ep = 0)) = true then [45] else [(97 + b.ep % 8).toUInt8, (49 + b.ep / 8).toUInt8]

theorem bytesOf_epStr (b : Board) (h : b.ep < 64) : bytesOf (epStr b) = epBytes b := by
  unfold epStr epBytes
  by_cases he : b.ep = 0
  · rw [if_pos he, if_pos (by simpa using he)]; decide
  · rw [if_neg he, if_neg (by simpa using he)]; exact bytesOf_sqName _ h

/-! ### the printed text as bytes -/

theorem bytesOf_printFEN (b : Board) (hep : b.ep < 64) (h50 : 0 ≤ b.fifty) (hfm : 0 ≤ b.fullMoves) :
    bytesOf (printFEN b) =
      placeBytes (cellAt b) 7 ++ 32 :: stmByte b :: 32 :: (bytesOf (castleStrOf b.castles) ++ 32 ::
        (epBytes b ++ 32 :: (digitBytes b.fifty.toNat ++ 32 :: digitBytes b.fullMoves.toNat))) := by
  have hs : bytesOf " " = [32] := by decide
  rw [printFEN_eq]
  simp only [bytesOf_append, bytesOf_placement, bytesOf_stmStr, castleStr_eq, bytesOf_epStr b hep,
    bytesOf_intRepr _ h50, bytesOf_intRepr _ hfm, hs, List.append_assoc, List.cons_append, List.nil_append]


/-! ### `position()` on the printed text -/

theorem board_eq {a b : Board} (h1 : a.sq = b.sq) (h2 : a.pieces = b.pieces) (h3 : a.colors = b.colors)
    (h4 : a.hashes = b.hashes) (h5 : a.fullMoves = b.fullMoves) (h6 : a.stm = b.stm) (h7 : a.ep = b.ep)
    (h8 : a.castles = b.castles) (h9 : a.fifty = b.fifty) : a = b := by
  cases a; cases b; simp_all

theorem manAt_ge (b : Board) (s : Nat) (hs : 64 ≤ s) : b.manAt s = none := by
  have hw : ∀ d, (b.colorBB d).getLsbD s = false := fun d => BitVec.getLsbD_of_ge _ _ (by omega)
  simp [manAt, hw]

/-- **the placement field round trip** (`parse_print_placement`): on any input that starts with the
    printed placement of a well-formed board `b` followed by a space, `position()` stops at that
    space and has built, from the empty board, exactly `b`'s three placement encodings. -/
theorem position_print (fen : Bytes) (b : Board) (hw : WF b) (t : List UInt8)
    (h : rest fen 0 = bytesOf (placementStr b) ++ 32 :: t) :
    ∃ b', position fen ⟨0, Board.empty⟩ = .ok ⟨(bytesOf (placementStr b)).length, b'⟩ ∧
      b'.sq = b.sq ∧ b'.pieces = b.pieces ∧ b'.colors = b.colors ∧ SameScalars Board.empty b' := by
  have hg : cellAt b = b.manAt := funext (cellAt_eq_manAt hw)
  rw [bytesOf_placement, hg] at h ⊢
  have hreal : ∀ s c, b.manAt s ≠ some (c, Piece.none) := hw.rep.real
  have h0 : Rep Board.empty (below b.manAt 7 0) := by
    apply empty_rep.congr_cfg
    intro s
    unfold below
    split
    · rename_i hc
      exact (manAt_ge b s (by omega)).symm
    · rfl
  have hsize : fen.size = (placeBytes b.manAt 7).length + (t.length + 1) := by
    have := rest_length fen 0
    rw [h] at this
    simp at this
    omega
  obtain ⟨b', hb', hrep, hsc⟩ := placement_parse fen b.manAt hreal 7 (Nat.le_refl 7) Board.empty 0 (t.length + 1) t h h0
  refine ⟨b', ?_, ?_⟩
  · unfold position
    simp only [Nat.sub_zero]
    rw [hsize, show (placeBytes b.manAt 7).length + (t.length + 1) + 1 =
      (placeBytes b.manAt 7).length + (t.length + 1 + 1) from by omega]
    have h7 : ((7 : Nat) : Int) = 7 := rfl
    rw [h7] at hb'
    rw [hb', Nat.zero_add]
  · have hrep' : Rep b' b.manAt := by
      apply hrep.congr_cfg
      intro s
      unfold below
      have : 0 < s / 8 ∨ (s / 8 = 0 ∧ s % 8 < 8) := by omega
      rw [if_pos this]
    obtain ⟨e1, e2, e3⟩ := rep_unique hrep' hw.rep
    exact ⟨e1, e2, e3, hsc⟩

/-! ### the round trip -/

/-- the round trip from the representation invariant and the ranges of the scalar fields. -/
theorem roundtrip_of_wf (b : Board) (hw : WF b) (hep : b.ep < 64) (h0 : 0 ≤ b.fifty) (h100 : b.fifty ≤ 100)
    (h1 : 1 ≤ b.fullMoves) (h63 : b.fullMoves < 2 ^ 63) : RoundTripOK b := by
  unfold RoundTripOK
  have hbytes := bytesOf_printFEN b hep h0 (by omega)
  rw [← bytesOf_placement] at hbytes
  have hrest := rest_zero (printFEN b)
  rw [hbytes] at hrest
  obtain ⟨b', hpos, e1, e2, e3, hsc⟩ := position_print _ b hw _ hrest
  obtain ⟨hc1, hc2, hc3⟩ := castle_facts b.castles
  obtain ⟨hf, hr, hsq⟩ := sqName_bytes_range b.ep hep
  have hv50 : digitsVal 0 (digitBytes b.fifty.toNat) = b.fifty := digitsVal_intRepr _ h0 (by omega)
  have hvfm : digitsVal 0 (digitBytes b.fullMoves.toNat) = b.fullMoves := digitsVal_intRepr _ (by omega) h63
  have hsc' := scalars_partial (printFEN b).toUTF8.data ⟨(bytesOf (placementStr b)).length, b'⟩ (stmByte b)
    (97 + b.ep % 8).toUInt8 (49 + b.ep / 8).toUInt8 (bytesOf (castleStrOf b.castles))
    (digitBytes b.fifty.toNat) (digitBytes b.fullMoves.toNat) (decide (b.ep = 0))
    (stmByte_cases b) hc1 hc2 hf hr (digitBytes_range _) (digitBytes_ne_nil _) (digitBytes_range _)
    (digitBytes_ne_nil _) (by rw [hv50]; exact ⟨h0, h100⟩) (by rw [hvfm]; exact h1)
    (by simpa [epBytes] using rest_append hrest)
  unfold parseFEN
  dsimp only
  rw [hpos]
  simp only [bind_ok]
  rw [hsc']
  refine congrArg PR.ok ?_
  obtain ⟨s1, s2, s3, s4, s5, s6⟩ := hsc
  apply board_eq
  · exact e1
  · exact e2
  · exact e3
  · exact s1
  · exact hvfm
  · exact stmByte_color b
  · show (if decide (b.ep = 0) = true then b'.ep else _) = b.ep
    by_cases he : b.ep = 0
    · rw [if_pos (by simpa using he), s4, he]; rfl
    · rw [if_neg (by simpa using he)]; exact hsq
  · show List.foldl _ b'.castles _ = b.castles
    rw [s5]; exact hc3
  · exact hv50

/-- **C11 round trip, full statement.** -/
theorem roundtrip_full : C11_roundtrip_full := by
  intro b hv h63
  obtain ⟨hw, hep, h0, h100, h1⟩ := valid_scalars hv
  exact roundtrip_of_wf b hw hep h0 h100 h1 h63

end Fen
end ChessVerif
