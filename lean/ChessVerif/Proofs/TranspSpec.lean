/-
  C15 helper lemmas, part 5: consequences of the abstract specification alone
  (`Spec.AbstractTT.Run`): the abstract map never holds signature 0, and whatever it holds for a key
  is the most recent effective store for that key (`LastStore`).
-/
import ChessVerif.Spec.AbstractTT

namespace ChessVerif.Spec.AbstractTT

theorem LastStore.extend {bo : BitVec 64 → Nat → Nat} {ops : List Op} {nb b : Nat} {k : Sig}
    {st : Stored} (h : LastStore bo ops nb b k st) (s : Store)
    (hs : bo s.hash nb = b → sigOf s.hash = k →
      s.typ ≠ exactT ∧ st.depth > s.d + Gen.Transp.keepDeeperMargin ∧ st.gen = s.gen) :
    LastStore bo (ops ++ [Op.store s]) nb b k st := by
  obtain ⟨pre, s1, post, hops, hpost, hb, hk, h1, h2, h3, h4, h5, h6, hlater⟩ := h
  refine ⟨pre, s1, post ++ [Op.store s], ?_, ?_, hb, hk, h1, h2, h3, h4, h5, h6, ?_⟩
  · rw [hops]; simp
  · intro op hop
    rcases List.mem_append.1 hop with h | h
    · exact hpost op h
    · exact ⟨s, List.mem_singleton.1 h⟩
  · intro s' hs' hb' hk'
    rcases List.mem_append.1 hs' with h | h
    · exact hlater s' h hb' hk'
    · have : s' = s := by
        have := List.mem_singleton.1 h
        cases this; rfl
      subst this
      exact hs hb' hk'

/-- Whatever the abstract table holds after `ops` is the most recent effective store of its key,
    and signature 0 is never held. -/
theorem run_last_store (bo : BitVec 64 → Nat → Nat) (nb0 : Nat) (ops : List Op) (a : State)
    (h : Run bo (State.empty nb0) ops a) :
    (∀ b, a.m b 0 = none) ∧
    ∀ b k st, a.m b k = some st → LastStore bo ops a.nb b k st := by
  induction h with
  | nil => exact ⟨fun _ => rfl, fun b k st h => by cases h⟩
  | @snoc ops a a' op _ hstep ih =>
    obtain ⟨ih0, ihl⟩ := ih
    cases hstep with
    | clear => exact ⟨fun _ => rfl, fun b k st h => by cases h⟩
    | resize => exact ⟨fun _ => rfl, fun b k st h => by cases h⟩
    | store _ s hnb hoth hbs =>
      generalize hf' : a'.m (bo s.hash a.nb) = f' at hbs
      generalize hf : a.m (bo s.hash a.nb) = f at hbs
      cases hbs with
      | keep hk0 hkeeps =>
        -- nothing changes
        have hsame : ∀ b, a'.m b = a.m b := by
          intro b
          by_cases e : b = bo s.hash a.nb
          · rw [e, hf', hf]
          · exact hoth b e
        refine ⟨fun b => by rw [hsame b]; exact ih0 b, fun b k st hst => ?_⟩
        rw [hsame b] at hst
        rw [hnb]
        refine (ihl b k st hst).extend s (fun hb hk => ?_)
        obtain ⟨o, ho, h1, h2, h3⟩ := hkeeps
        rw [← hf, hb, hk, hst] at ho
        cases ho
        exact ⟨h1, h2, h3⟩
      | write _ hk0 hnk hfk hev =>
        obtain ⟨victim, hvict⟩ := hev
        refine ⟨fun b => ?_, fun b k st hst => ?_⟩
        · by_cases e : b = bo s.hash a.nb
          · rw [e, hf', hvict 0 (fun h => hk0 h.symm)]
            split
            · rfl
            · rw [← hf]; exact ih0 _
          · rw [hoth b e]; exact ih0 b
        · rw [hnb]
          by_cases e : b = bo s.hash a.nb
          · by_cases ek : k = sigOf s.hash
            · -- the key just written
              rw [e, hf', ek, hfk] at hst
              cases hst
              refine ⟨ops, s, [], rfl, (fun _ h => by cases h), e.symm, ek.symm, rfl, rfl, rfl, rfl, rfl,
                (fun hmv => by show (if s.mv = 0 then _ else s.mv) = s.mv; rw [if_neg hmv]),
                (fun _ h => by cases h)⟩
            · rw [e, hf', hvict k ek] at hst
              have hst' : a.m b k = some st := by
                rw [e, hf]
                split at hst
                · cases hst
                · exact hst
              exact (ihl b k st hst').extend s (fun _ hk => absurd hk.symm ek)
          · rw [hoth b e] at hst
            exact (ihl b k st hst).extend s (fun hb _ => absurd hb.symm e)
      | sig0 _ hk0 hfk hev =>
        obtain ⟨victim, hvict⟩ := hev
        have h0 : ∀ b, a'.m b 0 = none := by
          intro b
          by_cases e : b = bo s.hash a.nb
          · rw [e, hf', ← hk0, hfk, hk0, ← hf]; exact ih0 _
          · rw [hoth b e]; exact ih0 b
        refine ⟨h0, fun b k st hst => ?_⟩
        rw [hnb]
        have hk : k ≠ sigOf s.hash := by
          intro ek
          rw [ek, hk0, h0 b] at hst
          cases hst
        by_cases e : b = bo s.hash a.nb
        · rw [e, hf', hvict k hk] at hst
          have hst' : a.m b k = some st := by
            rw [e, hf]
            split at hst
            · cases hst
            · exact hst
          exact (ihl b k st hst').extend s (fun _ hk' => absurd hk'.symm hk)
        · rw [hoth b e] at hst
          exact (ihl b k st hst).extend s (fun hb _ => absurd hb.symm e)

/-- The number of buckets only changes at a resize. -/
theorem step_store_nb {bo : BitVec 64 → Nat → Nat} {a a' : State} {s : Store}
    (h : Step bo a (.store s) a') : a'.nb = a.nb := by
  cases h with
  | store _ _ hnb _ _ => exact hnb

end ChessVerif.Spec.AbstractTT
