/-
  Bit-level lemmas for C17: the vertical flip `flipBB` (rank r ↔ rank 7-r) commutes with the Boolean
  operations, exchanges the shifts the evaluation uses, preserves popcount, and maps the ascending
  square list of a bitboard to a permutation of it; single-square facts (`x & (x-1) == 0`, IsPow2,
  LowestSet).  Shift identities are reduced to a decidable statement about index maps (`remap`).
-/
import ChessVerif.Model.Eval
import Mathlib.Data.List.Nodup
import Mathlib.Data.List.Perm.Basic
namespace ChessVerif.Eval
open ChessVerif

theorem ofPred_range (p : Nat → Bool) (n : Nat) (hn : n ≤ 64) (t : Nat) :
    ((List.range n).foldl (fun acc t => if p t then acc ||| bit t else acc) (0#64)).getLsbD t
      = (decide (t < n) && p t) := by
  induction n with
  | zero => simp
  | succ n ih =>
    rw [List.range_succ, List.foldl_append]
    simp only [List.foldl_cons, List.foldl_nil]
    have ih := ih (by omega)
    by_cases hp : p n
    · simp only [hp, if_true, BitVec.getLsbD_or, ih, bit_getLsbD n t (by omega)]
      by_cases h1 : n = t
      · subst h1; simp [hp]
      · by_cases h2 : t < n
        · simp [h1, h2, show t < n + 1 by omega]
        · simp [h1, h2, show ¬ t < n + 1 by omega]
    · simp only [hp, Bool.false_eq_true, if_false, ih]
      by_cases h1 : n = t
      · subst h1; simp [hp]
      · by_cases h2 : t < n
        · simp [h2, show t < n + 1 by omega]
        · simp [h2, show ¬ t < n + 1 by omega]

theorem ofPred_getLsbD (p : Nat → Bool) (t : Nat) : (ofPred p).getLsbD t = (decide (t < 64) && p t) :=
  ofPred_range p 64 (by omega) t

/-- relabel the squares of a bitboard: square `i` of the result is square `f i` of `x` (absent when `none`). -/
def remap (f : Nat → Option Nat) (x : BB) : BB :=
  ofPred fun i => match f i with | some j => x.getLsbD j | none => false

theorem remap_getLsbD (f : Nat → Option Nat) (x : BB) (i : Nat) (h : i < 64) :
    (remap f x).getLsbD i = (match f i with | some j => x.getLsbD j | none => false) := by
  unfold remap; rw [ofPred_getLsbD]; simp [h]

/-- the index map with out-of-board targets dropped. -/
def norm (f : Nat → Option Nat) (i : Nat) : Option Nat := (f i).filter (· < 64)

theorem remap_congr (f g : Nat → Option Nat) (x : BB) (h : ∀ i : Fin 64, norm f i.val = norm g i.val) :
    remap f x = remap g x := by
  apply BitVec.eq_of_getLsbD_eq
  intro i hi
  rw [remap_getLsbD _ _ _ hi, remap_getLsbD _ _ _ hi]
  have := h ⟨i, hi⟩
  simp only [norm] at this
  cases hf : f i with
  | none =>
    cases hg : g i with
    | none => rfl
    | some k =>
      simp only [hf, hg, Option.filter_none] at this
      have hk : ¬ k < 64 := by
        intro hk; simp [Option.filter, hk] at this
      simp only []
      exact (BitVec.getLsbD_of_ge x k (by omega)).symm
  | some j =>
    cases hg : g i with
    | none =>
      simp only [hf, hg, Option.filter_none] at this
      have hj : ¬ j < 64 := by
        intro hj; simp [Option.filter, hj] at this
      exact BitVec.getLsbD_of_ge x j (by omega)
    | some k =>
      simp only [hf, hg] at this
      by_cases hj : j < 64
      · by_cases hk : k < 64
        · simp [Option.filter, hj, hk] at this; subst this; rfl
        · simp [Option.filter, hj, hk] at this
      · by_cases hk : k < 64
        · simp [Option.filter, hj, hk] at this
        · show x.getLsbD j = x.getLsbD k
          rw [BitVec.getLsbD_of_ge x j (by omega), BitVec.getLsbD_of_ge x k (by omega)]

theorem remap_remap (f g : Nat → Option Nat) (x : BB) :
    remap f (remap g x) = remap (fun i => (f i).bind fun j => if j < 64 then g j else none) x := by
  apply BitVec.eq_of_getLsbD_eq
  intro i hi
  rw [remap_getLsbD _ _ _ hi, remap_getLsbD _ _ _ hi]
  cases hf : f i with
  | none => simp
  | some j =>
    by_cases hj : j < 64
    · simp only [Option.bind_some, hj, if_true]
      exact remap_getLsbD _ _ _ hj
    · simp only [Option.bind_some, hj, if_false]
      exact BitVec.getLsbD_of_ge _ j (by omega)

theorem shl_eq_remap (x : BB) (n : Nat) : x <<< n = remap (fun i => if n ≤ i then some (i - n) else none) x := by
  apply BitVec.eq_of_getLsbD_eq
  intro i hi
  rw [remap_getLsbD _ _ _ hi]
  simp only [BitVec.getLsbD_shiftLeft]
  by_cases h : n ≤ i
  · simp [h, hi, show ¬ i < n by omega]
  · simp [h, show i < n by omega]

theorem shr_eq_remap (x : BB) (n : Nat) : x >>> n = remap (fun i => some (n + i)) x := by
  apply BitVec.eq_of_getLsbD_eq
  intro i hi
  rw [remap_getLsbD _ _ _ hi]
  simp only [BitVec.getLsbD_ushiftRight]

theorem and_mask_eq_remap (x m : BB) : x &&& m = remap (fun i => if m.getLsbD i then some i else none) x := by
  apply BitVec.eq_of_getLsbD_eq
  intro i hi
  rw [remap_getLsbD _ _ _ hi]
  simp only [BitVec.getLsbD_and]
  by_cases h : m.getLsbD i <;> simp [h]

theorem flipBB_eq_remap (x : BB) : flipBB x = remap (fun i => some (i ^^^ 56)) x := rfl

/-! ### the flip on single squares -/

theorem xor56 : ∀ s : Fin 64, s.val ^^^ 56 < 64 ∧ (s.val ^^^ 56) ^^^ 56 = s.val := by decide

theorem xor56_lt {s : Nat} (h : s < 64) : s ^^^ 56 < 64 := (xor56 ⟨s, h⟩).1
theorem xor56_xor56 (s : Nat) : (s ^^^ 56) ^^^ 56 = s := by
  rw [Nat.xor_assoc, Nat.xor_self, Nat.xor_zero]

theorem flipBB_getLsbD (x : BB) (s : Nat) (h : s < 64) : (flipBB x).getLsbD s = x.getLsbD (s ^^^ 56) := by
  unfold flipBB; rw [ofPred_getLsbD]; simp [h]

/-! ### Boolean algebra -/

theorem flipBB_and (x y : BB) : flipBB (x &&& y) = flipBB x &&& flipBB y := by
  apply BitVec.eq_of_getLsbD_eq; intro i hi
  simp only [BitVec.getLsbD_and, flipBB_getLsbD _ _ hi]

theorem flipBB_or (x y : BB) : flipBB (x ||| y) = flipBB x ||| flipBB y := by
  apply BitVec.eq_of_getLsbD_eq; intro i hi
  simp only [BitVec.getLsbD_or, flipBB_getLsbD _ _ hi]

theorem flipBB_not (x : BB) : flipBB (~~~x) = ~~~(flipBB x) := by
  apply BitVec.eq_of_getLsbD_eq; intro i hi
  simp only [BitVec.getLsbD_not, flipBB_getLsbD _ _ hi, hi, xor56_lt hi, decide_true, Bool.true_and]

theorem flipBB_zero : flipBB 0 = 0 := by
  apply BitVec.eq_of_getLsbD_eq; intro i hi
  simp [flipBB_getLsbD _ _ hi]

theorem flipBB_flipBB (x : BB) : flipBB (flipBB x) = x := by
  apply BitVec.eq_of_getLsbD_eq; intro i hi
  rw [flipBB_getLsbD _ _ hi, flipBB_getLsbD _ _ (xor56_lt hi), xor56_xor56]

theorem flipBB_eq_zero_iff (x : BB) : flipBB x = 0 ↔ x = 0 := by
  constructor
  · intro h; have := congrArg flipBB h; rwa [flipBB_flipBB, flipBB_zero] at this
  · intro h; rw [h, flipBB_zero]

theorem flipBB_inj {x y : BB} (h : flipBB x = flipBB y) : x = y := by
  have := congrArg flipBB h; rwa [flipBB_flipBB, flipBB_flipBB] at this

theorem flipBB_bit (s : Nat) (h : s < 64) : flipBB (bit s) = bit (s ^^^ 56) := by
  apply BitVec.eq_of_getLsbD_eq; intro i hi
  rw [flipBB_getLsbD _ _ hi, bit_getLsbD _ _ h, bit_getLsbD _ _ (xor56_lt h)]
  by_cases h1 : s = i ^^^ 56
  · simp [h1, xor56_xor56]
  · have : ¬ s ^^^ 56 = i := by intro h2; apply h1; rw [← h2, xor56_xor56]
    simp [h1, this]

/-! ### shifts -/

macro "flip_shift" : tactic =>
  `(tactic| (simp only [flipBB_eq_remap, shl_eq_remap, shr_eq_remap, and_mask_eq_remap _ (~~~Attacks.aFileBB),
      and_mask_eq_remap _ (~~~Attacks.hFileBB), remap_remap]; apply remap_congr; decide))

theorem flipBB_shl8 (x : BB) : flipBB (x <<< 8) = flipBB x >>> 8 := by flip_shift
theorem flipBB_shl16 (x : BB) : flipBB (x <<< 16) = flipBB x >>> 16 := by flip_shift
theorem flipBB_shl32 (x : BB) : flipBB (x <<< 32) = flipBB x >>> 32 := by flip_shift
theorem flipBB_shr8 (x : BB) : flipBB (x >>> 8) = flipBB x <<< 8 := by flip_shift
theorem flipBB_shr16 (x : BB) : flipBB (x >>> 16) = flipBB x <<< 16 := by flip_shift
theorem flipBB_shr32 (x : BB) : flipBB (x >>> 32) = flipBB x <<< 32 := by flip_shift
theorem flipBB_shl0 (x : BB) : flipBB (x <<< 0) = flipBB x >>> 0 := by simp
theorem flipBB_notA_shr1 (x : BB) :
    flipBB ((x &&& ~~~Attacks.aFileBB) >>> 1) = (flipBB x &&& ~~~Attacks.aFileBB) >>> 1 := by flip_shift
theorem flipBB_notH_shl1 (x : BB) :
    flipBB ((x &&& ~~~Attacks.hFileBB) <<< 1) = (flipBB x &&& ~~~Attacks.hFileBB) <<< 1 := by flip_shift
theorem flipBB_notA_shl7 (x : BB) :
    flipBB ((x &&& ~~~Attacks.aFileBB) <<< 7) = (flipBB x &&& ~~~Attacks.aFileBB) >>> 9 := by flip_shift
theorem flipBB_notH_shl9 (x : BB) :
    flipBB ((x &&& ~~~Attacks.hFileBB) <<< 9) = (flipBB x &&& ~~~Attacks.hFileBB) >>> 7 := by flip_shift
theorem flipBB_notH_shr7 (x : BB) :
    flipBB ((x &&& ~~~Attacks.hFileBB) >>> 7) = (flipBB x &&& ~~~Attacks.hFileBB) <<< 9 := by flip_shift
theorem flipBB_notA_shr9 (x : BB) :
    flipBB ((x &&& ~~~Attacks.aFileBB) >>> 9) = (flipBB x &&& ~~~Attacks.aFileBB) <<< 7 := by flip_shift

/-! ### lists of squares -/

theorem mem_bits_flip (x : BB) (s : Nat) : s ∈ bits (flipBB x) ↔ s < 64 ∧ (s ^^^ 56) ∈ bits x := by
  simp only [mem_bits]
  constructor
  · rintro ⟨h1, h2⟩; rw [flipBB_getLsbD _ _ h1] at h2; exact ⟨h1, xor56_lt h1, h2⟩
  · rintro ⟨h1, _, h3⟩; exact ⟨h1, by rw [flipBB_getLsbD _ _ h1]; exact h3⟩

theorem bits_flip_perm (x : BB) : (bits (flipBB x)).Perm ((bits x).map (· ^^^ 56)) := by
  rw [List.perm_ext_iff_of_nodup (bits_nodup _)]
  · intro s
    rw [mem_bits_flip, List.mem_map]
    constructor
    · rintro ⟨h1, h2⟩; exact ⟨s ^^^ 56, h2, xor56_xor56 s⟩
    · rintro ⟨t, ht, rfl⟩; exact ⟨xor56_lt (bits_lt ht), by rw [xor56_xor56]; exact ht⟩
  · apply List.Nodup.map _ (bits_nodup _)
    intro a b h
    have := congrArg (· ^^^ 56) h
    simpa [xor56_xor56] using this

theorem popcount_flip (x : BB) : popcount (flipBB x) = popcount x := by
  unfold popcount
  rw [(bits_flip_perm x).length_eq, List.length_map]

/-! ### single squares -/

theorem bits_bit (s : Nat) (h : s < 64) : bits (bit s) = [s] := by
  have hn := bits_nodup (bit s)
  have hm : ∀ t, t ∈ bits (bit s) ↔ t = s := by
    intro t; rw [mem_bits, bit_getLsbD _ _ h]
    constructor
    · rintro ⟨_, h2⟩; simpa [eq_comm] using h2
    · rintro rfl; simp [h]
  have : (bits (bit s)).Perm [s] := by
    rw [List.perm_ext_iff_of_nodup hn (by simp)]
    intro t; simp [hm]
  exact List.perm_singleton.mp this

theorem lowestSet_bit (s : Nat) (h : s < 64) : lowestSet (bit s) = s := by
  simp [lowestSet, bits_bit s h]

theorem bit_ne_zero (s : Nat) (h : s < 64) : bit s ≠ 0 := by
  intro h0
  have := bit_getLsbD s s h
  rw [h0] at this
  simp at this

theorem bit_toNat (s : Nat) (h : s < 64) : (bit s).toNat = 2 ^ s := by
  unfold bit
  rw [BitVec.toNat_shiftLeft, BitVec.toNat_ofNat, Nat.shiftLeft_eq]
  have : 2 ^ s < 2 ^ 64 := Nat.pow_lt_pow_right (by omega) h
  simp only [Nat.reducePow, Nat.one_mod, Nat.one_mul] at *
  exact Nat.mod_eq_of_lt this

/-- `x & (x-1) == 0`: at most one square. -/
theorem and_sub_one_eq_zero_iff (x : BB) : x &&& (x - 1) = 0 ↔ x = 0 ∨ ∃ s, s < 64 ∧ x = bit s := by
  by_cases hx : x = 0
  · subst hx; simp
  · have hnat : x.toNat ≠ 0 := fun h => hx (BitVec.eq_of_toNat_eq (by simpa using h))
    have hsub : (x - 1).toNat = x.toNat - 1 := by
      rw [BitVec.toNat_sub]
      have := x.isLt
      have h1 : (1 : BitVec 64).toNat = 1 := rfl
      rw [h1]
      omega
    have key : x &&& (x - 1) = 0 ↔ x.toNat &&& (x.toNat - 1) = 0 := by
      rw [← hsub, ← BitVec.toNat_and]
      constructor
      · intro h; rw [h]; rfl
      · intro h; exact BitVec.eq_of_toNat_eq (by simpa using h)
    rw [key, Nat.and_sub_one_eq_zero_iff_isPowerOfTwo hnat]
    constructor
    · rintro ⟨k, hk⟩
      right
      have hk64 : k < 64 := by
        have := x.isLt
        rw [hk] at this
        exact (Nat.pow_lt_pow_iff_right (by omega)).mp this
      exact ⟨k, hk64, BitVec.eq_of_toNat_eq (by rw [hk, bit_toNat k hk64])⟩
    · rintro (h | ⟨s, hs, rfl⟩)
      · exact absurd h hx
      · exact ⟨s, bit_toNat s hs⟩

theorem and_sub_one_flip (x : BB) : (flipBB x &&& (flipBB x - 1) = 0) ↔ (x &&& (x - 1) = 0) := by
  rw [and_sub_one_eq_zero_iff, and_sub_one_eq_zero_iff, flipBB_eq_zero_iff]
  constructor
  · rintro (h | ⟨s, hs, h⟩)
    · exact Or.inl h
    · right
      refine ⟨s ^^^ 56, xor56_lt hs, ?_⟩
      have := congrArg flipBB h
      rwa [flipBB_flipBB, flipBB_bit s hs] at this
  · rintro (h | ⟨s, hs, h⟩)
    · exact Or.inl h
    · exact Or.inr ⟨s ^^^ 56, xor56_lt hs, by rw [h, flipBB_bit s hs]⟩

theorem isPow2_iff (x : BB) : isPow2 x = true ↔ ∃ s, s < 64 ∧ x = bit s := by
  unfold isPow2
  simp only [Bool.and_eq_true, beq_iff_eq, bne_iff_ne, ne_eq]
  rw [and_sub_one_eq_zero_iff]
  constructor
  · rintro ⟨h | h, h0⟩
    · exact absurd h h0
    · exact h
  · rintro ⟨s, hs, rfl⟩
    exact ⟨Or.inr ⟨s, hs, rfl⟩, bit_ne_zero s hs⟩

theorem isPow2_flip (x : BB) : isPow2 (flipBB x) = isPow2 x := by
  rw [Bool.eq_iff_iff, isPow2_iff, isPow2_iff]
  constructor
  · rintro ⟨s, hs, h⟩
    refine ⟨s ^^^ 56, xor56_lt hs, ?_⟩
    have := congrArg flipBB h
    rwa [flipBB_flipBB, flipBB_bit s hs] at this
  · rintro ⟨s, hs, rfl⟩
    exact ⟨s ^^^ 56, xor56_lt hs, flipBB_bit s hs⟩

theorem lowestSet_flip_of_isPow2 (x : BB) (h : isPow2 x = true) :
    lowestSet (flipBB x) = lowestSet x ^^^ 56 := by
  obtain ⟨s, hs, rfl⟩ := (isPow2_iff x).mp h
  rw [flipBB_bit s hs, lowestSet_bit _ (xor56_lt hs), lowestSet_bit s hs]

end ChessVerif.Eval
