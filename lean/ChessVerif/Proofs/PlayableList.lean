/-
  C01, list form: the decoded playable moves are a permutation of the rule book's enumeration
  `Rules.legalMoves (abs b)`; neither list contains a move twice.
-/
import ChessVerif.Proofs.Playable
import Mathlib.Data.List.Nodup
import Mathlib.Data.List.Perm.Basic

namespace ChessVerif.Playable
open ChessVerif Board Rules Bridge AbsMake

/-! ### the rule book's enumeration -/

/-- a pseudo-legal move starts on a square that carries a man of the side to move. -/
theorem pseudoLegal_src (p : Pos) (mv : Mv) (h : pseudoLegal p mv = true) :
    mv.src < 64 ∧ mv.dst < 64 ∧ p.hasColor mv.src p.turn = true := by
  unfold pseudoLegal at h
  simp only [Bool.and_eq_true, decide_eq_true_eq] at h
  obtain ⟨⟨h1, h2⟩, h3⟩ := h
  refine ⟨h1, h2, ?_⟩
  unfold Pos.hasColor
  cases hat : p.at_ mv.src with
  | none => rw [hat] at h3; exact Bool.noConfusion h3
  | some ck =>
    obtain ⟨c', k⟩ := ck
    rw [hat] at h3
    simp only [Bool.and_eq_true] at h3
    exact h3.1.1

theorem legal_pseudoLegal {p : Pos} {mv : Mv} (h : legal p mv = true) : pseudoLegal p mv = true := by
  unfold legal at h
  rw [Bool.and_eq_true] at h
  exact h.1

/-- membership in the inner enumeration (one origin square, one destination). -/
theorem mem_promoEnum (p : Pos) (s d : Nat) (mv : Mv) :
    mv ∈ promoChoices.filterMap (fun q => if legal p ⟨s, d, q⟩ then some (⟨s, d, q⟩ : Mv) else none) ↔
      mv.src = s ∧ mv.dst = d ∧ mv.promo ∈ promoChoices ∧ legal p mv = true := by
  rw [List.mem_filterMap]
  constructor
  · rintro ⟨q, hq, h⟩
    split at h
    · rename_i hl
      injection h with h
      subst h
      exact ⟨rfl, rfl, hq, hl⟩
    · exact absurd h (by simp)
  · rintro ⟨rfl, rfl, hq, hl⟩
    refine ⟨mv.promo, hq, ?_⟩
    have : (⟨mv.src, mv.dst, mv.promo⟩ : Mv) = mv := by cases mv; rfl
    rw [this, if_pos hl]

/-- **membership in `Rules.legalMoves`.** -/
theorem mem_legalMoves (p : Pos) (mv : Mv) :
    mv ∈ legalMoves p ↔
      legal p mv = true ∧ mv.src < 64 ∧ mv.dst < 64 ∧ mv.promo ∈ promoChoices := by
  unfold legalMoves
  rw [List.mem_flatMap]
  constructor
  · rintro ⟨s, hs, h⟩
    split at h
    · rw [List.mem_flatMap] at h
      obtain ⟨d, hd, h⟩ := h
      obtain ⟨rfl, rfl, hq, hl⟩ := (mem_promoEnum p s d mv).1 h
      exact ⟨hl, List.mem_range.1 hs, List.mem_range.1 hd, hq⟩
    · exact absurd h List.not_mem_nil
  · rintro ⟨hl, hs, hd, hq⟩
    refine ⟨mv.src, List.mem_range.2 hs, ?_⟩
    rw [if_pos (pseudoLegal_src p mv (legal_pseudoLegal hl)).2.2, List.mem_flatMap]
    exact ⟨mv.dst, List.mem_range.2 hd, (mem_promoEnum p _ _ mv).2 ⟨rfl, rfl, hq, hl⟩⟩

theorem promoChoices_nodup : promoChoices.Nodup := by decide

/-- the rule book's enumeration lists no move twice. -/
theorem legalMoves_nodup (p : Pos) : (legalMoves p).Nodup := by
  unfold legalMoves
  rw [List.nodup_flatMap]
  constructor
  · intro s _
    split
    · rw [List.nodup_flatMap]
      constructor
      · intro d _
        apply List.Nodup.filterMap _ promoChoices_nodup
        intro q q' mv h h'
        simp only [Option.mem_def] at h h'
        split at h
        · split at h'
          · injection h with h; injection h' with h'
            rw [← h'] at h
            injection h
          · exact absurd h' (by simp)
        · exact absurd h (by simp)
      · apply List.Pairwise.imp _ List.nodup_range
        intro d d' hne
        show List.Disjoint _ _
        intro mv h h'
        have e := ((mem_promoEnum p s d mv).1 h).2.1
        have e' := ((mem_promoEnum p s d' mv).1 h').2.1
        exact hne (e.symm.trans e')
    · exact List.nodup_nil
  · apply List.Pairwise.imp _ List.nodup_range
    intro s s' hne
    show List.Disjoint _ _
    intro mv h h'
    have key : ∀ t, mv ∈ (if p.hasColor t p.turn = true then
        (List.range 64).flatMap fun d => promoChoices.filterMap fun q =>
          if legal p ⟨t, d, q⟩ then some (⟨t, d, q⟩ : Mv) else none
        else []) → mv.src = t := by
      intro t ht
      split at ht
      · rw [List.mem_flatMap] at ht
        obtain ⟨d, _, hd⟩ := ht
        exact ((mem_promoEnum p t d mv).1 hd).1
      · exact absurd ht List.not_mem_nil
    exact hne ((key s h).symm.trans (key s' h'))

/-! ### the playable moves, decoded -/

theorem mem_playable_decoded (K : Keys) {b : Board} (hv : Board.valid b = true) (mv : Mv) :
    mv ∈ (MoveGen.playable K b).map decodeMove ↔ mv ∈ legalMoves (abs b) := by
  rw [List.mem_map, mem_legalMoves]
  constructor
  · rintro ⟨m, hm, rfl⟩
    have hl := ((playable_iff K hv m).1 hm).2.1
    have hg := ((mem_playable K b m).1 hm).1
    exact ⟨hl, src_lt m, dst_lt m, gen_promo_choice (genMove_of hv hg)⟩
  · rintro ⟨hl, _, _, _⟩
    obtain ⟨hg, hdec⟩ := encode_mem_gen hv mv (legal_pseudoLegal hl)
    have hgm := (gen_iff_pseudoLegal hv _).1 hg
    refine ⟨encodeMove mv, (playable_iff K hv _).2 ⟨hgm.1, ?_, hgm.2.2⟩, hdec⟩
    rw [hdec]; exact hl

theorem playable_decoded_nodup (K : Keys) {b : Board} (hv : Board.valid b = true) :
    ((MoveGen.playable K b).map decodeMove).Nodup := by
  apply List.Nodup.map_on _ (playable_nodup K hv)
  intro m₁ h₁ m₂ h₂ h
  exact decode_injOn_gen hv ((mem_playable K b m₁).1 h₁).1 ((mem_playable K b m₂).1 h₂).1 h

/-- **C01, list form**: the decoded playable moves are the legal moves, each exactly once. -/
theorem playable_perm_legal (K : Keys) {b : Board} (hv : Board.valid b = true) :
    ((MoveGen.playable K b).map decodeMove).Perm (legalMoves (abs b)) :=
  (List.perm_ext_iff_of_nodup (playable_decoded_nodup K hv) (legalMoves_nodup _)).2
    (mem_playable_decoded K hv)

end ChessVerif.Playable
