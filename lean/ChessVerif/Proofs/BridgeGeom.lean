/-
  Second layer of the bridge: coordinates and lines.  The rule book (`Spec/Rules.lean`) and the
  geometric spec of the attack tables (`Spec/Geometry.lean`) use the same coordinates; the list
  `Rules.between a t` enumerates exactly the bitboard `Geometry.strictlyBetween a t`; hence
  `Rules.clearBetween` is an emptiness test of `strictlyBetween a t ∩ occupancy`, for the board's own
  occupancy and for an arbitrary one.
-/
import ChessVerif.Proofs.BridgeAbs
import ChessVerif.Proofs.AttacksDecl

namespace ChessVerif.Bridge
open ChessVerif Board Rules

/-! ### coordinates -/

theorem file_eq (s : Nat) : Rules.file s = Geometry.fileI s := rfl
theorem rank_eq (s : Nat) : Rules.rank s = Geometry.rankI s := rfl
theorem file_eq_fileOf (s : Nat) : Rules.file s = ((fileOf s : Nat) : Int) := rfl
theorem rank_eq_rankOf (s : Nat) : Rules.rank s = ((rankOf s : Nat) : Int) := rfl
theorem sgn_eq (x : Int) : Rules.sgn x = Geometry.sgn x := rfl
theorem up_eq (c : Color) : Rules.up c = Geometry.forward c := by cases c <;> rfl

theorem file_range (s : Nat) : 0 ≤ Rules.file s ∧ Rules.file s < 8 := by
  unfold Rules.file; omega
theorem rank_range (s : Nat) (hs : s < 64) : 0 ≤ Rules.rank s ∧ Rules.rank s < 8 := by
  unfold Rules.rank; omega
/-- a square is determined by its coordinates. -/
theorem sq_ext (s t : Nat) (hf : Rules.file s = Rules.file t) (hr : Rules.rank s = Rules.rank t) : s = t := by
  unfold Rules.file Rules.rank at *; omega
theorem sq_coords (s : Nat) : (s : Int) = 8 * Rules.rank s + Rules.file s := by
  unfold Rules.file Rules.rank; omega

/-- the rule book's `aligned` is the geometric one restricted to distinct squares. -/
theorem aligned_eq (a t : Nat) : Rules.aligned a t = (decide (a ≠ t) && Geometry.aligned a t) := rfl

theorem aligned_eq_of_ne (a t : Nat) (h : a ≠ t) : Rules.aligned a t = Geometry.aligned a t := by
  rw [aligned_eq]; simp [h]

theorem square?_eq_some (f r : Int) (u : Nat) :
    Rules.square? f r = some u ↔
      0 ≤ f ∧ f < 8 ∧ 0 ≤ r ∧ r < 8 ∧ u < 64 ∧ Geometry.fileI u = f ∧ Geometry.rankI u = r := by
  unfold Rules.square? Geometry.fileI Geometry.rankI
  split
  · rename_i h
    simp only [Option.some.injEq]
    omega
  · rename_i h
    simp only [reduceCtorEq, false_iff]
    omega

/-! ### the squares strictly between two squares -/

/-- `Rules.between a t` lists exactly the members of `Geometry.strictlyBetween a t`. -/
theorem mem_between (a t u : Nat) (ha : a < 64) (ht : t < 64) :
    u ∈ Rules.between a t ↔ (Geometry.strictlyBetween a t).getLsbD u = true := by
  rw [AttacksProofs.mem_strictlyBetween a t u ha ht]
  have hn : max (Rules.file t - Rules.file a).natAbs (Rules.rank t - Rules.rank a).natAbs
      = max (Geometry.fileDist a t) (Geometry.rankDist a t) := by
    simp only [Rules.file, Rules.rank, Geometry.fileDist, Geometry.rankDist, Geometry.fileI, Geometry.rankI]
    omega
  unfold Rules.between
  by_cases hal : Rules.aligned a t = true
  · rw [if_pos hal]
    have hal' := hal
    rw [aligned_eq, Bool.and_eq_true, decide_eq_true_eq] at hal'
    simp only [List.mem_filterMap, List.mem_range, square?_eq_some, hn]
    constructor
    · rintro ⟨k, hk, _, _, _, _, hu, hf, hr⟩
      refine ⟨hal'.2, hu, k + 1, by omega, by omega, ?_, ?_⟩
      · rw [hf, file_eq, file_eq, sgn_eq, Int.mul_comm]
      · rw [hr, rank_eq, rank_eq, sgn_eq, Int.mul_comm]
    · rintro ⟨_, hu, k, hk0, hkn, hf, hr⟩
      have hk : k - 1 + 1 = k := by omega
      refine ⟨k - 1, by omega, ?_⟩
      rw [hk]
      have hf' : Geometry.fileI u =
          Rules.file a + Rules.sgn (Rules.file t - Rules.file a) * ((k : Nat) : Int) := by
        rw [hf, file_eq, file_eq, sgn_eq, Int.mul_comm]
      have hr' : Geometry.rankI u =
          Rules.rank a + Rules.sgn (Rules.rank t - Rules.rank a) * ((k : Nat) : Int) := by
        rw [hr, rank_eq, rank_eq, sgn_eq, Int.mul_comm]
      refine ⟨?_, ?_, ?_, ?_, hu, hf', hr'⟩
      · rw [← hf']; unfold Geometry.fileI; omega
      · rw [← hf']; unfold Geometry.fileI; omega
      · rw [← hr']; unfold Geometry.rankI; omega
      · rw [← hr']; unfold Geometry.rankI; omega
  · rw [if_neg hal]
    simp only [List.not_mem_nil, false_iff]
    rintro ⟨hg, _, k, hk0, hkn, _, _⟩
    rw [aligned_eq, Bool.and_eq_true, decide_eq_true_eq] at hal
    have : a = t := by
      by_cases e : a = t
      · exact e
      · exact absurd ⟨e, hg⟩ hal
    subst this
    simp only [Geometry.fileDist, Geometry.rankDist] at hkn
    omega

theorem between_lt (a t u : Nat) (ha : a < 64) (ht : t < 64) (h : u ∈ Rules.between a t) : u < 64 := by
  rw [mem_between a t u ha ht] at h
  exact BitVec.lt_of_getLsbD h

/-! ### occupancy views of a position -/

/-- `EmptyIs p o`: the vacant squares of `p` are exactly the squares outside the occupancy `o`. -/
def EmptyIs (p : Pos) (o : BB) : Prop := ∀ u, u < 64 → (p.empty u = true ↔ o.getLsbD u = false)

theorem emptyIs_abs (b : Board) : EmptyIs (abs b) b.occ := fun u _ => abs_empty_iff' b u

theorem EmptyIs.of_not {p : Pos} {o : BB} (h : ∀ u, u < 64 → (p.empty u = true ↔ ¬ o.getLsbD u = true)) :
    EmptyIs p o := fun u hu => by rw [h u hu]; simp

/-- a bitboard intersection is empty iff no member of the one is a member of the other. -/
theorem and_eq_zero_iff (x o : BB) : x &&& o = 0 ↔ ∀ u, x.getLsbD u = true → o.getLsbD u = false := by
  constructor
  · intro h u hx
    have := congrArg (fun y => y.getLsbD u) h
    simpa [hx] using this
  · intro h
    apply BitVec.eq_of_getLsbD_eq
    intro i hi
    rw [BitVec.getLsbD_and]
    cases hx : x.getLsbD i
    · simp
    · simp [h i hx]

/-- **line of sight, arbitrary occupancy** (membership form, the shape of `C12.rookMoves_iff`). -/
theorem clearBetween_iff_forall {p : Pos} {o : BB} (hp : EmptyIs p o) (a t : Nat) (ha : a < 64) (ht : t < 64) :
    Rules.clearBetween p a t = true ↔
      ∀ u, (Geometry.strictlyBetween a t).getLsbD u = true → o.getLsbD u = false := by
  unfold Rules.clearBetween
  rw [List.all_eq_true]
  constructor
  · intro h u hu
    have hu64 : u < 64 := BitVec.lt_of_getLsbD hu
    exact (hp u hu64).1 (h u ((mem_between a t u ha ht).2 hu))
  · intro h u hu
    have hu' := (mem_between a t u ha ht).1 hu
    exact (hp u (BitVec.lt_of_getLsbD hu')).2 (h u hu')

/-- **line of sight, arbitrary occupancy** (bitboard form). -/
theorem clearBetween_iff {p : Pos} {o : BB} (hp : EmptyIs p o) (a t : Nat) (ha : a < 64) (ht : t < 64) :
    Rules.clearBetween p a t = true ↔ Geometry.strictlyBetween a t &&& o = 0 := by
  rw [clearBetween_iff_forall hp a t ha ht, and_eq_zero_iff]

/-- line of sight on the board itself. -/
theorem clearBetween_abs (b : Board) (a t : Nat) (ha : a < 64) (ht : t < 64) :
    Rules.clearBetween (abs b) a t = true ↔ Geometry.strictlyBetween a t &&& b.occ = 0 :=
  clearBetween_iff (emptyIs_abs b) a t ha ht

/-- `(between a t).all p.empty` as it appears in the double-push rule. -/
theorem between_all_empty_iff {p : Pos} {o : BB} (hp : EmptyIs p o) (a t : Nat) (ha : a < 64) (ht : t < 64) :
    (Rules.between a t).all p.empty = true ↔
      ∀ u, (Geometry.strictlyBetween a t).getLsbD u = true → o.getLsbD u = false :=
  clearBetween_iff_forall hp a t ha ht

/-- line of sight only depends on the vacancy of the squares in between. -/
theorem clearBetween_congr {p q : Pos} (a t : Nat)
    (h : ∀ u, u ∈ Rules.between a t → p.empty u = q.empty u) :
    Rules.clearBetween p a t = Rules.clearBetween q a t := by
  unfold Rules.clearBetween
  rw [Bool.eq_iff_iff, List.all_eq_true, List.all_eq_true]
  constructor <;> intro hh u hu
  · rw [← h u hu]; exact hh u hu
  · rw [h u hu]; exact hh u hu

/-! ### symmetry of the in-between set -/

theorem geom_sgn_cases (x : Int) : Geometry.sgn x = -1 ∨ Geometry.sgn x = 0 ∨ Geometry.sgn x = 1 := by
  unfold Geometry.sgn; split
  · exact Or.inl rfl
  · split
    · exact Or.inr (Or.inr rfl)
    · exact Or.inr (Or.inl rfl)

section
open ChessVerif.Geometry ChessVerif.AttacksProofs

theorem strictlyBetween_sub (a t u : Nat) (ha : a < 64) (ht : t < 64)
    (h : (strictlyBetween a t).getLsbD u = true) : (strictlyBetween t a).getLsbD u = true := by
  rw [mem_strictlyBetween a t u ha ht] at h
  rw [mem_strictlyBetween t a u ht ha]
  obtain ⟨hal, hu, k, hk0, hkn, hf, hr⟩ := h
  have hal2 : Geometry.aligned t a = true := by
    simp only [Geometry.aligned, fileDist, rankDist, Bool.or_eq_true, beq_iff_eq] at *; omega
  have hn : max (fileDist t a) (rankDist t a) = max (fileDist a t) (rankDist a t) := by
    simp only [fileDist, rankDist]; omega
  rw [hn]
  simp only [Geometry.aligned, Bool.or_eq_true, beq_iff_eq] at hal
  refine ⟨hal2, hu, max (fileDist a t) (rankDist a t) - k, by omega, by omega, ?_, ?_⟩
  · have h1 := mul_dir k (Geometry.sgn (fileI t - fileI a)) (geom_sgn_cases _)
    have h2 := mul_dir (max (fileDist a t) (rankDist a t) - k) (Geometry.sgn (fileI a - fileI t)) (geom_sgn_cases _)
    generalize ((k : Nat) : Int) * Geometry.sgn (fileI t - fileI a) = K1 at *
    generalize ((max (fileDist a t) (rankDist a t) - k : Nat) : Int) * Geometry.sgn (fileI a - fileI t) = K2 at *
    clear hr hal2 hn
    simp only [Geometry.sgn, fileDist, rankDist] at *
    omega
  · have h1 := mul_dir k (Geometry.sgn (rankI t - rankI a)) (geom_sgn_cases _)
    have h2 := mul_dir (max (fileDist a t) (rankDist a t) - k) (Geometry.sgn (rankI a - rankI t)) (geom_sgn_cases _)
    generalize ((k : Nat) : Int) * Geometry.sgn (rankI t - rankI a) = K1 at *
    generalize ((max (fileDist a t) (rankDist a t) - k : Nat) : Int) * Geometry.sgn (rankI a - rankI t) = K2 at *
    clear hf hal2 hn
    simp only [Geometry.sgn, fileDist, rankDist] at *
    omega

end

/-- the in-between set does not depend on the order of the end squares. -/
theorem strictlyBetween_comm (a t : Nat) (ha : a < 64) (ht : t < 64) :
    Geometry.strictlyBetween a t = Geometry.strictlyBetween t a := by
  apply BitVec.eq_of_getLsbD_eq
  intro u _
  rw [Bool.eq_iff_iff]
  exact ⟨strictlyBetween_sub a t u ha ht, strictlyBetween_sub t a u ht ha⟩

end ChessVerif.Bridge
