/-
  C05 — bit-level vocabulary: every bit trick of `IsPseudoLegal` and of the nine generator routines
  is given its set meaning once (membership of a square, in coordinates), so that the rest of the
  C05 proof is propositional reasoning plus `omega`.
-/
import ChessVerif.Model.MoveGen

namespace ChessVerif.PL
open ChessVerif

/-! ### single-bit tests -/

theorem and_bit_eq_zero (x : BB) (t : Nat) (ht : t < 64) : (x &&& bit t = 0) ↔ x.getLsbD t = false := by
  constructor
  · intro h
    have := congrArg (fun y => y.getLsbD t) h
    simpa [bit_getLsbD t t ht] using this
  · intro h
    apply BitVec.eq_of_getLsbD_eq
    intro i hi
    simp only [BitVec.getLsbD_and, bit_getLsbD t i ht]
    by_cases e : t = i
    · subst e; simp [h]
    · simp [e]

/-- Go `x & (1<<t) != 0`. -/
theorem and_bit_bne (x : BB) (t : Nat) (ht : t < 64) : (x &&& bit t != 0) = x.getLsbD t := by
  cases h : x.getLsbD t
  · simp [(and_bit_eq_zero x t ht).2 h]
  · have : ¬ (x &&& bit t = 0) := fun e => by simp [(and_bit_eq_zero x t ht).1 e] at h
    simpa using this

/-- Go `x & (1<<t) == 0`. -/
theorem and_bit_beq (x : BB) (t : Nat) (ht : t < 64) : (x &&& bit t == 0) = !x.getLsbD t := by
  have := and_bit_bne x t ht
  cases h : x.getLsbD t <;> simp_all [bne]

theorem bit_and_bne (x : BB) (t : Nat) (ht : t < 64) : (bit t &&& x != 0) = x.getLsbD t := by
  rw [BitVec.and_comm]; exact and_bit_bne x t ht

theorem bit_and_beq (x : BB) (t : Nat) (ht : t < 64) : (bit t &&& x == 0) = !x.getLsbD t := by
  rw [BitVec.and_comm]; exact and_bit_beq x t ht

/-- a bitboard is zero iff it has no member. -/
theorem eq_zero_iff (x : BB) : x = 0 ↔ ∀ i, i < 64 → x.getLsbD i = false := by
  constructor
  · intro h i _; simp [h]
  · intro h; apply BitVec.eq_of_getLsbD_eq; intro i hi; simp [h i hi]

theorem bits_bit : ∀ k : Fin 64, bits (bit k.val) = [k.val] := by decide

theorem lowestSet_bit (k : Nat) (hk : k < 64) : lowestSet (bit k) = k := by
  simp [lowestSet, bits_bit ⟨k, hk⟩]

/-! ### move words -/

theorem src_mk (f t p : Nat) (ht : t < 64) (hf : f < 64) : Move.src (Move.mk f t p) = f := by
  unfold Move.src Move.mk; omega
theorem dst_mk (f t p : Nat) (ht : t < 64) : Move.dst (Move.mk f t p) = t := by
  unfold Move.dst Move.mk; omega
theorem promo_mk (f t p : Nat) (ht : t < 64) (hf : f < 64) (hp : p < 8) : Move.promo (Move.mk f t p) = p := by
  unfold Move.promo Move.mk; omega
theorem mk_lt (f t p : Nat) (ht : t < 64) (hf : f < 64) (hp : p < 8) : Move.mk f t p < 32768 := by
  show (f * 64 + t + p * 4096 : Nat) < 32768; omega
theorem mk_parts (m : Nat) (hm : m < 32768) : Move.mk (Move.src m) (Move.dst m) (Move.promo m) = m := by
  show ((m / 64) % 64 * 64 + m % 64 + (m / 4096) % 8 * 4096 : Nat) = m; omega
theorem src_lt (m : Nat) : Move.src m < 64 := by unfold Move.src; omega
theorem dst_lt (m : Nat) : Move.dst m < 64 := by unfold Move.dst; omega
theorem promo_lt (m : Nat) : Move.promo m < 8 := by unfold Move.promo; omega

/-- a generated word `mk f t p` satisfies `C` on its fields iff … (the shape of every routine lemma). -/
theorem mk_iff (C : Nat → Nat → Nat → Prop) (m : Nat) :
    (∃ f t p, f < 64 ∧ t < 64 ∧ p < 8 ∧ Move.mk f t p = m ∧ C f t p) ↔
      m < 32768 ∧ C (Move.src m) (Move.dst m) (Move.promo m) := by
  constructor
  · rintro ⟨f, t, p, hf, ht, hp, rfl, hC⟩
    rw [src_mk f t p ht hf, dst_mk f t p ht, promo_mk f t p ht hf hp]
    exact ⟨mk_lt f t p ht hf hp, hC⟩
  · rintro ⟨hm, hC⟩
    exact ⟨_, _, _, src_lt m, dst_lt m, promo_lt m, mk_parts m hm, hC⟩

/-! ### files and ranks -/

theorem aFile_eq : Attacks.aFileBB = AFile := by decide
theorem hFile_eq : Attacks.hFileBB = HFile := by decide

theorem aFile_get (k : Nat) (hk : k < 64) : AFile.getLsbD k = decide (k % 8 = 0) := by
  have : ∀ k : Fin 64, AFile.getLsbD k = decide (k.val % 8 = 0) := by decide
  exact this ⟨k, hk⟩
theorem hFile_get (k : Nat) (hk : k < 64) : HFile.getLsbD k = decide (k % 8 = 7) := by
  have : ∀ k : Fin 64, HFile.getLsbD k = decide (k.val % 8 = 7) := by decide
  exact this ⟨k, hk⟩

theorem bit_notA (f i : Nat) (hf : f < 64) :
    (bit f &&& ~~~AFile).getLsbD i = (decide (f = i) && decide (f % 8 ≠ 0)) := by
  simp only [BitVec.getLsbD_and, BitVec.getLsbD_not, bit_getLsbD f _ hf]
  by_cases h : f = i
  · subst h; simp only [aFile_get f hf]; simp [hf]
  · simp [h]
theorem bit_notH (f i : Nat) (hf : f < 64) :
    (bit f &&& ~~~HFile).getLsbD i = (decide (f = i) && decide (f % 8 ≠ 7)) := by
  simp only [BitVec.getLsbD_and, BitVec.getLsbD_not, bit_getLsbD f _ hf]
  by_cases h : f = i
  · subst h; simp only [hFile_get f hf]; simp [hf]
  · simp [h]

/-- rank of a square counted from the colour's own back rank (`Rank.FromPerspectiveOf`). -/
def relRank (c : Color) (s : Nat) : Nat :=
  match c with
  | .white => s / 8
  | .black => 7 - s / 8

theorem rankBB_get (r s : Nat) (hr : r < 8) (hs : s < 64) : (rankBB r).getLsbD s = decide (s / 8 = r) := by
  have : ∀ r : Fin 8, ∀ s : Fin 64, (rankBB r.val).getLsbD s.val = decide (s.val / 8 = r.val) := by decide
  exact this ⟨r, hr⟩ ⟨s, hs⟩

theorem relRankBB_get (c : Color) (r s : Nat) (hr : r < 8) (hs : s < 64) :
    (Board.relRankBB c r).getLsbD s = decide (relRank c s = r) := by
  cases c
  · simp only [Board.relRankBB, relRank]; exact rankBB_get r s hr hs
  · simp only [Board.relRankBB, relRank]
    rw [rankBB_get (7 - r) s (by omega) hs]
    have : (s / 8 = 7 - r) ↔ (7 - s / 8 = r) := by omega
    exact decide_eq_decide.2 this

/-! ### the generator's push filters -/

/-- the square `k` steps of 8 ahead of `f` (for the colour) is `t`. -/
def ahead (c : Color) (f k t : Nat) : Prop :=
  match c with
  | .white => t = f + k
  | .black => t + k = f

instance (c : Color) (f k t : Nat) : Decidable (ahead c f k t) := by
  unfold ahead; cases c <;> infer_instance

theorem sh4_0 : (0 <<< 4 : Nat) = 0 := rfl
theorem sh4_1 : (1 <<< 4 : Nat) = 16 := rfl

/-- `occ1 := (occ >> 8) << (stm << 4)`: pawn on `s` is blocked one step ahead.  (For Black the
    formula loses the squares of rank 2 — the 7th rank from Black's side — which is why
    `promoPushMoves` or-s the second shift direction in.) -/
theorem occ1_get (c : Color) (x : BB) (s : Nat) (hs : s < 64) (hlast : relRank c s < 6) :
    ((x >>> 8) <<< (c.toNat * 16)).getLsbD s = true ↔ ∃ t, ahead c s 8 t ∧ x.getLsbD t = true := by
  cases c
  · simp only [Color.toNat, ahead, BitVec.getLsbD_shiftLeft, BitVec.getLsbD_ushiftRight]
    constructor
    · intro h; refine ⟨s + 8, rfl, ?_⟩; simpa [hs, Nat.add_comm] using h
    · rintro ⟨t, rfl, h⟩; simpa [hs, Nat.add_comm] using h
  · simp only [Color.toNat, ahead, relRank, BitVec.getLsbD_shiftLeft, BitVec.getLsbD_ushiftRight] at *
    have h16 : ¬ s < 16 → 8 + (s - 1 * 16) = s - 8 := by omega
    constructor
    · intro h
      simp only [Bool.and_eq_true, decide_eq_true_eq, Bool.not_eq_true', decide_eq_false_iff_not] at h
      obtain ⟨⟨_, h1⟩, h2⟩ := h
      refine ⟨s - 8, by omega, ?_⟩
      rw [← h16 h1]; exact h2
    · rintro ⟨t, ht, h⟩
      have e : t = s - 8 := by omega
      subst e
      have : ¬ s < 1 * 16 := by omega
      simp only [Bool.and_eq_true, decide_eq_true_eq, Bool.not_eq_true', decide_eq_false_iff_not]
      refine ⟨⟨hs, this⟩, ?_⟩
      rw [h16 (by omega)]; exact h

/-- `occ1` of `promoPushMoves` (both shift directions or-ed): same meaning, valid on the 7th rank too. -/
theorem occ1p_get (c : Color) (x : BB) (s : Nat) (hs : s < 64) (hlast : relRank c s ≠ 7) :
    (((x >>> 8) <<< (c.toNat * 16)) ||| ((x <<< 8) >>> (c.flip.toNat * 16))).getLsbD s = true ↔
      ∃ t, ahead c s 8 t ∧ x.getLsbD t = true := by
  cases c
  · simp only [Color.toNat, Color.flip, ahead, relRank, BitVec.getLsbD_or, BitVec.getLsbD_shiftLeft,
      BitVec.getLsbD_ushiftRight] at *
    have e1 : 1 * 16 + s - 8 = s + 8 := by omega
    have e2 : 8 + (s - 0 * 16) = s + 8 := by omega
    simp only [e1, e2, Bool.or_eq_true, Bool.and_eq_true, decide_eq_true_eq, Bool.not_eq_true',
      decide_eq_false_iff_not]
    constructor
    · rintro (h | h)
      · exact ⟨s + 8, rfl, h.2⟩
      · exact ⟨s + 8, rfl, h.2⟩
    · rintro ⟨t, rfl, h⟩
      exact Or.inl ⟨⟨hs, by omega⟩, h⟩
  · simp only [Color.toNat, Color.flip, ahead, relRank, BitVec.getLsbD_or, BitVec.getLsbD_shiftLeft,
      BitVec.getLsbD_ushiftRight] at *
    have e2 : 0 * 16 + s - 8 = s - 8 := by omega
    simp only [e2, Bool.or_eq_true, Bool.and_eq_true, decide_eq_true_eq, Bool.not_eq_true',
      decide_eq_false_iff_not]
    constructor
    · rintro (h | h)
      · have e1 : 8 + (s - 1 * 16) = s - 8 := by omega
        rw [e1] at h
        exact ⟨s - 8, by omega, h.2⟩
      · exact ⟨s - 8, by omega, h.2⟩
    · rintro ⟨t, ht, h⟩
      have e : t = s - 8 := by omega
      subst e
      exact Or.inr ⟨⟨by omega, by omega⟩, h⟩

/-- `occ2 := (occ >> 16) << (stm << 5)`: blocked two steps ahead (used on the 2nd rank only). -/
theorem occ2_get (c : Color) (x : BB) (s : Nat) (hs : s < 64) (h2 : relRank c s = 1) :
    ((x >>> 16) <<< (c.toNat * 32)).getLsbD s = true ↔ ∃ t, ahead c s 16 t ∧ x.getLsbD t = true := by
  cases c
  · simp only [Color.toNat, ahead, BitVec.getLsbD_shiftLeft, BitVec.getLsbD_ushiftRight]
    constructor
    · intro h; refine ⟨s + 16, rfl, ?_⟩; simpa [hs, Nat.add_comm] using h
    · rintro ⟨t, rfl, h⟩; simpa [hs, Nat.add_comm] using h
  · simp only [Color.toNat, ahead, relRank, BitVec.getLsbD_shiftLeft, BitVec.getLsbD_ushiftRight] at *
    have e1 : 16 + (s - 1 * 32) = s - 16 := by omega
    simp only [e1, Bool.and_eq_true, decide_eq_true_eq, Bool.not_eq_true', decide_eq_false_iff_not]
    constructor
    · intro h; exact ⟨s - 16, by omega, h.2⟩
    · rintro ⟨t, ht, h⟩
      have e : t = s - 16 := by omega
      subst e
      exact ⟨⟨hs, by omega⟩, h⟩

/-! ### pawn captures -/

/-- `t` is one step diagonally ahead of `f` (on the board). -/
def capGeom (c : Color) (f t : Nat) : Prop :=
  match c with
  | .white => (t = f + 7 ∧ f % 8 ≠ 0) ∨ (t = f + 9 ∧ f % 8 ≠ 7)
  | .black => (t + 7 = f ∧ f % 8 ≠ 7) ∨ (t + 9 = f ∧ f % 8 ≠ 0)

instance (c : Color) (f t : Nat) : Decidable (capGeom c f t) := by
  unfold capGeom; cases c <;> infer_instance

theorem pawnCap_get (c : Color) (f t : Nat) (hf : f < 64) :
    (Attacks.pawnCaptureMoves (bit f) c).getLsbD t = true ↔ t < 64 ∧ capGeom c f t := by
  unfold Attacks.pawnCaptureMoves capGeom
  cases c <;>
  · simp only [aFile_eq, hFile_eq, Color.toNat, Color.flip, BitVec.getLsbD_or, bit_notA _ _ hf, bit_notH _ _ hf,
      BitVec.getLsbD_shiftLeft, BitVec.getLsbD_ushiftRight, sh4_0, sh4_1,
      Bool.and_eq_true, Bool.or_eq_true, decide_eq_true_eq, Bool.not_eq_true', decide_eq_false_iff_not]
    omega

/-- the capture relation read backwards is the opposite colour's capture relation. -/
theorem capGeom_flip (c : Color) (f t : Nat) :
    capGeom c.flip t f ↔ capGeom c f t := by
  cases c <;> simp only [capGeom, Color.flip] <;> omega

/-- the pre-filter `occ1l | occ1r` of the capture routines: some enemy stands diagonally ahead. -/
theorem captureFilter_get (g : MoveGen.G) (b : Board) (f : Nat) (hf : f < 64) :
    (MoveGen.captureFilter g b).getLsbD f = true ↔
      ∃ t, t < 64 ∧ capGeom b.stm f t ∧ g.them.getLsbD t = true := by
  unfold MoveGen.captureFilter capGeom
  cases b.stm
  · simp only [BitVec.getLsbD_or, BitVec.getLsbD_ushiftRight, BitVec.getLsbD_and, BitVec.getLsbD_not,
      Bool.and_eq_true, Bool.or_eq_true, decide_eq_true_eq, Bool.not_eq_true']
    constructor
    · rintro (⟨h1, h2, h3⟩ | ⟨h1, h2, h3⟩)
      · rw [hFile_get _ h2] at h3
        exact ⟨7 + f, h2, Or.inl ⟨by omega, by simp at h3; omega⟩, h1⟩
      · rw [aFile_get _ h2] at h3
        exact ⟨9 + f, h2, Or.inr ⟨by omega, by simp at h3; omega⟩, h1⟩
    · rintro ⟨t, ht, (⟨rfl, h⟩ | ⟨rfl, h⟩), hT⟩
      · left
        rw [Nat.add_comm 7 f, hFile_get _ ht]
        exact ⟨hT, ht, by simp; omega⟩
      · right
        rw [Nat.add_comm 9 f, aFile_get _ ht]
        exact ⟨hT, ht, by simp; omega⟩
  · simp only [BitVec.getLsbD_or, BitVec.getLsbD_shiftLeft, BitVec.getLsbD_and, BitVec.getLsbD_not,
      Bool.and_eq_true, Bool.or_eq_true, decide_eq_true_eq, Bool.not_eq_true', decide_eq_false_iff_not]
    constructor
    · rintro (⟨⟨_, h0⟩, h1, h2, h3⟩ | ⟨⟨_, h0⟩, h1, h2, h3⟩)
      · rw [aFile_get _ h2] at h3
        exact ⟨f - 7, h2, Or.inl ⟨by omega, by simp at h3; omega⟩, h1⟩
      · rw [hFile_get _ h2] at h3
        exact ⟨f - 9, h2, Or.inr ⟨by omega, by simp at h3; omega⟩, h1⟩
    · rintro ⟨t, ht, (⟨e, h⟩ | ⟨e, h⟩), hT⟩
      · left
        have e' : t = f - 7 := by omega
        subst e'
        rw [aFile_get _ ht]
        exact ⟨⟨hf, by omega⟩, hT, ht, by simp; omega⟩
      · right
        have e' : t = f - 9 := by omega
        subst e'
        rw [hFile_get _ ht]
        exact ⟨⟨hf, by omega⟩, hT, ht, by simp; omega⟩

end ChessVerif.PL
