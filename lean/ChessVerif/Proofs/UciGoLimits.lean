/-
  From what `handleGo` hands to `search.Go` to the `Search.Limits` of the search skeleton.

      func (s *Search) Go(b *board.Board, opts ...Option) … {
          options := Options{Depth: MaxPlies, Nodes: -1, SoftNodes: -1, Output: os.Stdout}
          for _, opt := range opts { opt(&options) }

  The UCI layer never sets `SoftNodes`; it always passes a stop channel and an output.  When the stop
  signal and the ponder-hit message become visible to the search is up to the environment (`stopAt`,
  `ponderAt`: arrival indices in the sense of `Search.Limits`).  Core Lean only.
-/
import ChessVerif.Model.UciGo
import ChessVerif.Model.Search

namespace ChessVerif
namespace UciGo

/-- `search.Options` after the functional options of a UCI `go` were applied to the defaults. -/
def limitsOf (c : GoCall) (stopAt ponderAt : Nat) : Search.Limits where
  depth := c.depth.getD Gen.Funcs.MaxPlies
  nodes := c.nodes.getD (-1)
  softNodes := -1
  softTime := c.softTime.getD 0
  stop := if c.stop then some stopAt else none
  ponder := if c.ponder then some ponderAt else none
  output := c.output

end UciGo
end ChessVerif
