/-
  The null-move clause and the table invariant WITHOUT `GoSane` (Proofs/SearchScoreFree.lean) guarded by
  the ghost flag `St.ttOut` instead of `St.nmpOut`: as long as no out-of-band value is handed to a
  table store, the table predicate is an invariant of engine states and the null move is returned only
  on a final root.  `AspLaws`, `AspInv` and the window arithmetic are those of SearchScoreFree.lean.
-/
import ChessVerif.Proofs.SearchScoreGo2
import ChessVerif.Proofs.SearchScoreFree

namespace ChessVerif
namespace Search

variable {σ π : Type} [PsInv σ]

/-- what one iteration's aspiration loop establishes, from a reachable window (guarded by `ttOut`). -/
theorem aspiration_free2 (c : Comp σ π) (L : Limits) {Good : Board → Prop} {TTok : σ → Prop} {μ : Board → Nat}
    (hl : Laws c Good) (sl : ScoreLaws c Good TTok μ) (al : AspLaws c) (fuel : Nat) (idD : Int) :
    ∀ (n : Nat) (alpha beta factor : Score) (s : St σ), Good s.board → TTA2 TTok s →
      (s.ttOut = false → AspInv c.windowSize alpha beta factor) →
      TTA2 TTok (aspiration c L fuel idD n alpha beta factor s).st ∧
      (∀ al be sa s', aspiration c L fuel idD n alpha beta factor s = .ok al be sa s' → s'.ttOut = false →
        InR sa ∧ (idD = 1 → RootOut' c.keys s.board s')) := by
  intro n
  induction n with
  | zero =>
    intro alpha beta factor s _ htt _
    exact ⟨htt.congr rfl rfl, fun _ _ _ _ h => by simp [aspiration] at h⟩
  | succ n ih =>
    intro alpha beta factor s hg htt hinv
    have hab := alphaBeta_spec c L hl fuel alpha beta idD 0 .pv s hg htt.1 (Int.le_refl 0)
    have hrg := alphaBeta_range2 c L hl sl fuel alpha beta idD 0 .pv s hg (Int.le_refl 0) (by decide)
      (fun hA => (aspInv_win al.windowSafe (hinv hA)).1) htt
    have hroot := fun (hb32 : beta ≤ 32528) (h1 : idD = 1) => alphaBeta_root_gen2 c L hl sl fuel alpha beta idD (by omega)
      (fun se h => al.rfp_shallow idD se beta (by omega) (by omega) hb32 h) s (fun hA => (aspInv_win al.windowSafe (hinv hA)).1) hg htt
    simp only [aspiration]
    simp only at hroot
    generalize alphaBeta c L fuel alpha beta idD 0 .pv s = r at hab hrg hroot ⊢
    have haf := abort_frame L r.2
    have hap := (abort_pv L r.2).1
    have hps := abort_ps L r.2
    have han := abort_ttOut L r.2
    have hfa := @abort_false σ _ L r.2
    generalize abort L r.2 = as at haf hap hps han hfa ⊢
    have htt2 : TTA2 TTok as.2 := hrg.1.congr hps han
    have hback : as.2.ttOut = false → s.ttOut = false := fun h => hab.1.mono.t_back (by rw [← han]; exact h)
    split
    · exact ⟨htt2, fun _ _ _ _ h => by cases h⟩
    · next hna =>
      have hna' : as.1 = false := by simpa using hna
      have hrab : r.2.aborted = false := (hfa hna').2
      have hsr : as.2.ttOut = false → InR r.1 := fun hA =>
        hrg.2 hrab (by rw [← han]; exact hA)
      split
      · next hin =>
        refine ⟨htt2, fun al' be sa s' h hA => ?_⟩
        cases h
        simp only [Bool.and_eq_true, Bool.not_eq_true', decide_eq_false_iff_not] at hin
        have hgt : alpha < r.1 := Int.not_le.1 hin.1
        have hlt : r.1 < beta := Int.not_le.1 hin.2
        refine ⟨hsr hA, fun h1 => ?_⟩
        rcases hroot (aspInv_win al.windowSafe (hinv (hback hA))).2 h1 hrab (by rw [← han]; exact hA) hgt hlt with h | h
        · exact Or.inl (by rw [hap]; exact h)
        · exact Or.inr h
      · next hnin =>
        have hout : r.1 ≤ alpha ∨ beta ≤ r.1 := by
          by_cases h1 : r.1 ≤ alpha
          · exact Or.inl h1
          · by_cases h2 : beta ≤ r.1
            · exact Or.inr h2
            · exfalso; apply hnin; simp [h1, h2]
        have hstep := fun (hA : as.2.ttOut = false) => aspInv_step al.windowSafe (hinv (hback hA)) (hsr hA) hout
        have hb2 : as.2.board = s.board := by rw [haf.board, hab.1.board]
        have := ih _ _ _ as.2 (by rw [hb2]; exact hg) htt2 hstep
        rw [hb2] at this
        exact this

/-- `idLoop`: the table predicate is kept and the null move is returned only on a final root — as long
    as the flag `ttOut` stays down; no other hypothesis on the run. -/
theorem idLoop_free2 (c : Comp σ π) (L : Limits) (clock : Clock) {Good : Board → Prop} {TTok : σ → Prop} {μ : Board → Nat}
    (hl : Laws c Good) (sl : ScoreLaws c Good TTok μ) (al : AspLaws c) (fuel : Nat) (b : Board) (hg : Good b)
    (hd : 1 ≤ L.depth) :
    ∀ (n : Nat) (idD : Int) (v : IDVars) (s : St σ), s.board = b → 0 ≤ idD → (n : Int) + idD = 64 →
      TTA2 TTok s → (s.ttOut = false → AspInv c.windowSize v.alpha v.beta 1) →
      (s.ttOut = false → 2 ≤ idD → v.move ≠ 0 ∨ Final c.keys b) →
      TTA2 TTok (idLoop c L clock fuel n idD v s).st ∧
      ((idLoop c L clock fuel n idD v s).st.ttOut = false → (idLoop c L clock fuel n idD v s).move = 0 → Final c.keys b) := by
  intro n
  induction n with
  | zero =>
    intro idD v s _ _ hn htt _ hyp
    simp only [idLoop]
    refine ⟨htt, fun hA hmv => ?_⟩
    rcases hyp hA (by omega) with h | h
    · exact absurd hmv h
    · exact h
  | succ n ih =>
    intro idD v s hb h0 hn htt hw hyp
    simp only [idLoop]
    split
    · next hcond =>
      have h2 : 2 ≤ idD := by
        apply Classical.byContradiction
        intro hlt
        have e1 : decide (idD < maxPlies) = true := decide_eq_true (by unfold maxPlies; omega)
        have e2 : decide (idD ≤ L.depth) = true := decide_eq_true (by omega)
        simp [e1, e2] at hcond
      refine ⟨htt, fun hA hmv => ?_⟩
      rcases hyp hA h2 with h | h
      · exact absurd hmv h
      · exact h
    · next hcond =>
      have hlt64 : idD < 64 := by
        apply Classical.byContradiction
        intro hge
        apply hcond
        have e1 : decide (idD < maxPlies) = false := decide_eq_false (by unfold maxPlies; omega)
        simp [e1]
      have hasp := aspiration_spec c L hl fuel idD fuel v.alpha v.beta 1 s (by rw [hb]; exact hg) htt.1
      have hsc := aspiration_free2 c L hl sl al fuel idD fuel v.alpha v.beta 1 s (by rw [hb]; exact hg) htt hw
      generalize aspiration c L fuel idD fuel v.alpha v.beta 1 s = a at hasp hsc ⊢
      cases a with
      | aborted s' =>
        obtain ⟨hf, _⟩ := hasp
        simp only [Asp.st] at hf hsc
        have hb' : s'.board = b := hf.board.trans hb
        simp only
        split
        · refine ⟨hsc.1.congr rfl rfl, fun _ hmv => ?_⟩
          simp only at hmv
          have hfl := firstLegal_spec c hl s'.board (by rw [hb']; exact hg) (MoveGen.gen s'.board) (fun _ h => h)
          rcases hfl.2 with hp | ⟨_, hn'⟩
          · rw [hmv] at hp
            exact absurd rfl (hl.gen_ne_zero _ _ (by rw [hb']; exact hg) (mem_playable.1 hp).1)
          · left; rw [← hb']; exact playable_nil_of hn'
        · next hne => exact ⟨hsc.1, fun _ hmv => absurd hmv hne⟩
      | ok al' be sample s' =>
        obtain ⟨hf, hok⟩ := hasp
        simp only [Asp.st] at hf hsc
        obtain ⟨_, hline⟩ := hok al' be sample s' rfl
        rw [hb] at hline
        have hb' : s'.board = b := hf.board.trans hb
        obtain ⟨htt', hokc⟩ := hsc
        have hback : s'.ttOut = false → s.ttOut = false := fun h => hf.mono.t_back h
        have hokc' := fun hA => hokc al' be sample s' rfl hA
        rw [hb] at hokc'
        have hact : s'.pv.active = s'.pv.row 0 := rfl
        simp only [hact]
        split
        · next hsa' => exact ⟨htt'.congr rfl rfl, fun _ hmv => absurd hmv hsa'.1⟩
        · have hw' : wrapS8 (idD + 1) = idD + 1 := by unfold wrapS8; omega
          rw [hw']
          apply ih
          · exact hb'
          · omega
          · push_cast at hn ⊢; omega
          · exact htt'.congr rfl rfl
          · intro hA
            show AspInv c.windowSize (wrapS16 (sample - c.windowSize)) (wrapS16 (sample + c.windowSize)) 1
            exact aspInv_first al.windowSafe (hokc' hA).1
          · intro hA h2
            have hA' : s'.ttOut = false := hA
            show pickMove (s'.pv.row 0) v.move ≠ 0 ∨ Final c.keys b
            cases hrow : s'.pv.row 0 with
            | nil =>
              show v.move ≠ 0 ∨ Final c.keys b
              by_cases h1 : idD = 1
              · rcases (hokc' hA').2 h1 with h | h
                · exact absurd hrow h
                · exact Or.inr h
              · exact hyp (hback hA') (by omega)
            | cons m rest =>
              left
              rw [pickMove_cons]
              rw [hrow] at hline
              exact hl.gen_ne_zero _ _ hg (mem_playable.1 (legalLine_head hline)).1

/-- `go` without `GoSane`: as long as the flag `ttOut` stays down, the table predicate is an invariant of
    engine states and the null move is returned only if the root is final. -/
theorem go_free2 (c : Comp σ π) (L : Limits) (clock : Clock) {Good : Board → Prop} {TTok : σ → Prop} {μ : Board → Nat}
    (hl : Laws c Good) (sl : ScoreLaws c Good TTok μ) (al : AspLaws c) (fuel : Nat) (e : Engine σ) (b : Board)
    (hg : Good b) (nodes0 : Int) (hd : 1 ≤ L.depth) (htt : TTok e.ps)
    (hA : (go c L clock fuel e b nodes0).st.ttOut = false) :
    TTok (go c L clock fuel e b nodes0).st.ps ∧ ((go c L clock fuel e b nodes0).move = 0 → Final c.keys b) := by
  have h := idLoop_free2 c L clock hl sl al fuel b hg hd 64 0
    { alpha := -Inf - 1, beta := Inf + 1, score := 0, move := 0, ponder := 0, reads := 0, ppolls := 0, out := [] }
    (goInit L e b nodes0) rfl (Int.le_refl 0) (by decide) ⟨sl.tt_ok _ htt, fun _ => htt⟩ (fun _ => aspInv_init)
    (fun _ h => absurd h (by decide))
  have hA' : (idLoop c L clock fuel 64 0
    { alpha := -Inf - 1, beta := Inf + 1, score := 0, move := 0, ponder := 0, reads := 0, ppolls := 0, out := [] }
    (goInit L e b nodes0)).st.ttOut = false := hA
  exact ⟨sl.tt_nextGen _ (h.1.2 hA'), h.2 hA'⟩

end Search
end ChessVerif
