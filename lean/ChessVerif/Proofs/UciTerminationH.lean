/- C13 — liveness, part 1 (continued): every handler transition strictly decreases `mu`. -/
import ChessVerif.Proofs.UciTermination
namespace ChessVerif.Uci

variable {s s' : State}

theorem mu_hRecv (h : Inv s) (hf : fire .hRecv s = some s') : mu s' < mu s := by
  uci_mu h hf
  -- `go`: the new `sPh := ponder` against the old `sPh`, the new interrupt goroutine against none
  (repeat' split) <;> omega
theorem mu_hClosed (h : Inv s) (hf : fire .hClosed s = some s') : mu s' < mu s := by
  uci_mu h hf
theorem mu_hEmit (h : Inv s) (hf : fire .hEmit s = some s') : mu s' < mu s := by
  uci_mu h hf
theorem mu_hEmitDone (h : Inv s) (hf : fire .hEmitDone s = some s') : mu s' < mu s := by
  uci_mu h hf
theorem mu_hReady (h : Inv s) (hf : fire .hReady s = some s') : mu s' < mu s := by
  uci_mu h hf
theorem mu_hStop (h : Inv s) (hf : fire .hStop s = some s') : mu s' < mu s := by
  uci_mu h hf
theorem mu_hAbortInfo (h : Inv s) (hf : fire .hAbortInfo s = some s') : mu s' < mu s := by
  uci_mu h hf
theorem mu_hCloseFin (h : Inv s) (hf : fire .hCloseFin s = some s') : mu s' < mu s := by
  uci_mu h hf
theorem mu_hWait (h : Inv s) (hf : fire .hWait s = some s') : mu s' < mu s := by
  uci_mu h hf
theorem mu_hBest (h : Inv s) (hf : fire .hBest s = some s') : mu s' < mu s := by
  uci_mu h hf
theorem mu_hDefer (h : Inv s) (hf : fire .hDefer s = some s') : mu s' < mu s := by
  uci_mu h hf
theorem mu_hCloseOut (h : Inv s) (hf : fire .hCloseOut s = some s') : mu s' < mu s := by
  uci_mu h hf

end ChessVerif.Uci
