/-
  C02 core: the abstraction of the board after `makeMove` agrees with the rule book's successor
  `Rules.applyCore` on the placement, the side to move, the castling rights and both counters, for
  every generated move of a valid position and arbitrary Zobrist keys; the en-passant target is
  either absent or the one the rule book records (`abs_make_ep_easy`).
-/
import ChessVerif.Proofs.AbsMakeFacts

namespace ChessVerif.AbsMake
open ChessVerif Board Rules Bridge

/-! ### the placement -/

/-- the `men` field of `Rules.applyCore`, verbatim. -/
def coreMen (p : Pos) (mv : Mv) : Vector (Option Man) 64 :=
  let c := p.turn
  let men := p.men
  let men := if isEnPassant p mv then setMan men (8 * (mv.src / 8) + mv.dst % 8) none else men
  let men := setMan men mv.src none
  let placed : Option Man := placedOf p mv
  let men := setMan men mv.dst placed
  if isCastling p mv then
    let base := 8 * (mv.src / 8)
    if mv.dst % 8 == 6 then setMan (setMan men (base + 7) none) (base + 5) (some (c, .rook))
    else setMan (setMan men base none) (base + 3) (some (c, .rook))
  else men

theorem applyCore_men (p : Pos) (mv : Mv) : (applyCore p mv).men = coreMen p mv := rfl

theorem men_getD (b : Board) (s : Nat) : (abs b).men.getD s none = b.manAt s := abs_at' b s

/-- the placement before the rook's hop. -/
theorem men3_at {b : Board} {m : Move} (g : GenMove b m) (s : Nat) :
    (setMan (setMan (if isEnPassant (abs b) (decodeMove m) then
        setMan (abs b).men (8 * (Move.src m / 8) + Move.dst m % 8) none else (abs b).men) (Move.src m) none)
      (Move.dst m) (man b.stm (mvPut b m))).getD s none = cfg3 b.manAt b m s := by
  have hs := src_lt m
  have hd := dst_lt m
  rw [getD_setMan _ _ _ _ hd, getD_setMan _ _ _ _ hs, isEnPassant_eq g]
  unfold cfg3 cfg2 cfg1 upd
  by_cases e1 : s = Move.dst m
  · simp [e1]
  · by_cases e2 : s = Move.src m
    · simp [e2]
    · simp only [e1, e2, if_false]
      cases hep : b.isEnPassant m
      · rw [captureSq_eq_dst hep]; simp [e1, men_getD]
      · rw [captureSq_eq_ep hep]
        have : 8 * (Move.src m / 8) + Move.dst m % 8 < 64 := by omega
        simp only [if_true]
        rw [getD_setMan _ _ _ _ this, men_getD]

theorem coreMen_at {b : Board} {m : Move} (g : GenMove b m) (s : Nat) :
    (coreMen (abs b) (decodeMove m)).getD s none = cfg5 b.manAt b m s := by
  unfold coreMen
  simp only []
  rw [placed_eq g, isCastling_eq g]
  simp only [decodeMove_src, decodeMove_dst, abs_turn]
  unfold cfg5
  cases hh : hop (b.pieceAt (Move.src m)) m with
  | none =>
    simp only [Option.isSome_none, Bool.false_eq_true, if_false, hopCfg]
    exact men3_at g s
  | some v =>
    obtain ⟨rf, rt⟩ := v
    simp only [Option.isSome_some, if_true, hopCfg]
    obtain ⟨_, hc⟩ := hop_some hh
    have key : ∀ (rf' rt' : Nat), rf' = rf → rt' = rt → rf < 64 → rt < 64 →
        (setMan (setMan (setMan (setMan (if isEnPassant (abs b) (decodeMove m) then
          setMan (abs b).men (8 * (Move.src m / 8) + Move.dst m % 8) none else (abs b).men) (Move.src m) none)
          (Move.dst m) (man b.stm (mvPut b m))) rf' none) rt' (some (b.stm, Piece.rook))).getD s none =
        upd (upd (cfg3 b.manAt b m) rf none) rt (man b.stm Piece.rook) s := by
      rintro _ _ rfl rfl h1 h2
      rw [getD_setMan _ _ _ _ h2, getD_setMan _ _ _ _ h1, men3_at g s, man_of_ne (by decide)]
      rfl
    rcases hc with ⟨h1, h2, rfl, rfl⟩ | ⟨h1, h2, rfl, rfl⟩ | ⟨h1, h2, rfl, rfl⟩ | ⟨h1, h2, rfl, rfl⟩
    · have e : (Move.dst m % 8 == 6) = true := by rw [h2]; rfl
      simp only [e, if_true]
      exact key _ _ (by rw [h1]) (by rw [h1]) (by decide) (by decide)
    · have e : (Move.dst m % 8 == 6) = false := by rw [h2]; rfl
      simp only [e, Bool.false_eq_true, if_false]
      exact key _ _ (by rw [h1]) (by rw [h1]) (by decide) (by decide)
    · have e : (Move.dst m % 8 == 6) = true := by rw [h2]; rfl
      simp only [e, if_true]
      exact key _ _ (by rw [h1]) (by rw [h1]) (by decide) (by decide)
    · have e : (Move.dst m % 8 == 6) = false := by rw [h2]; rfl
      simp only [e, Bool.false_eq_true, if_false]
      exact key _ _ (by rw [h1]) (by rw [h1]) (by decide) (by decide)

/-- the board after the move represents the updated placement. -/
theorem make_manAt (K : Keys) {b : Board} {m : Move} (g : GenMove b m) (s : Nat) (hs : s < 64) :
    (b.makeMove K m).1.manAt s = cfg5 b.manAt b m s :=
  ((wf_make_rep K g.hw.rep g.ok).eq_manAt s hs).symm

/-- **placement**: the men after `makeMove` are the men of `Rules.applyCore`. -/
theorem abs_make_men (K : Keys) {b : Board} {m : Move} (g : GenMove b m) :
    (abs (b.makeMove K m).1).men = (applyCore (abs b) (decodeMove m)).men := by
  rw [applyCore_men]
  apply Board.vector_ext_getD none
  intro s hs
  rw [men_getD, make_manAt K g s hs, coreMen_at g s]

/-! ### side to move, counters -/

theorem abs_make_turn (K : Keys) (b : Board) (m : Move) :
    (abs (b.makeMove K m).1).turn = (applyCore (abs b) (decodeMove m)).turn := by
  rw [makeMove_eq]; rfl

theorem abs_make_fullmove (K : Keys) (b : Board) (m : Move) :
    (abs (b.makeMove K m).1).fullmove = (applyCore (abs b) (decodeMove m)).fullmove := by
  rw [makeMove_eq]
  show b.fullMoves + (b.stm.toNat : Int) = b.fullMoves + (if b.stm == Color.black then 1 else 0)
  cases b.stm <;> rfl

theorem make_fifty (K : Keys) (b : Board) (m : Move) :
    (makeW K b m).1.fifty =
      if b.pieceAt (Move.src m) = Piece.pawn ∨ b.pieceAt (b.captureSq m) ≠ Piece.none then 0
      else wrapS8 (b.fifty + 1) := rfl

theorem wrapS8_small (x : Int) (h0 : 0 ≤ x) (h1 : x ≤ 100) : wrapS8 (x + 1) = x + 1 := by
  unfold wrapS8; omega

theorem applyCore_halfmove (p : Pos) (mv : Mv) :
    (applyCore p mv).halfmove =
      if p.has mv.src p.turn Piece.pawn || (!(p.empty mv.dst) || isEnPassant p mv) then 0 else p.halfmove + 1 := rfl

theorem abs_make_halfmove (K : Keys) {b : Board} {m : Move} (g : GenMove b m) :
    (abs (b.makeMove K m).1).halfmove = (applyCore (abs b) (decodeMove m)).halfmove := by
  rw [makeMove_eq, applyCore_halfmove]
  have e : (abs (makeW K b m).1).halfmove = (makeW K b m).1.fifty := rfl
  rw [e, make_fifty, isEnPassant_eq g]
  simp only [decodeMove_src, decodeMove_dst, abs_turn]
  obtain ⟨_, _, _, _, _, f0, f100⟩ := valid_parts g.rv
  have hf : (abs b).halfmove = b.fifty := rfl
  rw [hf] at f0 f100 ⊢
  have hd := dst_lt m
  by_cases hp : b.pieceAt (Move.src m) = Piece.pawn
  · have := (g.has_src Piece.pawn).2 hp
    simp [hp, this]
  · have hnp : (abs b).has (Move.src m) b.stm Piece.pawn = false := by
      cases h : (abs b).has (Move.src m) b.stm Piece.pawn
      · rfl
      · exact absurd ((g.has_src Piece.pawn).1 h) hp
    have hep : b.isEnPassant m = false := by
      unfold Board.isEnPassant
      have : (b.pieceAt (Move.src m) == Piece.pawn) = false := by simpa using hp
      rw [this, Bool.and_false]
    rw [captureSq_eq_dst hep]
    simp only [hnp, hep, abs_empty_occ, Bool.false_or, Bool.or_false]
    by_cases ho : b.occ.getLsbD (Move.dst m) = true
    · have := (WFP.occ_iff g.hw _ hd).1 ho
      simp [hp, this, ho]
    · have hn : b.pieceAt (Move.dst m) = Piece.none :=
        Classical.byContradiction fun hne => ho ((WFP.occ_iff g.hw _ hd).2 hne)
      have ho' : b.occ.getLsbD (Move.dst m) = false := by simpa using ho
      simp [hp, hn, ho', wrapS8_small _ f0 f100]

/-! ### castling rights -/

/-- the set of rights `NewCastles` removes, from the six facts it reads. -/
def affected (kw kb t0 t7 t56 t63 : Bool) : Castles :=
  (if kw then 3#4 else 0) ||| (if kb then 12#4 else 0) ||| (if t0 then 2#4 else 0) |||
  (if t7 then 1#4 else 0) ||| (if t56 then 8#4 else 0) ||| (if t63 then 4#4 else 0)

theorem affected_bits : ∀ (n : Fin 16) (kw kb t0 t7 t56 t63 : Bool),
    let c : Castles := BitVec.ofFin n
    let r := c &&& ~~~ affected kw kb t0 t7 t56 t63
    r.getLsbD 0 = (c.getLsbD 0 && !kw && !t7) ∧ r.getLsbD 1 = (c.getLsbD 1 && !kw && !t0) ∧
    r.getLsbD 2 = (c.getLsbD 2 && !kb && !t63) ∧ r.getLsbD 3 = (c.getLsbD 3 && !kb && !t56) := by
  decide

theorem newCastles_eq (b : Board) (m : Move) :
    b.newCastles m = b.castles &&& ~~~ affected
      (decide (b.pieceAt (Move.src m) = Piece.king ∧ b.stm = Color.white))
      (decide (b.pieceAt (Move.src m) = Piece.king ∧ b.stm = Color.black))
      (decide (Move.src m = 0 ∨ Move.dst m = 0)) (decide (Move.src m = 7 ∨ Move.dst m = 7))
      (decide (Move.src m = 56 ∨ Move.dst m = 56)) (decide (Move.src m = 63 ∨ Move.dst m = 63)) := by
  unfold newCastles affected
  simp only []
  refine congrArg (fun x => b.castles &&& ~~~ x) ?_
  by_cases hk : b.pieceAt (Move.src m) = Piece.king <;> cases hstm : b.stm <;>
    by_cases h0 : (Move.src m = 0 ∨ Move.dst m = 0) <;> by_cases h7 : (Move.src m = 7 ∨ Move.dst m = 7) <;>
    by_cases h56 : (Move.src m = 56 ∨ Move.dst m = 56) <;> by_cases h63 : (Move.src m = 63 ∨ Move.dst m = 63) <;>
    simp only [hk, h0, h7, h56, h63, if_true, if_false, decide_true, decide_false, true_and, false_and,
      castleBit, Color.toNat, longWhite, shortWhite, longBlack, shortBlack, reduceCtorEq] <;> decide

theorem nat_beq_decide (a b : Nat) : (a == b) = decide (a = b) := by
  rw [Bool.eq_iff_iff]; simp

theorem abs_make_rights (K : Keys) {b : Board} {m : Move} (g : GenMove b m) :
    (abs (b.makeMove K m).1).rights = (applyCore (abs b) (decodeMove m)).rights := by
  rw [makeMove_eq]
  show Rights.mk _ _ _ _ = rightsAfter (abs b) (decodeMove m)
  rw [make_castles', newCastles_eq]
  obtain ⟨a0, a1, a2, a3⟩ := affected_bits b.castles.toFin
    (decide (b.pieceAt (Move.src m) = Piece.king ∧ b.stm = Color.white))
    (decide (b.pieceAt (Move.src m) = Piece.king ∧ b.stm = Color.black))
    (decide (Move.src m = 0 ∨ Move.dst m = 0)) (decide (Move.src m = 7 ∨ Move.dst m = 7))
    (decide (Move.src m = 56 ∨ Move.dst m = 56)) (decide (Move.src m = 63 ∨ Move.dst m = 63))
  have hc : (BitVec.ofFin b.castles.toFin : Castles) = b.castles := rfl
  rw [hc] at a0 a1 a2 a3
  rw [a0, a1, a2, a3]
  unfold rightsAfter
  simp only [decodeMove_src, decodeMove_dst]
  have kw : (abs b).has (Move.src m) Color.white Piece.king =
      decide (b.pieceAt (Move.src m) = Piece.king ∧ b.stm = Color.white) := by
    rw [Bool.eq_iff_iff, g.has_src_color, decide_eq_true_eq]
    exact ⟨fun h => ⟨h.2, h.1.symm⟩, fun h => ⟨h.2.symm, h.1⟩⟩
  have kb : (abs b).has (Move.src m) Color.black Piece.king =
      decide (b.pieceAt (Move.src m) = Piece.king ∧ b.stm = Color.black) := by
    rw [Bool.eq_iff_iff, g.has_src_color, decide_eq_true_eq]
    exact ⟨fun h => ⟨h.2, h.1.symm⟩, fun h => ⟨h.2.symm, h.1⟩⟩
  rw [kw, kb]
  simp only [abs_rights_wk, abs_rights_wq, abs_rights_bk, abs_rights_bq, Bool.decide_or, nat_beq_decide]

/-! ### the en-passant target, easy half -/

theorem applyCore_ep (p : Pos) (mv : Mv) :
    (applyCore p mv).ep = if isDoublePush p mv then some ((mv.src + mv.dst) / 2) else none := rfl

/-- a target is only ever recorded after a double pawn advance, on the passed square. -/
theorem abs_make_ep_easy (K : Keys) {b : Board} {m : Move} (g : GenMove b m) :
    (abs (b.makeMove K m).1).ep = none ∨
      (abs (b.makeMove K m).1).ep = (applyCore (abs b) (decodeMove m)).ep := by
  rw [makeMove_eq]
  rw [abs_ep, make_ep]
  by_cases h0 : mvNewEP b m = 0
  · left; rw [if_pos h0]
  · right
    rw [if_neg h0]
    unfold mvNewEP at h0 ⊢
    cases hc : mvCanEP b m
    · rw [hc] at h0; simp at h0
    · simp only [if_true]
      unfold mvCanEP at hc
      simp only [Bool.and_eq_true, decide_eq_true_eq, beq_iff_eq] at hc
      obtain ⟨⟨hp, hdiff⟩, _⟩ := hc
      rw [applyCore_ep]
      have : isDoublePush (abs b) (decodeMove m) = true := by
        unfold isDoublePush
        simp only [decodeMove_src, decodeMove_dst, abs_turn, Bool.and_eq_true, beq_iff_eq]
        refine ⟨(g.has_src _).2 hp, ?_⟩
        simp only [Rules.rank]
        split at hdiff <;> omega
      rw [this]; rfl

/-! ### glue for the full C02 statement -/

theorem pos_ext {p q : Pos} (h1 : p.men = q.men) (h2 : p.turn = q.turn) (h3 : p.rights = q.rights)
    (h4 : p.ep = q.ep) (h5 : p.halfmove = q.halfmove) (h6 : p.fullmove = q.fullmove) : p = q := by
  cases p; cases q; simp_all

/-- `Rules.apply` differs from `Rules.applyCore` in the en-passant target only. -/
theorem apply_fields (p : Pos) (mv : Mv) :
    (Rules.apply p mv).men = (applyCore p mv).men ∧ (Rules.apply p mv).turn = (applyCore p mv).turn ∧
    (Rules.apply p mv).rights = (applyCore p mv).rights ∧ (Rules.apply p mv).halfmove = (applyCore p mv).halfmove ∧
    (Rules.apply p mv).fullmove = (applyCore p mv).fullmove := by
  unfold Rules.apply
  simp only []
  split <;> exact ⟨rfl, rfl, rfl, rfl, rfl⟩

/-- once the en-passant targets agree, the whole successor position is the rule book's. -/
theorem abs_make_eq_apply_of_ep (K : Keys) {b : Board} {m : Move} (g : GenMove b m)
    (hep : (abs (b.makeMove K m).1).ep = (Rules.apply (abs b) (decodeMove m)).ep) :
    abs (b.makeMove K m).1 = Rules.apply (abs b) (decodeMove m) := by
  obtain ⟨a1, a2, a3, a4, a5⟩ := apply_fields (abs b) (decodeMove m)
  exact pos_ext ((abs_make_men K g).trans a1.symm) ((abs_make_turn K b m).trans a2.symm)
    ((abs_make_rights K g).trans a3.symm) hep ((abs_make_halfmove K g).trans a4.symm)
    ((abs_make_fullmove K b m).trans a5.symm)

end ChessVerif.AbsMake
