/-
  The laws the search theorems assume about the components (`Comp`) and the board operations,
  and the relations used to state what a search function leaves unchanged.
-/
import ChessVerif.Model.Search

namespace ChessVerif
namespace Search

/-- The invariant of the persistent state `σ` (transposition table, histories, generation) under which
    the component laws are stated.  The skeleton changes `σ` only through `ttStore`, `failHigh` and
    `nextGen`; `Laws` demands that these preserve `ok` (`ok_store`, `ok_failHigh`, `ok_nextGen`), every
    search function then preserves it (`Mono.ps_ok`), and so does `go` (`IDPost.ps_ok`,
    `Props.C06.go_keeps_ps_invariant`).  For the real components: `SearchReal.PSok` (every move word in
    the table has bit 15 clear, every history cell lies within `±MaxHistory`); for components whose
    laws hold for every state: `fun _ => True` (then `Laws` is the unconditional structure of the first
    version of this file, see `Laws.of_unconditional`). -/
class PsInv (σ : Type) where
  ok : σ → Prop

variable {σ π : Type} [PsInv σ]

/-- The hash moves a picker can be created with: the move of a table hit on this position in SOME
    state satisfying the invariant, or 0 (`hashMove` of `alphaBeta`). -/
def HashOK (c : Comp σ π) (b : Board) (hm : Move) : Prop :=
  hm = 0 ∨ ∃ ps ply e, PsInv.ok ps ∧ c.ttProbe ps b ply = some e ∧ e.move = hm

/-- The picker states reachable for position `b` and hash move `hm`, with the moves yielded so far
    (newest first).  The persistent state and the history stack consulted by `Next()` may be
    anything at each step (children update them between two calls) — any state satisfying the
    invariant `PsInv.ok`. -/
inductive Reach (c : Comp σ π) (b : Board) (hm : Move) : π → List Move → Prop where
  | init : Reach c b hm (c.pickInit b hm) []
  | next {p ys ps hs m p'} : Reach c b hm p ys → PsInv.ok ps → c.pickNext ps b hs p = some (m, p') →
      Reach c b hm p' (m :: ys)
  | weight {p ys w} : Reach c b hm p ys → Reach c b hm (c.setWeight p w) ys

/-- What is assumed about the components.  `Good` is the class of boards on which the board-level
    properties hold (instantiated by `Board.valid` through C01–C05):
    * C03: undoing a generated move / a null move restores the board (also at halfmove clock 100:
      the abort fallback `firstLegal` makes and undoes moves on a root the search itself refuses);
    * C02/C01: a generated move that does not leave the own king attacked leads to a `Good` board —
      from a board whose halfmove clock is below 100 (`Board.valid` bounds the clock by 100; every
      node that makes a move has passed the draw test `b.FiftyCnt >= 100 → return 0`);
    * C05/C16: the picker yields generated moves only, and when it is exhausted it has yielded every
      generated move — for hash moves the table can answer (`HashOK`) and persistent states
      satisfying the invariant; quiescence ranks generated moves;
    * generated moves are never the null encoding 0;
    * the invariant of the persistent state is preserved by a table store of a generated move of
      the position (or of 0), by `FailHigh`, and by `gen++`. -/
structure Laws (c : Comp σ π) (Good : Board → Prop) : Prop where
  undo_make : ∀ b m, Good b → m ∈ MoveGen.gen b →
    (b.makeMove c.keys m).1.undoMove m (b.makeMove c.keys m).2 = b
  good_make : ∀ b m, Good b → b.fifty < 100 → m ∈ MoveGen.gen b → (b.makeMove c.keys m).1.inCheck b.stm = false →
    Good (b.makeMove c.keys m).1
  undo_null : ∀ b, Good b → b.inCheck b.stm = false → (b.makeNull c.keys).1.undoNull (b.makeNull c.keys).2 = b
  good_null : ∀ b, Good b → b.inCheck b.stm = false → Good (b.makeNull c.keys).1
  pick_mem : ∀ ps b hs hm p ys m p', Good b → HashOK c b hm → Reach c b hm p ys → PsInv.ok ps →
    c.pickNext ps b hs p = some (m, p') → m ∈ MoveGen.gen b
  pick_complete : ∀ ps b hs hm p ys, Good b → HashOK c b hm → Reach c b hm p ys → PsInv.ok ps →
    c.pickNext ps b hs p = none → ∀ m, m ∈ MoveGen.gen b → m ∈ ys
  q_mem : ∀ ps b hs m w, Good b → (m, w) ∈ c.qMoves ps b hs → m ∈ MoveGen.gen b
  gen_ne_zero : ∀ b m, Good b → m ∈ MoveGen.gen b → m ≠ 0
  ok_store : ∀ ps b d ply m v bd, PsInv.ok ps → Good b → (m = 0 ∨ m ∈ MoveGen.gen b) →
    PsInv.ok (c.ttStore ps b d ply m v bd)
  ok_failHigh : ∀ ps d b p hs, PsInv.ok ps → PsInv.ok (c.failHigh ps d b p hs)
  ok_nextGen : ∀ ps, PsInv.ok ps → PsInv.ok (c.nextGen ps)

/-- The first version of `Laws` had no state invariant, no restriction on the hash move and
    `good_make` at every clock value.  Components that satisfy that unconditional form (e.g.
    `demoComp`) satisfy the present one for every invariant that holds of all states — so every
    theorem stated with `Laws` specialises to its first-version statement (take `PsInv.ok := fun _ => True`). -/
theorem Laws.of_unconditional {c : Comp σ π} {Good : Board → Prop} (hok : ∀ ps : σ, PsInv.ok ps)
    (undo_make : ∀ b m, Good b → m ∈ MoveGen.gen b → (b.makeMove c.keys m).1.undoMove m (b.makeMove c.keys m).2 = b)
    (good_make : ∀ b m, Good b → m ∈ MoveGen.gen b → (b.makeMove c.keys m).1.inCheck b.stm = false →
      Good (b.makeMove c.keys m).1)
    (undo_null : ∀ b, Good b → b.inCheck b.stm = false → (b.makeNull c.keys).1.undoNull (b.makeNull c.keys).2 = b)
    (good_null : ∀ b, Good b → b.inCheck b.stm = false → Good (b.makeNull c.keys).1)
    (pick_mem : ∀ ps b hs hm p ys m p', Good b → Reach c b hm p ys → c.pickNext ps b hs p = some (m, p') →
      m ∈ MoveGen.gen b)
    (pick_complete : ∀ ps b hs hm p ys, Good b → Reach c b hm p ys → c.pickNext ps b hs p = none →
      ∀ m, m ∈ MoveGen.gen b → m ∈ ys)
    (q_mem : ∀ ps b hs m w, Good b → (m, w) ∈ c.qMoves ps b hs → m ∈ MoveGen.gen b)
    (gen_ne_zero : ∀ b m, Good b → m ∈ MoveGen.gen b → m ≠ 0) : Laws c Good where
  undo_make := undo_make
  good_make := fun b m hg _ hm hs => good_make b m hg hm hs
  undo_null := undo_null
  good_null := good_null
  pick_mem := fun ps b hs hm p ys m p' hg _ hr _ hp => pick_mem ps b hs hm p ys m p' hg hr hp
  pick_complete := fun ps b hs hm p ys hg _ hr _ hp => pick_complete ps b hs hm p ys hg hr hp
  q_mem := q_mem
  gen_ne_zero := gen_ne_zero
  ok_store := fun _ _ _ _ _ _ _ _ _ _ => hok _
  ok_failHigh := fun _ _ _ _ _ _ => hok _
  ok_nextGen := fun _ _ => hok _

/-- A line of moves each playable (generated, own king not left attacked) in turn. -/
inductive LegalLine (K : Keys) : Board → List Move → Prop where
  | nil {b} : LegalLine K b []
  | cons {b m rest} : m ∈ MoveGen.playable K b → LegalLine K (b.makeMove K m).1 rest → LegalLine K b (m :: rest)

theorem mem_playable {K : Keys} {b : Board} {m : Move} :
    m ∈ MoveGen.playable K b ↔ m ∈ MoveGen.gen b ∧ (b.makeMove K m).1.inCheck b.stm = false := by
  simp [MoveGen.playable, List.mem_filter]

/-- The root is final: no playable move, or the halfmove clock reached 100, or third occurrence. -/
def Final (K : Keys) (b : Board) : Prop :=
  MoveGen.playable K b = [] ∨ b.fifty ≥ 100 ∨ b.threefold ≥ 3

/-- What every search function guarantees about the bookkeeping part of the state, whatever happens
    to board, PV, tables and stacks in between. -/
structure Mono (L : Limits) (s s' : St σ) : Prop where
  pondering : s'.pondering = s.pondering
  nodes_mono : s.nodes ≤ s'.nodes
  nodes_bound : 0 ≤ L.nodes → s.nodes ≤ L.nodes → s'.nodes ≤ L.nodes
  aborted_mono : s.aborted = true → s'.aborted = true
  fuel_mono : s.fuelOut = true → s'.fuelOut = true
  anomaly_mono : s.anomaly = true → s'.anomaly = true
  polls_mono : s.polls ≤ s'.polls
  nmp_mono : s.nmpOut = true → s'.nmpOut = true
  tt_mono : s.ttOut = true → s'.ttOut = true
  /-- the invariant of the persistent state is kept -/
  ps_ok : PsInv.ok s.ps → PsInv.ok s'.ps

theorem Mono.refl (L : Limits) (s : St σ) : Mono L s s :=
  ⟨rfl, Int.le_refl _, fun _ h => h, id, id, id, Nat.le_refl _, id, id, id⟩

theorem Mono.trans {L : Limits} {s1 s2 s3 : St σ} (h1 : Mono L s1 s2) (h2 : Mono L s2 s3) : Mono L s1 s3 :=
  ⟨h2.pondering.trans h1.pondering, Int.le_trans h1.nodes_mono h2.nodes_mono,
   fun h0 h => h2.nodes_bound h0 (h1.nodes_bound h0 h), fun h => h2.aborted_mono (h1.aborted_mono h),
   fun h => h2.fuel_mono (h1.fuel_mono h), fun h => h2.anomaly_mono (h1.anomaly_mono h),
   Nat.le_trans h1.polls_mono h2.polls_mono, fun h => h2.nmp_mono (h1.nmp_mono h),
   fun h => h2.tt_mono (h1.tt_mono h), fun h => h2.ps_ok (h1.ps_ok h)⟩

/-- `Mono` only looks at these fields. -/
theorem Mono.of_eq {L : Limits} {s s' : St σ} (h1 : s'.pondering = s.pondering) (h2 : s'.nodes = s.nodes)
    (h3 : s'.aborted = s.aborted) (h4 : s'.fuelOut = s.fuelOut) (h5 : s'.anomaly = s.anomaly) (h6 : s'.polls = s.polls)
    (h7 : s'.ps = s.ps) (h8 : s'.nmpOut = s.nmpOut := by rfl)
    (h9 : s'.ttOut = s.ttOut := by rfl) : Mono L s s' :=
  ⟨h1, by rw [h2]; exact Int.le_refl _, fun _ h => by rw [h2]; exact h, fun h => by rw [h3]; exact h,
   fun h => by rw [h4]; exact h, fun h => by rw [h5]; exact h, by rw [h6]; exact Nat.le_refl _,
   fun h => by rw [h8]; exact h, fun h => by rw [h9]; exact h, fun h => by rw [h7]; exact h⟩

/-- a search function returned to its caller with board, history stack and move store as it found them. -/
structure Frame (L : Limits) (s s' : St σ) : Prop where
  mono : Mono L s s'
  board : s'.board = s.board
  hstack : s'.hstack = s.hstack
  frames : s'.frames = s.frames

theorem Frame.refl (L : Limits) (s : St σ) : Frame L s s := ⟨Mono.refl L s, rfl, rfl, rfl⟩

/-- what a node that makes moves knows about its state: the persistent state satisfies the
    invariant and the halfmove clock is below 100 (the draw test has been passed). -/
def NodeOK (s : St σ) : Prop := PsInv.ok s.ps ∧ s.board.fifty < 100

theorem Frame.nodeOK {L : Limits} {s s' : St σ} (h : Frame L s s') (hn : NodeOK s) : NodeOK s' :=
  ⟨h.mono.ps_ok hn.1, by rw [h.board]; exact hn.2⟩

/-- the hash move `alphaBeta` reads from a table hit (or 0) is one the laws speak about. -/
theorem hashOK_probe (c : Comp σ π) {ps : σ} (hok : PsInv.ok ps) (b : Board) (ply : Int) :
    HashOK c b (match c.ttProbe ps b ply with | some e => e.move | none => 0) := by
  cases h : c.ttProbe ps b ply with
  | none => exact Or.inl rfl
  | some e => exact Or.inr ⟨ps, ply, e, hok, h, rfl⟩

theorem Frame.trans {L : Limits} {s1 s2 s3 : St σ} (h1 : Frame L s1 s2) (h2 : Frame L s2 s3) : Frame L s1 s3 :=
  ⟨h1.mono.trans h2.mono, h2.board.trans h1.board, h2.hstack.trans h1.hstack, h2.frames.trans h1.frames⟩

/-! ### `abort`, `incrementNodes` -/

theorem abort_frame (L : Limits) (s : St σ) : Frame L s (abort L s).2 := by
  unfold abort
  split
  · exact Frame.refl L s
  · split
    · exact Frame.refl L s
    · split
      · exact ⟨⟨rfl, Int.le_refl _, fun _ h => h, fun _ => rfl, id, id, Nat.le_succ _, id, id, id⟩, rfl, rfl, rfl⟩
      · exact ⟨⟨rfl, Int.le_refl _, fun _ h => h, id, id, id, Nat.le_succ _, id, id, id⟩, rfl, rfl, rfl⟩

omit [PsInv σ] in
theorem abort_pv (L : Limits) (s : St σ) : (abort L s).2.pv = s.pv ∧ (abort L s).2.ps = s.ps := by
  unfold abort
  split
  · exact ⟨rfl, rfl⟩
  · split
    · exact ⟨rfl, rfl⟩
    · split <;> exact ⟨rfl, rfl⟩

omit [PsInv σ] in
/-- `abort` answers `true` exactly when it leaves the flag set. -/
theorem abort_true_iff (L : Limits) (s : St σ) : (abort L s).1 = (abort L s).2.aborted := by
  unfold abort
  split
  · next h => simp [h]
  · next h =>
    split
    · simp at h; simp [h]
    · split
      · rfl
      · simp at h; simp [h]

theorem incrementNodes_frame (L : Limits) (s : St σ) : Frame L s (incrementNodes L s) := by
  unfold incrementNodes
  split
  · next h =>
    refine ⟨⟨rfl, by simp; omega, ?_, id, id, id, Nat.le_refl _, id, id, id⟩, rfl, rfl, rfl⟩
    intro h0 hs
    rcases h with h | h
    · omega
    · simp; omega
  · split
    · exact ⟨⟨rfl, Int.le_refl _, fun _ h => h, fun _ => rfl, id, id, Nat.le_refl _, id, id, id⟩, rfl, rfl, rfl⟩
    · exact Frame.refl L s

omit [PsInv σ] in
theorem incrementNodes_pv (L : Limits) (s : St σ) : (incrementNodes L s).pv = s.pv := by
  unfold incrementNodes
  split
  · rfl
  · split <;> rfl

end Search
end ChessVerif
