/-
  The laws the search theorems assume about the components (`Comp`) and the board operations,
  and the relations used to state what a search function leaves unchanged.
-/
import ChessVerif.Model.Search

namespace ChessVerif
namespace Search

variable {σ π : Type}

/-- The picker states reachable for position `b` and hash move `hm`, with the moves yielded so far
    (newest first).  The persistent state and the history stack consulted by `Next()` may be
    anything at each step (children update them between two calls). -/
inductive Reach (c : Comp σ π) (b : Board) (hm : Move) : π → List Move → Prop where
  | init : Reach c b hm (c.pickInit b hm) []
  | next {p ys ps hs m p'} : Reach c b hm p ys → c.pickNext ps b hs p = some (m, p') → Reach c b hm p' (m :: ys)
  | weight {p ys w} : Reach c b hm p ys → Reach c b hm (c.setWeight p w) ys

/-- What is assumed about the components.  `Good` is the class of boards on which the board-level
    properties hold (instantiated by `Board.valid`/`WF` through C01–C05):
    * C03: undoing a generated move / a null move restores the board;
    * C02/C01: a generated move that does not leave the own king attacked leads to a `Good` board;
    * C05/C16: the picker yields generated moves only, and when it is exhausted it has yielded every
      generated move; quiescence ranks generated moves;
    * generated moves are never the null encoding 0. -/
structure Laws (c : Comp σ π) (Good : Board → Prop) : Prop where
  undo_make : ∀ b m, Good b → m ∈ MoveGen.gen b →
    (b.makeMove c.keys m).1.undoMove m (b.makeMove c.keys m).2 = b
  good_make : ∀ b m, Good b → m ∈ MoveGen.gen b → (b.makeMove c.keys m).1.inCheck b.stm = false →
    Good (b.makeMove c.keys m).1
  undo_null : ∀ b, Good b → b.inCheck b.stm = false → (b.makeNull c.keys).1.undoNull (b.makeNull c.keys).2 = b
  good_null : ∀ b, Good b → b.inCheck b.stm = false → Good (b.makeNull c.keys).1
  pick_mem : ∀ ps b hs hm p ys m p', Good b → Reach c b hm p ys → c.pickNext ps b hs p = some (m, p') → m ∈ MoveGen.gen b
  pick_complete : ∀ ps b hs hm p ys, Good b → Reach c b hm p ys → c.pickNext ps b hs p = none →
    ∀ m, m ∈ MoveGen.gen b → m ∈ ys
  q_mem : ∀ ps b hs m w, Good b → (m, w) ∈ c.qMoves ps b hs → m ∈ MoveGen.gen b
  gen_ne_zero : ∀ b m, Good b → m ∈ MoveGen.gen b → m ≠ 0

/-- A line of moves each playable (generated, own king not left attacked) in turn. -/
inductive LegalLine (K : Keys) : Board → List Move → Prop where
  | nil {b} : LegalLine K b []
  | cons {b m rest} : m ∈ MoveGen.playable K b → LegalLine K (b.makeMove K m).1 rest → LegalLine K b (m :: rest)

theorem mem_playable {K : Keys} {b : Board} {m : Move} :
    m ∈ MoveGen.playable K b ↔ m ∈ MoveGen.gen b ∧ (b.makeMove K m).1.inCheck b.stm = false := by
  simp [MoveGen.playable, List.mem_filter]

/-- The root is final: no playable move, or the halfmove clock reached 100, or third occurrence. -/
def Final (K : Keys) (b : Board) : Prop :=
  MoveGen.playable K b = [] ∨ b.fifty ≥ 100 ∨ b.threefold ≥ 3

/-- What every search function guarantees about the bookkeeping part of the state, whatever happens
    to board, PV, tables and stacks in between. -/
structure Mono (L : Limits) (s s' : St σ) : Prop where
  pondering : s'.pondering = s.pondering
  nodes_mono : s.nodes ≤ s'.nodes
  nodes_bound : 0 ≤ L.nodes → s.nodes ≤ L.nodes → s'.nodes ≤ L.nodes
  aborted_mono : s.aborted = true → s'.aborted = true
  fuel_mono : s.fuelOut = true → s'.fuelOut = true
  anomaly_mono : s.anomaly = true → s'.anomaly = true
  polls_mono : s.polls ≤ s'.polls

theorem Mono.refl (L : Limits) (s : St σ) : Mono L s s :=
  ⟨rfl, Int.le_refl _, fun _ h => h, id, id, id, Nat.le_refl _⟩

theorem Mono.trans {L : Limits} {s1 s2 s3 : St σ} (h1 : Mono L s1 s2) (h2 : Mono L s2 s3) : Mono L s1 s3 :=
  ⟨h2.pondering.trans h1.pondering, Int.le_trans h1.nodes_mono h2.nodes_mono,
   fun h0 h => h2.nodes_bound h0 (h1.nodes_bound h0 h), fun h => h2.aborted_mono (h1.aborted_mono h),
   fun h => h2.fuel_mono (h1.fuel_mono h), fun h => h2.anomaly_mono (h1.anomaly_mono h),
   Nat.le_trans h1.polls_mono h2.polls_mono⟩

/-- `Mono` only looks at these fields. -/
theorem Mono.of_eq {L : Limits} {s s' : St σ} (h1 : s'.pondering = s.pondering) (h2 : s'.nodes = s.nodes)
    (h3 : s'.aborted = s.aborted) (h4 : s'.fuelOut = s.fuelOut) (h5 : s'.anomaly = s.anomaly) (h6 : s'.polls = s.polls) :
    Mono L s s' :=
  ⟨h1, by rw [h2]; exact Int.le_refl _, fun _ h => by rw [h2]; exact h, fun h => by rw [h3]; exact h,
   fun h => by rw [h4]; exact h, fun h => by rw [h5]; exact h, by rw [h6]; exact Nat.le_refl _⟩

/-- a search function returned to its caller with board, history stack and move store as it found them. -/
structure Frame (L : Limits) (s s' : St σ) : Prop where
  mono : Mono L s s'
  board : s'.board = s.board
  hstack : s'.hstack = s.hstack
  frames : s'.frames = s.frames

theorem Frame.refl (L : Limits) (s : St σ) : Frame L s s := ⟨Mono.refl L s, rfl, rfl, rfl⟩

theorem Frame.trans {L : Limits} {s1 s2 s3 : St σ} (h1 : Frame L s1 s2) (h2 : Frame L s2 s3) : Frame L s1 s3 :=
  ⟨h1.mono.trans h2.mono, h2.board.trans h1.board, h2.hstack.trans h1.hstack, h2.frames.trans h1.frames⟩

/-! ### `abort`, `incrementNodes` -/

theorem abort_frame (L : Limits) (s : St σ) : Frame L s (abort L s).2 := by
  unfold abort
  split
  · exact Frame.refl L s
  · split
    · exact Frame.refl L s
    · split
      · exact ⟨⟨rfl, Int.le_refl _, fun _ h => h, fun _ => rfl, id, id, Nat.le_succ _⟩, rfl, rfl, rfl⟩
      · exact ⟨⟨rfl, Int.le_refl _, fun _ h => h, id, id, id, Nat.le_succ _⟩, rfl, rfl, rfl⟩

theorem abort_pv (L : Limits) (s : St σ) : (abort L s).2.pv = s.pv ∧ (abort L s).2.ps = s.ps := by
  unfold abort
  split
  · exact ⟨rfl, rfl⟩
  · split
    · exact ⟨rfl, rfl⟩
    · split <;> exact ⟨rfl, rfl⟩

/-- `abort` answers `true` exactly when it leaves the flag set. -/
theorem abort_true_iff (L : Limits) (s : St σ) : (abort L s).1 = (abort L s).2.aborted := by
  unfold abort
  split
  · next h => simp [h]
  · next h =>
    split
    · simp at h; simp [h]
    · split
      · rfl
      · simp at h; simp [h]

theorem incrementNodes_frame (L : Limits) (s : St σ) : Frame L s (incrementNodes L s) := by
  unfold incrementNodes
  split
  · next h =>
    refine ⟨⟨rfl, by simp; omega, ?_, id, id, id, Nat.le_refl _⟩, rfl, rfl, rfl⟩
    intro h0 hs
    rcases h with h | h
    · omega
    · simp; omega
  · split
    · exact ⟨⟨rfl, Int.le_refl _, fun _ h => h, fun _ => rfl, id, id, Nat.le_refl _⟩, rfl, rfl, rfl⟩
    · exact Frame.refl L s

theorem incrementNodes_pv (L : Limits) (s : St σ) : (incrementNodes L s).pv = s.pv := by
  unfold incrementNodes
  split
  · rfl
  · split <;> rfl

end Search
end ChessVerif
