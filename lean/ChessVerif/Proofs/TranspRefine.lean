/-
  C15 helper lemmas, part 4: the table, the abstraction relation to `Spec.AbstractTT`, and the
  step-wise simulation (every model step is a step of the abstract table).
-/
import ChessVerif.Proofs.TranspBucket
import ChessVerif.Spec.AbstractTT

namespace ChessVerif.Model.Transp
open ChessVerif
open ChessVerif.Spec.AbstractTT (BMap Stored State keeps newStored EvictsAtMostOne BucketStore exactT)

/-! ### table access -/

/-- `t.data[b]` -/
def Table.bucket (t : Table) (b : Nat) : Bucket := t.getD b Bucket.zero

/-- The signature the model extracts (in `LookUp` and in `Insert`) is the spec's signature. -/
theorem sigOf_eq (h : BitVec 64) :
    partialKeyOf h Gen.Transp.lookupKeyShift = Spec.AbstractTT.sigOf h ∧
    partialKeyOf h Gen.Transp.insertKeyShift = Spec.AbstractTT.sigOf h := by
  have e1 : Gen.Transp.lookupKeyShift.toNat = 48 := by decide
  have e2 : Gen.Transp.insertKeyShift.toNat = 48 := by decide
  constructor <;>
  · apply BitVec.eq_of_toNat_eq
    simp [partialKeyOf, Spec.AbstractTT.sigOf, e1, e2, Nat.shiftRight_eq_div_pow]

theorem Table.lookUp_eq (t : Table) (h : BitVec 64) :
    t.lookUp h = (t.bucket (bucketIx h t.size)).lookUp (Spec.AbstractTT.sigOf h) := by
  rw [← (sigOf_eq h).1]; rfl

@[simp] theorem Table.size_insert (t : Table) (h : BitVec 64) (g : BitVec 8) (d p : Int) (m : BitVec 16)
    (v : Int) (ty : BitVec 8) : (t.insert h g d p m v ty).size = t.size := by
  simp [Table.insert]

theorem Table.bucket_insert (t : Table) (h : BitVec 64) (g : BitVec 8) (d p : Int) (m : BitVec 16)
    (v : Int) (ty : BitVec 8) (b : Nat) :
    (t.insert h g d p m v ty).bucket b =
      if b = bucketIx h t.size ∧ b < t.size then
        (t.bucket b).insert (Spec.AbstractTT.sigOf h) g d p m v ty
      else t.bucket b := by
  rw [← (sigOf_eq h).2]
  unfold Table.bucket Table.insert
  by_cases hb : b < t.size
  · by_cases he : b = bucketIx h t.size
    · subst he
      simp [Array.getD, hb, Array.getElem_modify]
    · have he' : ¬ bucketIx h t.size = b := fun e => he e.symm
      simp [Array.getD, hb, Array.getElem_modify, he, he']
  · simp [Array.getD, hb]

theorem Table.size_clear (t : Table) : t.clear.size = t.size := by simp [Table.clear]

theorem Table.bucket_clear (t : Table) (b : Nat) : t.clear.bucket b = Bucket.zero := by
  unfold Table.bucket Table.clear
  by_cases hb : b < t.size
  · simp [Array.getD, hb]
  · simp [Array.getD, hb]

theorem Table.size_new (size : Nat) : (Table.new size).size = size / 32 := by
  simp [Table.new, bucketBytes_eq]

theorem Table.bucket_new (size b : Nat) : (Table.new size).bucket b = Bucket.zero := by
  unfold Table.bucket Table.new
  by_cases hb : b < size / bucketBytes
  · simp [Array.getD, hb]
  · simp [Array.getD, hb]

theorem lane_zero (i : Nat) : lane 0 i = 0 := by simp [lane]

theorem Bucket.zero_lookUp (k : Sig) (hk : k ≠ 0) : Bucket.zero.lookUp k = none := by
  rw [Bucket.lookUp_none_iff]
  apply (match64_none_iff _ _).2
  intro i _
  show lane 0 i ≠ k
  rw [lane_zero]
  exact fun h => hk h.symm

/-- For signature 0 the empty bucket answers with the empty entry (the phantom the property
    excludes). -/
theorem Bucket.zero_lookUp_zero : Bucket.zero.lookUp 0 = some Entry.zero := by decide

/-! ### abstraction relation -/

/-- A model entry represents an abstract one: depth, type, move, generation as stored; the score
    is the re-based (root-relative) form of the given score. -/
def Rep (e : Entry) (st : Stored) : Prop :=
  e.depth = st.depth ∧ e.typ = st.typ ∧ e.value = storedValue st.value st.ply ∧
  e.move = st.move ∧ e.gen = st.gen

/-- Bucket abstraction: for every non-zero signature the bucket answers exactly what the map holds. -/
structure BAbs (B : Bucket) (f : BMap) : Prop where
  zero : f 0 = none
  none_iff : ∀ k, k ≠ 0 → (f k = none ↔ B.lookUp k = none)
  rep : ∀ k st e, k ≠ 0 → f k = some st → B.lookUp k = some e → Rep e st

theorem BAbs_zero : BAbs Bucket.zero (fun _ => none) where
  zero := rfl
  none_iff := fun k hk => ⟨fun _ => Bucket.zero_lookUp k hk, fun _ => rfl⟩
  rep := fun _ _ _ _ h _ => by cases h

/-- Table abstraction. -/
def Abs (t : Table) (a : State) : Prop :=
  t.size = a.nb ∧ ∀ b, b < t.size → BAbs (t.bucket b) (a.m b)

/-- Table invariant: at least one bucket, no duplicated non-zero signature in any bucket. -/
def Inv (t : Table) : Prop := 0 < t.size ∧ ∀ b, b < t.size → NoDupSig (t.bucket b)

theorem validSize_iff (size : Nat) : Spec.AbstractTT.ValidSize size ↔ validSize size = true := by
  simp [Spec.AbstractTT.ValidSize, validSize, bucketBytes]

theorem validSize_ge (size : Nat) (h : Spec.AbstractTT.ValidSize size) : 32 ≤ size := by
  have : Gen.Transp.bucketSize.toNat = 32 := by decide
  rw [Spec.AbstractTT.ValidSize, this] at h
  exact h.1

theorem newStored_move (old : Option Stored) (s : StoreArgs) :
    (newStored old s).move =
      if s.mv = 0 then (match old with | some o => o.move | none => 0) else s.mv := rfl

theorem rep_mk (s : StoreArgs) (hv : s.Valid) (old : Option Stored) (mv' : BitVec 16)
    (hmv : mv' = (newStored old s).move) :
    Rep (mkEntry mv' s.value s.ply s.d s.typ s.gen) (newStored old s) := by
  obtain ⟨h0, h63, ht⟩ := hv
  have hp := pack_depth_typ s.d s.typ ⟨h0, h63⟩ (by omega) mv' (storedValue s.value s.ply) s.gen
  exact ⟨hp.1, hp.2, rfl, hmv, rfl⟩

theorem keepCond_iff_keeps (e : Entry) (st : Stored) (s : StoreArgs) (hv : s.Valid) (hr : Rep e st) :
    keepCond e s.gen s.d s.typ ↔ keeps (some st) s := by
  obtain ⟨h0, h63, _⟩ := hv
  have hw : wrapS8 (s.d + Gen.Transp.keepDeeperMargin) = s.d + Gen.Transp.keepDeeperMargin := by
    simp only [Gen.Transp.keepDeeperMargin]
    unfold wrapS8; omega
  unfold keepCond keeps
  rw [hw, hr.1, hr.2.2.2.2]
  constructor
  · rintro ⟨a, b, c⟩
    exact ⟨st, rfl, a, b, c⟩
  · rintro ⟨o, ho, a, b, c⟩
    cases ho
    exact ⟨a, b, c⟩

/-! ### one store on one bucket -/

theorem bucket_sim (B : Bucket) (f : BMap) (s : StoreArgs) (hv : s.Valid) (hnd : NoDupSig B)
    (habs : BAbs B f) (k : Sig) :
    ∃ f', BucketStore s k f f' ∧
      BAbs (B.insert k s.gen s.d s.ply s.mv s.value s.typ) f' := by
  by_cases hk0 : k = 0
  · -- signature 0
    rcases Bucket.insert_cases B k s.gen s.d s.ply s.mv s.value s.typ with
      ⟨j, _, _, he⟩ | ⟨j, hm, _, he⟩ | ⟨hm, r, hr, he⟩
    · rw [he]
      exact ⟨f, .sig0 f hk0 rfl ⟨none, fun k' _ => by simp⟩, habs⟩
    · rw [he]
      refine ⟨f, .sig0 f hk0 rfl ⟨none, fun k' _ => by simp⟩, ?_⟩
      have hsame : ∀ k', k' ≠ 0 → (B.write j k (mkEntry (if s.mv = 0 then (B.get j).move else s.mv)
          s.value s.ply s.d s.typ s.gen)).lookUp k' = B.lookUp k' :=
        fun k' hk' => Bucket.lookUp_write_same_other B j k k' _ hm (by rw [hk0]; exact hk')
      exact ⟨habs.zero, fun k' hk' => by rw [hsame k' hk']; exact habs.none_iff k' hk',
        fun k' st e hk' h1 h2 => by rw [hsame k' hk'] at h2; exact habs.rep k' st e hk' h1 h2⟩
    · rw [he]
      refine ⟨fun k' => if k' = B.sig r then none else f k', .sig0 _ hk0 ?_ ⟨some (B.sig r), ?_⟩, ?_⟩
      · simp only [hk0]
        split
        · exact habs.zero.symm
        · rfl
      · intro k' _
        by_cases e : k' = B.sig r <;> simp [e]
      · have hoth := fun k' (hk' : k' ≠ 0) =>
          Bucket.lookUp_write_fresh_other B r k k' (mkEntry s.mv s.value s.ply s.d s.typ s.gen) hr hm
            (by rw [hk0]; exact hk') hnd
        refine ⟨?_, ?_, ?_⟩
        · show (if (0 : Sig) = B.sig r then none else f 0) = none
          split
          · rfl
          · exact habs.zero
        · intro k' hk'
          show (if k' = B.sig r then none else f k') = none ↔ _
          by_cases e : k' = B.sig r
          · simp only [e, if_true, true_iff]
            rw [← e]; exact (hoth k' hk').2 e hk'
          · simp only [e, if_false]
            rw [(hoth k' hk').1 e]; exact habs.none_iff k' hk'
        · intro k' st e' hk' h1 h2
          have h1' : (if k' = B.sig r then none else f k') = some st := h1
          by_cases e : k' = B.sig r
          · simp [e] at h1'
          · simp only [e, if_false] at h1'
            rw [(hoth k' hk').1 e] at h2
            exact habs.rep k' st e' hk' h1' h2
  · -- non-zero signature
    rcases Bucket.insert_cases B k s.gen s.d s.ply s.mv s.value s.typ with
      ⟨j, hm, hkeep, he⟩ | ⟨j, hm, hnkeep, he⟩ | ⟨hm, r, hr, he⟩
    · -- keep-deeper
      rw [he]
      have hl : B.lookUp k = some (B.get j) := (Bucket.lookUp_some_iff _ _ _).2 ⟨j, hm, rfl⟩
      cases hf : f k with
      | none => rw [(habs.none_iff k hk0).1 hf] at hl; cases hl
      | some st =>
        have hrep := habs.rep k st _ hk0 hf hl
        refine ⟨f, .keep hk0 ?_, habs⟩
        rw [hf]
        exact (keepCond_iff_keeps _ st s hv hrep).1 hkeep
    · -- overwrite the own lane
      rw [he]
      have hl : B.lookUp k = some (B.get j) := (Bucket.lookUp_some_iff _ _ _).2 ⟨j, hm, rfl⟩
      cases hf : f k with
      | none => rw [(habs.none_iff k hk0).1 hf] at hl; cases hl
      | some st =>
        have hrep := habs.rep k st _ hk0 hf hl
        have hnk : ¬ keeps (f k) s := by
          rw [hf]; exact fun h => hnkeep ((keepCond_iff_keeps _ st s hv hrep).2 h)
        refine ⟨fun k' => if k' = k then some (newStored (f k) s) else f k',
          .write _ hk0 hnk (by simp) ⟨none, fun k' hk' => by simp [hk']⟩, ?_⟩
        have hsame : ∀ k', k' ≠ k → (B.write j k (mkEntry (if s.mv = 0 then (B.get j).move else s.mv)
            s.value s.ply s.d s.typ s.gen)).lookUp k' = B.lookUp k' :=
          fun k' hk' => Bucket.lookUp_write_same_other B j k k' _ hm hk'
        have hown := Bucket.lookUp_write_same B j k
          (mkEntry (if s.mv = 0 then (B.get j).move else s.mv) s.value s.ply s.d s.typ s.gen) hm
        refine ⟨?_, ?_, ?_⟩
        · show (if (0 : Sig) = k then _ else f 0) = none
          rw [if_neg (fun h => hk0 h.symm)]; exact habs.zero
        · intro k' hk'
          show (if k' = k then _ else f k') = none ↔ _
          by_cases e : k' = k
          · subst e; rw [if_pos rfl, hown]; simp
          · simp only [e, if_false]; rw [hsame k' e]; exact habs.none_iff k' hk'
        · intro k' st' e' hk' h1 h2
          have h1' : (if k' = k then some (newStored (f k) s) else f k') = some st' := h1
          by_cases e : k' = k
          · subst e
            simp only [if_true] at h1'
            cases h1'
            rw [hown] at h2
            cases h2
            apply rep_mk s hv
            rw [hf, newStored_move]
            by_cases h0 : s.mv = 0
            · rw [if_pos h0, if_pos h0]; exact hrep.2.2.2.1
            · rw [if_neg h0, if_neg h0]
          · simp only [e, if_false] at h1'
            rw [hsame k' e] at h2
            exact habs.rep k' st' e' hk' h1' h2
    · -- fresh key replaces lane r
      rw [he]
      have hl : B.lookUp k = none := (Bucket.lookUp_none_iff _ _).2 hm
      have hf : f k = none := (habs.none_iff k hk0).2 hl
      have hnk : ¬ keeps (f k) s := by
        rw [hf]; rintro ⟨o, ho, _⟩; cases ho
      refine ⟨fun k' => if k' = k then some (newStored (f k) s)
          else if k' = B.sig r then none else f k',
        .write _ hk0 hnk (by simp) ⟨some (B.sig r), fun k' hk' => ?_⟩, ?_⟩
      · by_cases e : k' = B.sig r
        · have : ¬ B.sig r = k := e ▸ hk'
          simp [e, this]
        · simp [hk', e]
      · have hoth := fun k' (hk' : k' ≠ k) =>
          Bucket.lookUp_write_fresh_other B r k k' (mkEntry s.mv s.value s.ply s.d s.typ s.gen) hr hm hk' hnd
        have hown := Bucket.lookUp_write_fresh B r k (mkEntry s.mv s.value s.ply s.d s.typ s.gen) hr hm
        refine ⟨?_, ?_, ?_⟩
        · show (if (0 : Sig) = k then _ else if (0 : Sig) = B.sig r then none else f 0) = none
          rw [if_neg (fun h => hk0 h.symm)]
          split
          · rfl
          · exact habs.zero
        · intro k' hk'
          show (if k' = k then _ else if k' = B.sig r then none else f k') = none ↔ _
          by_cases e : k' = k
          · subst e; rw [if_pos rfl, hown]; simp
          · simp only [e, if_false]
            by_cases e2 : k' = B.sig r
            · simp only [e2, if_true, true_iff]
              rw [← e2]; exact (hoth k' e).2 e2 hk'
            · simp only [e2, if_false]
              rw [(hoth k' e).1 e2]; exact habs.none_iff k' hk'
        · intro k' st' e' hk' h1 h2
          have h1' : (if k' = k then some (newStored (f k) s)
              else if k' = B.sig r then none else f k') = some st' := h1
          by_cases e : k' = k
          · subst e
            simp only [if_true] at h1'
            cases h1'
            rw [hown] at h2
            cases h2
            apply rep_mk s hv
            rw [hf, newStored_move]
            by_cases h0 : s.mv = 0
            · rw [if_pos h0]; exact h0
            · rw [if_neg h0]
          · simp only [e, if_false] at h1'
            by_cases e2 : k' = B.sig r
            · simp [e2] at h1'
            · simp only [e2, if_false] at h1'
              rw [(hoth k' e).1 e2] at h2
              exact habs.rep k' st' e' hk' h1' h2

/-! ### one operation on the table -/

theorem Inv_step (t : Table) (op : Op) (hv : op.Valid) (hinv : Inv t) : Inv (t.step op) := by
  cases op with
  | store s =>
    refine ⟨by simp [Table.step]; exact hinv.1, fun b hb => ?_⟩
    simp only [Table.step, Table.size_insert] at hb ⊢
    rw [Table.bucket_insert]
    split
    · exact NoDupSig_insert _ _ _ _ _ _ _ _ (hinv.2 b hb)
    · exact hinv.2 b hb
  | clear =>
    refine ⟨by simp only [Table.step, Table.size_clear]; exact hinv.1, fun b _ => ?_⟩
    simp only [Table.step, Table.bucket_clear]
    exact NoDupSig_zero
  | resizeClear size =>
    have hsz : 32 ≤ size := validSize_ge size hv
    refine ⟨by simp only [Table.step, Table.size_new]; omega, fun b _ => ?_⟩
    simp only [Table.step, Table.bucket_new]
    exact NoDupSig_zero

theorem Inv_new (size : Nat) (hv : Spec.AbstractTT.ValidSize size) : Inv (Table.new size) :=
  Inv_step (Table.new size) (.resizeClear size) hv ⟨by
    have := validSize_ge size hv
    rw [Table.size_new]; omega, fun b _ => by rw [Table.bucket_new]; exact NoDupSig_zero⟩

theorem Abs_new (size : Nat) : Abs (Table.new size) (State.empty (size / 32)) :=
  ⟨Table.size_new size, fun b _ => by rw [Table.bucket_new]; exact BAbs_zero⟩

/-- **Simulation**: a step of the model is a step of the abstract table. -/
theorem sim_step (t : Table) (a : State) (op : Op) (hv : op.Valid) (hinv : Inv t) (habs : Abs t a) :
    ∃ a', Spec.AbstractTT.Step bucketIx a op a' ∧ Abs (t.step op) a' := by
  cases op with
  | clear =>
    refine ⟨State.empty a.nb, .clear a, ?_⟩
    refine ⟨by simp only [Table.step, Table.size_clear]; exact habs.1, fun b _ => ?_⟩
    simp only [Table.step, Table.bucket_clear]
    exact BAbs_zero
  | resizeClear size =>
    refine ⟨State.empty (size / Gen.Transp.bucketSize.toNat), .resize a size, ?_⟩
    exact Abs_new size
  | store s =>
    have hix : bucketIx s.hash t.size < t.size := bucketIx_lt _ _ hinv.1
    obtain ⟨f', hstore, hb'⟩ := bucket_sim (t.bucket (bucketIx s.hash t.size)) (a.m (bucketIx s.hash t.size))
      s hv (hinv.2 _ hix) (habs.2 _ hix) (Spec.AbstractTT.sigOf s.hash)
    refine ⟨⟨a.nb, fun b => if b = bucketIx s.hash t.size then f' else a.m b⟩, ?_, ?_⟩
    · refine .store a _ s rfl ?_ ?_
      · intro b' hb
        show (if b' = bucketIx s.hash t.size then f' else a.m b') = a.m b'
        rw [← habs.1] at hb
        exact if_neg hb
      · show BucketStore _ _ _ (if bucketIx s.hash a.nb = bucketIx s.hash t.size then f' else _)
        rw [← habs.1]
        simp only [if_true]
        exact hstore
    · refine ⟨by simp only [Table.step, Table.size_insert]; exact habs.1, fun b hb => ?_⟩
      simp only [Table.step, Table.size_insert] at hb ⊢
      rw [Table.bucket_insert]
      by_cases e : b = bucketIx s.hash t.size
      · subst e
        simp only [hix, and_self, if_true]
        exact hb'
      · simp only [e, false_and, if_false]
        exact habs.2 b hb

theorem Run.cons {bo : BitVec 64 → Nat → Nat} {a0 a1 a : State} {op : Spec.AbstractTT.Op}
    {ops : List Spec.AbstractTT.Op} (h : Spec.AbstractTT.Step bo a0 op a1)
    (r : Spec.AbstractTT.Run bo a1 ops a) : Spec.AbstractTT.Run bo a0 (op :: ops) a := by
  induction r with
  | nil => exact .snoc (ops := []) .nil h
  | snoc _ st ih => exact .snoc ih st

theorem refines_from (ops : List Op) : ∀ (t : Table) (a : State), Inv t → Abs t a →
    (∀ op, op ∈ ops → op.Valid) →
    ∃ a', Spec.AbstractTT.Run bucketIx a ops a' ∧ Abs (t.run ops) a' ∧ Inv (t.run ops) := by
  induction ops with
  | nil => intro t a hinv habs _; exact ⟨a, .nil, habs, hinv⟩
  | cons op ops ih =>
    intro t a hinv habs hv
    have hvo : op.Valid := hv op List.mem_cons_self
    obtain ⟨a1, hstep, habs1⟩ := sim_step t a op hvo hinv habs
    obtain ⟨a', hrun, habs', hinv'⟩ := ih (t.step op) a1 (Inv_step t op hvo hinv) habs1
      (fun o ho => hv o (List.mem_cons_of_mem _ ho))
    exact ⟨a', Run.cons hstep hrun, habs', hinv'⟩

/-- **tt_refines**: every run of the model from a fresh table is a run of the abstract table, and
    the invariant holds along the way. -/
theorem refines (size : Nat) (hsize : Spec.AbstractTT.ValidSize size) (ops : List Op)
    (hv : ∀ op, op ∈ ops → op.Valid) :
    ∃ a, Spec.AbstractTT.Run bucketIx (State.empty (size / 32)) ops a ∧
      Abs ((Table.new size).run ops) a ∧ Inv ((Table.new size).run ops) :=
  refines_from ops _ _ (Inv_new size hsize) (Abs_new size) hv

end ChessVerif.Model.Transp
