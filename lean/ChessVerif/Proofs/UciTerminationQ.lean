/-
  C13 — liveness, part 2: what a quiescent state looks like, and infinite behaviours.

  `Quiescent s`: no transition of the driver's own goroutines is enabled.
  In a reachable quiescent state
    * the writer holds nothing and the output channel is empty: everything sent has been delivered;
    * the handler is in its `range` loop, or has ended, or sits in a search whose `stop` channel
      is still open while the interrupt goroutine waits in its `select` (the ONLY way a request
      can be unanswered at quiescence: a search that neither finished nor was asked to stop);
    * every `isready` received has its `readyok` delivered (even while such a search runs);
    * every `go` received has its `bestmove` delivered, except the one running search.
  `Behaviour`: an infinite run under an arbitrary scheduler; it reaches quiescence within
  `mu (ρ 0) + 3·N` steps when the search prints at most `N` info lines.
-/
import ChessVerif.Proofs.UciTerminationI
import ChessVerif.Proofs.UciCountI
namespace ChessVerif.Uci

variable {sc : List Cmd} {s : State}

/-- No transition of the driver's own goroutines is enabled. -/
def Quiescent (s : State) : Prop := ¬ InternalEnabled s

/-- Quiescent, and the GUI cannot write a further line either (whole script written, or the next
    line is a `go` while a `bestmove` is outstanding, or stdin closed). -/
def Settled (s : State) : Prop := Quiescent s ∧ fire .envLine s = none

theorem Tr.mem_all (t : Tr) : t ∈ Tr.all := by
  cases t <;> simp [Tr.all]

/-- Executable form of `Quiescent` (for the examples). -/
def quiescentB (s : State) : Bool :=
  Tr.all.all (fun t => !(decide (t.kind = .internal)) || (fire t s).isNone)

theorem quiescentB_iff : quiescentB s = true ↔ Quiescent s := by
  unfold quiescentB Quiescent InternalEnabled
  rw [List.all_eq_true]
  constructor
  · rintro h ⟨t, hk, he⟩
    have := h t (Tr.mem_all t)
    simp [hk] at this
    simp [this] at he
  · intro h t _
    by_cases hk : t.kind = .internal
    · cases hf : fire t s with
      | none => simp
      | some s1 => exact absurd ⟨t, hk, by simp [hf]⟩ h
    · simp [hk]

/-- Executable form of `Settled`. -/
def settledB (s : State) : Bool := quiescentB s && (fire .envLine s).isNone

theorem settledB_iff : settledB s = true ↔ Settled s := by
  unfold settledB Settled
  rw [Bool.and_eq_true, quiescentB_iff, Option.isNone_iff_eq_none]

theorem quiescent_awaiting_or_terminated (h : Inv s) (hq : Quiescent s) :
    AwaitingInput s ∨ Terminated s := by
  by_cases ha : AwaitingInput s
  · exact .inl ha
  · rcases progress h ha with hi | ht
    · exact absurd hi hq
    · exact .inr ht

/-- After `quit` was received or stdin was closed, quiescence is termination. -/
theorem quiescent_terminated_of_quit_or_eof (h : Reachable sc s) (hq : Quiescent s)
    (he : (∃ r, (r, Cmd.quit) ∈ s.consumed) ∨ s.pipeEof = true) : Terminated s := by
  rcases quiescent_awaiting_or_terminated (Inv.reachable h) hq with ⟨hs, _, hp⟩ | ht
  · rcases he with he | he
    · rcases QuitInv.reachable h he with hr | hr <;> simp [hr] at hs
    · simp [hp] at he
  · exact ht

/-- The shape of a quiescent state. -/
structure QShape (s : State) : Prop where
  held : s.writer.held = []
  out : s.out = []
  handler : s.handler = .recv ∨ s.handler = .done ∨
      (s.handler = .search ∧ s.stopClosed = false ∧ s.intr = .select)
  intr : s.handler ≠ .search → s.intr = .none

theorem quiescent_shape (h : Inv s) (hq : Quiescent s) : QShape s := by
  have hwr : ∀ m, s.writer ≠ .write m := fun m hw => hq ⟨.wSink, rfl, by simp [fire, hw]⟩
  have hout : s.out = [] := by
    cases hw : s.writer with
    | write m => exact absurd hw (hwr m)
    | done => exact (h.wdone hw).2
    | recv =>
      cases ho : s.out with
      | nil => rfl
      | cons m rest => exact absurd ⟨.wRecv, rfl, by simp [fire, hw, ho]⟩ hq
  have hheld : s.writer.held = [] := by
    cases hw : s.writer with
    | write m => exact absurd hw (hwr m)
    | recv => rfl
    | done => rfl
  have hsend : s.handler ≠ .done → s.outClosed = false ∧ s.out.length < outDepth := by
    intro hd
    refine ⟨?_, by simp [hout, outDepth]⟩
    cases hoc : s.outClosed with
    | false => rfl
    | true => exact absurd (h.outClosed_iff.mp hoc) hd
  have hintr : s.intr = .none ∨ s.intr = .select := by
    cases hi : s.intr with
    | none => exact .inl rfl
    | select => exact .inr rfl
    | ready =>
      have hd : s.handler ≠ .done := by
        intro hd
        have := (h.intr_alive (by simp [hi])).1
        simp [hd, Handler.inGo] at this
      obtain ⟨hoc, hlen⟩ := hsend hd
      exact absurd ⟨.iReady, rfl, by simp [fire, send, hi, hoc, hlen]⟩ hq
    | hit =>
      have hph := (h.intr_alive (by simp [hi])).2.2
      have hb := h.iPh_buf (h.hit_iPh hi)
      exact absurd ⟨.iHit, rfl, by simp [fire, hi, hph, hb]⟩ hq
    | exit => exact absurd ⟨.iExit, rfl, by simp [fire, hi]; split <;> simp⟩ hq
  have hhandler : s.handler = .recv ∨ s.handler = .done ∨
      (s.handler = .search ∧ s.stopClosed = false ∧ s.intr = .select) := by
    cases hh : s.handler with
    | recv => exact .inl rfl
    | done => exact .inr (.inl rfl)
    | emit ws =>
      obtain ⟨hoc, hlen⟩ := hsend (by simp [hh])
      cases ws with
      | nil => exact absurd ⟨.hEmitDone, rfl, by simp [fire, hh]⟩ hq
      | cons w ws => exact absurd ⟨.hEmit, rfl, by simp [fire, send, hh, hoc, hlen]⟩ hq
    | ready =>
      obtain ⟨hoc, hlen⟩ := hsend (by simp [hh])
      exact absurd ⟨.hReady, rfl, by simp [fire, send, hh, hoc, hlen]⟩ hq
    | search =>
      cases hsc : s.stopClosed with
      | true => exact absurd ⟨.hStop, rfl, by simp [fire, hh, hsc]⟩ hq
      | false =>
        rcases hintr with hi | hi
        · have := h.stop_closed (by simp [hh, Handler.inGo]) hi
          simp [hsc] at this
        · exact .inr (.inr ⟨rfl, rfl, hi⟩)
    | aborted =>
      obtain ⟨hoc, hlen⟩ := hsend (by simp [hh])
      exact absurd ⟨.hAbortInfo, rfl, by simp [fire, send, hh, hoc, hlen]⟩ hq
    | closeFin => exact absurd ⟨.hCloseFin, rfl, by simp [fire, hh]; split <;> simp⟩ hq
    | wait =>
      rcases hintr with hi | hi
      · exact absurd ⟨.hWait, rfl, by simp [fire, hh, h.goWg_eq, hi]⟩ hq
      · exact absurd ⟨.iFin, rfl, by simp [fire, hi, h.fin_closed hh]⟩ hq
    | best =>
      obtain ⟨hoc, hlen⟩ := hsend (by simp [hh])
      exact absurd ⟨.hBest, rfl, by simp [fire, send, hh, hoc, hlen]⟩ hq
    | deferClose =>
      exact absurd ⟨.hDefer, rfl, by simp [fire, hh] <;> (repeat' split) <;> simp⟩ hq
    | closeOut =>
      exact absurd ⟨.hCloseOut, rfl, by simp [fire, hh, runDone] <;> (repeat' split) <;> simp⟩ hq
  refine ⟨hheld, hout, hhandler, ?_⟩
  intro hns
  rcases hhandler with hh | hh | ⟨hh, _⟩
  · cases hi : s.intr with
    | none => rfl
    | _ => have := (h.intr_alive (by simp [hi])).1; simp [hh, Handler.inGo] at this
  · cases hi : s.intr with
    | none => rfl
    | _ => have := (h.intr_alive (by simp [hi])).1; simp [hh, Handler.inGo] at this
  · exact absurd hh hns

/-- In a quiescent state the search-outstanding flag is exactly "the handler is inside the search". -/
theorem quiescent_busy (h : Inv s) (hq : Quiescent s) :
    s.handler.busy = decide (s.handler = .search) := by
  rcases (quiescent_shape h hq).handler with hh | hh | ⟨hh, _⟩ <;> simp [hh, Handler.busy]

/-- Everything sent has been delivered. -/
theorem quiescent_delivered (h : Reachable sc s) (hq : Quiescent s) : s.written = msgsOf s.log := by
  have q := quiescent_shape (Inv.reachable h) hq
  rw [(Inv2.reachable h).fifo, q.held, q.out]; simp

/-- **Every `isready` is answered at quiescence** (whether or not a search is still running). -/
theorem quiescent_readyok (h : Reachable sc s) (hq : Quiescent s) :
    s.written.countP Msg.isReadyok = (rcvd s).countP Cmd.isReady := by
  have q := quiescent_shape (Inv.reachable h) hq
  have g := (Inv2.reachable h).ready
  have hh : (if s.handler = .ready then 1 else 0 : Nat) = 0 := by
    rcases q.handler with hh | hh | ⟨hh, _⟩ <;> simp [hh]
  have hi : (if s.intr = .ready then 1 else 0 : Nat) = 0 := by
    rcases q.handler with hh | hh | ⟨hh, _, hi⟩
    · simp [q.intr (by simp [hh])]
    · simp [q.intr (by simp [hh])]
    · simp [hi]
  rw [quiescent_delivered h hq, countP_msgsOf_readyok, g, hh, hi]; rfl

/-- **Every `go` is answered at quiescence**, except a search that is still running (its `stop`
    channel still open, the interrupt goroutine in its `select`, the reader awaiting input). -/
theorem quiescent_bestmove (h : Reachable sc s) (hq : Quiescent s) :
    s.written.countP Msg.isBest + (if s.handler = .search then 1 else 0) = (rcvd s).countP Cmd.isGo := by
  have g := Inv2.reachable h
  have hb := quiescent_busy (Inv.reachable h) hq
  rw [quiescent_delivered h hq, countP_msgsOf_best, countP_go_rcvd, g.intrNoGo, ← g.goLog, g.bestCount, hb]
  simp

/-- At quiescence with no search left running, the complete output is a word of
    `((readyok|other|empty)* go (info|readyok)* bestmove)*` — every search's `info` lines between
    its start and its one `bestmove`, the acceptor back in its idle state — and all of it has
    been delivered. -/
theorem quiescent_language (h : Reachable sc s) (hq : Quiescent s) (hns : s.handler ≠ .search) :
    runPhase false s.log = some false ∧ s.written = msgsOf s.log := by
  refine ⟨?_, quiescent_delivered h hq⟩
  rw [(Inv2.reachable h).phase, quiescent_busy (Inv.reachable h) hq]
  simp [hns]

/-- The running search at quiescence: exactly "`stop` not yet requested". -/
theorem quiescent_search_running (h : Reachable sc s) (hq : Quiescent s) (hs : s.handler = .search) :
    s.stopClosed = false ∧ s.intr = .select ∧ AwaitingInput s := by
  rcases (quiescent_shape (Inv.reachable h) hq).handler with hh | hh | ⟨_, h1, h2⟩
  · simp [hs] at hh
  · simp [hs] at hh
  · refine ⟨h1, h2, ?_⟩
    rcases quiescent_awaiting_or_terminated (Inv.reachable h) hq with ha | ht
    · exact ha
    · have := ht.2.1; simp [hs] at this

/-- Settled with no search running: terminated, or the whole script has been received and the
    driver awaits further input. -/
theorem settled_cases (h : Reachable sc s) (hs : Settled s) (hns : s.handler ≠ .search) :
    Terminated s ∨ (AwaitingInput s ∧ s.script = [] ∧ rcvd s = sc) := by
  obtain ⟨hq, hl⟩ := hs
  have q := quiescent_shape (Inv.reachable h) hq
  have g := Inv2.reachable h
  rcases quiescent_awaiting_or_terminated (Inv.reachable h) hq with ha | ht
  · right
    obtain ⟨hr, hp, he⟩ := ha
    have hbusy : s.handler.busy = false := by
      rw [quiescent_busy (Inv.reachable h) hq]; simp [hns]
    have haw : s.awaiting = false := by
      have g5 := g.goBal
      simp only [hr, hp, hbusy, q.held, q.out, Reader.held] at g5
      cases haw : s.awaiting with
      | false => rfl
      | true => simp [haw] at g5
    have hscr : s.script = [] := by
      cases hscr : s.script with
      | nil => rfl
      | cons c rest => simp [fire, hscr, he, haw] at hl
    refine ⟨⟨hr, hp, he⟩, hscr, ?_⟩
    have g4 := g.parts
    simpa [hr, hp, hscr, Reader.held] using g4
  · exact .inl ht

/-- If the script contains `quit`, a settled state with no search running is terminated. -/
theorem settled_quit_terminated (h : Reachable sc s) (hs : Settled s) (hns : s.handler ≠ .search)
    (hq : Cmd.quit ∈ sc) : Terminated s := by
  rcases settled_cases h hs hns with ht | ⟨ha, _, hr⟩
  · exact ht
  · exfalso
    rw [← hr] at hq
    unfold rcvd at hq
    obtain ⟨⟨r, c⟩, hm, hc⟩ := List.mem_map.mp hq
    simp only at hc
    subst hc
    rcases QuitInv.reachable h ⟨r, hm⟩ with h1 | h1 <;> simp [ha.1] at h1

/-! ### Reaching quiescence -/

/-- From every state satisfying `Inv` the driver's own goroutines alone reach a quiescent state
    (no step of the GUI, the timer or the search is needed). -/
theorem exists_internal_run_to_quiescent (h : Inv s) :
    ∃ ts s', (∀ t ∈ ts, t.kind = .internal) ∧ run ts s = some s' ∧ Quiescent s' := by
  generalize hn : mu s = n
  induction n using Nat.strongRecOn generalizing s with
  | _ n ih =>
    by_cases hq : Quiescent s
    · exact ⟨[], s, by simp, rfl, hq⟩
    · have hq' : InternalEnabled s := Classical.not_not.mp hq
      obtain ⟨t, hk, he⟩ := hq'
      cases hf : fire t s with
      | none => simp [hf] at he
      | some s1 =>
        have hlt := mu_internal_lt h hk hf
        obtain ⟨ts, s', h1, h2, h3⟩ := ih (mu s1) (hn ▸ hlt) (h.step hf) rfl
        refine ⟨t :: ts, s', ?_, ?_, h3⟩
        · intro t' ht'
          rcases List.mem_cons.mp ht' with rfl | ht'
          · exact hk
          · exact h1 t' ht'
        · simp [run, hf, h2]

/-- An infinite behaviour of the system under an arbitrary scheduler: at step `i` either the
    transition `lab i = some t` fires (any transition: driver, GUI, timer, search), or nothing
    happens (`lab i = none`), which the scheduler may choose only in a state satisfying `P`. -/
structure Behaviour (P : State → Prop) (ρ : Nat → State) (lab : Nat → Option Tr) : Prop where
  step : ∀ i t, lab i = some t → fire t (ρ i) = some (ρ (i + 1))
  stutter : ∀ i, lab i = none → ρ (i + 1) = ρ i ∧ P (ρ i)

/-- Transitions fired among the first `k` steps. -/
def nSteps (lab : Nat → Option Tr) : Nat → Nat
  | 0 => 0
  | k + 1 => nSteps lab k + (if (lab k).isSome then 1 else 0)

/-- 1 for a step that is the search printing an `info` line. -/
def isInfo : Option Tr → Nat
  | some .sInfo => 1
  | _ => 0

theorem isInfo_some (t : Tr) : isInfo (some t) = if t = .sInfo then 1 else 0 := by
  cases t <;> rfl

/-- `info` lines printed by the search among the first `k` steps. -/
def nInfo (lab : Nat → Option Tr) : Nat → Nat
  | 0 => 0
  | k + 1 => nInfo lab k + isInfo (lab k)

/-- Steps of the search (any of its four transitions) among the first `k` steps. -/
def nSearch (lab : Nat → Option Tr) : Nat → Nat
  | 0 => 0
  | k + 1 => nSearch lab k + (if (lab k).any Tr.isSearch then 1 else 0)

theorem nInfo_le_nSearch (lab : Nat → Option Tr) (k : Nat) : nInfo lab k ≤ nSearch lab k := by
  induction k with
  | zero => simp [nInfo, nSearch]
  | succ k ih =>
    simp only [nInfo, nSearch]
    cases hl : lab k with
    | none => simp [isInfo]; omega
    | some t => cases t <;> simp [isInfo, Tr.isSearch] <;> omega

variable {P : State → Prop} {ρ : Nat → State} {lab : Nat → Option Tr}

theorem Behaviour.reachable (hb : Behaviour P ρ lab) (h0 : Reachable sc (ρ 0)) (k : Nat) :
    Reachable sc (ρ k) := by
  induction k with
  | zero => exact h0
  | succ k ih =>
    cases hl : lab k with
    | none => rw [(hb.stutter k hl).1]; exact ih
    | some t => exact ih.step t (hb.step k t hl)

/-- The potential inequality along a behaviour. -/
theorem Behaviour.bound (hb : Behaviour P ρ lab) (h0 : Inv (ρ 0)) (k : Nat) :
    Inv (ρ k) ∧ nSteps lab k + mu (ρ k) ≤ mu (ρ 0) + 3 * nInfo lab k := by
  induction k with
  | zero => exact ⟨h0, by simp [nSteps, nInfo]⟩
  | succ k ih =>
    obtain ⟨hi, hle⟩ := ih
    cases hl : lab k with
    | none =>
      have := (hb.stutter k hl).1
      simp only [nSteps, nInfo, hl, this, isInfo]
      exact ⟨hi, by simpa using hle⟩
    | some t =>
      have hf := hb.step k t hl
      have := mu_step hi hf
      refine ⟨hi.step hf, ?_⟩
      simp only [nSteps, nInfo, hl, Option.isSome_some, if_true, isInfo_some]
      omega

theorem nSteps_eq_of_all_some (lab : Nat → Option Tr) (k : Nat) (h : ∀ i, i < k → lab i ≠ none) :
    nSteps lab k = k := by
  induction k with
  | zero => rfl
  | succ k ih =>
    have h1 := ih (fun i hi => h i (Nat.lt_succ_of_lt hi))
    have h2 : (lab k).isSome = true := by
      cases hl : lab k with
      | none => exact absurd hl (h k (Nat.lt_succ_self k))
      | some t => rfl
    simp [nSteps, h1, h2]

/-- **No infinite execution.**  Under ANY scheduler, if the search prints at most `N` info lines,
    at most `mu (ρ 0) + 3·N` transitions ever fire … -/
theorem Behaviour.steps_le (hb : Behaviour P ρ lab) (h0 : Inv (ρ 0)) {N : Nat}
    (hN : ∀ k, nInfo lab k ≤ N) (k : Nat) : nSteps lab k ≤ mu (ρ 0) + 3 * N := by
  have := (hb.bound h0 k).2
  have := hN k
  omega

/-- … hence within the first `mu (ρ 0) + 3·N + 1` steps the scheduler has to stutter, which it can
    only do in a state satisfying `P`. -/
theorem Behaviour.reaches (hb : Behaviour P ρ lab) (h0 : Inv (ρ 0)) {N : Nat}
    (hN : ∀ k, nInfo lab k ≤ N) : ∃ i, i ≤ mu (ρ 0) + 3 * N ∧ lab i = none ∧ P (ρ i) := by
  apply Classical.byContradiction
  intro hne
  have hall : ∀ i, i < mu (ρ 0) + 3 * N + 1 → lab i ≠ none := by
    intro i hi hl
    exact hne ⟨i, by omega, hl, (hb.stutter i hl).2⟩
  have h1 := nSteps_eq_of_all_some lab _ hall
  have h2 := hb.steps_le h0 hN (mu (ρ 0) + 3 * N + 1)
  omega

/-! ### A behaviour from a finite run (non-vacuity of `Behaviour`) -/

/-- The state after the first `i` transitions of `ts` (the last state from then on). -/
def traceAt : List Tr → State → Nat → State
  | [], s, _ => s
  | _ :: _, s, 0 => s
  | t :: ts, s, i + 1 =>
    match fire t s with
    | some s1 => traceAt ts s1 i
    | none => s

theorem traceAt_zero (ts : List Tr) (s : State) : traceAt ts s 0 = s := by
  cases ts <;> rfl

/-- A finite run that ends in a state satisfying `P`, continued by stuttering, is a behaviour. -/
theorem behaviour_of_run {ts : List Tr} {s s' : State} (hr : run ts s = some s') (hp : P s') :
    Behaviour P (traceAt ts s) (fun i => ts[i]?) := by
  induction ts generalizing s with
  | nil =>
    simp [run] at hr; subst hr
    exact ⟨fun i t hl => by simp at hl, fun i _ => ⟨rfl, hp⟩⟩
  | cons t ts ih =>
    simp only [run] at hr
    cases hf : fire t s with
    | none => simp [hf] at hr
    | some s1 =>
      simp [hf] at hr
      have hb := ih hr
      constructor
      · intro i t' hl
        cases i with
        | zero =>
          simp at hl; subst hl
          simp [traceAt, hf, traceAt_zero]
        | succ i =>
          simp at hl
          simp only [traceAt, hf]
          exact hb.step i t' hl
      · intro i hl
        cases i with
        | zero => simp at hl
        | succ i =>
          simp at hl
          simp only [traceAt, hf]
          exact hb.stutter i (by simpa using hl)

theorem nInfo_getElem (ts : List Tr) (k : Nat) :
    nInfo (fun i => ts[i]?) k = (ts.take k).count .sInfo := by
  induction k with
  | zero => simp [nInfo]
  | succ k ih =>
    simp only [nInfo, ih, List.take_add_one, List.count_append]
    congr 1
    generalize ts[k]? = o
    cases o with
    | none => simp [isInfo]
    | some t => cases t <;> simp [isInfo]

/-- Packaged for the examples: a run from `init sc` ending in a `P`-state gives a behaviour from
    `init sc` whose number of `info` lines is that of the run. -/
theorem behaviour_example {ts : List Tr} {s' : State} (hr : run ts (init sc) = some s') (hp : P s') :
    ∃ ρ lab, ρ 0 = init sc ∧ Behaviour P ρ lab ∧ ∀ k, nInfo lab k ≤ infoSteps ts := by
  refine ⟨traceAt ts (init sc), fun i => ts[i]?, traceAt_zero _ _, behaviour_of_run hr hp, fun k => ?_⟩
  rw [nInfo_getElem]
  exact (List.take_sublist k ts).count_le _

/-! ### Persistence of "stdin closed" and "`quit` received" -/

theorem persist_step {s s' : State} {t : Tr} (hf : fire t s = some s') :
    (s.pipeEof = true → s'.pipeEof = true) ∧ ∀ x, x ∈ s.consumed → x ∈ s'.consumed := by
  cases t <;> simp only [fire, send, runDone] at hf <;> (repeat' split at hf) <;> (try cases hf) <;>
    first
    | exact ⟨id, fun _ hx => hx⟩
    | exact ⟨fun _ => rfl, fun _ hx => hx⟩
    | (simp only [dispatch, intrDispatch]; (repeat' split) <;>
        exact ⟨id, fun _ hx => List.mem_append_left _ hx⟩)

theorem Behaviour.persist (hb : Behaviour P ρ lab) (k : Nat)
    (he : (∃ r, (r, Cmd.quit) ∈ (ρ 0).consumed) ∨ (ρ 0).pipeEof = true) :
    (∃ r, (r, Cmd.quit) ∈ (ρ k).consumed) ∨ (ρ k).pipeEof = true := by
  induction k with
  | zero => exact he
  | succ k ih =>
    cases hl : lab k with
    | none => rw [(hb.stutter k hl).1]; exact ih
    | some t =>
      have hp := persist_step (hb.step k t hl)
      rcases ih with ⟨r, hr⟩ | hq
      · exact .inl ⟨r, hp.2 _ hr⟩
      · exact .inr (hp.1 hq)

/-! ### The resting states of `liveness`, and helpers for the examples -/

/-- Where the scheduler of the liveness theorem may idle: no goroutine of the driver can step, the
    GUI cannot write a further line, and no search is running. -/
def AtRest (s : State) : Prop := Settled s ∧ s.handler ≠ .search

def atRestB (s : State) : Bool := settledB s && decide (s.handler ≠ .search)

theorem atRestB_iff : atRestB s = true ↔ AtRest s := by
  unfold atRestB AtRest
  rw [Bool.and_eq_true, settledB_iff, decide_eq_true_iff]

theorem internalEnabled_of_fire {t : Tr} {s' : State} (hk : t.kind = .internal) (hf : fire t s = some s') :
    InternalEnabled s := ⟨t, hk, by simp [hf]⟩

/-- A resting state is final for everything except the GUI closing stdin: no goroutine of the
    driver, no further line, no timer and no search step is enabled. -/
theorem atRest_only_eof (h : Inv s) (hr : AtRest s) {t : Tr} {s' : State} (hf : fire t s = some s') :
    t = .envEof := by
  obtain ⟨⟨hq, hl⟩, hns⟩ := hr
  have hi := (quiescent_shape h hq).intr hns
  cases t <;>
    first
    | rfl
    | exact absurd (internalEnabled_of_fire rfl hf) hq
    | (rw [hl] at hf; cases hf)
    | (simp [fire, hns, hi] at hf)

theorem atRest_example {ts : List Tr} (hd : (run ts (init sc)).any atRestB = true) :
    ∃ ρ lab, ρ 0 = init sc ∧ Behaviour AtRest ρ lab ∧ ∀ k, nInfo lab k ≤ infoSteps ts := by
  cases hr : run ts (init sc) with
  | none => simp [hr] at hd
  | some s' =>
    simp only [hr, Option.any_some] at hd
    exact behaviour_example hr (atRestB_iff.mp hd)

theorem quiescent_example {ts : List Tr} (hd : (run ts (init sc)).any quiescentB = true) :
    ∃ ρ lab, ρ 0 = init sc ∧ Behaviour Quiescent ρ lab ∧ ∀ k, nInfo lab k ≤ infoSteps ts := by
  cases hr : run ts (init sc) with
  | none => simp [hr] at hd
  | some s' =>
    simp only [hr, Option.any_some] at hd
    exact behaviour_example hr (quiescentB_iff.mp hd)

/-- A run from `init sc` ending in a state with the decidable property `p`. -/
theorem run_example {ts : List Tr} {p : State → Prop} [DecidablePred p]
    (hd : (run ts (init sc)).any (fun s => decide (p s)) = true) : ∃ s, Reachable sc s ∧ p s := by
  cases hr : run ts (init sc) with
  | none => simp [hr] at hd
  | some s' =>
    simp only [hr, Option.any_some, decide_eq_true_eq] at hd
    exact ⟨s', reachable_run ts .init hr, hd⟩

end ChessVerif.Uci
