/-
  C16: "iterating the picker TO EXHAUSTION" — within the call budget `Picker.fuel` (justified by
  `StoreFits`) the iteration really ends: the `Next` call that follows the last yield returns false
  (so `Picker.yielded` is the complete sequence, not a truncated one), and it keeps returning false.
  Core Lean only.
-/
import ChessVerif.Proofs.PickerRun

namespace ChessVerif.Proofs.PickerExhaust
open ChessVerif Picker ChessVerif.Proofs.PickerSelect ChessVerif.Proofs.PickerRun

variable (b : Board) (hm : Move) (rk : Rank)

/-- the state reached from stage 5 is a stage-5 state holding what the drain leaves. -/
theorem runState_yieldRest : ∀ (n : Nat) (s : PSt), s.stage = .yieldRest → s.rest.length < n →
    (runState b hm rk n s).stage = .yieldRest ∧ (runState b hm rk n s).rest = (drain thrR n s.rest).2 := by
  intro n
  induction n with
  | zero => intro s _ h; omega
  | succ k ih =>
    intro s hs hn
    have hnext : next b hm rk s = nextYieldRest s := by unfold next; rw [hs]
    unfold runState
    rw [hnext]
    unfold nextYieldRest
    cases hsel : selectBest Gen.Heur.restThreshold s.rest with
    | none => rw [drain_none k hsel]; exact ⟨hs, rfl⟩
    | some best =>
      obtain ⟨x, hx, _⟩ := selectBest_some hsel
      have hl := takeAt_length hx
      rw [drain_some k hsel]
      simp only
      exact ih _ hs (by simp only; omega)

theorem runState_yieldGood : ∀ (n : Nat) (s : PSt), s.stage = .yieldGoodNoisy →
    s.rest.length + (quietR b hm rk).length < n →
    (runState b hm rk n s).stage = .yieldRest ∧
    (runState b hm rk n s).rest =
      (drain thrR (n - (drain thrG n s.rest).1.length) ((drain thrG n s.rest).2 ++ quietR b hm rk)).2 := by
  intro n
  induction n with
  | zero => intro s _ h; omega
  | succ k ih =>
    intro s hs hn
    have hnext : next b hm rk s = nextYieldGoodNoisy b hm rk s := by unfold next; rw [hs]
    cases hsel : selectBest Gen.Heur.goodNoisyThreshold s.rest with
    | none =>
      have hn2 : next b hm rk s = next b hm rk (afterNoisy b hm rk s s.rest) := by
        rw [hnext]
        unfold nextYieldGoodNoisy
        simp only [hsel]
        unfold nextGenQuiet next afterNoisy quietR
        rfl
      have hrun : runState b hm rk (k + 1) s = runState b hm rk (k + 1) (afterNoisy b hm rk s s.rest) := by
        unfold runState; rw [hn2]
      rw [hrun, drain_none k hsel]
      simp only [List.length_nil, Nat.sub_zero]
      exact runState_yieldRest b hm rk (k + 1) _ rfl (by simp only [afterNoisy, List.length_append]; omega)
    | some best =>
      obtain ⟨x, hx, _⟩ := selectBest_some hsel
      have hl := takeAt_length hx
      unfold runState
      rw [hnext]
      unfold nextYieldGoodNoisy
      simp only [hsel]
      have e := drain_some (thr := thrG) k hsel
      rw [e]
      simp only [List.length_cons, Nat.add_sub_add_right]
      exact ih _ hs (by simp only; omega)

theorem runState_genNoisy (k : Nat) (d : List WMove) :
    runState b hm rk (k + 1) { stage := .genNoisy, done := d, rest := [] } =
      runState b hm rk (k + 1) (afterGenNoisy b hm rk d) := by
  unfold runState; rw [next_genNoisy]

/-- the state in which the iteration of `Picker.yieldedW` stops. -/
def finalState : PSt := runState b hm rk fuel init

/-- After the budgeted iteration the picker is in stage 5 and nothing above the stage-5 threshold
    is left in its frame … -/
theorem final_exhausted (hfit : StoreFits b) :
    (finalState b hm rk).stage = .yieldRest ∧ selectBest thrR (finalState b hm rk).rest = none := by
  have hlen := gen_length b
  have hf : fuel = Gen.Heur.storeSize.toNat + 2 := rfl
  have hnl := noisyR_length b hm rk
  have hql := quietR_length b hm rk
  unfold StoreFits at hfit
  unfold finalState
  by_cases hpl : b.isPseudoLegal hm = true
  · have e : fuel = (fuel - 2) + 1 + 1 := by omega
    have hnext : next b hm rk init = (true, { stage := .genNoisy, done := [{ move := hm, weight := Gen.Heur.hashWeight }], rest := [] }) := by
      unfold next init nextPickHash
      simp only [hpl, ↓reduceIte, List.nil_append]
    have h1 : runState b hm rk ((fuel - 2) + 1 + 1) init =
        runState b hm rk ((fuel - 2) + 1) { stage := .genNoisy, done := [{ move := hm, weight := Gen.Heur.hashWeight }], rest := [] } := by
      conv => lhs; unfold runState
      rw [hnext]
    rw [e, h1, runState_genNoisy]
    have h2 := runState_yieldGood b hm rk ((fuel - 2) + 1)
      (afterGenNoisy b hm rk [{ move := hm, weight := Gen.Heur.hashWeight }]) rfl (by
      simp only [afterGenNoisy, noisyR_length, quietR_length]; omega)
    refine ⟨h2.1, ?_⟩
    rw [h2.2]
    have l3 := drain_length thrG ((fuel - 2) + 1) (noisyR b hm rk) (by omega)
    exact drain_exhausted thrR _ _ (by simp only [afterGenNoisy, List.length_append] at l3 ⊢; omega)
  · have e : fuel = (fuel - 1) + 1 := by omega
    have hnext : next b hm rk init = next b hm rk { stage := .genNoisy, done := [], rest := [] } := by
      conv => lhs; unfold next init nextPickHash
      simp only [hpl, Bool.false_eq_true, ↓reduceIte]
      conv => rhs; unfold next
    have h1 : runState b hm rk ((fuel - 1) + 1) init =
        runState b hm rk ((fuel - 1) + 1) { stage := .genNoisy, done := [], rest := [] } := by
      unfold runState; rw [hnext]
    rw [e, h1, runState_genNoisy]
    have h2 := runState_yieldGood b hm rk ((fuel - 1) + 1) (afterGenNoisy b hm rk []) rfl (by
      simp only [afterGenNoisy, noisyR_length, quietR_length]; omega)
    refine ⟨h2.1, ?_⟩
    rw [h2.2]
    have l3 := drain_length thrG ((fuel - 1) + 1) (noisyR b hm rk) (by omega)
    exact drain_exhausted thrR _ _ (by simp only [afterGenNoisy, List.length_append] at l3 ⊢; omega)

/-- … so the next `Next` returns false and leaves the state unchanged: the picker is exhausted,
    for good. -/
theorem next_final (hfit : StoreFits b) :
    next b hm rk (finalState b hm rk) = (false, finalState b hm rk) := by
  obtain ⟨h1, h2⟩ := final_exhausted b hm rk hfit
  unfold next
  rw [h1]
  unfold nextYieldRest
  simp only [thrR] at h2
  rw [h2]

end ChessVerif.Proofs.PickerExhaust
