/-
  C15 helper lemmas, part 6: the clauses of the property on the model table
  (probe after store, the effect of a store on the other keys, clear).
-/
import ChessVerif.Proofs.TranspRefine
import ChessVerif.Proofs.TranspSpec

namespace ChessVerif.Model.Transp
open ChessVerif
open ChessVerif.Spec.AbstractTT (mateThreshold rebased)

/-- `Value` only reads the stored score. -/
theorem value_rebase' (e : Entry) (v p q : Int) (he : e.value = storedValue v p)
    (hv : -32640 ≤ v ∧ v ≤ 32640) (hp : 0 ≤ p ∧ p ≤ 127) (hq : 0 ≤ q ∧ q ≤ 127) :
    e.valueAt q = rebased v p q := by
  have := value_rebase e.move e.packed e.gen v p q hv hp hq
  rw [← he] at this
  exact this

/-! ### one bucket -/

/-- The move `Insert` writes: the given one, or for a null move the one found under the key. -/
def keptMove (found : Option Entry) (sm : BitVec 16) : BitVec 16 :=
  if sm = 0 then (match found with | some old => old.move | none => 0) else sm

theorem Bucket.insert_keep (B : Bucket) (k : Sig) (gen : BitVec 8) (d ply : Int) (sm : BitVec 16)
    (v : Int) (typ : BitVec 8) (old : Entry) (hl : B.lookUp k = some old)
    (hk : keepCond old gen d typ) : B.insert k gen d ply sm v typ = B := by
  obtain ⟨j, hj, he⟩ := (Bucket.lookUp_some_iff _ _ _).1 hl
  rcases Bucket.insert_cases B k gen d ply sm v typ with
    ⟨_, _, _, h⟩ | ⟨j', hm, hnk, _⟩ | ⟨hm, _⟩
  · exact h
  · rw [hj] at hm; cases hm; rw [he] at hk; exact absurd hk hnk
  · rw [hj] at hm; cases hm

theorem Bucket.insert_probe (B : Bucket) (k : Sig) (gen : BitVec 8) (d ply : Int) (sm : BitVec 16)
    (v : Int) (typ : BitVec 8) (hn : ∀ old, B.lookUp k = some old → ¬ keepCond old gen d typ) :
    (B.insert k gen d ply sm v typ).lookUp k =
      some (mkEntry (keptMove (B.lookUp k) sm) v ply d typ gen) := by
  rcases Bucket.insert_cases B k gen d ply sm v typ with
    ⟨j, hm, hk, _⟩ | ⟨j, hm, _, he⟩ | ⟨hm, r, hr, he⟩
  · have hl : B.lookUp k = some (B.get j) := (Bucket.lookUp_some_iff _ _ _).2 ⟨j, hm, rfl⟩
    exact absurd hk (hn _ hl)
  · have hl : B.lookUp k = some (B.get j) := (Bucket.lookUp_some_iff _ _ _).2 ⟨j, hm, rfl⟩
    rw [he, Bucket.lookUp_write_same B j k _ hm, hl]
    rfl
  · have hl : B.lookUp k = none := (Bucket.lookUp_none_iff _ _).2 hm
    rw [he, Bucket.lookUp_write_fresh B r k _ hr hm, hl]
    have : keptMove none sm = sm := by
      unfold keptMove
      by_cases h0 : sm = 0
      · rw [if_pos h0]; exact h0.symm
      · rw [if_neg h0]
    rw [this]

theorem Bucket.insert_others (B : Bucket) (hnd : NoDupSig B) (k : Sig) (gen : BitVec 8) (d ply : Int)
    (sm : BitVec 16) (v : Int) (typ : BitVec 8) :
    ∃ victim : Option Sig, ∀ k', k' ≠ k → k' ≠ 0 →
      (B.insert k gen d ply sm v typ).lookUp k' = if some k' = victim then none else B.lookUp k' := by
  rcases Bucket.insert_cases B k gen d ply sm v typ with
    ⟨j, _, _, he⟩ | ⟨j, hm, _, he⟩ | ⟨hm, r, hr, he⟩
  · exact ⟨none, fun k' _ _ => by rw [he]; simp⟩
  · refine ⟨none, fun k' hk' _ => ?_⟩
    rw [he, Bucket.lookUp_write_same_other B j k k' _ hm hk']
    simp
  · refine ⟨some (B.sig r), fun k' hk' hk0 => ?_⟩
    rw [he]
    have h := Bucket.lookUp_write_fresh_other B r k k' (mkEntry sm v ply d typ gen) hr hm hk' hnd
    by_cases e : k' = B.sig r
    · rw [h.2 e hk0, e]; simp
    · rw [h.1 e]
      have : ¬ some k' = some (B.sig r) := fun h' => e (Option.some.inj h')
      rw [if_neg this]

/-! ### the table -/

theorem Table.insert_eq_self (t : Table) (s : StoreArgs)
    (h : (t.bucket (bucketIx s.hash t.size)).insert (Spec.AbstractTT.sigOf s.hash) s.gen s.d s.ply s.mv
      s.value s.typ = t.bucket (bucketIx s.hash t.size)) :
    t.step (.store s) = t := by
  simp only [Table.step]
  apply Array.ext
  · simp
  · intro i h1 h2
    have hb := Table.bucket_insert t s.hash s.gen s.d s.ply s.mv s.value s.typ i
    have e1 : (t.insert s.hash s.gen s.d s.ply s.mv s.value s.typ).bucket i
        = (t.insert s.hash s.gen s.d s.ply s.mv s.value s.typ)[i] := by
      simp [Table.bucket, Array.getD, h2]
    have e2 : t.bucket i = t[i] := by simp [Table.bucket, Array.getD, h2]
    rw [e1] at hb
    rw [hb]
    split
    · next hc =>
      have h' := h
      rw [← hc.1] at h'
      rw [h', e2]
    · exact e2

theorem Table.lookUp_store_self (t : Table) (ht : 0 < t.size) (s : StoreArgs) :
    (t.step (.store s)).lookUp s.hash =
      ((t.bucket (bucketIx s.hash t.size)).insert (Spec.AbstractTT.sigOf s.hash) s.gen s.d s.ply s.mv
        s.value s.typ).lookUp (Spec.AbstractTT.sigOf s.hash) := by
  have hix := bucketIx_lt s.hash t.size ht
  simp only [Table.step]
  rw [Table.lookUp_eq, Table.size_insert, Table.bucket_insert]
  simp [hix]

theorem Table.lookUp_store_other (t : Table) (hinv : Inv t) (s : StoreArgs) :
    ∃ victim : Option Sig, ∀ h' : BitVec 64, Spec.AbstractTT.sigOf h' ≠ 0 →
      ¬ (bucketIx h' t.size = bucketIx s.hash t.size ∧
          Spec.AbstractTT.sigOf h' = Spec.AbstractTT.sigOf s.hash) →
      (t.step (.store s)).lookUp h' =
        if bucketIx h' t.size = bucketIx s.hash t.size ∧ some (Spec.AbstractTT.sigOf h') = victim
        then none else t.lookUp h' := by
  have hix := bucketIx_lt s.hash t.size hinv.1
  obtain ⟨victim, hv⟩ := Bucket.insert_others (t.bucket (bucketIx s.hash t.size)) (hinv.2 _ hix)
    (Spec.AbstractTT.sigOf s.hash) s.gen s.d s.ply s.mv s.value s.typ
  refine ⟨victim, fun h' hs hne => ?_⟩
  simp only [Table.step]
  rw [Table.lookUp_eq, Table.size_insert, Table.bucket_insert, Table.lookUp_eq]
  by_cases e : bucketIx h' t.size = bucketIx s.hash t.size
  · have hk : Spec.AbstractTT.sigOf h' ≠ Spec.AbstractTT.sigOf s.hash := fun h => hne ⟨e, h⟩
    rw [e]
    simp only [hix, and_self, if_true, true_and]
    exact hv _ hk hs
  · simp [e]

theorem Table.lookUp_clear (t : Table) (h : BitVec 64) (hs : Spec.AbstractTT.sigOf h ≠ 0) :
    t.clear.lookUp h = none := by
  rw [Table.lookUp_eq, Table.bucket_clear]
  exact Bucket.zero_lookUp _ hs

theorem Table.lookUp_new (size : Nat) (h : BitVec 64) (hs : Spec.AbstractTT.sigOf h ≠ 0) :
    (Table.new size).lookUp h = none := by
  rw [Table.lookUp_eq, Table.bucket_new]
  exact Bucket.zero_lookUp _ hs

/-- A hit under a non-zero signature returns the abstract table's entry. -/
theorem Abs.hit {t : Table} {a : Spec.AbstractTT.State} (habs : Abs t a) (ht : 0 < t.size)
    (h : BitVec 64) (hs : Spec.AbstractTT.sigOf h ≠ 0) (e : Entry) (hit : t.lookUp h = some e) :
    ∃ st, a.m (bucketIx h t.size) (Spec.AbstractTT.sigOf h) = some st ∧ Rep e st := by
  have hix := bucketIx_lt h t.size ht
  have hb := habs.2 _ hix
  rw [Table.lookUp_eq] at hit
  cases hf : a.m (bucketIx h t.size) (Spec.AbstractTT.sigOf h) with
  | none =>
    rw [(hb.none_iff _ hs).1 hf] at hit
    cases hit
  | some st => exact ⟨st, rfl, hb.rep _ st e hs hf hit⟩

end ChessVerif.Model.Transp
