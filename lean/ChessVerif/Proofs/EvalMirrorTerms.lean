/-
  C17: the addend lists of every accumulator of the evaluation, computed on the mirrored position for
  colour c, are permutations of the lists of the original position for the other colour; hence the
  accumulators are equal whenever `+` is commutative and associative (`LawfulAdd`).
-/
import ChessVerif.Proofs.EvalMirrorInput
import Mathlib.Data.List.Perm.Basic
namespace ChessVerif.Eval
open ChessVerif

/-- what the symmetry proof needs of the score arithmetic: `+` is commutative and associative
    (true for wrapping int16 addition and for the rationals). -/
structure LawfulAdd {S : Type} (o : Ops S) : Prop where
  add_comm : ∀ a b, o.add a b = o.add b a
  add_assoc : ∀ a b c, o.add (o.add a b) c = o.add a (o.add b c)

variable {S : Type} {o : Ops S}

theorem sum_perm (L : LawfulAdd o) {l₁ l₂ : List S} (h : l₁.Perm l₂) : sum o l₁ = sum o l₂ := by
  unfold sum
  generalize o.ofInt 0 = z
  induction h generalizing z with
  | nil => rfl
  | cons x _ ih => simp only [List.foldl_cons]; exact ih _
  | swap x y l =>
    simp only [List.foldl_cons]
    rw [L.add_assoc, L.add_comm y x, ← L.add_assoc]
  | trans _ _ ih1 ih2 => exact (ih1 z).trans (ih2 z)

theorem perm_flatMap_congr {α β : Type} {l : List α} {f g : α → List β} (h : ∀ a ∈ l, (f a).Perm (g a)) :
    (l.flatMap f).Perm (l.flatMap g) := by
  induction l with
  | nil => simp
  | cons a l ih =>
    simp only [List.flatMap_cons]
    exact (h a (by simp)).append (ih fun b hb => h b (by simp [hb]))

/-- a loop over the squares of the flipped bitboard produces a permutation of the loop over the
    original squares, when the bodies correspond square by square. -/
theorem flatMap_bits_flip {β : Type} (x : BB) (g' g : Nat → List β)
    (h : ∀ s ∈ bits x, (g' (s ^^^ 56)).Perm (g s)) :
    ((bits (flipBB x)).flatMap g').Perm ((bits x).flatMap g) := by
  refine ((bits_flip_perm x).flatMap_right g').trans ?_
  rw [List.flatMap_map]
  exact perm_flatMap_congr h

theorem map_bits_flip {β : Type} (x : BB) (g' g : Nat → β) (h : ∀ s ∈ bits x, g' (s ^^^ 56) = g s) :
    ((bits (flipBB x)).map g').Perm ((bits x).map g) := by
  refine ((bits_flip_perm x).map g').trans ?_
  rw [List.map_map]
  have : (bits x).map (g' ∘ fun s => s ^^^ 56) = (bits x).map g := List.map_congr_left (by simpa using h)
  rw [this]


/-! ### Boolean tests -/

theorem flip_bne_zero (x : BB) : (flipBB x != 0) = (x != 0) := by
  rw [Bool.eq_iff_iff]; simp only [bne_iff_ne, ne_eq, flipBB_eq_zero_iff]

theorem flip_beq_zero (x : BB) : (flipBB x == 0) = (x == 0) := by
  rw [Bool.eq_iff_iff]; simp only [beq_iff_eq, flipBB_eq_zero_iff]

theorem flip_and_sub_one_beq (x : BB) : (flipBB x &&& (flipBB x - 1) == 0) = (x &&& (x - 1) == 0) := by
  rw [Bool.eq_iff_iff]; simp only [beq_iff_eq, and_sub_one_flip]

theorem flip_and_sub_one_bne (x : BB) : (flipBB x &&& (flipBB x - 1) != 0) = (x &&& (x - 1) != 0) := by
  rw [Bool.eq_iff_iff]; simp only [bne_iff_ne, ne_eq, and_sub_one_flip]

variable (cs : CoeffSet S) (i : EvalInput)

/-! ### simple terms -/

theorem psqt_mirror (ph : Nat) (c : Color) (p : Piece) (s : Nat) :
    psqt o cs ph c p (s ^^^ 56) = psqt o cs ph c.flip p s := by
  cases c <;> simp [psqt, Color.flip, xor56_xor56]

theorem pieceValueTerms_mirror (ph : Nat) (c : Color) :
    pieceValueTerms o cs (mirrorInput i) ph c = pieceValueTerms o cs i ph c.flip := by
  simp only [pieceValueTerms, popcount_own_mirror]

theorem eq_flip_iff (c s : Color) : c = s.flip ↔ c.flip = s := by
  cases c <;> cases s <;> simp [Color.flip]

theorem tempoTerms_mirror (ph : Nat) (c : Color) :
    tempoTerms o cs (mirrorInput i) ph c = tempoTerms o cs i ph c.flip := by
  simp only [tempoTerms, stm_mirror, eq_flip_iff]

theorem bishopPairTerms_mirror (ph : Nat) (c : Color) :
    bishopPairTerms o cs (mirrorInput i) ph c = bishopPairTerms o cs i ph c.flip := by
  simp only [bishopPairTerms, col_mirror, pc_mirror, ← flipBB_and, flip_and_sub_one_bne, popcount_flip]

theorem doubledTerms_mirror (ph : Nat) (c : Color) :
    doubledTerms o cs (mirrorInput i) ph c = doubledTerms o cs i ph c.flip := by
  simp only [doubledTerms, doubledPawns_mirror, popcount_flip]

theorem isolatedTerms_mirror (ph : Nat) (c : Color) :
    isolatedTerms o cs (mirrorInput i) ph c = isolatedTerms o cs i ph c.flip := by
  simp only [isolatedTerms, isolatedPawns_mirror, popcount_flip]

/-! ### passed pawns -/

theorem qSq_fin : ∀ s : Fin 64,
    (s.val ^^^ 56) % 8 + 56 = (s.val % 8) ^^^ 56 ∧ (s.val ^^^ 56) % 8 = (s.val % 8 + 56) ^^^ 56 ∧
    s.val % 8 + 56 < 64 ∧ (s.val ^^^ 56) / 8 = (s.val / 8) ^^^ 7 ∧ ((s.val ^^^ 56) / 8) ^^^ 7 = s.val / 8 := by
  decide

theorem passerTerms_mirror_aux (hk : OneKing i) (ph : Nat) (c d : Color) (hd : d = c.flip) :
    (passerTerms o cs (mirrorInput i) ph c).Perm (passerTerms o cs i ph d) := by
  unfold passerTerms
  have hpass : (mirrorInput i).passers c = flipBB (i.passers d) := by rw [hd]; exact passers_mirror i c
  have hatt : (mirrorInput i).pawnAtt c = flipBB (i.pawnAtt d) := by rw [hd]; exact pawnAtt_mirror i c
  have hks1 : (mirrorInput i).kingSq c = i.kingSq d ^^^ 56 := by rw [hd]; exact kingSq_mirror i hk c
  have hks2 : (mirrorInput i).kingSq c.flip = i.kingSq d.flip ^^^ 56 := by
    rw [hd]; exact kingSq_mirror i hk c.flip
  simp only [hpass]
  apply List.Perm.append
  · rw [flip_bne_zero, flip_and_sub_one_beq]
    by_cases hP : (i.passers d != 0 && i.passers d &&& (i.passers d - 1) == 0) = true
    · have hpow : isPow2 (i.passers d) = true := by
        unfold isPow2; rw [Bool.and_comm]; exact hP
      have hlt : lowestSet (i.passers d) < 64 := by
        obtain ⟨s, hs, h⟩ := (isPow2_iff _).mp hpow
        rw [h, lowestSet_bit s hs]; exact hs
      obtain ⟨q1, q2, q3, _, _⟩ := qSq_fin ⟨_, hlt⟩
      simp only at q1 q2 q3
      have hw := kingSq_lt i hk .white
      have hb := kingSq_lt i hk .black
      have q4 : lowestSet (i.passers d) % 8 < 64 := by omega
      rw [lowestSet_flip_of_isPow2 _ hpow]
      simp only [hP, if_true, pc_mirror, ← flipBB_or, flip_beq_zero, hks1, hks2]
      cases c
      · obtain rfl : d = .black := hd
        simp only [Color.flip, if_true, q1, reduceCtorEq, if_false, cheb_flip _ _ q4 hw, cheb_flip _ _ q4 hb]
        exact List.Perm.refl _
      · obtain rfl : d = .white := hd
        simp only [Color.flip, if_true, q2, reduceCtorEq, if_false, cheb_flip _ _ q3 hw, cheb_flip _ _ q3 hb]
        exact List.Perm.refl _
    · simp only [hP, Bool.false_eq_true, if_false]
      exact List.Perm.refl _
  · apply flatMap_bits_flip
    intro s hs
    obtain ⟨_, _, _, r1, r2⟩ := qSq_fin ⟨s, bits_lt hs⟩
    simp only at r1 r2
    rw [← flipBB_bit s (bits_lt hs), hatt, ← flipBB_and, flip_bne_zero]
    cases c
    · obtain rfl : d = .black := hd
      simp only [reduceCtorEq, if_false, if_true, r1]
      exact List.Perm.refl _
    · obtain rfl : d = .white := hd
      simp only [reduceCtorEq, if_false, if_true, r2]
      exact List.Perm.refl _

theorem passerTerms_mirror (hk : OneKing i) (ph : Nat) (c : Color) :
    (passerTerms o cs (mirrorInput i) ph c).Perm (passerTerms o cs i ph c.flip) :=
  passerTerms_mirror_aux cs i hk ph c c.flip rfl

end ChessVerif.Eval
