/-
  C20, part 5: `Chunk.Read` returns `file[start, stop-1)` for the next line address, through any
  sequence of buffer refills, provided the line content fits the buffer.
-/
import ChessVerif.Spec.Tuner
import Mathlib.Data.List.Basic

namespace ChessVerif.Tuner

/-- What `Read` relies on between calls: the window `[mapStart, mapEnd)` lies inside the file, is not
    longer than the buffer, and the buffer holds exactly those file bytes. -/
structure BufOK (f : File) (bufLen : Nat) (c : Chunk) : Prop where
  le : c.mapStart ≤ c.mapEnd
  inFile : c.mapEnd ≤ f.size
  fits : c.mapEnd - c.mapStart ≤ bufLen
  bytes : ∀ i, c.mapStart + i < c.mapEnd → c.mapBytes i = f.byte (c.mapStart + i)

/-- A line address `Read` can serve: non-empty, inside the file, content not longer than the buffer. -/
structure AddrOK (f : File) (bufLen : Nat) (a : LineAddr) : Prop where
  lt : a.start < a.stop
  inFile : a.stop ≤ f.size
  fits : a.stop - a.start - 1 ≤ bufLen

theorem map_range'_congr (g h : Nat → UInt8) (a b n : Nat) (hgh : ∀ j, j < n → g (a + j) = h (b + j)) :
    (List.range' a n).map g = (List.range' b n).map h := by
  apply List.ext_getElem
  · simp
  · intro i h1 h2
    have hi : i < n := by simpa using h1
    simp only [List.getElem_map, List.getElem_range', Nat.one_mul]
    exact hgh i hi

/-- **read_exact** (one call, any buffer state satisfying the invariant). -/
theorem read_step (f : File) (bufLen : Nat) (c : Chunk) (hok : BufOK f bufLen c)
    (hix : c.chunkLinesIx < c.chunkLines.size) (ha : AddrOK f bufLen c.chunkLines[c.chunkLinesIx]) :
    ∃ c', c.read f bufLen = (.line (f.slice c.chunkLines[c.chunkLinesIx].start (c.chunkLines[c.chunkLinesIx].stop - 1)), c') ∧
      BufOK f bufLen c' ∧ c'.chunkLines = c.chunkLines ∧ c'.chunkLinesIx = c.chunkLinesIx + 1 := by
  unfold Chunk.read
  rw [if_neg (by omega), getElem!_pos c.chunkLines c.chunkLinesIx hix]
  generalize c.chunkLines[c.chunkLinesIx] = addr at ha
  obtain ⟨hlt, hin, hfit⟩ := ha
  by_cases hre : (decide (c.mapStart > addr.start) || decide (c.mapEnd < addr.stop)) = true
  · -- refill
    simp only [hre, if_true]
    have hcnt : addr.stop - addr.start - 1 < min bufLen (f.size - addr.start) ∨
        addr.stop - addr.start - 1 ≤ min bufLen (f.size - addr.start) := Or.inr (by omega)
    have hpan : ¬ ((decide (addr.stop - addr.start - 1 < addr.start - addr.start) ||
        decide (bufLen < addr.stop - addr.start - 1)) = true) := by
      simp only [Bool.or_eq_true, decide_eq_true_eq]; omega
    simp only [gt_iff_lt]
    rw [if_neg hpan]
    refine ⟨_, Prod.ext ?_ rfl, ?_, rfl, rfl⟩
    · simp only
      congr 1
      rw [Nat.sub_self, Nat.sub_zero]
      unfold File.slice
      rw [show addr.stop - 1 - addr.start = addr.stop - addr.start - 1 by omega]
      apply map_range'_congr
      intro j hj
      have : j < min bufLen (f.size - addr.start) := by omega
      simp only [Nat.zero_add, this, if_true]
    · refine ⟨by simp, by simp; omega, by simp; omega, ?_⟩
      intro i hi
      simp only at hi ⊢
      have : i < min bufLen (f.size - addr.start) := by omega
      simp only [this, if_true]
  · -- the line is inside the window
    simp only [hre, Bool.false_eq_true, if_false]
    have hre' : ¬ (c.mapStart > addr.start) ∧ ¬ (c.mapEnd < addr.stop) := by
      simpa using hre
    obtain ⟨h1, h2, h3, h4⟩ := hok
    have hpan : ¬ ((decide (addr.stop - c.mapStart - 1 < addr.start - c.mapStart) ||
        decide (bufLen < addr.stop - c.mapStart - 1)) = true) := by
      simp only [Bool.or_eq_true, decide_eq_true_eq]; omega
    simp only [gt_iff_lt]
    rw [if_neg hpan]
    refine ⟨_, Prod.ext ?_ rfl, ⟨h1, h2, h3, h4⟩, rfl, rfl⟩
    simp only
    congr 1
    unfold File.slice
    rw [show addr.stop - c.mapStart - 1 - (addr.start - c.mapStart) = addr.stop - 1 - addr.start by omega]
    apply map_range'_congr
    intro j hj
    rw [h4 _ (by omega)]
    congr 1
    omega

/-- Reading a chunk to EOF delivers `file[start, stop-1)` of every remaining line address, in order. -/
theorem readAllLoop_spec (f : File) (bufLen : Nat) :
    ∀ (k : Nat) (c : Chunk) (acc : List (List UInt8)) (fuel : Nat),
      BufOK f bufLen c → c.chunkLinesIx ≤ c.chunkLines.size → c.chunkLines.size - c.chunkLinesIx = k → k < fuel →
      (∀ a ∈ c.chunkLines.toList, AddrOK f bufLen a) →
      ∃ c', readAllLoop f bufLen fuel c acc =
        some (acc.reverse ++ (c.chunkLines.toList.drop c.chunkLinesIx).map (fun a => f.slice a.start (a.stop - 1)), c') := by
  intro k
  induction k with
  | zero =>
    intro c acc fuel _ hle hk hfuel _
    obtain ⟨fuel', rfl⟩ : ∃ m, fuel = m + 1 := ⟨fuel - 1, by omega⟩
    have hge : c.chunkLinesIx ≥ c.chunkLines.size := by omega
    have hread : c.read f bufLen = (.eof, c) := by unfold Chunk.read; rw [if_pos hge]
    unfold readAllLoop
    simp only [hread]
    refine ⟨c, ?_⟩
    rw [List.drop_eq_nil_of_le (by simpa using hge)]
    simp
  | succ k ih =>
    intro c acc fuel hok hle hk hfuel hall
    obtain ⟨fuel', rfl⟩ : ∃ m, fuel = m + 1 := ⟨fuel - 1, by omega⟩
    have hix : c.chunkLinesIx < c.chunkLines.size := by omega
    have ha := hall c.chunkLines[c.chunkLinesIx] (by simp)
    obtain ⟨c1, hread, hok1, hl1, hi1⟩ := read_step f bufLen c hok hix ha
    unfold readAllLoop
    simp only [hread]
    obtain ⟨c2, h2⟩ := ih c1 (_ :: acc) fuel' hok1 (by rw [hl1, hi1]; omega) (by rw [hl1, hi1]; omega) (by omega)
      (by rw [hl1]; exact hall)
    refine ⟨c2, ?_⟩
    rw [h2, hl1, hi1]
    have hd : c.chunkLines.toList.drop c.chunkLinesIx =
        c.chunkLines[c.chunkLinesIx] :: c.chunkLines.toList.drop (c.chunkLinesIx + 1) := by
      rw [← Array.getElem_toList hix]
      exact List.drop_eq_getElem_cons (by simpa using hix)
    rw [hd]
    simp

/-- A freshly opened chunk read to EOF. -/
theorem readAll_spec (f : File) (bufLen : Nat) (c : Chunk) (hs : c.mapStart = 0) (he : c.mapEnd = 0)
    (hi : c.chunkLinesIx = 0) (hall : ∀ a ∈ c.chunkLines.toList, AddrOK f bufLen a) :
    c.readAll f bufLen = some (c.chunkLines.toList.map (fun a => f.slice a.start (a.stop - 1))) := by
  have hok : BufOK f bufLen c := ⟨by omega, by omega, by omega, fun i h => by omega⟩
  obtain ⟨c', h⟩ := readAllLoop_spec f bufLen (c.chunkLines.size - c.chunkLinesIx) c [] (c.chunkLines.size + 1)
    hok (by omega) rfl (by omega) hall
  unfold Chunk.readAll
  rw [h, hi]
  simp

end ChessVerif.Tuner
