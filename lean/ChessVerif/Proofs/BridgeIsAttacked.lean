/-
  Third layer of the bridge, part 2: the engine's attack detection `Board.isAttacked by occ target`
  with a GENERAL occupancy, its specialisation to the board's own occupancy, and `inCheck`.
-/
import ChessVerif.Proofs.BridgeAttack

namespace ChessVerif.Bridge
open ChessVerif Board Rules

/-! ### non-emptiness tests -/

theorem bne_zero_iff (x : BB) : (x != 0) = true ↔ ∃ i, i < 64 ∧ x.getLsbD i = true := by
  rw [bne_iff_ne, Ne, PL.eq_zero_iff]
  constructor
  · intro h
    apply Classical.byContradiction
    intro hc
    apply h
    intro i hi
    cases e : x.getLsbD i
    · rfl
    · exact absurd ⟨i, hi, e⟩ hc
  · rintro ⟨i, hi, e⟩ h
    rw [h i hi] at e
    exact Bool.noConfusion e

theorem and3_bne (X Y Z : BB) :
    (X &&& Y &&& Z != 0) = true ↔
      ∃ a, a < 64 ∧ X.getLsbD a = true ∧ Y.getLsbD a = true ∧ Z.getLsbD a = true := by
  rw [bne_zero_iff]
  simp only [BitVec.getLsbD_and, Bool.and_eq_true, and_assoc]

theorem and2_bne (X Y : BB) :
    (X &&& Y != 0) = true ↔ ∃ a, a < 64 ∧ X.getLsbD a = true ∧ Y.getLsbD a = true := by
  rw [bne_zero_iff]
  simp only [BitVec.getLsbD_and, Bool.and_eq_true]

theorem ite_true_or (A : Prop) [Decidable A] (B : Bool) : (if A then true else B) = true ↔ A ∨ B = true := by
  by_cases h : A <;> simp [h]

/-! ### the five probes of `IsAttacked`, one by one -/

section probes
variable {b : Board} {p : Pos} {o : BB}

/-- pawn probe: the capture formula applied to all pawns of the attacking colour. -/
theorem pawnProbe_iff (h : WFP b) (p : Pos) (by_ : Color) (target : BB) :
    (Attacks.pawnCaptureMoves (b.pieceBB .pawn &&& b.colorBB by_) by_ &&& target != 0) = true ↔
      ∃ t, t < 64 ∧ target.getLsbD t = true ∧ ∃ a, a < 64 ∧ (b.colorBB by_).getLsbD a = true ∧
        b.pieceAt a = .pawn ∧ Rules.manAttacks p (by_, .pawn) a t = true := by
  rw [and2_bne]
  constructor
  · rintro ⟨t, ht, hcap, htg⟩
    obtain ⟨a, ha, hX, hca⟩ := (pawnCapture_union _ _ _).1 hcap
    rw [BitVec.getLsbD_and, Bool.and_eq_true, h.piece_iff a ha .pawn (by decide)] at hX
    exact ⟨t, ht, htg, a, ha, hX.2, hX.1, (pawn_attacks_iff p by_ a t ha ht).1 hca⟩
  · rintro ⟨t, ht, htg, a, ha, hc, hk, hm⟩
    refine ⟨t, ht, (pawnCapture_union _ _ _).2 ⟨a, ha, ?_, (pawn_attacks_iff p by_ a t ha ht).2 hm⟩, htg⟩
    rw [BitVec.getLsbD_and, Bool.and_eq_true, h.piece_iff a ha .pawn (by decide)]
    exact ⟨hk, hc⟩

theorem kingProbe_iff (h : WFP b) (p : Pos) (by_ : Color) (t : Nat) (ht : t < 64) :
    (Attacks.kingMoves t &&& b.pieceBB .king &&& b.colorBB by_ != 0) = true ↔
      ∃ a, a < 64 ∧ (b.colorBB by_).getLsbD a = true ∧ b.pieceAt a = .king ∧
        Rules.manAttacks p (by_, .king) a t = true := by
  rw [and3_bne]
  constructor
  · rintro ⟨a, ha, h1, h2, h3⟩
    rw [kingMoves_symm a t ha ht] at h1
    exact ⟨a, ha, h3, (h.piece_iff a ha .king (by decide)).1 h2, (king_attacks_iff p by_ a t ha ht).1 h1⟩
  · rintro ⟨a, ha, hc, hk, hm⟩
    refine ⟨a, ha, ?_, (h.piece_iff a ha .king (by decide)).2 hk, hc⟩
    rw [kingMoves_symm a t ha ht]
    exact (king_attacks_iff p by_ a t ha ht).2 hm

theorem knightProbe_iff (h : WFP b) (p : Pos) (by_ : Color) (t : Nat) (ht : t < 64) :
    (Attacks.knightMoves t &&& b.pieceBB .knight &&& b.colorBB by_ != 0) = true ↔
      ∃ a, a < 64 ∧ (b.colorBB by_).getLsbD a = true ∧ b.pieceAt a = .knight ∧
        Rules.manAttacks p (by_, .knight) a t = true := by
  rw [and3_bne]
  constructor
  · rintro ⟨a, ha, h1, h2, h3⟩
    rw [knightMoves_symm a t ha ht] at h1
    exact ⟨a, ha, h3, (h.piece_iff a ha .knight (by decide)).1 h2, (knight_attacks_iff p by_ a t ha ht).1 h1⟩
  · rintro ⟨a, ha, hc, hk, hm⟩
    refine ⟨a, ha, ?_, (h.piece_iff a ha .knight (by decide)).2 hk, hc⟩
    rw [knightMoves_symm a t ha ht]
    exact (knight_attacks_iff p by_ a t ha ht).2 hm

theorem bishopProbe_iff (h : WFP b) (hp : EmptyIs p o) (by_ : Color) (t : Nat) (ht : t < 64) :
    (Attacks.bishopMoves t o &&& (b.pieceBB .queen ||| b.pieceBB .bishop) &&& b.colorBB by_ != 0) = true ↔
      ∃ a, a < 64 ∧ (b.colorBB by_).getLsbD a = true ∧ (b.pieceAt a = .queen ∨ b.pieceAt a = .bishop) ∧
        Rules.manAttacks p (by_, .bishop) a t = true := by
  rw [and3_bne]
  constructor
  · rintro ⟨a, ha, h1, h2, h3⟩
    rw [bishopMoves_symm o a t ha ht] at h1
    rw [BitVec.getLsbD_or, Bool.or_eq_true, h.piece_iff a ha .queen (by decide),
      h.piece_iff a ha .bishop (by decide)] at h2
    exact ⟨a, ha, h3, h2, (bishop_attacks_iff hp by_ a t ha ht).1 h1⟩
  · rintro ⟨a, ha, hc, hk, hm⟩
    refine ⟨a, ha, ?_, ?_, hc⟩
    · rw [bishopMoves_symm o a t ha ht]
      exact (bishop_attacks_iff hp by_ a t ha ht).2 hm
    · rw [BitVec.getLsbD_or, Bool.or_eq_true, h.piece_iff a ha .queen (by decide),
        h.piece_iff a ha .bishop (by decide)]
      exact hk

theorem rookProbe_iff (h : WFP b) (hp : EmptyIs p o) (by_ : Color) (t : Nat) (ht : t < 64) :
    (Attacks.rookMoves t o &&& (b.pieceBB .rook ||| b.pieceBB .queen) &&& b.colorBB by_ != 0) = true ↔
      ∃ a, a < 64 ∧ (b.colorBB by_).getLsbD a = true ∧ (b.pieceAt a = .rook ∨ b.pieceAt a = .queen) ∧
        Rules.manAttacks p (by_, .rook) a t = true := by
  rw [and3_bne]
  constructor
  · rintro ⟨a, ha, h1, h2, h3⟩
    rw [rookMoves_symm o a t ha ht] at h1
    rw [BitVec.getLsbD_or, Bool.or_eq_true, h.piece_iff a ha .rook (by decide),
      h.piece_iff a ha .queen (by decide)] at h2
    exact ⟨a, ha, h3, h2, (rook_attacks_iff hp by_ a t ha ht).1 h1⟩
  · rintro ⟨a, ha, hc, hk, hm⟩
    refine ⟨a, ha, ?_, ?_, hc⟩
    · rw [rookMoves_symm o a t ha ht]
      exact (rook_attacks_iff hp by_ a t ha ht).2 hm
    · rw [BitVec.getLsbD_or, Bool.or_eq_true, h.piece_iff a ha .rook (by decide),
        h.piece_iff a ha .queen (by decide)]
      exact hk

end probes

/-! ### `IsAttacked` with a general occupancy -/

/-- **`IsAttacked(by, occ, target)`, general occupancy.**  The attackers are the men of colour `by`
    *of the board* (colour set and per-square map); the lines of sight are those of any position `p`
    whose vacant squares are the complement of `occ` (for leapers and pawns `p` is irrelevant). -/
theorem isAttacked_iff {b : Board} (h : WFP b) {p : Pos} {o : BB} (hp : EmptyIs p o)
    (by_ : Color) (target : BB) :
    b.isAttacked by_ o target = true ↔
      ∃ t, t < 64 ∧ target.getLsbD t = true ∧ ∃ a, a < 64 ∧ (b.colorBB by_).getLsbD a = true ∧
        Rules.manAttacks p (by_, b.pieceAt a) a t = true := by
  unfold Board.isAttacked
  simp only []
  rw [ite_true_or, pawnProbe_iff h p by_ target, List.any_eq_true]
  constructor
  · rintro (⟨t, ht, htg, a, ha, hc, hk, hm⟩ | ⟨t, htm, hf⟩)
    · exact ⟨t, ht, htg, a, ha, hc, by rw [hk]; exact hm⟩
    · obtain ⟨ht, htg⟩ := mem_bits.1 htm
      refine ⟨t, ht, htg, ?_⟩
      rw [Bool.or_eq_true, Bool.or_eq_true, Bool.or_eq_true, kingProbe_iff h p by_ t ht,
        knightProbe_iff h p by_ t ht, bishopProbe_iff h hp by_ t ht, rookProbe_iff h hp by_ t ht] at hf
      rcases hf with ((⟨a, ha, hc, hk, hm⟩ | ⟨a, ha, hc, hk, hm⟩) | ⟨a, ha, hc, hk, hm⟩) | ⟨a, ha, hc, hk, hm⟩
      · exact ⟨a, ha, hc, by rw [hk]; exact hm⟩
      · exact ⟨a, ha, hc, by rw [hk]; exact hm⟩
      · refine ⟨a, ha, hc, ?_⟩
        rcases hk with hk | hk <;> rw [hk]
        · rw [manAttacks_queen, hm]; rfl
        · exact hm
      · refine ⟨a, ha, hc, ?_⟩
        rcases hk with hk | hk <;> rw [hk]
        · exact hm
        · rw [manAttacks_queen, hm, Bool.or_true]
  · rintro ⟨t, ht, htg, a, ha, hc, hm⟩
    cases hk : b.pieceAt a <;> rw [hk] at hm
    · exact absurd hm (by rw [manAttacks_none]; exact Bool.false_ne_true)
    · exact Or.inl ⟨t, ht, htg, a, ha, hc, hk, hm⟩
    all_goals
      right
      refine ⟨t, mem_bits.2 ⟨ht, htg⟩, ?_⟩
      rw [Bool.or_eq_true, Bool.or_eq_true, Bool.or_eq_true, kingProbe_iff h p by_ t ht,
        knightProbe_iff h p by_ t ht, bishopProbe_iff h hp by_ t ht, rookProbe_iff h hp by_ t ht]
    · exact Or.inl (Or.inl (Or.inr ⟨a, ha, hc, hk, hm⟩))
    · exact Or.inl (Or.inr ⟨a, ha, hc, Or.inr hk, hm⟩)
    · exact Or.inr ⟨a, ha, hc, Or.inl hk, hm⟩
    · rw [manAttacks_queen, Bool.or_eq_true] at hm
      rcases hm with hm | hm
      · exact Or.inl (Or.inr ⟨a, ha, hc, Or.inl hk, hm⟩)
      · exact Or.inr ⟨a, ha, hc, Or.inr hk, hm⟩
    · exact Or.inl (Or.inl (Or.inl ⟨a, ha, hc, hk, hm⟩))

/-- the same with the attackers read off the abstraction. -/
theorem isAttacked_iff_abs {b : Board} (h : WFP b) {p : Pos} {o : BB} (hp : EmptyIs p o)
    (by_ : Color) (target : BB) :
    b.isAttacked by_ o target = true ↔
      ∃ t, t < 64 ∧ target.getLsbD t = true ∧ ∃ a, a < 64 ∧ (abs b).hasColor a by_ = true ∧
        ∃ m, (abs b).at_ a = some m ∧ Rules.manAttacks p m a t = true := by
  rw [isAttacked_iff h hp]
  constructor
  · rintro ⟨t, ht, htg, a, ha, hc, hm⟩
    exact ⟨t, ht, htg, a, ha, (abs_hasColor_iff h a by_).2 hc, _, abs_at_of_color h a by_ hc, hm⟩
  · rintro ⟨t, ht, htg, a, ha, hc, m, hat, hm⟩
    have hc' := (abs_hasColor_iff h a by_).1 hc
    rw [abs_at_of_color h a by_ hc', Option.some.injEq] at hat
    subst hat
    exact ⟨t, ht, htg, a, ha, hc', hm⟩

/-- `attackedBy` unfolded. -/
theorem attackedBy_iff (p : Pos) (c : Color) (t : Nat) :
    Rules.attackedBy p c t = true ↔
      ∃ a, a < 64 ∧ ∃ k, p.at_ a = some (c, k) ∧ Rules.manAttacks p (c, k) a t = true := by
  unfold Rules.attackedBy
  rw [List.any_eq_true]
  constructor
  · rintro ⟨a, ha, hh⟩
    rw [Bool.and_eq_true, hasColor_iff_at] at hh
    obtain ⟨⟨k, hk⟩, hatt⟩ := hh
    unfold Rules.attacks at hatt
    rw [hk] at hatt
    exact ⟨a, List.mem_range.1 ha, k, hk, hatt⟩
  · rintro ⟨a, ha, k, hk, hm⟩
    refine ⟨a, List.mem_range.2 ha, ?_⟩
    rw [Bool.and_eq_true, hasColor_iff_at]
    refine ⟨⟨k, hk⟩, ?_⟩
    unfold Rules.attacks
    rw [hk]; exact hm

/-- **`IsAttacked` with a general occupancy, against a rule-book position.**  `p` is any position whose
    vacant squares are the complement of `occ` and whose men of colour `by` are exactly the board's
    men of that colour (e.g. the board with the defending king lifted, or with an en-passant pair removed). -/
theorem isAttacked_iff_attackedBy {b : Board} (h : WFP b) {p : Pos} {o : BB} (hp : EmptyIs p o)
    (by_ : Color) (target : BB)
    (hag : ∀ a, a < 64 → ∀ k, (p.at_ a = some (by_, k) ↔ (abs b).at_ a = some (by_, k))) :
    b.isAttacked by_ o target = true ↔
      ∃ t, t < 64 ∧ target.getLsbD t = true ∧ Rules.attackedBy p by_ t = true := by
  rw [isAttacked_iff h hp]
  constructor
  · rintro ⟨t, ht, htg, a, ha, hc, hm⟩
    refine ⟨t, ht, htg, (attackedBy_iff p by_ t).2 ⟨a, ha, b.pieceAt a, ?_, hm⟩⟩
    exact (hag a ha _).2 (abs_at_of_color h a by_ hc)
  · rintro ⟨t, ht, htg, hatt⟩
    obtain ⟨a, ha, k, hk, hm⟩ := (attackedBy_iff p by_ t).1 hatt
    have := (abs_at_eq_some h a by_ k).1 ((hag a ha k).1 hk)
    exact ⟨t, ht, htg, a, ha, this.1, by rw [this.2]; exact hm⟩

/-- **`IsAttacked` with the board's own occupancy** is the rule book's `attackedBy`. -/
theorem isAttacked_occ_iff {b : Board} (h : WFP b) (by_ : Color) (target : BB) :
    b.isAttacked by_ b.occ target = true ↔
      ∃ t, t < 64 ∧ target.getLsbD t = true ∧ Rules.attackedBy (abs b) by_ t = true :=
  isAttacked_iff_attackedBy h (emptyIs_abs b) by_ target (fun _ _ _ => Iff.rfl)

/-- one-square target. -/
theorem isAttacked_occ_bit {b : Board} (h : WFP b) (by_ : Color) (t : Nat) (ht : t < 64) :
    b.isAttacked by_ b.occ (bit t) = Rules.attackedBy (abs b) by_ t := by
  rw [Bool.eq_iff_iff, isAttacked_occ_iff h]
  constructor
  · rintro ⟨u, hu, hb, hatt⟩
    rw [bit_getLsbD t u ht, decide_eq_true_eq] at hb
    subst hb; exact hatt
  · intro hatt
    exact ⟨t, ht, by rw [bit_getLsbD t t ht]; simp, hatt⟩

theorem mem_kingSquares (p : Pos) (c : Color) (s : Nat) :
    s ∈ Rules.kingSquares p c ↔ s < 64 ∧ p.has s c .king = true := by
  unfold Rules.kingSquares
  rw [List.mem_filter, List.mem_range]

/-- **`InCheck`** is the rule book's `inCheck`. -/
theorem inCheck_iff {b : Board} (h : WFP b) (c : Color) : b.inCheck c = Rules.inCheck (abs b) c := by
  rw [Bool.eq_iff_iff]
  unfold Board.inCheck Rules.inCheck
  rw [isAttacked_occ_iff h, List.any_eq_true]
  constructor
  · rintro ⟨t, ht, htg, hatt⟩
    exact ⟨t, (mem_kingSquares _ _ _).2 ⟨ht, (abs_has_set h t ht c .king (by decide)).1 htg⟩, hatt⟩
  · rintro ⟨t, hmem, hatt⟩
    obtain ⟨ht, hk⟩ := (mem_kingSquares _ _ _).1 hmem
    exact ⟨t, ht, (abs_has_set h t ht c .king (by decide)).2 hk, hatt⟩

end ChessVerif.Bridge
