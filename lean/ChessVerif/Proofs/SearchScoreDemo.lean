/-
  The score laws hold for the demonstration components of Proofs/SearchDemo.lean (no table, raw
  evaluation 0, unwrapped margins) on the family of boards without men: the hypotheses of the
  score-range theorems are jointly satisfiable.
-/
import ChessVerif.Proofs.SearchScoreGo
import ChessVerif.Proofs.SearchScoreFree
import ChessVerif.Proofs.SearchNmpFloor
import ChessVerif.Proofs.SearchDemo

namespace ChessVerif
namespace Search

theorem demo_scoreLaws (K : Keys) : ScoreLaws (demoComp K) NoMen (fun _ => True) (fun _ => 0) where
  tt_ok := fun _ _ => trivial
  tt_probe := fun _ _ _ _ _ _ _ h => by simp [demoComp] at h
  tt_store := fun _ _ _ _ _ _ _ _ _ _ _ _ => trivial
  tt_failHigh := fun _ _ _ _ _ _ => trivial
  tt_nextGen := fun _ _ => trivial
  rfp_sound := fun d se beta hd _ h => by
    simp only [demoComp, Bool.and_eq_true, decide_eq_true_eq] at h
    have h2 : beta + d * 100 ≤ se := h.1.2
    simp only [Score] at *
    omega
  nmp_sound := fun _ d se beta h => by
    simp only [demoComp, Bool.and_eq_true, decide_eq_true_eq] at h
    exact h.1.2
  lmr_late := fun d q h => by
    simp only [demoComp, Bool.and_eq_true, decide_eq_true_eq] at h
    omega
  window := by simp [demoComp]
  q_measure := fun _ b _ m w hg h => by
    have hgen := gen_noMen hg
    have : MoveGen.genNoisy b = [] := by
      have : MoveGen.genNoisy b ++ MoveGen.genNotNoisy b = [] := hgen
      exact (List.append_eq_nil_iff.1 this).1
    simp [demoComp, this] at h
  measure_bound := fun _ _ => by decide

/-- `demoComp` guards its null-move test against the mate band: its runs never raise `St.nmpOut`. -/
theorem demo_nmpFloor (K : Keys) : NmpFloor (demoComp K) := fun _ d se beta h => by
  simp only [demoComp, Bool.and_eq_true, decide_eq_true_eq] at h
  exact h.2

/-- the parameter laws of the `GoSane`-free argument hold for `demoComp` (window 44, unwrapped margin). -/
theorem demo_aspLaws (K : Keys) : AspLaws (demoComp K) where
  windowSafe := by show WSafe 44; decide
  rfp_shallow := fun d se beta hd _ _ h => by
    simp only [demoComp, Bool.and_eq_true, decide_eq_true_eq] at h
    have h2 : beta + d * 100 ≤ se := h.1.2
    simp only [Score] at *
    omega

/-- with no fuel every search function gives up at once: `GoSane` holds (no window is ever widened). -/
theorem demo_goSane (K : Keys) (L : Limits) (clock : Clock) (e : Engine Unit) (b : Board) :
    GoSane (demoComp K) L clock 0 e b := by
  unfold GoSane
  simp only [idSane, aspSane, aspiration]
  split <;> trivial

end Search
end ChessVerif
