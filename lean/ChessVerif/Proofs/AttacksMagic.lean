/-
  C12, soundness of the per-square kernel check (`MagicCheck.checkSq`, see Proofs/AttacksCheck.lean)
  with respect to the model of the Go init loop and lookup (`Attacks.fillTable`, `Attacks.magicIndex`):

   * rows stored as one big natural (`getCell` / `setCell` laws);
   * the structural subset enumeration is complete (`allSubsets_complete`);
   * `BitVec 64` ↔ `Nat` bridges for the magic index and the carry-rippler step;
   * the checker's replay simulates `Attacks.fillLoop` (`fill_sim`), including the exit of the
     do-while loop when the walk returns to `mask` (so nothing has to be known about the
     carry-rippler beyond what the kernel observed for this mask);
   * `checkSq_sound`.
-/
import ChessVerif.Proofs.AttacksCheck
import ChessVerif.Model.Attacks

set_option linter.unusedSimpArgs false
set_option linter.unusedVariables false

open ChessVerif ChessVerif.MagicCheck

namespace ChessVerif.AttacksProofs

/-! ### Rows as big naturals -/

theorem land_eq (a b : Nat) : Nat.land a b = a &&& b := rfl
theorem lor_eq (a b : Nat) : Nat.lor a b = a ||| b := rfl
theorem xor_eq (a b : Nat) : Nat.xor a b = a ^^^ b := rfl
theorem shl_eq (a b : Nat) : Nat.shiftLeft a b = a <<< b := rfl
theorem shr_eq (a b : Nat) : Nat.shiftRight a b = a >>> b := rfl

theorem M64_eq : M64 = 2 ^ 64 - 1 := by decide
theorem P64_eq : P64 = 2 ^ 64 := by decide

theorem testBit_of_lt_two_pow_64 (v k : Nat) (hv : v < 2 ^ 64) (hk : 64 ≤ k) : v.testBit k = false := by
  apply Nat.testBit_lt_two_pow
  exact Nat.lt_of_lt_of_le hv (Nat.pow_le_pow_right (by decide) hk)

theorem testBit_getCell (t i k : Nat) :
    (getCell t i).testBit k = (decide (k < 64) && t.testBit (64 * i + k)) := by
  unfold getCell
  rw [land_eq, shr_eq, M64_eq, Nat.and_two_pow_sub_one_eq_mod, Nat.testBit_mod_two_pow, Nat.testBit_shiftRight]

theorem getCell_lt (t i : Nat) : getCell t i < 2 ^ 64 := by
  unfold getCell
  rw [land_eq, shr_eq, M64_eq, Nat.and_two_pow_sub_one_eq_mod]
  exact Nat.mod_lt _ (by decide)

theorem getCell_zero (i : Nat) : getCell 0 i = 0 := by
  apply Nat.eq_of_testBit_eq; intro k; simp [testBit_getCell]

theorem getCell_setCell (t i v j : Nat) (hv : v < 2 ^ 64) :
    getCell (setCell t i v) j = if i = j then v else getCell t j := by
  apply Nat.eq_of_testBit_eq
  intro k
  rw [testBit_getCell]
  unfold setCell
  rw [xor_eq, xor_eq, shl_eq, Nat.testBit_xor, Nat.testBit_shiftLeft, Nat.testBit_xor, testBit_getCell]
  by_cases hk : k < 64
  · by_cases hij : i = j
    · subst hij
      have h1 : 64 * i + k ≥ 64 * i := by omega
      have h2 : 64 * i + k - 64 * i = k := by omega
      simp [hk, h1, h2]
    · simp only [hij, if_false, testBit_getCell, hk, decide_true, Bool.true_and]
      by_cases hge : 64 * j + k ≥ 64 * i
      · have hbig : 64 ≤ 64 * j + k - 64 * i := by omega
        have hlt : ¬ (64 * j + k - 64 * i < 64) := by omega
        simp [hge, hlt, testBit_of_lt_two_pow_64 v _ hv hbig]
      · simp [hge]
  · have hk' : 64 ≤ k := by omega
    by_cases hij : i = j
    · simp [hk, hij, testBit_of_lt_two_pow_64 v _ hv hk']
    · simp [hk, hij, testBit_getCell]


/-! ### Structural enumeration of the subsets of a mask -/

theorem allSubsets_complete (p : Nat → Bool) :
    ∀ (is : List Nat) (acc : Nat), allSubsets p is acc = true →
      ∀ o, o &&& orBits is = o → p (acc ||| o) = true := by
  intro is
  induction is with
  | nil =>
    intro acc h o ho
    have : o = 0 := by simpa [orBits] using ho.symm
    subst this
    simpa [allSubsets] using h
  | cons i is ih =>
    intro acc h o ho
    simp only [allSubsets, Bool.and_eq_true] at h
    -- o' := the part of o inside the remaining bits
    have ho' : (o &&& orBits is) &&& orBits is = o &&& orBits is := by
      rw [Nat.and_assoc, Nat.and_self]
    have hbit : ∀ k, o.testBit k = true → (orBits is).testBit k = true ∨ k = i := by
      intro k hk
      have := congrArg (fun x => x.testBit k) ho
      simp only [orBits, lor_eq, shl_eq, Nat.testBit_and, Nat.testBit_or, Nat.testBit_shiftLeft, hk,
        Bool.true_and] at this
      rcases Bool.or_eq_true _ _ |>.mp this with h1 | h1
      · exact Or.inl h1
      · right
        simp only [Bool.and_eq_true, decide_eq_true_eq] at h1
        have h2 := h1.2
        by_cases hki : k = i
        · exact hki
        · have : k - i ≠ 0 := by omega
          simp [Nat.testBit_one_eq_true_iff_self_eq_zero, this] at h2
    by_cases hoi : o.testBit i = true
    · have := ih _ h.2 _ ho'
      have heq : acc ||| o = Nat.lor acc (Nat.shiftLeft 1 i) ||| (o &&& orBits is) := by
        apply Nat.eq_of_testBit_eq
        intro k
        simp only [lor_eq, shl_eq, Nat.testBit_or, Nat.testBit_and, Nat.testBit_shiftLeft]
        by_cases hk : o.testBit k = true
        · rcases hbit k hk with h1 | h1
          · simp [hk, h1]
          · subst h1; simp [hk]
        · have hk' : o.testBit k = false := by simpa using hk
          by_cases hki : k = i
          · subst hki; simp [hoi] at hk'
          · have : k - i ≠ 0 ∨ k < i := by omega
            by_cases hge : k ≥ i
            · have : k - i ≠ 0 := by omega
              simp [hk', hge, Nat.testBit_one_eq_true_iff_self_eq_zero, this]
            · simp [hk', hge]
      rw [heq]; exact this
    · have hoi' : o.testBit i = false := by simpa using hoi
      have := ih _ h.1 _ ho'
      have heq : o &&& orBits is = o := by
        apply Nat.eq_of_testBit_eq
        intro k
        simp only [Nat.testBit_and]
        by_cases hk : o.testBit k = true
        · rcases hbit k hk with h1 | h1
          · simp [hk, h1]
          · subst h1; simp [hoi'] at hk
        · have hk' : o.testBit k = false := by simpa using hk
          simp [hk']
      rw [heq] at this; exact this


/-! ### `BitVec 64` ↔ `Nat` bridges -/

theorem mod_and_of_lt (x m : Nat) (hm : m < 2 ^ 64) : (x % 2 ^ 64) &&& m = x &&& m := by
  apply Nat.eq_of_testBit_eq
  intro k
  simp only [Nat.testBit_and, Nat.testBit_mod_two_pow]
  by_cases hk : k < 64
  · simp [hk]
  · simp [hk, testBit_of_lt_two_pow_64 m k hm (by omega)]

theorem idx_bridge (o magic : BB) (shift : Nat) :
    Attacks.magicIndex o magic shift = idxN o.toNat magic.toNat (MagicCheck.shiftAmt shift) := by
  unfold Attacks.magicIndex idxN
  rw [land_eq, shr_eq, M64_eq, Nat.and_two_pow_sub_one_eq_mod, BitVec.toNat_ushiftRight, BitVec.toNat_mul]
  rfl

theorem next_bridge (o mask : BB) :
    ((o - mask) &&& mask).toNat = nextN o.toNat mask.toNat := by
  unfold nextN
  rw [land_eq, BitVec.toNat_and, BitVec.toNat_sub, mod_and_of_lt _ _ mask.isLt, P64_eq]
  congr 1
  have := mask.isLt
  omega

/-! ### The replay in the checker simulates `Attacks.fillLoop` -/

/-- The row `arr` (model) and the big natural `t` (checker) hold the same cells. -/
def Rel (size : Nat) (arr : Array BB) (t : Nat) : Prop :=
  arr.size = size ∧ ∀ i, i < size → (arr.getD i 0).toNat = getCell t i

theorem rel_init (size : Nat) : Rel size (Array.replicate size 0) 0 := by
  refine ⟨by simp, ?_⟩
  intro i hi
  simp [Array.getD, hi, getCell_zero]

theorem rel_set (size : Nat) (arr : Array BB) (t i : Nat) (v : BB) (hrel : Rel size arr t) (hi : i < size) :
    Rel size (arr.setIfInBounds i v) (setCell t i v.toNat) := by
  obtain ⟨hsz, hcells⟩ := hrel
  refine ⟨by simp [hsz], ?_⟩
  intro j hj
  rw [getCell_setCell _ _ _ _ v.isLt]
  have hj' : j < arr.size := by omega
  have hi' : i < arr.size := by omega
  have := hcells j hj
  rw [Array.getD_eq_getD_getElem?] at this ⊢
  rw [Array.getElem?_setIfInBounds]
  by_cases hij : i = j
  · subst hij
    simp [hi']
  · simp only [hij, if_false]; exact this

theorem fill_sim (attacksOf : BB → BB) (ray : Nat → Nat) (mask magic : BB) (shift size : Nat)
    (hray : ∀ o, (attacksOf o).toNat = ray o.toNat) :
    ∀ (fuel : Nat) (occ : BB) (arr : Array BB) (t t' : Nat),
      fillN ray mask.toNat magic.toNat (MagicCheck.shiftAmt shift) size fuel occ.toNat t = some t' →
      Rel size arr t → ∀ fuel', fuel ≤ fuel' →
      Rel size (Attacks.fillLoop attacksOf mask magic shift fuel' occ arr) t' := by
  intro fuel
  induction fuel with
  | zero => intro occ arr t t' h; simp [fillN] at h
  | succ fuel ih =>
    intro occ arr t t' h hrel fuel' hle
    obtain ⟨k, rfl⟩ : ∃ k, fuel' = k + 1 := ⟨fuel' - 1, by omega⟩
    rw [fillN] at h
    rw [Attacks.fillLoop]
    simp only [] at h ⊢
    rw [idx_bridge]
    by_cases hi : idxN occ.toNat magic.toNat (MagicCheck.shiftAmt shift) < size
    · have hblt : Nat.blt (idxN occ.toNat magic.toNat (MagicCheck.shiftAmt shift)) size = true := by
        simpa [Nat.blt_eq] using hi
      rw [hblt, cond_true, ← hray occ, ← next_bridge] at h
      have hrel' := rel_set size arr t _ (attacksOf occ) hrel hi
      by_cases hm : (occ - mask) &&& mask = mask
      · rw [hm] at h
        simp only [beq_self_eq_true, cond_true, Option.some.injEq] at h
        subst h
        simpa [hm] using hrel'
      · have hne : (((occ - mask) &&& mask).toNat == mask.toNat) = false := by
          simp only [beq_eq_false_iff_ne, ne_eq]
          intro heq
          exact hm (BitVec.eq_of_toNat_eq heq)
        rw [hne, cond_false] at h
        simp only [hm, if_false]
        exact ih _ _ _ _ h hrel' k (by omega)
    · have hblt : Nat.blt (idxN occ.toNat magic.toNat (MagicCheck.shiftAmt shift)) size = false :=
        Bool.eq_false_iff.mpr (fun hb => hi (by simpa [Nat.blt_eq] using hb))
      rw [hblt, cond_false] at h
      exact absurd h (by simp)


/-! ### Soundness of the per-square check -/

/-- If the kernel check of a square succeeds, the row filled by the model of the Go init loop
    answers every lookup `(occ & mask) * magic >> (64 - shift)` with `attacksOf (occ & mask)`. -/
theorem checkSq_sound (attacksOf : BB → BB) (ray : Nat → Nat) (maskN magicN shift size : Nat)
    (hray : ∀ o, (attacksOf o).toNat = ray o.toNat)
    (hsize : size + 1 ≤ Attacks.fillFuel)
    (hchk : checkSq ray maskN magicN (MagicCheck.shiftAmt shift) size = true) (occ : BB) :
    (Attacks.fillTable attacksOf (BitVec.ofNat 64 maskN) (BitVec.ofNat 64 magicN) shift size).getD
        (Attacks.magicIndex (occ &&& BitVec.ofNat 64 maskN) (BitVec.ofNat 64 magicN) shift) 0
      = attacksOf (occ &&& BitVec.ofNat 64 maskN) := by
  unfold checkSq at hchk
  cases hfill : fillN ray maskN magicN (MagicCheck.shiftAmt shift) size (size + 1) maskN 0 with
  | none => rw [hfill] at hchk; simp at hchk
  | some t' =>
    rw [hfill] at hchk
    simp only [Bool.and_eq_true, beq_iff_eq] at hchk
    obtain ⟨⟨⟨hm, hg⟩, hor⟩, hall⟩ := hchk
    have hm' : maskN < 2 ^ 64 := by rw [← P64_eq]; simpa [Nat.blt_eq] using hm
    have hg' : magicN < 2 ^ 64 := by rw [← P64_eq]; simpa [Nat.blt_eq] using hg
    have hmask : (BitVec.ofNat 64 maskN).toNat = maskN := by
      rw [BitVec.toNat_ofNat]; exact Nat.mod_eq_of_lt hm'
    have hmagic : (BitVec.ofNat 64 magicN).toNat = magicN := by
      rw [BitVec.toNat_ofNat]; exact Nat.mod_eq_of_lt hg'
    have hrel : Rel size (Attacks.fillTable attacksOf (BitVec.ofNat 64 maskN) (BitVec.ofNat 64 magicN) shift size) t' := by
      unfold Attacks.fillTable
      apply fill_sim attacksOf ray _ _ shift size hray (size + 1) _ _ 0 t' _ (rel_init size) _ hsize
      rw [hmask, hmagic]; exact hfill
    have ho : (occ &&& BitVec.ofNat 64 maskN).toNat &&& orBits (maskBits maskN)
        = (occ &&& BitVec.ofNat 64 maskN).toNat := by
      rw [hor, BitVec.toNat_and, hmask, Nat.and_assoc, Nat.and_self]
    have hp := allSubsets_complete _ _ _ hall _ ho
    simp only [Nat.zero_or, Bool.and_eq_true, beq_iff_eq] at hp
    obtain ⟨hidx, hcell⟩ := hp
    have hidx' : idxN (occ &&& BitVec.ofNat 64 maskN).toNat magicN (MagicCheck.shiftAmt shift) < size := by
      simpa [Nat.blt_eq] using hidx
    apply BitVec.eq_of_toNat_eq
    rw [idx_bridge, hmagic, hrel.2 _ hidx', hcell, hray]

end ChessVerif.AttacksProofs
