/-
  C09 step (4) and the assembly of the checkmate test.
  * `cmEp_iff`          — the en-passant exit fires iff the single checker is the pawn that has just
                          advanced two squares.
  * `ep_block_absurd`   — an en-passant capture cannot interpose: under `Rules.epSound` a sliding check
                          that exists after a double advance passes through the pawn's origin square,
                          and a line through the origin and the en-passant square is the pawn's file,
                          on which the pawn itself stands between.
  * `isCheckmate_iff_core` — `IsCheckmate` ⇔ no legal move, for a position in check.
-/
import ChessVerif.Proofs.MateCheckSingle

namespace ChessVerif.Mate
open ChessVerif Board Rules Bridge

variable {b : Board} {K A : Nat}

/-! ### (4) en passant -/

theorem bit_inj {x y : Nat} (hx : x < 64) (h : bit x = bit y) : x = y := by
  have := congrArg (fun z => z.getLsbD x) h
  simp only [bit_getLsbD x x hx, decide_true] at this
  by_cases hy : y < 64
  · rw [bit_getLsbD y x hy] at this
    by_cases e : y = x
    · exact e.symm
    · simp [e] at this
  · exfalso
    have h0 : (bit y).getLsbD x = false := by
      unfold bit
      rw [BitVec.getLsbD_shiftLeft]
      have : x < y := by omega
      simp [this]
    rw [h0] at this
    exact Bool.noConfusion this

theorem epPawn_eq {P O : Nat} (ef : EpFacts b P O) :
    Attacks.pawnSinglePushMoves (bit b.ep) b.stm.flip = bit P := by
  apply BitVec.eq_of_getLsbD_eq
  intro u hu
  rw [Bool.eq_iff_iff, push_bit _ _ _ ef.ep_lt hu, ahead_flip, bit_getLsbD P u ef.P_lt, decide_eq_true_eq]
  have h1 := ef.aheadP
  revert h1
  cases b.stm <;> simp only [PL.ahead] <;> omega

theorem cmEp_iff {P O : Nat} (ef : EpFacts b P O) (hep : b.ep ≠ 0) : cmEp b A = true ↔ P = A := by
  unfold cmEp
  rw [if_pos hep, epPawn_eq ef, beq_iff_eq]
  exact ⟨bit_inj ef.P_lt, fun h => by rw [h]⟩

theorem cmEp_ne_zero (h : cmEp b A = true) : b.ep ≠ 0 := by
  intro e
  unfold cmEp at h
  simp [e] at h

/-- **an en-passant capture never interposes** (given `epSound`). -/
theorem ep_block_absurd (cx : Ctx b K) {P O : Nat} (ef : EpFacts b P O)
    (hsound : Rules.epSound (abs b) = true) (hep : b.ep ≠ 0) (hA64 : A < 64) (hA : Checker b K A)
    (hAP : A ≠ P) (hsl : isSlider (b.pieceAt A) = true) (hb : (SB A K).getLsbD b.ep = true) : False := by
  have hno := epSound_Chk cx ef hsound hep
  have hx : (bit P).getLsbD A = false := by
    rw [bit_getLsbD P A ef.P_lt]
    have : ¬ P = A := fun e => hAP e.symm
    simp [this]
  have hnatt : ¬ Att ((b.occ &&& ~~~ bit P) ||| bit O) b.stm.flip (b.pieceAt A) A K :=
    fun h => hno ⟨A, hA64, hA.1, hx, h⟩
  obtain ⟨_, u, hu, ho, ho'⟩ := Att_lost hA.2 hnatt
  rw [getLsbD_or_bit _ _ _ ef.O_lt, getLsbD_andNot_bit _ _ _ ef.P_lt, ho] at ho'
  simp only [Bool.false_and, Bool.false_or, decide_eq_true_eq] at ho'
  subst ho'
  have hPK : P ≠ K := by
    intro e
    have := own_not_opp cx K cx.king_own
    rw [← e, ef.P_opp] at this
    exact Bool.noConfusion this
  have h1 : PL.ahead b.stm.flip O 8 b.ep := (ahead_flip _ _ _ _).2 ef.aheadO
  have h2 : PL.ahead b.stm.flip b.ep 8 P := (ahead_flip _ _ _ _).2 ef.aheadP
  have hP := ep_file_between hA64 cx.hK h1 h2 hu hb (fun e => hAP e.symm) hPK
  have := hA.free hsl P hP
  rw [occ_of_opp P ef.P_opp] at this
  exact Bool.noConfusion this

/-- under `epNormal` a recorded en-passant target comes with a legal move. -/
theorem epNormal_hasMove (hn : Rules.epNormal (abs b) = true) (hep : b.ep ≠ 0) :
    Rules.legalMoves (abs b) ≠ [] := by
  unfold Rules.epNormal at hn
  have hepa : (abs b).ep = some b.ep := by simp [Board.abs, hep]
  rw [hepa] at hn
  simp only [Option.isNone_some, Bool.false_or, Bool.not_eq_true', List.isEmpty_eq_false_iff] at hn
  intro h
  apply hn
  unfold Rules.legalEpCaptures
  rw [h]
  rfl

/-! ### assembly -/

theorem stKingLoop_false_iff (cx : Ctx b K) : stKingLoop b K = false ↔ KingStuck b K :=
  kingLoop_false_iff cx

theorem not_hasLegal_king_iff (cx : Ctx b K) : ¬ HasLegal b .king ↔ stKingLoop b K = false := by
  rw [hasLegal_king_iff cx, stKingLoop_false_iff cx]
  exact ⟨fun h => Classical.byContradiction h, fun h hn => hn h⟩

/-- **`IsCheckmate` of a position in check.** -/
theorem isCheckmate_iff_core (cx : Ctx b K) (hn : Rules.epNormal (abs b) = true)
    (hsound : Rules.epSound (abs b) = true) (hchk : Chk b b.occ 0 K) :
    b.isCheckmate = true ↔ Rules.legalMoves (abs b) = [] := by
  rw [noLegal_iff_HasLegal cx]
  rcases checkers_cases cx hchk with ⟨hpop, A, B, hA64, hB64, hne, hA, hB⟩ | ⟨A, hA64, hatk, hA, huniq⟩
  · rw [isCheckmate_double cx hpop, Bool.not_eq_true', ← not_hasLegal_king_iff cx]
    constructor
    · intro hk k
      by_cases e : k = .king
      · rw [e]; exact hk
      · exact double_check_only_king cx hA64 hB64 hA hB hne e
    · intro h; exact h .king
  · have hS : Single b K A := ⟨hA64, hA, huniq⟩
    rw [isCheckmate_single cx A hA64 hatk, Bool.and_eq_true, Bool.not_eq_true', Bool.not_eq_true',
      ← not_hasLegal_king_iff cx, Bool.or_eq_false_iff, Bool.or_eq_false_iff]
    constructor
    · rintro ⟨hking, ⟨hcap, hepf⟩, hblk⟩ k hleg
      by_cases e : k = .king
      · rw [e] at hleg; exact hking hleg
      · rcases hasLegal_cases cx e hleg with ⟨s, t, pr, hs, ht, hpr, hp, hPL, hnep, hsafe⟩ |
            ⟨P, O, s, pr, ef, hs, hpr, hp, hPL, hisep, hsafe⟩
        · have hnk : b.pieceAt s ≠ .king := by rw [hp]; exact e
          rcases answer_move hA64 hA s t hs ht hsafe with h | ⟨hsl, hsb, _⟩
          · subst h
            have := (capture_iff cx hS).2 ⟨s, pr, hs, hpr, hnk, hPL, hsafe⟩
            rw [hcap] at this; exact Bool.noConfusion this
          · rw [sb_comm' hA64 cx.hK] at hsb
            have := (block_iff cx hS).2 ⟨s, t, pr, hs, ht, hpr, hnk, hsb, hPL, hnep, hsafe⟩
            rw [hblk] at this; exact Bool.noConfusion this
        · rcases answer_ep hA64 hA s hs ef.P_lt ef.ep_lt hsafe with h | ⟨hsl, hsb⟩
          · have := (cmEp_iff ef hisep.2.1).2 h.symm
            rw [hepf] at this; exact Bool.noConfusion this
          · by_cases hAP : A = P
            · have := (cmEp_iff ef hisep.2.1).2 hAP.symm
              rw [hepf] at this; exact Bool.noConfusion this
            · exact ep_block_absurd cx ef hsound hisep.2.1 hA64 hA hAP hsl hsb
    · intro h
      refine ⟨h .king, ⟨?_, ?_⟩, ?_⟩
      · cases hc : cmCapture b K A
        · rfl
        · exfalso
          obtain ⟨s, pr, hs, hpr, hnk, hPL, hsafe⟩ := (capture_iff cx hS).1 hc
          exact h _ (hasLegal_of_move cx s A pr hs hA64 hpr hPL hnk
            (not_isEp_of_occupied cx s A hA.occ) hsafe)
      · cases hc : cmEp b A
        · rfl
        · exfalso
          exact epNormal_hasMove hn (cmEp_ne_zero hc) ((noLegal_iff_HasLegal cx).2 h)
      · cases hc : cmBlock b K A
        · rfl
        · exfalso
          obtain ⟨s, t, pr, hs, ht, hpr, hnk, _, hPL, hnep, hsafe⟩ := (block_iff cx hS).1 hc
          exact h _ (hasLegal_of_move cx s t pr hs ht hpr hPL hnk hnep hsafe)

end ChessVerif.Mate
