/-
  C19 (a), the hypothesis `noInt16Wrap`: magnitude bounds, part 2 — every group of addends of eval.go
  in exact integers, bounded by (number of men) × (extreme coefficient of the field).

  All bounds are functions of the coefficient set (`psHi`, `mobHi`, …, computed from the rows by
  `lHi` / `lLo`), never of concrete numbers: the final comparison with 32767 is a kernel evaluation on
  the regenerated `shipped` (Proofs/EvalBoundTotal.lean).
-/
import ChessVerif.Proofs.EvalBound

namespace ChessVerif.Eval.Bound
open ChessVerif ChessVerif.Eval

/-- number of men of colour `c` and kind `p`, as the evaluation counts them. -/
def cnt (i : EvalInput) (c : Color) (p : Piece) : Int := (popcount (i.own c p) : Nat)

theorem cnt_nonneg (i : EvalInput) (c : Color) (p : Piece) : 0 ≤ cnt i c p := by unfold cnt; omega

section
variable (cs : CoeffSet Int) (ph : Nat)

/-- `PieceValues[ph][p]` -/
def pv (p : Piece) : Int := at2 opsZ cs.PieceValues ph p.toNat
/-- extreme piece-square entries of a piece kind (0 included). -/
def psHi (p : Piece) : Int := lHi (row cs.PSqT (2 * (p.toNat - 1) + ph))
def psLo (p : Piece) : Int := lLo (row cs.PSqT (2 * (p.toNat - 1) + ph))
def tempo : Int := at1 opsZ cs.TempoBonus ph
def connR : Int := at1 opsZ cs.ConnectedRooks ph
def protP : Int := at1 opsZ cs.ProtectedPasser ph
def pkd : Int := at1 opsZ cs.PasserKingDist ph
def dbl : Int := at1 opsZ cs.DoubledPawns ph
def iso : Int := at1 opsZ cs.IsolatedPawns ph
def shel : Int := at1 opsZ cs.KingShelter ph

/-- per-man extremes of the addends of the piece loop (mobility, outpost, connected rooks, PSqT). -/
def rookHi : Int := lHi (row cs.MobilityRook ph) + max (connR cs ph) 0 + psHi cs ph .rook
def rookLo : Int := lLo (row cs.MobilityRook ph) + min (connR cs ph) 0 + psLo cs ph .rook
def bishopHi : Int := lHi (row cs.MobilityBishop ph) + psHi cs ph .bishop
def bishopLo : Int := lLo (row cs.MobilityBishop ph) + psLo cs ph .bishop
def knightHi : Int := lHi (row cs.MobilityKnight ph) + lHi (row cs.KnightOutpost ph) + psHi cs ph .knight
def knightLo : Int := lLo (row cs.MobilityKnight ph) + lLo (row cs.KnightOutpost ph) + psLo cs ph .knight
/-- per-passer extremes (protected bonus, rank bonus). -/
def passerHi : Int := max (protP cs ph) 0 + lHi (row cs.PasserRank ph)
def passerLo : Int := min (protP cs ph) 0 + lLo (row cs.PasserRank ph)

variable (i : EvalInput) (c : Color)

theorem psqt_bound (p : Piece) (sq : Nat) :
    psLo cs ph p ≤ psqt opsZ cs ph c p sq ∧ psqt opsZ cs ph c p sq ≤ psHi cs ph p := by
  unfold psqt psLo psHi
  exact at2_bound _ _ _

/-! ### the groups of `spTerms` -/

theorem pieceValue_sum :
    lsum (pieceValueTerms opsZ cs i ph c) =
      cnt i c .pawn * pv cs ph .pawn + cnt i c .knight * pv cs ph .knight +
      cnt i c .bishop * pv cs ph .bishop + cnt i c .rook * pv cs ph .rook +
      cnt i c .queen * pv cs ph .queen := by
  simp only [pieceValueTerms, pawnToQueen, List.map_cons, List.map_nil, lsum_cons, lsum_nil, cnt, pv]
  show _ * _ + (_ * _ + (_ * _ + (_ * _ + (_ * _ + 0)))) = _
  omega

theorem tempo_bound :
    min (tempo cs ph) 0 ≤ lsum (tempoTerms opsZ cs i ph c) ∧
    lsum (tempoTerms opsZ cs i ph c) ≤ max (tempo cs ph) 0 := by
  unfold tempoTerms tempo
  split <;> simp only [lsum_cons, lsum_nil] <;> omega

theorem bishopPair_bound :
    lLo cs.BishopPair.toList ≤ lsum (bishopPairTerms opsZ cs i ph c) ∧
    lsum (bishopPairTerms opsZ cs i ph c) ≤ lHi cs.BishopPair.toList := by
  unfold bishopPairTerms
  simp only
  split
  · simp only [lsum_cons, lsum_nil, Int.add_zero]
    exact at1_bound _ _
  · exact ⟨lLo_nonpos _, lHi_nonneg _⟩

theorem doubled_sum : lsum (doubledTerms opsZ cs i ph c) =
    ((popcount (i.doubledPawns c) : Nat) : Int) * dbl cs ph := by
  simp only [doubledTerms, lsum_cons, lsum_nil, dbl]
  show _ * _ + 0 = _
  omega

theorem isolated_sum : lsum (isolatedTerms opsZ cs i ph c) =
    ((popcount (i.isolatedPawns c) : Nat) : Int) * iso cs ph := by
  simp only [isolatedTerms, lsum_cons, lsum_nil, iso]
  show _ * _ + 0 = _
  omega

theorem passers_le : popcount (i.passers c) ≤ popcount (i.own c .pawn) :=
  Nat.le_trans (popcount_and_le_left _ _) (popcount_and_le_right _ _)
theorem doubled_le : popcount (i.doubledPawns c) ≤ popcount (i.own c .pawn) := popcount_and_le_left _ _
theorem isolated_le : popcount (i.isolatedPawns c) ≤ popcount (i.own c .pawn) := popcount_and_le_left _ _

/-- the king-distance addend of `addPassers`. -/
theorem passerKing_bound (l : List Int)
    (h : l = [] ∨ ∃ a b : Nat, a ≤ 64 ∧ b ≤ 64 ∧ ∃ q : Nat, q ≤ 64 ∧
      l = [opsZ.mulInt (cheb q a - cheb q b) (at1 opsZ cs.PasserKingDist ph)]) :
    -(8 * max (pkd cs ph) (-(pkd cs ph))) ≤ lsum l ∧ lsum l ≤ 8 * max (pkd cs ph) (-(pkd cs ph)) := by
  rcases h with rfl | ⟨a, b, ha, hb, q, hq, rfl⟩
  · simp only [lsum_nil]; omega
  · have h1 := cheb_range q a hq ha
    have h2 := cheb_range q b hq hb
    have := mul_abs_bound (cheb q a - cheb q b) (pkd cs ph) (by omega) (by omega)
    simp only [lsum_cons, lsum_nil, Int.add_zero]
    exact this

/-- the addends of one passed pawn. -/
theorem passer_item (b : Bool) (r : Nat) :
    passerLo cs ph ≤ lsum ((if b then [at1 opsZ cs.ProtectedPasser ph] else []) ++
      [if r = 0 then zero opsZ else at2 opsZ cs.PasserRank ph (r - 1)]) ∧
    lsum ((if b then [at1 opsZ cs.ProtectedPasser ph] else []) ++
      [if r = 0 then zero opsZ else at2 opsZ cs.PasserRank ph (r - 1)]) ≤ passerHi cs ph := by
  have hr := at2_bound cs.PasserRank ph (r - 1)
  have hlo := lLo_nonpos (row cs.PasserRank ph)
  have hhi := lHi_nonneg (row cs.PasserRank ph)
  have hz : zero opsZ = 0 := rfl
  unfold passerLo passerHi protP
  rw [hz]
  simp only [lsum_append, lsum_cons, lsum_nil]
  cases b <;> by_cases h0 : r = 0 <;> simp only [h0, if_true, if_false, lsum_cons, lsum_nil, Bool.false_eq_true] <;> omega

theorem passer_bound :
    ∃ kd per : Int, lsum (passerTerms opsZ cs i ph c) = kd + per ∧
      -(8 * max (pkd cs ph) (-(pkd cs ph))) ≤ kd ∧ kd ≤ 8 * max (pkd cs ph) (-(pkd cs ph)) ∧
      ((popcount (i.passers c) : Nat) : Int) * passerLo cs ph ≤ per ∧
      per ≤ ((popcount (i.passers c) : Nat) : Int) * passerHi cs ph := by
  unfold passerTerms
  simp only [lsum_append]
  refine ⟨_, _, rfl, ?_⟩
  have hk := fun cc => lowestSet_le (i.kingBB cc)
  constructor
  · apply (passerKing_bound cs ph _ ?_).1
    split
    · split
      · right
        refine ⟨i.kingSq c.flip, i.kingSq c, hk _, hk _, _, ?_, rfl⟩
        have := Nat.mod_lt (lowestSet (i.passers c)) (show 0 < 8 by omega)
        split <;> omega
      · left; rfl
    · left; rfl
  constructor
  · apply (passerKing_bound cs ph _ ?_).2
    split
    · split
      · right
        refine ⟨i.kingSq c.flip, i.kingSq c, hk _, hk _, _, ?_, rfl⟩
        have := Nat.mod_lt (lowestSet (i.passers c)) (show 0 < 8 by omega)
        split <;> omega
      · left; rfl
    · left; rfl
  · apply lsum_flatMap_bound
    intro sq _
    exact passer_item cs ph (bit sq &&& i.pawnAtt c != 0) (if c = .black then (sq / 8) ^^^ 7 else sq / 8)

/-! ### the piece loop -/

theorem rook_block (sq : Nat) (att : BB) :
    rookLo cs ph ≤ lsum (rookMobilityTerms opsZ cs i ph c sq att ++ [psqt opsZ cs ph c .rook sq]) ∧
    lsum (rookMobilityTerms opsZ cs i ph c sq att ++ [psqt opsZ cs ph c .rook sq]) ≤ rookHi cs ph := by
  have hp := psqt_bound cs ph c .rook sq
  have hm := at2_bound cs.MobilityRook ph
  unfold rookMobilityTerms rookLo rookHi connR
  simp only [lsum_append, lsum_cons, lsum_nil]
  split <;> simp only [lsum_cons, lsum_nil] <;>
    (have := hm ((2 * popcount (att &&& ~~~(0xff#64 <<< (sq &&& 56)) &&& ~~~(i.col c)) +
        popcount (att &&& (0xff#64 <<< (sq &&& 56)) &&& ~~~(i.col c))) / 2); omega)

theorem bishop_block (sq : Nat) (att : BB) :
    bishopLo cs ph ≤ lsum (bishopMobilityTerms opsZ cs i ph c att ++ [psqt opsZ cs ph c .bishop sq]) ∧
    lsum (bishopMobilityTerms opsZ cs i ph c att ++ [psqt opsZ cs ph c .bishop sq]) ≤ bishopHi cs ph := by
  have hp := psqt_bound cs ph c .bishop sq
  have hm := at2_bound cs.MobilityBishop ph (popcount (att &&& ~~~(i.col c)))
  unfold bishopMobilityTerms bishopLo bishopHi
  simp only [lsum_append, lsum_cons, lsum_nil]
  omega

theorem knight_block (sq : Nat) (att pc holes : BB) :
    knightLo cs ph ≤ lsum (knightMobilityTerms opsZ cs i ph c att pc ++
      knightOutpostTerms opsZ cs ph c sq holes ++ [psqt opsZ cs ph c .knight sq]) ∧
    lsum (knightMobilityTerms opsZ cs i ph c att pc ++
      knightOutpostTerms opsZ cs ph c sq holes ++ [psqt opsZ cs ph c .knight sq]) ≤ knightHi cs ph := by
  have hp := psqt_bound cs ph c .knight sq
  have hm := at2_bound cs.MobilityKnight ph (popcount (att &&& ~~~(i.col c) &&& ~~~pc))
  have ho := at2_bound cs.KnightOutpost ph (if c = .white then sq ^^^ 56 else sq)
  have hlo := lLo_nonpos (row cs.KnightOutpost ph)
  have hhi := lHi_nonneg (row cs.KnightOutpost ph)
  unfold knightMobilityTerms knightOutpostTerms knightLo knightHi
  simp only [lsum_append, lsum_cons, lsum_nil]
  split <;> simp only [lsum_cons, lsum_nil] <;> omega

/-- the piece loop: men part and the king's square. -/
theorem loop_bound :
    ∃ men k : Int, lsum (loopTerms opsZ cs i ph c) = men + k ∧
      psLo cs ph .king ≤ k ∧ k ≤ psHi cs ph .king ∧
      cnt i c .queen * psLo cs ph .queen + cnt i c .rook * rookLo cs ph + cnt i c .bishop * bishopLo cs ph +
        cnt i c .knight * knightLo cs ph + cnt i c .pawn * psLo cs ph .pawn ≤ men ∧
      men ≤ cnt i c .queen * psHi cs ph .queen + cnt i c .rook * rookHi cs ph + cnt i c .bishop * bishopHi cs ph +
        cnt i c .knight * knightHi cs ph + cnt i c .pawn * psHi cs ph .pawn := by
  unfold loopTerms
  simp only [lsum_append, lsum_cons, lsum_nil, Int.add_zero]
  refine ⟨_, _, rfl, (psqt_bound cs ph c .king _).1, (psqt_bound cs ph c .king _).2, ?_⟩
  have hq := lsum_map_bound (bits (i.own c .queen)) (fun sq => psqt opsZ cs ph c .queen sq) _ _
    (fun sq _ => psqt_bound cs ph c .queen sq)
  have hr := lsum_flatMap_bound (bits (i.own c .rook))
    (fun sq => rookMobilityTerms opsZ cs i ph c sq (i.pieceAttacks .rook sq) ++ [psqt opsZ cs ph c .rook sq])
    _ _ (fun sq _ => rook_block cs ph i c sq _)
  have hb := lsum_flatMap_bound (bits (i.own c .bishop))
    (fun sq => bishopMobilityTerms opsZ cs i ph c (i.pieceAttacks .bishop sq) ++ [psqt opsZ cs ph c .bishop sq])
    _ _ (fun sq _ => bishop_block cs ph i c sq _)
  have hn := lsum_flatMap_bound (bits (i.own c .knight))
    (fun sq => knightMobilityTerms opsZ cs i ph c (i.pieceAttacks .knight sq) (i.pawnAtt c.flip) ++
      knightOutpostTerms opsZ cs ph c sq (i.holes c.flip &&& i.pawnAtt c) ++ [psqt opsZ cs ph c .knight sq])
    _ _ (fun sq _ => knight_block cs ph i c sq _ _ _)
  have hpw := lsum_map_bound (bits (i.own c .pawn)) (fun sq => psqt opsZ cs ph c .pawn sq) _ _
    (fun sq _ => psqt_bound cs ph c .pawn sq)
  unfold cnt popcount
  constructor <;> omega

end

end ChessVerif.Eval.Bound
