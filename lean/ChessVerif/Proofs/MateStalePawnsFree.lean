/-
  C09, stalemate, first exit of `IsStalemate`: the set-wise test "some pawn the king does not see
  has a pseudo-legal single push or capture" (`stFreePawn`).
  * `stFreePawn_iff`      — the shift formulas read as an ∃-statement.
  * `stFreePawn_complete` — the flag implies a legal pawn move.
  * `stFreePawn_of_move`  — every pseudo-legal non-en-passant move of such a pawn raises the flag.
-/
import ChessVerif.Proofs.MateStalePawnsBase

namespace ChessVerif.Mate.StalePawns
open ChessVerif Board Rules Bridge ChessVerif.Mate

variable {b : Board} {K : Nat}

/-! ### the shift formulas, bit by bit -/

theorem shl8_get (X : BB) (t : Nat) (ht : t < 64) :
    (X <<< 8).getLsbD t = true ↔ ∃ s, s < 64 ∧ X.getLsbD s = true ∧ PL.ahead .white s 8 t := by
  simp only [PL.ahead, BitVec.getLsbD_shiftLeft, Bool.and_eq_true, decide_eq_true_eq, Bool.not_eq_true',
    decide_eq_false_iff_not]
  constructor
  · rintro ⟨⟨_, h8⟩, h⟩
    exact ⟨t - 8, by omega, h, by omega⟩
  · rintro ⟨s, hs, hx, rfl⟩
    refine ⟨⟨ht, by omega⟩, ?_⟩
    have : s + 8 - 8 = s := by omega
    rw [this]; exact hx

theorem shr8_get (X : BB) (t : Nat) (_ht : t < 64) :
    (X >>> 8).getLsbD t = true ↔ ∃ s, s < 64 ∧ X.getLsbD s = true ∧ PL.ahead .black s 8 t := by
  simp only [PL.ahead, BitVec.getLsbD_ushiftRight]
  constructor
  · intro h
    have hlt : 8 + t < 64 := BitVec.lt_of_getLsbD h
    exact ⟨8 + t, hlt, h, by omega⟩
  · rintro ⟨s, _, hx, e⟩
    have : 8 + t = s := by omega
    rw [this]; exact hx

theorem wcap_get (X : BB) (t : Nat) (ht : t < 64) :
    (((X &&& ~~~ AFile) <<< 7) ||| ((X &&& ~~~ HFile) <<< 9)).getLsbD t = true ↔
      ∃ s, s < 64 ∧ X.getLsbD s = true ∧ PL.capGeom .white s t := by
  simp only [PL.capGeom, BitVec.getLsbD_or, BitVec.getLsbD_shiftLeft, BitVec.getLsbD_and, BitVec.getLsbD_not,
    Bool.or_eq_true, Bool.and_eq_true, decide_eq_true_eq, Bool.not_eq_true', decide_eq_false_iff_not]
  constructor
  · rintro (⟨⟨_, h7⟩, hx, hl, hf⟩ | ⟨⟨_, h9⟩, hx, hl, hf⟩)
    · rw [PL.aFile_get _ hl, decide_eq_false_iff_not] at hf
      exact ⟨t - 7, hl, hx, Or.inl ⟨by omega, hf⟩⟩
    · rw [PL.hFile_get _ hl, decide_eq_false_iff_not] at hf
      exact ⟨t - 9, hl, hx, Or.inr ⟨by omega, hf⟩⟩
  · rintro ⟨s, hs, hx, (⟨rfl, hf⟩ | ⟨rfl, hf⟩)⟩
    · left
      have : s + 7 - 7 = s := by omega
      rw [this, PL.aFile_get _ hs, decide_eq_false_iff_not]
      exact ⟨⟨ht, by omega⟩, hx, hs, hf⟩
    · right
      have : s + 9 - 9 = s := by omega
      rw [this, PL.hFile_get _ hs, decide_eq_false_iff_not]
      exact ⟨⟨ht, by omega⟩, hx, hs, hf⟩

theorem bcap_get (X : BB) (t : Nat) (_ht : t < 64) :
    (((X &&& ~~~ HFile) >>> 7) ||| ((X &&& ~~~ AFile) >>> 9)).getLsbD t = true ↔
      ∃ s, s < 64 ∧ X.getLsbD s = true ∧ PL.capGeom .black s t := by
  simp only [PL.capGeom, BitVec.getLsbD_or, BitVec.getLsbD_ushiftRight, BitVec.getLsbD_and, BitVec.getLsbD_not,
    Bool.or_eq_true, Bool.and_eq_true, decide_eq_true_eq, Bool.not_eq_true']
  constructor
  · rintro (⟨hx, hl, hf⟩ | ⟨hx, hl, hf⟩)
    · rw [PL.hFile_get _ hl, decide_eq_false_iff_not] at hf
      exact ⟨7 + t, hl, hx, Or.inl ⟨by omega, hf⟩⟩
    · rw [PL.aFile_get _ hl, decide_eq_false_iff_not] at hf
      exact ⟨9 + t, hl, hx, Or.inr ⟨by omega, hf⟩⟩
  · rintro ⟨s, hs, hx, (⟨e, hf⟩ | ⟨e, hf⟩)⟩
    · left
      have : 7 + t = s := by omega
      rw [this, PL.hFile_get _ hs, decide_eq_false_iff_not]
      exact ⟨hx, hs, hf⟩
    · right
      have : 9 + t = s := by omega
      rw [this, PL.aFile_get _ hs, decide_eq_false_iff_not]
      exact ⟨hx, hs, hf⟩

/-! ### the flag as an ∃-statement -/

/-- the pawns of the side to move that the king does not see. -/
def freePawns (b : Board) (K : Nat) : BB :=
  b.pieceBB .pawn &&& b.colorBB b.stm &&& ~~~ maybePinnedBB b K

theorem freePawns_get (cx : Ctx b K) (s : Nat) (hs : s < 64) :
    (freePawns b K).getLsbD s = true ↔
      b.pieceAt s = .pawn ∧ (b.colorBB b.stm).getLsbD s = true ∧ (maybePinnedBB b K).getLsbD s = false := by
  unfold freePawns
  rw [BitVec.getLsbD_and, BitVec.getLsbD_and, BitVec.getLsbD_not, Bool.and_eq_true, Bool.and_eq_true,
    cx.wf.piece_iff s hs .pawn (by decide)]
  simp [hs, and_assoc]

/-- the generic form of the flag for the colour `c`. -/
def freeFlag (c : Color) (pawns occ opp : BB) : Bool :=
  match c with
  | .white =>
    ((pawns <<< 8) &&& ~~~ occ != 0) ||
    ((((pawns &&& ~~~ AFile) <<< 7) ||| ((pawns &&& ~~~ HFile) <<< 9)) &&& opp != 0)
  | .black =>
    ((pawns >>> 8) &&& ~~~ occ != 0) ||
    ((((pawns &&& ~~~ HFile) >>> 7) ||| ((pawns &&& ~~~ AFile) >>> 9)) &&& opp != 0)

theorem stFreePawn_eq : stFreePawn b K = freeFlag b.stm (freePawns b K) b.occ (b.colorBB b.stm.flip) := rfl

theorem freeFlag_iff (c : Color) (pawns occ opp : BB) :
    freeFlag c pawns occ opp = true ↔
      ∃ s t, s < 64 ∧ t < 64 ∧ pawns.getLsbD s = true ∧
        ((PL.ahead c s 8 t ∧ occ.getLsbD t = false) ∨ (PL.capGeom c s t ∧ opp.getLsbD t = true)) := by
  have hnot : ∀ t, t < 64 → ((~~~ occ).getLsbD t = true ↔ occ.getLsbD t = false) := by
    intro t ht; rw [BitVec.getLsbD_not]; simp [ht]
  cases c
  · unfold freeFlag
    simp only [Bool.or_eq_true, and2_bne]
    constructor
    · rintro (⟨t, ht, h1, h2⟩ | ⟨t, ht, h1, h2⟩)
      · obtain ⟨s, hs, hx, ha⟩ := (shl8_get _ t ht).1 h1
        exact ⟨s, t, hs, ht, hx, Or.inl ⟨ha, (hnot t ht).1 h2⟩⟩
      · obtain ⟨s, hs, hx, ha⟩ := (wcap_get _ t ht).1 h1
        exact ⟨s, t, hs, ht, hx, Or.inr ⟨ha, h2⟩⟩
    · rintro ⟨s, t, hs, ht, hx, (⟨ha, h2⟩ | ⟨ha, h2⟩)⟩
      · exact Or.inl ⟨t, ht, (shl8_get _ t ht).2 ⟨s, hs, hx, ha⟩, (hnot t ht).2 h2⟩
      · exact Or.inr ⟨t, ht, (wcap_get _ t ht).2 ⟨s, hs, hx, ha⟩, h2⟩
  · unfold freeFlag
    simp only [Bool.or_eq_true, and2_bne]
    constructor
    · rintro (⟨t, ht, h1, h2⟩ | ⟨t, ht, h1, h2⟩)
      · obtain ⟨s, hs, hx, ha⟩ := (shr8_get _ t ht).1 h1
        exact ⟨s, t, hs, ht, hx, Or.inl ⟨ha, (hnot t ht).1 h2⟩⟩
      · obtain ⟨s, hs, hx, ha⟩ := (bcap_get _ t ht).1 h1
        exact ⟨s, t, hs, ht, hx, Or.inr ⟨ha, h2⟩⟩
    · rintro ⟨s, t, hs, ht, hx, (⟨ha, h2⟩ | ⟨ha, h2⟩)⟩
      · exact Or.inl ⟨t, ht, (shr8_get _ t ht).2 ⟨s, hs, hx, ha⟩, (hnot t ht).2 h2⟩
      · exact Or.inr ⟨t, ht, (bcap_get _ t ht).2 ⟨s, hs, hx, ha⟩, h2⟩

/-- **the first exit**: some pawn of the side to move that the king does not see has a pseudo-legal
    single push or capture. -/
theorem stFreePawn_iff (cx : Ctx b K) :
    stFreePawn b K = true ↔
      ∃ s t, s < 64 ∧ t < 64 ∧ b.pieceAt s = .pawn ∧ (b.colorBB b.stm).getLsbD s = true ∧
        (maybePinnedBB b K).getLsbD s = false ∧ (PL.PLpush1 b s t ∨ PL.PLcapture b s t) := by
  rw [stFreePawn_eq, freeFlag_iff]
  constructor
  · rintro ⟨s, t, hs, ht, hx, h⟩
    obtain ⟨h1, h2, h3⟩ := (freePawns_get cx s hs).1 hx
    exact ⟨s, t, hs, ht, h1, h2, h3, h⟩
  · rintro ⟨s, t, hs, ht, h1, h2, h3, h⟩
    exact ⟨s, t, hs, ht, (freePawns_get cx s hs).2 ⟨h1, h2, h3⟩, h⟩

/-! ### completeness and the converse for unseen pawns -/

/-- **completeness of the first exit.** -/
theorem stFreePawn_complete (cx : Ctx b K) (hnc : ¬ Chk b b.occ 0 K) (h : stFreePawn b K = true) :
    HasLegal b .pawn := by
  obtain ⟨s, t, hs, ht, hp, hown, hnp, hm⟩ := (stFreePawn_iff cx).1 h
  have hto : (b.colorBB b.stm).getLsbD t = false := by
    rcases hm with hm | hm
    · exact push1_to_free hm
    · exact capture_to_free cx hm
  have hne : ¬ IsEp b s t := by
    rcases hm with hm | hm
    · exact push1_not_ep hm
    · exact capture_not_ep cx hm
  refine mk_hasLegal cx hs ht (promoFor_lt s) hown hp hto (promoFor_ok s) ?_ ?_
  · rcases hm with hm | hm
    · exact Or.inl hm
    · exact Or.inr (Or.inr (Or.inl hm))
  · intro hPL
    rw [pawn_safe_iff cx hnc hs ht hPL hp hne]
    exact unpinned_safe cx hnc hs hown hnp (moved_sup hs ht b.occ)

/-- a pseudo-legal double push has a pseudo-legal single push below it. -/
theorem push2_mid {s t : Nat} (h : PL.PLpush2 b s t) :
    PL.PLpush1 b s ((s + t) / 2) ∧ PL.ahead b.stm ((s + t) / 2) 8 t := by
  obtain ⟨h1, _, _, h4⟩ := h
  refine ⟨⟨?_, h4⟩, ?_⟩
  · revert h1; cases b.stm <;> simp only [PL.ahead] <;> omega
  · revert h1; cases b.stm <;> simp only [PL.ahead] <;> omega

theorem mid_lt {s t : Nat} (hs : s < 64) (ht : t < 64) : (s + t) / 2 < 64 := by omega

/-- **the converse for unseen pawns**: any pseudo-legal move that is not en passant of a pawn the king
    does not see raises the flag. -/
theorem stFreePawn_of_move (cx : Ctx b K) {s t : Nat} (hs : s < 64) (ht : t < 64)
    (hp : b.pieceAt s = .pawn) (hown : (b.colorBB b.stm).getLsbD s = true)
    (hnp : (maybePinnedBB b K).getLsbD s = false)
    (hcl : PL.PLpush1 b s t ∨ PL.PLpush2 b s t ∨ PL.PLcapture b s t) : stFreePawn b K = true := by
  rw [stFreePawn_iff cx]
  rcases hcl with h | h | h
  · exact ⟨s, t, hs, ht, hp, hown, hnp, Or.inl h⟩
  · exact ⟨s, (s + t) / 2, hs, mid_lt hs ht, hp, hown, hnp, Or.inl (push2_mid h).1⟩
  · exact ⟨s, t, hs, ht, hp, hown, hnp, Or.inr h⟩

end ChessVerif.Mate.StalePawns
