/-
  The final-score clause WITHOUT `GoSane` (Proofs/SearchFinalFree.lean) guarded by the ghost flag
  `St.ttOut` instead of `St.nmpOut`.  `fsOf`, `alphaBeta_final_any`, `FinAsp` and its arithmetic are those
  of SearchFinalFree.lean.
-/
import ChessVerif.Proofs.SearchScoreFree2
import ChessVerif.Proofs.SearchFinalFree

namespace ChessVerif
namespace Search

variable {σ π : Type} [PsInv σ]

/-- the aspiration loop of an iteration ≥ 1 on a final root, from a fail-high-only window (guarded by
    `ttOut`). -/
theorem aspiration_final2 (c : Comp σ π) (L : Limits) {Good : Board → Prop} {TTok : σ → Prop} {μ : Board → Nat}
    (hl : Laws c Good) (sl : ScoreLaws c Good TTok μ) (al : AspLaws c) (fuel : Nat) (idD : Int) (hd : 1 ≤ idD) :
    ∀ (n : Nat) (alpha beta factor : Score) (s : St σ), Good s.board → TTA2 TTok s → Final c.keys s.board →
      (s.ttOut = false → FinAsp c.windowSize (fsOf s.board) alpha beta factor) →
      TTA2 TTok (aspiration c L fuel idD n alpha beta factor s).st ∧
      (∀ al be sa s', aspiration c L fuel idD n alpha beta factor s = .ok al be sa s' → s'.ttOut = false →
        sa = fsOf s.board ∧ s'.pv.row 0 = []) := by
  intro n
  induction n with
  | zero =>
    intro alpha beta factor s _ htt _ _
    exact ⟨htt.congr rfl rfl, fun _ _ _ _ h => by simp [aspiration] at h⟩
  | succ n ih =>
    intro alpha beta factor s hg htt hfin hinv
    have hab := alphaBeta_spec c L hl fuel alpha beta idD 0 .pv s hg htt.1 (Int.le_refl 0)
    have hrg := alphaBeta_range2 c L hl sl fuel alpha beta idD 0 .pv s hg (Int.le_refl 0) (by decide)
      (fun hA => (finAsp_rootWin al.windowSafe (hinv hA)).1) htt
    have hany := fun (hw : RootWin alpha beta) => alphaBeta_final_any c L hl fuel alpha beta idD hd
      (fun se h => sl.rfp_sound idD se beta (by omega) hw.2 h) s hg htt.1 hfin
    simp only [aspiration]
    simp only at hany
    generalize alphaBeta c L fuel alpha beta idD 0 .pv s = r at hab hrg hany ⊢
    have haf := abort_frame L r.2
    have hap := (abort_pv L r.2).1
    have hps := abort_ps L r.2
    have han := abort_ttOut L r.2
    have hfa := @abort_false σ _ L r.2
    generalize abort L r.2 = as at haf hap hps han hfa ⊢
    have htt2 : TTA2 TTok as.2 := hrg.1.congr hps han
    have hback : as.2.ttOut = false → s.ttOut = false := fun h => hab.1.mono.t_back (by rw [← han]; exact h)
    split
    · exact ⟨htt2, fun _ _ _ _ h => by cases h⟩
    · next hna =>
      have hna' : as.1 = false := by simpa using hna
      have hrab : r.2.aborted = false := (hfa hna').2
      have hsr : as.2.ttOut = false → InR r.1 := fun hA =>
        hrg.2 hrab (by rw [← han]; exact hA)
      split
      · next hin =>
        refine ⟨htt2, fun al' be sa s' h hA => ?_⟩
        cases h
        simp only [Bool.and_eq_true, Bool.not_eq_true', decide_eq_false_iff_not] at hin
        have hlt : r.1 < beta := Int.not_le.1 hin.2
        rcases hany (finAsp_rootWin al.windowSafe (hinv (hback hA))) hrab with h | h
        · exact ⟨h.1, by rw [hap]; exact h.2⟩
        · exact absurd hlt (Int.not_lt.2 h)
      · next hnin =>
        -- not in the window: the result is not the final value, so it is a fail-high
        have hhigh : as.2.ttOut = false → beta ≤ r.1 := fun hA => by
          have hins := finAsp_inside al.windowSafe (hinv (hback hA))
          rcases hany (finAsp_rootWin al.windowSafe (hinv (hback hA))) hrab with h | h
          · exfalso; apply hnin
            have h1 : ¬ r.1 ≤ alpha := by rw [h.1]; exact Int.not_le.2 hins.1
            have h2 : ¬ r.1 ≥ beta := by rw [h.1]; exact Int.not_le.2 hins.2
            simp [h1, h2]
          · exact h
        have hb2 : as.2.board = s.board := by rw [haf.board, hab.1.board]
        have hstep := fun (hA : as.2.ttOut = false) => finAsp_step al.windowSafe (hinv (hback hA)) (hsr hA) (hhigh hA)
        have := ih _ _ _ as.2 (by rw [hb2]; exact hg) htt2 (by rw [hb2]; exact hfin) (by rw [hb2]; exact hstep)
        rw [hb2] at this
        exact this

/-- iterations 0 and 1 on a final root, from any reachable window (guarded). -/
theorem aspiration_final01_2 (c : Comp σ π) (L : Limits) {Good : Board → Prop} {TTok : σ → Prop} {μ : Board → Nat}
    (hl : Laws c Good) (sl : ScoreLaws c Good TTok μ) (al : AspLaws c) (fuel : Nat) (idD : Int) (h01 : idD = 0 ∨ idD = 1) :
    ∀ (n : Nat) (alpha beta factor : Score) (s : St σ), Good s.board → TTA2 TTok s → Final c.keys s.board →
      (s.ttOut = false → AspInv c.windowSize alpha beta factor) →
      (∀ al be sa s', aspiration c L fuel idD n alpha beta factor s = .ok al be sa s' → s'.ttOut = false →
        s'.pv.row 0 = [] ∧ (idD = 1 → sa = fsOf s.board)) := by
  intro n
  induction n with
  | zero => intro alpha beta factor s _ _ _ _ _ _ _ _ h; simp [aspiration] at h
  | succ n ih =>
    intro alpha beta factor s hg htt hfin hinv
    have hab := alphaBeta_spec c L hl fuel alpha beta idD 0 .pv s hg htt.1 (Int.le_refl 0)
    have hrg := alphaBeta_range2 c L hl sl fuel alpha beta idD 0 .pv s hg (Int.le_refl 0) (by decide)
      (fun hA => (aspInv_win al.windowSafe (hinv hA)).1) htt
    have hany := fun (hb32 : beta ≤ 32528) (h1 : idD = 1) => alphaBeta_final_any c L hl fuel alpha beta idD (by omega)
      (fun se h => al.rfp_shallow idD se beta (by omega) (by omega) hb32 h) s hg htt.1 hfin
    have hrow : idD = 0 → (alphaBeta c L fuel alpha beta idD 0 .pv s).2.pv.row 0 = [] := by
      intro h; rw [h]; exact alphaBeta_depth0_row c L hl fuel alpha beta s hg htt.1
    simp only [aspiration]
    simp only at hany
    generalize alphaBeta c L fuel alpha beta idD 0 .pv s = r at hab hrg hany hrow ⊢
    have haf := abort_frame L r.2
    have hap := (abort_pv L r.2).1
    have hps := abort_ps L r.2
    have han := abort_ttOut L r.2
    have hfa := @abort_false σ _ L r.2
    generalize abort L r.2 = as at haf hap hps han hfa ⊢
    have htt2 : TTA2 TTok as.2 := hrg.1.congr hps han
    have hback : as.2.ttOut = false → s.ttOut = false := fun h => hab.1.mono.t_back (by rw [← han]; exact h)
    split
    · intro _ _ _ _ h; cases h
    · next hna =>
      have hna' : as.1 = false := by simpa using hna
      have hrab : r.2.aborted = false := (hfa hna').2
      have hsr : as.2.ttOut = false → InR r.1 := fun hA =>
        hrg.2 hrab (by rw [← han]; exact hA)
      split
      · next hin =>
        intro al' be sa s' h hA
        cases h
        simp only [Bool.and_eq_true, Bool.not_eq_true', decide_eq_false_iff_not] at hin
        have hlt : r.1 < beta := Int.not_le.1 hin.2
        rcases h01 with h0 | h1
        · exact ⟨by rw [hap]; exact hrow h0, fun h => by omega⟩
        · rcases hany (aspInv_win al.windowSafe (hinv (hback hA))).2 h1 hrab with h | h
          · exact ⟨by rw [hap]; exact h.2, fun _ => h.1⟩
          · exact absurd hlt (Int.not_lt.2 h)
      · next hnin =>
        have hout : r.1 ≤ alpha ∨ beta ≤ r.1 := by
          by_cases h1 : r.1 ≤ alpha
          · exact Or.inl h1
          · by_cases h2 : beta ≤ r.1
            · exact Or.inr h2
            · exfalso; apply hnin; simp [h1, h2]
        have hstep := fun (hA : as.2.ttOut = false) => aspInv_step al.windowSafe (hinv (hback hA)) (hsr hA) hout
        have hb2 : as.2.board = s.board := by rw [haf.board, hab.1.board]
        have := ih _ _ _ as.2 (by rw [hb2]; exact hg) htt2 (by rw [hb2]; exact hfin) hstep
        rw [hb2] at this
        exact this

/-- `idLoop` on a final root: a run that is not aborted and in which the flag `ttOut` stays down returns
    the null move and the final value. -/
theorem idLoop_final2 (c : Comp σ π) (L : Limits) (clock : Clock) {Good : Board → Prop} {TTok : σ → Prop} {μ : Board → Nat}
    (hl : Laws c Good) (sl : ScoreLaws c Good TTok μ) (al : AspLaws c) (fuel : Nat) (b : Board) (hg : Good b)
    (hfin : Final c.keys b) (hd : 1 ≤ L.depth) :
    ∀ (n : Nat) (idD : Int) (v : IDVars) (s : St σ), s.board = b → 0 ≤ idD → (n : Int) + idD = 64 →
      TTA2 TTok s → (s.ttOut = false → idD ≤ 1 → AspInv c.windowSize v.alpha v.beta 1) →
      (s.ttOut = false → 2 ≤ idD → FinAsp c.windowSize (fsOf b) v.alpha v.beta 1 ∧ v.score = fsOf b) →
      (s.ttOut = false → v.move = 0) →
      (idLoop c L clock fuel n idD v s).st.ttOut = false →
      (idLoop c L clock fuel n idD v s).st.aborted = false →
        (idLoop c L clock fuel n idD v s).move = 0 ∧ (idLoop c L clock fuel n idD v s).score = fsOf b := by
  intro n
  induction n with
  | zero =>
    intro idD v s _ _ hn _ _ h2 hmv hA _
    simp only [idLoop] at hA ⊢
    exact ⟨hmv hA, (h2 hA (by omega)).2⟩
  | succ n ih =>
    intro idD v s hb h0 hn htt hw01 hw2 hmv
    simp only [idLoop]
    split
    · next hcond =>
      have h2 : 2 ≤ idD := by
        apply Classical.byContradiction
        intro hlt
        have e1 : decide (idD < maxPlies) = true := decide_eq_true (by unfold maxPlies; omega)
        have e2 : decide (idD ≤ L.depth) = true := decide_eq_true (by omega)
        simp [e1, e2] at hcond
      intro hA _
      exact ⟨hmv hA, (hw2 hA h2).2⟩
    · next hcond =>
      have hlt64 : idD < 64 := by
        apply Classical.byContradiction
        intro hge
        apply hcond
        have e1 : decide (idD < maxPlies) = false := decide_eq_false (by unfold maxPlies; omega)
        simp [e1]
      have hgs : Good s.board := by rw [hb]; exact hg
      have hfs : Final c.keys s.board := by rw [hb]; exact hfin
      have hasp := aspiration_spec c L hl fuel idD fuel v.alpha v.beta 1 s hgs htt.1
      -- the table predicate after the loop, and the result of an in-window search
      have hres : TTA2 TTok (aspiration c L fuel idD fuel v.alpha v.beta 1 s).st ∧
          (∀ al be sa s', aspiration c L fuel idD fuel v.alpha v.beta 1 s = .ok al be sa s' → s'.ttOut = false →
            InR sa ∧ s'.pv.row 0 = [] ∧ (1 ≤ idD → sa = fsOf b)) := by
        by_cases h1 : idD ≤ 1
        · have hf := aspiration_free2 c L hl sl al fuel idD fuel v.alpha v.beta 1 s hgs htt (fun hA => hw01 hA h1)
          have hg01 := aspiration_final01_2 c L hl sl al fuel idD (by omega) fuel v.alpha v.beta 1 s hgs htt hfs
            (fun hA => hw01 hA h1)
          refine ⟨hf.1, fun al' be sa s' h hA => ?_⟩
          have := hg01 al' be sa s' h hA
          rw [hb] at this
          exact ⟨(hf.2 al' be sa s' h hA).1, this.1, fun h1' => this.2 (by omega)⟩
        · have h2 : 2 ≤ idD := by omega
          have hf := aspiration_final2 c L hl sl al fuel idD (by omega) fuel v.alpha v.beta 1 s hgs htt hfs
            (fun hA => by rw [hb]; exact (hw2 hA h2).1)
          refine ⟨hf.1, fun al' be sa s' h hA => ?_⟩
          have := hf.2 al' be sa s' h hA
          rw [hb] at this
          refine ⟨?_, this.2, fun _ => this.1⟩
          rw [this.1]
          rcases fsOf_cases b with e | e <;> rw [e] <;> unfold InR <;> omega
      have hasb := aspiration_aborted c L fuel idD fuel v.alpha v.beta 1 s
      generalize aspiration c L fuel idD fuel v.alpha v.beta 1 s = a at hasp hres hasb ⊢
      cases a with
      | aborted s' =>
        obtain ⟨hf, _⟩ := hasp
        simp only [Asp.st] at hf
        have hab' : s'.aborted = true := hasb s' rfl
        simp only
        split
        · intro _ hna
          simp only [setBoard_aborted] at hna
          rw [hab'] at hna; cases hna
        · intro _ hna
          simp only at hna
          rw [hab'] at hna; cases hna
      | ok al' be sample s' =>
        obtain ⟨hf, hok⟩ := hasp
        simp only [Asp.st] at hf hres
        have hb' : s'.board = b := hf.board.trans hb
        obtain ⟨htt', hokc⟩ := hres
        have hback : s'.ttOut = false → s.ttOut = false := fun h => hf.mono.t_back h
        have hokc' := fun hA => hokc al' be sample s' rfl hA
        have hact : s'.pv.active = s'.pv.row 0 := rfl
        simp only [hact]
        split
        · next hsa' =>
          intro hA _
          have hA' : s'.ttOut = false := hA
          exfalso; apply hsa'.1
          rw [(hokc' hA').2.1]
          exact hmv (hback hA')
        · have hw' : wrapS8 (idD + 1) = idD + 1 := by unfold wrapS8; omega
          rw [hw']
          apply ih
          · exact hb'
          · omega
          · push_cast at hn ⊢; omega
          · exact htt'.congr rfl rfl
          · intro hA _
            show AspInv c.windowSize (wrapS16 (sample - c.windowSize)) (wrapS16 (sample + c.windowSize)) 1
            exact aspInv_first al.windowSafe (hokc' hA).1
          · intro hA h2
            have hv : sample = fsOf b := (hokc' hA).2.2 (by omega)
            refine ⟨?_, hv⟩
            show FinAsp c.windowSize (fsOf b) (wrapS16 (sample - c.windowSize)) (wrapS16 (sample + c.windowSize)) 1
            rw [hv]
            refine finAsp_first al.windowSafe ?_
            rcases fsOf_cases b with e | e
            · exact Or.inl e
            · exact Or.inr e
          · intro hA
            have hA' : s'.ttOut = false := hA
            show pickMove (s'.pv.row 0) v.move = 0
            rw [(hokc' hA').2.1]
            exact hmv (hback hA')

/-- `go` on a final root without `GoSane`: a search that is not aborted (flag `ttOut` down) returns the
    null move with the final value (0, or `-Inf` for a checkmated root). -/
theorem go_final_free2 (c : Comp σ π) (L : Limits) (clock : Clock) {Good : Board → Prop} {TTok : σ → Prop} {μ : Board → Nat}
    (hl : Laws c Good) (sl : ScoreLaws c Good TTok μ) (al : AspLaws c) (fuel : Nat) (e : Engine σ) (b : Board)
    (hg : Good b) (nodes0 : Int) (hd : 1 ≤ L.depth) (htt : TTok e.ps) (hfin : Final c.keys b)
    (hA : (go c L clock fuel e b nodes0).st.ttOut = false)
    (hdone : (go c L clock fuel e b nodes0).st.aborted = false) :
    (go c L clock fuel e b nodes0).move = 0 ∧ FinalScore c.keys b (go c L clock fuel e b nodes0).score := by
  have h := idLoop_final2 c L clock hl sl al fuel b hg hfin hd 64 0
    { alpha := -Inf - 1, beta := Inf + 1, score := 0, move := 0, ponder := 0, reads := 0, ppolls := 0, out := [] }
    (goInit L e b nodes0) rfl (Int.le_refl 0) (by decide) ⟨sl.tt_ok _ htt, fun _ => htt⟩ (fun _ _ => aspInv_init)
    (fun _ h => absurd h (by decide)) (fun _ => rfl) hA hdone
  refine ⟨h.1, ?_⟩
  have hs : (go c L clock fuel e b nodes0).score = fsOf b := h.2
  rw [hs]; exact fsOf_final hfin

end Search
end ChessVerif
