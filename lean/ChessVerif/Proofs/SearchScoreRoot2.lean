/-
  The root analysis of Proofs/SearchScoreRoot.lean guarded by the ghost flag `St.ttOut` instead of
  `St.nmpOut` (see Proofs/SearchScoreQ2.lean): a ply-0 PV node searched to depth ≥ 1 inside a sane
  window whose un-aborted value lies strictly inside the window has a non-empty PV row or a final
  root — provided no out-of-band value was handed to a table store on the way.
-/
import ChessVerif.Proofs.SearchScoreAB2
import ChessVerif.Proofs.SearchScoreRoot

namespace ChessVerif
namespace Search

variable {σ π : Type} [PsInv σ]

theorem abMoves_root2 (c : Comp σ π) (L : Limits) {Good : Board → Prop} {TTok : σ → Prop} {μ : Board → Nat}
    (hl : Laws c Good) (sl : ScoreLaws c Good TTok μ) (child : Child σ)
    (hc : ABSpec c L Good child) (hr : ABRange2 Good TTok child) (alpha beta : Score) (d : Int)
    (nt : NodeType) (inCheck improving : Bool) (se : Score)
    (hm : Move) (s : St σ) (hw : s.ttOut = false → WinOK alpha beta) (hg : Good s.board) (hfl : s.board.fifty < 100)
    (hhash : HashOK c s.board hm) (htt : TTA2 TTok s) :
    let o := abMoves c L child alpha beta d 0 nt inCheck improving se hm s
    o.2.aborted = false → o.2.ttOut = false → alpha < o.1 → o.1 < beta → RootOut' c.keys s.board o.2 := by
  simp only [abMoves]
  generalize hx : ABCtx.mk alpha beta (if c.iir nt d hm then wrapS8 (d - 1) else d) 0 nt inCheck improving se = x
  have hxp : x.ply = 0 := by rw [← hx]
  have hxb : x.beta = beta := by rw [← hx]
  have h := abLoop_root c L hl child hc x hxp hm ((MoveGen.gen s.board).length + 1)
    { alpha := alpha, bestMove := 0, hasLegal := false, failLow := true, maxim := -Inf - 1, moveCnt := 0, quietCnt := 0,
      pick := c.pickInit s.board hm, yielded := [] } s.pushFrame hg ⟨htt.1, hfl⟩ hhash Reach.init
      (fun _ m hm => by cases hm) (fun hh => by cases hh)
  have h' := abLoop_range2 c L hl sl child hc hr x (by rw [hxp]; decide) (by rw [hxp]; decide) hm alpha
    ((MoveGen.gen s.board).length + 1)
    { alpha := alpha, bestMove := 0, hasLegal := false, failLow := true, maxim := -Inf - 1, moveCnt := 0, quietCnt := 0,
      pick := c.pickInit s.board hm, yielded := [] } s.pushFrame hg hfl hhash Reach.init (htt.congr rfl rfl)
    (fun hA => by
      obtain ⟨hw1, hw2, hw3, hw4⟩ := hw hA
      exact ⟨by rw [hxb]; exact hw3, by rw [hxb]; exact hw4, hw1, hw2, (fun h => by cases h),
        (fun _ => rfl), Int.le_refl _, Int.le_refl _, (fun h => by simp at h), fun _ => ⟨rfl, fun h => by cases h⟩⟩)
    (Or.inl rfl)
  simp only at h'
  generalize abLoop c L child x ((MoveGen.gen s.board).length + 1)
    { alpha := alpha, bestMove := 0, hasLegal := false, failLow := true, maxim := -Inf - 1, moveCnt := 0, quietCnt := 0,
      pick := c.pickInit s.board hm, yielded := [] } s.pushFrame = r at h h' ⊢
  unfold RootLoopPost at h
  obtain ⟨fl, s'⟩ := r
  cases fl with
  | ret v =>
    simp only at h ⊢
    intro hab _ _ hlt
    rcases h with h | h
    · rw [popFrame_aborted] at hab; rw [h] at hab; cases hab
    · rw [hxb] at h; exact absurd hlt (Int.not_lt.2 h)
  | done l =>
    simp only at h ⊢
    intro _ hA hgt _
    obtain ⟨hno, hfl⟩ := h
    have hinv := (h'.2.2 l rfl).1 (flagTT_false hA).1
    cases hleg : l.hasLegal with
    | false => exact Or.inr (Or.inl (by simpa using hno hleg))
    | true =>
      cases hf : l.failLow with
      | false => exact Or.inl (by simpa using hfl hf)
      | true =>
        exfalso
        simp only [hleg, Bool.not_true, Bool.false_eq_true, if_false] at hgt
        have e1 := (hinv.fl hf).1
        have e2 := (hinv.fl hf).2 hleg
        rw [e1] at e2
        exact absurd hgt (Int.not_lt.2 e2)

theorem abPrune_root2 (c : Comp σ π) (L : Limits) {Good : Board → Prop} {TTok : σ → Prop} {μ : Board → Nat}
    (hl : Laws c Good) (sl : ScoreLaws c Good TTok μ) (child : Child σ)
    (hc : ABSpec c L Good child) (hr : ABRange2 Good TTok child) (alpha beta : Score) (d : Int)
    (hrfs : ∀ se, c.rfpCut d se beta = true → beta ≤ se)
    (nt : NodeType) (inCheck improving : Bool) (se : Score) (hse : inCheck = false → -9935 ≤ se ∧ se ≤ 9935)
    (hm : Move) (s : St σ) (hw : s.ttOut = false → WinOK alpha beta) (hg : Good s.board) (hfl : s.board.fifty < 100)
    (hhash : HashOK c s.board hm)
    (hic : inCheck = s.board.inCheck s.board.stm) (htt : TTA2 TTok s) :
    let o := abPrune c L child alpha beta d 0 nt inCheck improving se hm s
    o.2.aborted = false → o.2.ttOut = false → alpha < o.1 → o.1 < beta → RootOut' c.keys s.board o.2 := by
  simp only [abPrune]
  split
  · next hrfp =>
    intro _ _ _ hlt
    have hcut : c.rfpCut d se beta = true := by
      simp only [Bool.and_eq_true] at hrfp; exact hrfp.2
    exact absurd hlt (Int.not_lt.2 (hrfs se hcut))
  · split
    · next hnm =>
      have hic' : inCheck = false := by cases inCheck <;> simp_all
      have hchk : s.board.inCheck s.board.stm = false := by rw [← hic]; exact hic'
      have hnmp : c.nmpTry s.board d se beta = true := by
        simp only [Bool.and_eq_true] at hnm; exact hnm.2
      have hbse : (beta : Int) ≤ se := sl.nmp_sound _ _ _ _ hnmp
      have hb2 : beta ≤ 9936 := Int.le_trans hbse (Int.le_trans (hse hic').2 (by decide))
      have hn := nullMove_spec c L hl child hc beta d (Int.le_refl 0) (by decide) se s hg htt.1 hchk
      have hnr := nullMove_range2 c L hl child hc hr beta d (Int.le_refl 0) (by decide) se s hg hchk htt
        (fun hA => ⟨(hw hA).2.2.1, hb2⟩)
      have hge := nullMove_ge c child beta d 0 se s
      simp only at hn hnr
      generalize nullMove c child beta d 0 se s = nm at hn hnr hge ⊢
      split
      · next v hv => intro _ _ _ hlt; exact absurd hlt (Int.not_lt.2 (hge v hv))
      · have := abMoves_root2 c L hl sl child hc hr alpha beta d nt inCheck improving se hm nm.2
          (fun hA => hw (hn.1.mono.t_back hA))
          (by rw [hn.1.board]; exact hg) (by rw [hn.1.board]; exact hfl) (by rw [hn.1.board]; exact hhash) hnr.1
        rw [hn.1.board] at this
        exact this
    · exact abMoves_root2 c L hl sl child hc hr alpha beta d nt inCheck improving se hm s hw hg hfl hhash htt

theorem abBody_root2 (c : Comp σ π) (L : Limits) {Good : Board → Prop} {TTok : σ → Prop} {μ : Board → Nat}
    (hl : Laws c Good) (sl : ScoreLaws c Good TTok μ) (child : Child σ)
    (hc : ABSpec c L Good child) (hr : ABRange2 Good TTok child) (alpha beta : Score) (d : Int)
    (hrfs : ∀ se, c.rfpCut d se beta = true → beta ≤ se)
    (s : St σ) (hw : s.ttOut = false → WinOK alpha beta) (hg : Good s.board) (hfl : s.board.fifty < 100)
    (htt : TTA2 TTok s) :
    let o := abBody c L child alpha beta d 0 .pv s
    o.2.aborted = false → o.2.ttOut = false → alpha < o.1 → o.1 < beta → RootOut' c.keys s.board o.2 := by
  simp only [abBody]
  split
  · next v heq =>
    exfalso
    split at heq
    · simp at heq
    · cases heq
  · refine abPrune_root2 c L hl sl child hc hr alpha beta d hrfs .pv _ _ _ ?_ _ s hw hg hfl
      (hashOK_probe c htt.1 s.board 0) rfl htt
    intro h
    simp only [h, Bool.false_eq_true, if_false]
    exact eval_band c s.board

/-- A ply-0 PV node searched to depth `d ≥ 1` in a workable window in which reverse futility is
    sound: un-aborted, flag `ttOut` down and strictly inside the window ⇒ non-empty row 0 or final root. -/
theorem alphaBeta_root_gen2 (c : Comp σ π) (L : Limits) {Good : Board → Prop} {TTok : σ → Prop} {μ : Board → Nat}
    (hl : Laws c Good) (sl : ScoreLaws c Good TTok μ) (fuel : Nat)
    (alpha beta : Score) (d : Int) (hd : 1 ≤ d)
    (hrfp : ∀ se, c.rfpCut d se beta = true → beta ≤ se) (s : St σ) (hw : s.ttOut = false → WinOK alpha beta)
    (hg : Good s.board) (htt : TTA2 TTok s) :
    let o := alphaBeta c L fuel alpha beta d 0 .pv s
    o.2.aborted = false → o.2.ttOut = false → alpha < o.1 → o.1 < beta → RootOut' c.keys s.board o.2 := by
  cases fuel with
  | zero => intro o hab; exact absurd hab (by simp [o, alphaBeta])
  | succ fuel =>
    simp only [alphaBeta]
    have hq : ¬ (d = 0 ∨ (0 : Int) ≥ maxPlies - 1) := by simp [maxPlies]; omega
    rw [if_neg hq]
    have i1 := incrementNodes_frame L (s.setPv (s.pv.setNull (0 : Int).toNat))
    have ips := incrementNodes_ps L (s.setPv (s.pv.setNull (0 : Int).toNat))
    have ian := incrementNodes_ttOut L (s.setPv (s.pv.setNull (0 : Int).toNat))
    generalize incrementNodes L (s.setPv (s.pv.setNull (0 : Int).toNat)) = s1 at i1 ips ian ⊢
    have a1 := abort_frame L { s1 with abNodes := s1.abNodes + 1 }
    have aps := abort_ps L { s1 with abNodes := s1.abNodes + 1 }
    have aan := abort_ttOut L { s1 with abNodes := s1.abNodes + 1 }
    have hat := abort_true_iff L { s1 with abNodes := s1.abNodes + 1 }
    generalize abort L { s1 with abNodes := s1.abNodes + 1 } = as at a1 aps aan hat ⊢
    have hb : as.2.board = s.board := by rw [a1.board]; exact i1.board
    have hps : as.2.ps = s.ps := by rw [aps]; exact ips
    have han : as.2.ttOut = s.ttOut := by rw [aan]; exact ian
    split
    · next h => intro hab; rw [← hat, h] at hab; cases hab
    · split
      · next hdraw =>
        intro _ _ _ _
        right
        rw [hb] at hdraw
        rcases hdraw with h | h
        · exact Or.inr (Or.inl h)
        · refine Or.inr (Or.inr ?_)
          have : (min (0 : Int) 1) = 0 := by decide
          rw [this] at h
          omega
      · next hnd =>
        have := abBody_root2 c L hl sl (alphaBeta c L fuel) (alphaBeta_spec c L hl fuel) (alphaBeta_range2 c L hl sl fuel)
          alpha beta d hrfp as.2 (fun hA => hw (by rw [← han]; exact hA)) (by rw [hb]; exact hg)
          (fifty_lt_of_not_draw hnd) (htt.congr hps han)
        rw [hb] at this
        exact this

/-- … in a root window (`RootWin`: reverse futility compares without wrapping at every depth). -/
theorem alphaBeta_root2 (c : Comp σ π) (L : Limits) {Good : Board → Prop} {TTok : σ → Prop} {μ : Board → Nat}
    (hl : Laws c Good) (sl : ScoreLaws c Good TTok μ) (fuel : Nat)
    (alpha beta : Score) (hw : RootWin alpha beta) (d : Int) (hd : 1 ≤ d) (s : St σ) (hg : Good s.board) (htt : TTA2 TTok s) :
    let o := alphaBeta c L fuel alpha beta d 0 .pv s
    o.2.aborted = false → o.2.ttOut = false → alpha < o.1 → o.1 < beta → RootOut' c.keys s.board o.2 :=
  alphaBeta_root_gen2 c L hl sl fuel alpha beta d hd (fun se h => sl.rfp_sound d se beta (by omega) hw.2 h) s
    (fun _ => hw.1) hg htt

end Search
end ChessVerif
