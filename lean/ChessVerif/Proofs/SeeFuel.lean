/-
  C18, model faithfulness: the Go loop `for { … }` of heur.SEE has no static bound; the model gives it
  fuel 65.  Every iteration that continues lifts one man from `occ` (≤ 64 men), so the fuel is never
  exhausted: with ANY larger fuel the model walks the same capture sequence and returns the same answer.
-/
import ChessVerif.Proofs.SeeIncr
import ChessVerif.Proofs.SeeLoop

namespace ChessVerif.Proofs.SeeFuel
open ChessVerif See SeeSpec ChessVerif.Proofs.SeeRays ChessVerif.Proofs.SeeIncr
set_option autoImplicit false

theorem bits_lift (occ : BB) (s0 : Nat) (hs0 : s0 < 64) : bits (lift occ s0) = (bits occ).filter (· != s0) := by
  unfold bits
  rw [List.filter_filter]
  apply List.filter_congr
  intro s _
  rw [lift_get occ s0 s hs0]
  by_cases e : s = s0
  · subst e; simp
  · have : (s != s0) = true := by simpa using e
    simp [e, this]

/-- lifting an occupied square removes exactly one man. -/
theorem popcount_lift (occ : BB) (s0 : Nat) (hs0 : s0 < 64) (h : occ.getLsbD s0 = true) :
    popcount (lift occ s0) + 1 = popcount occ := by
  unfold popcount
  rw [bits_lift occ s0 hs0, ← (bits_nodup occ).erase_eq_filter s0]
  have hmem : s0 ∈ bits occ := mem_bits.2 ⟨hs0, h⟩
  rw [List.length_erase_of_mem hmem]
  have : 0 < (bits occ).length := List.length_pos_of_mem hmem
  omega

theorem popcount_le (x : BB) : popcount x ≤ 64 := by
  unfold popcount bits
  exact Nat.le_trans (List.length_filter_le _ _) (by simp)

/-- a `take` of the from-scratch step lifts an occupied square. -/
theorem take_lifts {b : Board} (occ sa : BB) (X : Piece) (hsub : ∀ i, sa.getLsbD i = true → occ.getLsbD i = true)
    (hne : sa &&& b.pieceBB X ≠ 0) :
    ∃ s0, s0 < 64 ∧ occ.getLsbD s0 = true ∧ clearLowest occ (sa &&& b.pieceBB X) = lift occ s0 := by
  refine ⟨Model.BitLoop.tz (sa &&& b.pieceBB X), Proofs.BitLoop.tz_lt_of_ne_zero hne, ?_, clearLowest_eq_lift _ _ hne⟩
  have := Proofs.BitLoop.tz_set_of_ne_zero hne
  simp only [BitVec.getLsbD_and, Bool.and_eq_true] at this
  exact hsub _ this.1

theorem pickBB_take {b : Board} (to : Nat) (c : Color) (occ : BB) (v : Int) (occ' : BB)
    (h : pickBB b to c occ = .take v occ') :
    ∃ s0, s0 < 64 ∧ occ.getLsbD s0 = true ∧ occ' = lift occ s0 := by
  have hsub : ∀ i, (A b to occ &&& b.colorBB c).getLsbD i = true → occ.getLsbD i = true := by
    intro i hi
    unfold A at hi
    simp only [BitVec.getLsbD_and, Bool.and_eq_true] at hi
    exact hi.1.2
  unfold pickBB at h
  split at h
  · cases h
  · unfold pickP at h
    split at h
    · rename_i hX
      cases h
      obtain ⟨s0, h1, h2, h3⟩ := take_lifts (b := b) occ _ .pawn hsub (by simpa using hX)
      exact ⟨s0, h1, h2, h3⟩
    · unfold pickN at h
      split at h
      · rename_i hX
        cases h
        obtain ⟨s0, h1, h2, h3⟩ := take_lifts (b := b) occ _ .knight hsub (by simpa using hX)
        exact ⟨s0, h1, h2, h3⟩
      · unfold pickB at h
        split at h
        · rename_i hX
          cases h
          obtain ⟨s0, h1, h2, h3⟩ := take_lifts (b := b) occ _ .bishop hsub (by simpa using hX)
          exact ⟨s0, h1, h2, h3⟩
        · split at h
          · rename_i hX
            cases h
            obtain ⟨s0, h1, h2, h3⟩ := take_lifts (b := b) occ _ .rook hsub (by simpa using hX)
            exact ⟨s0, h1, h2, h3⟩
          · split at h
            · rename_i hX
              cases h
              obtain ⟨s0, h1, h2, h3⟩ := take_lifts (b := b) occ _ .queen hsub (by simpa using hX)
              exact ⟨s0, h1, h2, h3⟩
            · cases h

/-- with more fuel than men on the board the from-scratch sequence no longer depends on the fuel. -/
theorem capsBB_stable (b : Board) (to : Nat) : ∀ (n : Nat) (c : Color) (occ : BB), popcount occ < n →
    capsBB b to (n + 1) c occ = capsBB b to n c occ := by
  intro n
  induction n with
  | zero => intro c occ h; omega
  | succ k ih =>
    intro c occ h
    conv => lhs; unfold capsBB
    conv => rhs; unfold capsBB
    cases hp : pickBB b to c occ with
    | stop => rfl
    | king ok => rfl
    | take v occ' =>
      obtain ⟨s0, h1, h2, h3⟩ := pickBB_take to c occ v occ' hp
      have := popcount_lift occ s0 h1 h2
      simp only
      rw [ih c.flip occ' (by rw [h3]; omega)]

theorem capsBB_fuel (b : Board) (to : Nat) (c : Color) (occ : BB) (k : Nat) :
    capsBB b to (See.fuel + k) c occ = capsBB b to See.fuel c occ := by
  induction k with
  | zero => rfl
  | succ j ih =>
    have : popcount occ < See.fuel + j := by have := popcount_le occ; unfold See.fuel; omega
    rw [← Nat.add_assoc, capsBB_stable b to (See.fuel + j) c occ this, ih]

/-- **The fuel is never exhausted**: any larger fuel gives the same capture sequence … -/
theorem caps_fuel {b : Board} (hwf : b.wf = true) (m : Move) (k : Nat) :
    See.caps b (Move.dst m) (See.fuel + k) (geo0 b m) = See.caps b (Move.dst m) See.fuel (geo0 b m) := by
  have ht : Move.dst m < 64 := by unfold Move.dst; omega
  rw [caps_eq_capsBB hwf _ ht _ _ (inv_geo0 b m), caps_eq_capsBB hwf _ ht _ _ (inv_geo0 b m)]
  exact capsBB_fuel b _ _ _ k

/-- … and the same answer of the loop. -/
theorem loop_fuel {b : Board} (hwf : b.wf = true) (m : Move) (k : Nat) (swap : Int) (res : Bool) :
    See.loop b (Move.dst m) (See.fuel + k) (geo0 b m) swap res =
      See.loop b (Move.dst m) See.fuel (geo0 b m) swap res := by
  rw [Proofs.SeeLoop.loop_eq_absLoop, Proofs.SeeLoop.loop_eq_absLoop, caps_fuel hwf m k]

end ChessVerif.Proofs.SeeFuel
