/-
  C11, obligation 3: facts about the model of the UCI `position` command.
  * `handlePosition_cases`      the new current board is the old one, or comes from StartPos, or from
                                a FEN that parsed AND passed the piece-count gate (then moves);
  * `position_keeps_on_reject`  a FEN that does not parse or is rejected by the gate leaves the
                                current board untouched (as do too few fields / unknown keywords);
  * `position_installs`         an accepted FEN without a move list is installed.
-/
import ChessVerif.Model.UciPosition
import ChessVerif.Proofs.FenTotal

namespace ChessVerif
namespace UciPosition
open Fen

/-- where the board after `position …` can come from. -/
theorem handlePosition_cases (K : Keys) (cur : Board) (args : List Bytes) :
    handlePosition K cur args = cur ∨
    (∃ ms, handlePosition K cur args = applyMoves K (startPos K) ms) ∨
    (∃ b ms, Fen.fromFEN K (joinSp (args.tail.take 6)) = .ok b ∧ b.invalidPieceCount = false ∧
      handlePosition K cur args = applyMoves K b ms) := by
  unfold handlePosition
  match args with
  | [] => exact Or.inl rfl
  | a0 :: rest =>
    dsimp only
    split
    · right; left
      split
      · split
        · exact ⟨_, rfl⟩
        · exact ⟨[], rfl⟩
      · exact ⟨[], rfl⟩
    · split
      · split
        · exact Or.inl rfl
        · split
          · rename_i b hb
            split
            · exact Or.inl rfl
            · rename_i hipc
              right; right
              refine ⟨b, ?_⟩
              simp only [List.tail_cons]
              split
              · split
                · exact ⟨_, hb, by simpa using hipc, rfl⟩
                · exact ⟨[], hb, by simpa using hipc, rfl⟩
              · exact ⟨[], hb, by simpa using hipc, rfl⟩
          · exact Or.inl rfl
          · exact Or.inl rfl
      · exact Or.inl rfl

/-- **The UCI position command never replaces the current position with a rejected one**:
    if the six FEN fields do not parse, or parse to a board the piece-count gate rejects, the
    current board is unchanged — whatever follows the fields. -/
theorem position_keeps_on_reject (K : Keys) (cur : Board) (rest : List Bytes)
    (hrej : ∀ b, Fen.fromFEN K (joinSp (rest.take 6)) = .ok b → b.invalidPieceCount = true) :
    handlePosition K cur (kwFen :: rest) = cur := by
  unfold handlePosition
  have h1 : ¬ (kwFen = kwStartpos) := by decide
  simp only [h1, if_false, if_true]
  split
  · rfl
  · split
    · rename_i b hb
      simp [hrej b hb]
    · rfl
    · rfl

/-- fewer than six fields after `fen`: unchanged. -/
theorem position_keeps_on_short (K : Keys) (cur : Board) (rest : List Bytes) (h : rest.length < 6) :
    handlePosition K cur (kwFen :: rest) = cur := by
  unfold handlePosition
  have h1 : ¬ (kwFen = kwStartpos) := by decide
  have h2 : (kwFen :: rest).length < 7 := by simp; omega
  simp only [h1, if_false, if_true, h2]

/-- neither `startpos` nor `fen`: unchanged. -/
theorem position_keeps_on_unknown (K : Keys) (cur : Board) (a0 : Bytes) (rest : List Bytes)
    (h1 : a0 ≠ kwStartpos) (h2 : a0 ≠ kwFen) : handlePosition K cur (a0 :: rest) = cur := by
  unfold handlePosition
  simp only [h1, h2, if_false]

/-- six fields that parse and pass the gate, and nothing else: the parsed board is installed. -/
theorem position_installs (K : Keys) (cur b : Board) (fields : List Bytes) (hlen : fields.length = 6)
    (hparse : Fen.fromFEN K (joinSp fields) = .ok b) (hgate : b.invalidPieceCount = false) :
    handlePosition K cur (kwFen :: fields) = b := by
  unfold handlePosition
  have h1 : ¬ (kwFen = kwStartpos) := by decide
  have h2 : ¬ ((kwFen :: fields).length < 7) := by simp; omega
  have h3 : fields.take 6 = fields := List.take_of_length_le (by omega)
  have h4 : fields.drop 6 = [] := List.drop_of_length_le (by omega)
  simp only [h1, if_false, if_true, h2, h3, hparse, hgate, h4, Bool.false_eq_true]

/-- `StartPos()` never hits the `Must` panic: the constant parses. -/
theorem startPos_ok (K : Keys) : ∃ b, Fen.fromFEN K startPosFEN.toUTF8.data = .ok b := by
  have : ∃ b, Fen.parseFEN startPosFEN.toUTF8.data = .ok b := by
    cases h : Fen.parseFEN startPosFEN.toUTF8.data with
    | ok b => exact ⟨b, rfl⟩
    | err => exact absurd h (by decide)
    | panic => exact absurd h (parseFEN_ne_panic _)
  obtain ⟨b, hb⟩ := this
  exact ⟨b.resetHash K, by unfold Fen.fromFEN; rw [hb]; rfl⟩

end UciPosition
end ChessVerif
