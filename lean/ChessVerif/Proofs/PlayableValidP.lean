/-
  C01 closure, vocabulary: `Rules.valid` as a structure of propositions (`ValidP`), and the pointwise
  description of the placement after `makeMove` (`cfg5`): which squares change and what they show.
-/
import ChessVerif.Proofs.PlayableCount

namespace ChessVerif.Playable
open ChessVerif Board Rules Bridge AbsMake

/-! ### `Rules.valid`, clause by clause -/

/-- the en-passant clause of `Rules.valid`, verbatim. -/
def epOK (p : Pos) : Bool :=
  match p.ep with
  | none => true
  | some t =>
    let mover := p.turn.flip
    t < 64 && rank t == homeRank mover + 2 * up mover && p.empty t &&
    (match square? (file t) (rank t + up mover), square? (file t) (rank t - up mover) with
     | some front, some back => p.has front mover .pawn && p.empty back
     | _, _ => false)

/-- `Rules.valid` as a conjunction of propositions. -/
structure ValidP (p : Pos) : Prop where
  kings : ∀ c, count p c .king = 1
  bound : ∀ c, promotedBound p c = true
  pawns : ∀ s, s < 64 → ∀ c, p.has s c .pawn = true → s / 8 ≠ 0 ∧ s / 8 ≠ 7
  real : ∀ s, s < 64 → ∀ c, p.at_ s ≠ some (c, .none)
  safe : inCheck p p.turn.flip = false
  wk : p.rights.wk = true → p.has 4 .white .king = true ∧ p.has 7 .white .rook = true
  wq : p.rights.wq = true → p.has 4 .white .king = true ∧ p.has 0 .white .rook = true
  bk : p.rights.bk = true → p.has 60 .black .king = true ∧ p.has 63 .black .rook = true
  bq : p.rights.bq = true → p.has 60 .black .king = true ∧ p.has 56 .black .rook = true
  ep : epOK p = true
  hm0 : 0 ≤ p.halfmove
  hm100 : p.halfmove ≤ 100
  fm1 : 1 ≤ p.fullmove

theorem false_or_iff (a : Bool) (B : Prop) : (a = false ∨ B) ↔ (a = true → B) := by
  cases a <;> simp

theorem real_clause (p : Pos) (s : Nat) :
    (match p.at_ s with | some (_, .none) => false | _ => true) = true ↔ ∀ c, p.at_ s ≠ some (c, .none) := by
  cases h : p.at_ s with
  | none => simp
  | some ck =>
    obtain ⟨c, k⟩ := ck
    cases k <;> simp

theorem validP_iff (p : Pos) : Rules.valid p = true ↔ ValidP p := by
  have hv : Rules.valid p =
    ([Color.white, Color.black].all (fun c => count p c .king == 1 && promotedBound p c) &&
    (List.range 64).all (fun s => !((p.has s .white .pawn || p.has s .black .pawn) && (s / 8 == 0 || s / 8 == 7))) &&
    (List.range 64).all (fun s => match p.at_ s with | some (_, .none) => false | _ => true) &&
    !(inCheck p p.turn.flip) &&
    (!p.rights.wk || (p.has 4 .white .king && p.has 7 .white .rook)) &&
    (!p.rights.wq || (p.has 4 .white .king && p.has 0 .white .rook)) &&
    (!p.rights.bk || (p.has 60 .black .king && p.has 63 .black .rook)) &&
    (!p.rights.bq || (p.has 60 .black .king && p.has 56 .black .rook)) &&
    epOK p && decide (0 ≤ p.halfmove) && decide (p.halfmove ≤ 100) && decide (1 ≤ p.fullmove)) := rfl
  rw [hv]
  simp only [Bool.and_eq_true, List.all_eq_true, List.mem_range, decide_eq_true_eq,
    Bool.not_eq_true', real_clause, List.mem_cons, List.not_mem_nil, or_false, beq_iff_eq, Bool.or_eq_true, false_or_iff]
  constructor
  · rintro ⟨⟨⟨⟨⟨⟨⟨⟨⟨⟨⟨h1, h2⟩, h3⟩, h4⟩, h5⟩, h6⟩, h7⟩, h8⟩, h9⟩, h10⟩, h11⟩, h12⟩
    refine ⟨fun c => ?_, fun c => ?_, ?_, h3, h4, h5, h6, h7, h8, h9, h10, h11, h12⟩
    · cases c
      · exact (h1 _ (Or.inl rfl)).1
      · exact (h1 _ (Or.inr rfl)).1
    · cases c
      · exact (h1 _ (Or.inl rfl)).2
      · exact (h1 _ (Or.inr rfl)).2
    · intro s hs c hc
      have := h2 s hs
      rw [Bool.eq_false_iff] at this
      constructor
      · intro e; apply this
        simp only [Bool.and_eq_true, Bool.or_eq_true, beq_iff_eq]
        exact ⟨by cases c <;> simp [hc], Or.inl e⟩
      · intro e; apply this
        simp only [Bool.and_eq_true, Bool.or_eq_true, beq_iff_eq]
        exact ⟨by cases c <;> simp [hc], Or.inr e⟩
  · intro V
    refine ⟨⟨⟨⟨⟨⟨⟨⟨⟨⟨⟨?_, ?_⟩, V.real⟩, V.safe⟩, V.wk⟩, V.wq⟩, V.bk⟩, V.bq⟩, V.ep⟩, V.hm0⟩, V.hm100⟩, V.fm1⟩
    · rintro c (rfl | rfl)
      · exact ⟨V.kings _, V.bound _⟩
      · exact ⟨V.kings _, V.bound _⟩
    · intro s hs
      rw [Bool.eq_false_iff]
      simp only [ne_eq, Bool.and_eq_true, Bool.or_eq_true, beq_iff_eq, not_and, not_or]
      rintro (h | h)
      · exact V.pawns s hs _ h
      · exact V.pawns s hs _ h

/-! ### the placement after the move, square by square -/

section pointwise
variable {f : Cfg} {b : Board} {m : Move}

theorem cfg3_at (s : Nat) :
    cfg3 f b m s = if s = Move.dst m then man b.stm (mvPut b m) else if s = Move.src m then none
      else if s = b.captureSq m then none else f s := by
  unfold cfg3 cfg2 cfg1 upd; rfl

theorem cfg5_at (s : Nat) :
    cfg5 f b m s = match hop (b.pieceAt (Move.src m)) m with
      | none => cfg3 f b m s
      | some (rf, rt) => if s = rt then man b.stm Piece.rook else if s = rf then none else cfg3 f b m s := by
  unfold cfg5
  cases hop (b.pieceAt (Move.src m)) m with
  | none => rfl
  | some v => obtain ⟨rf, rt⟩ := v; simp only [hopCfg, upd]

/-- a square away from the (at most five) squares the move touches keeps its content. -/
theorem cfg5_untouched (s : Nat) (h1 : s ≠ Move.dst m) (h2 : s ≠ Move.src m) (h3 : s ≠ b.captureSq m)
    (h4 : ∀ rf rt, hop (b.pieceAt (Move.src m)) m = some (rf, rt) → s ≠ rf ∧ s ≠ rt) :
    cfg5 f b m s = f s := by
  rw [cfg5_at]
  cases hh : hop (b.pieceAt (Move.src m)) m with
  | none => simp only [cfg3_at, h1, h2, h3, if_false]
  | some v =>
    obtain ⟨rf, rt⟩ := v
    obtain ⟨a, c⟩ := h4 rf rt hh
    simp only [cfg3_at, h1, h2, h3, a, c, if_false]

/-- a man seen after the move is the castled rook, the man put on the destination, or was there before. -/
theorem cfg5_some (s : Nat) (x : Color × Piece) (h : cfg5 f b m s = some x) :
    (∃ rf rt, hop (b.pieceAt (Move.src m)) m = some (rf, rt) ∧ s = rt ∧ x = (b.stm, Piece.rook)) ∨
    (s = Move.dst m ∧ man b.stm (mvPut b m) = some x) ∨ f s = some x := by
  rw [cfg5_at] at h
  have key : cfg3 f b m s = some x → (s = Move.dst m ∧ man b.stm (mvPut b m) = some x) ∨ f s = some x := by
    intro h3
    rw [cfg3_at] at h3
    split at h3
    · rename_i e; exact Or.inl ⟨e, h3⟩
    · split at h3
      · exact absurd h3 (by simp)
      · split at h3
        · exact absurd h3 (by simp)
        · exact Or.inr h3
  cases hh : hop (b.pieceAt (Move.src m)) m with
  | none => rw [hh] at h; exact Or.inr (key h)
  | some v =>
    obtain ⟨rf, rt⟩ := v
    rw [hh] at h
    simp only at h
    split at h
    · rename_i e
      rw [man_of_ne (by decide)] at h
      injection h with h
      exact Or.inl ⟨rf, rt, rfl, e, h.symm⟩
    · split at h
      · exact absurd h (by simp)
      · exact Or.inr (key h)

end pointwise

end ChessVerif.Playable
