/-
  C02, en-passant clause, part 5: assembly.  `CanEnPassant` ⇔ a legal en-passant capture exists
  (`canEnPassant_iff`), the en-passant field after `MakeMove` (`make_ep_iff`), and — given agreement on
  the five other fields (`CoreAgrees`, the statement of `abs_make_core`) — equality of the whole
  abstraction with `Rules.apply` (`make_refines_of_core`).
-/
import ChessVerif.Proofs.EpTargetLegal
import ChessVerif.Proofs.MakeUndoSteps
namespace ChessVerif.EpTarget
open ChessVerif Board Rules Bridge

variable {b : Board} {m : Move}

/-- **`CanEnPassant` decides the existence of a legal en-passant capture** in the successor of a
    generated double pawn push. -/
theorem canEnPassant_iff (hv : Board.valid b = true) (hm : m ∈ MoveGen.gen b)
    (hp : b.pieceAt (Move.src m) = Piece.pawn) (hd : mvDiff m = 16) :
    b.canEnPassant (Move.dst m) = true ↔
      Rules.legalEpCaptures (Rules.applyCore (abs b) (decodeMove m)) ≠ [] := by
  have hw := WFP_of_valid hv
  have dp := dp_of_gen hv hm hp hd
  rw [canEnPassant_iff_able hw dp]
  show _ ↔ Rules.legalEpCaptures (succ b m) ≠ []
  rw [legalEp_succ_iff hw dp]
  constructor
  · rintro ⟨a, ha, h⟩; exact ⟨a, ha, by rw [← probe_eq_inCheck hv dp ha]; exact h⟩
  · rintro ⟨a, ha, h⟩; exact ⟨a, ha, by rw [probe_eq_inCheck hv dp ha]; exact h⟩

theorem legalEpCaptures_of_ep_none (p : Pos) (h : p.ep = none) : Rules.legalEpCaptures p = [] := by
  unfold Rules.legalEpCaptures
  rw [List.filter_eq_nil_iff]
  intro mv _
  unfold Rules.isEnPassant
  rw [h]
  simp

/-- a generated move that is not a pawn move over a distance of 16 is no double advance of the rule book. -/
theorem not_doublePush (hv : Board.valid b = true) (hm : m ∈ MoveGen.gen b)
    (hn : ¬ (b.pieceAt (Move.src m) = Piece.pawn ∧ mvDiff m = 16)) :
    Rules.isDoublePush (abs b) (decodeMove m) = false := by
  have hw := WFP_of_valid hv
  cases hdp : Rules.isDoublePush (abs b) (decodeMove m)
  · rfl
  · exfalso
    unfold Rules.isDoublePush at hdp
    rw [Bool.and_eq_true, abs_has hw, beq_iff_eq] at hdp
    obtain ⟨⟨_, hp⟩, hr⟩ := hdp
    rw [decodeMove_src] at hp
    rw [decodeMove_src, decodeMove_dst] at hr
    apply hn
    refine ⟨hp, ?_⟩
    obtain ⟨_, hPL⟩ := (PL.gen_iff_PL (PL.PLDomain_of_valid hv) m).1 hm
    obtain ⟨_, _, hk⟩ := (PL_iff_kind hw _ _ _ (PL.src_lt m)).1 hPL
    rw [hp] at hk
    obtain ⟨_, hshape⟩ := hk
    have hsl := PL.src_lt m
    have hdl := PL.dst_lt m
    unfold Rules.rank at hr
    unfold mvDiff
    rcases hshape with h | h | h | h
    · have := h.1
      revert this
      cases b.stm <;> simp only [PL.ahead] <;> intro h' <;> omega
    · have := h.1
      revert this
      cases b.stm <;> simp only [PL.ahead] <;> intro h' <;> split <;> omega
    · have := h.1
      revert this
      cases b.stm <;> simp only [PL.capGeom] <;> intro h' <;> omega
    · have := h.1
      revert this
      cases b.stm <;> simp only [PL.capGeom] <;> intro h' <;> omega

theorem succ_ep_none (hv : Board.valid b = true) (hm : m ∈ MoveGen.gen b)
    (hn : ¬ (b.pieceAt (Move.src m) = Piece.pawn ∧ mvDiff m = 16)) : (succ b m).ep = none := by
  unfold succ
  rw [applyCore_ep, not_doublePush hv hm hn]
  rfl

theorem mvCanEP_iff (b : Board) (m : Move) :
    mvCanEP b m = true ↔
      (b.pieceAt (Move.src m) = Piece.pawn ∧ mvDiff m = 16) ∧ b.canEnPassant (Move.dst m) = true := by
  unfold mvCanEP mvDiff
  simp only [Bool.and_eq_true, decide_eq_true_eq, beq_iff_eq]

/-- the engine records a new target iff the move is a double push after which a legal en-passant
    capture exists. -/
theorem mvCanEP_iff_legal (hv : Board.valid b = true) (hm : m ∈ MoveGen.gen b) :
    mvCanEP b m = true ↔ Rules.legalEpCaptures (succ b m) ≠ [] := by
  rw [mvCanEP_iff]
  by_cases hdp : b.pieceAt (Move.src m) = Piece.pawn ∧ mvDiff m = 16
  · rw [canEnPassant_iff hv hm hdp.1 hdp.2]
    exact ⟨fun h => h.2, fun h => ⟨hdp, h⟩⟩
  · constructor
    · intro h; exact absurd h.1 hdp
    · intro h; exact absurd (legalEpCaptures_of_ep_none _ (succ_ep_none hv hm hdp)) h

theorem make_ep_val (K : Keys) (b : Board) (m : Move) :
    (b.makeMove K m).1.ep = if mvCanEP b m then mid m else 0 := by
  rw [makeMove_eq, make_ep]; rfl

theorem mid_ne_zero (h : DP b m) : mid m ≠ 0 := by
  rcases h.nums with ⟨_, h0, h1, h2⟩ | ⟨_, h0, h1, h2⟩ <;> omega

/-- **the en-passant field after `MakeMove`.**  A target is recorded iff a legal en-passant capture
    exists in the successor position; when recorded it is the passed square, and the move was a
    double pawn push. -/
theorem make_ep_iff (K : Keys) (hv : Board.valid b = true) (hm : m ∈ MoveGen.gen b) :
    ((b.makeMove K m).1.ep ≠ 0 ↔ Rules.legalEpCaptures (Rules.applyCore (abs b) (decodeMove m)) ≠ []) ∧
    ((b.makeMove K m).1.ep ≠ 0 →
      (b.makeMove K m).1.ep = (Move.src m + Move.dst m) / 2 ∧
      (Rules.applyCore (abs b) (decodeMove m)).ep = some ((Move.src m + Move.dst m) / 2)) := by
  have hw := WFP_of_valid hv
  rw [make_ep_val]
  show (_ ↔ Rules.legalEpCaptures (succ b m) ≠ []) ∧ (_ → _ ∧ (succ b m).ep = _)
  rw [← mvCanEP_iff_legal hv hm]
  cases hc : mvCanEP b m
  · simp
  · have hdp := ((mvCanEP_iff b m).1 hc).1
    have dp := dp_of_gen hv hm hdp.1 hdp.2
    simp only [if_true]
    exact ⟨⟨fun _ => by simp, fun _ => mid_ne_zero dp⟩, fun _ => ⟨rfl, succ_ep hw dp⟩⟩

/-! ### the whole successor position -/

/-- agreement on everything but the en-passant field (the statement of `abs_make_core`). -/
def CoreAgrees (p q : Pos) : Prop :=
  p.men = q.men ∧ p.turn = q.turn ∧ p.rights = q.rights ∧ p.halfmove = q.halfmove ∧ p.fullmove = q.fullmove

theorem pos_ext {p q : Pos} (h : CoreAgrees p q) (he : p.ep = q.ep) : p = q := by
  obtain ⟨h1, h2, h3, h4, h5⟩ := h
  cases p; cases q
  simp only at h1 h2 h3 h4 h5 he
  subst h1 h2 h3 h4 h5 he
  rfl

theorem CoreAgrees.trans {p q r : Pos} (h1 : CoreAgrees p q) (h2 : CoreAgrees q r) : CoreAgrees p r :=
  ⟨h1.1.trans h2.1, h1.2.1.trans h2.2.1, h1.2.2.1.trans h2.2.2.1, h1.2.2.2.1.trans h2.2.2.2.1,
    h1.2.2.2.2.trans h2.2.2.2.2⟩

/-- `Rules.apply` changes nothing but the en-passant field of `Rules.applyCore` … -/
theorem apply_core (p : Pos) (mv : Mv) : CoreAgrees (Rules.applyCore p mv) (Rules.apply p mv) := by
  unfold Rules.apply
  simp only []
  generalize Rules.applyCore p mv = q
  split <;> exact ⟨rfl, rfl, rfl, rfl, rfl⟩

/-- … which it clears when no en-passant capture is legal. -/
theorem apply_ep (p : Pos) (mv : Mv) :
    (Rules.apply p mv).ep =
      if (Rules.legalEpCaptures (Rules.applyCore p mv)).isEmpty then none else (Rules.applyCore p mv).ep := by
  unfold Rules.apply
  simp only []
  generalize Rules.applyCore p mv = q
  split <;> rfl

theorem isEmpty_false_of_ne_nil {α : Type} {l : List α} (h : l ≠ []) : l.isEmpty = false := by
  cases l with
  | nil => exact absurd rfl h
  | cons x xs => rfl

/-- from agreement on the five other fields to equality with `Rules.apply` (which normalises the
    en-passant target exactly as the engine does). -/
theorem make_refines_of_core (K : Keys) (hv : Board.valid b = true) (hm : m ∈ MoveGen.gen b)
    (hcore : CoreAgrees (abs (b.makeMove K m).1) (Rules.applyCore (abs b) (decodeMove m))) :
    abs (b.makeMove K m).1 = Rules.apply (abs b) (decodeMove m) := by
  obtain ⟨hiff, hval⟩ := make_ep_iff K hv hm
  apply pos_ext (hcore.trans (apply_core _ _))
  rw [apply_ep, abs_ep]
  by_cases he : (b.makeMove K m).1.ep = 0
  · have hnil : Rules.legalEpCaptures (Rules.applyCore (abs b) (decodeMove m)) = [] := by
      apply Classical.byContradiction
      intro hne
      exact (hiff.2 hne) he
    rw [if_pos he, hnil]
    rfl
  · rw [if_neg he, isEmpty_false_of_ne_nil (hiff.1 he)]
    obtain ⟨h1, h2⟩ := hval he
    rw [h2, h1]
    rfl

/-- the en-passant field after `MakeMove` in closed form. -/
theorem make_ep_eq (K : Keys) (hv : Board.valid b = true) (hm : m ∈ MoveGen.gen b) :
    (b.makeMove K m).1.ep =
      if (Rules.legalEpCaptures (Rules.applyCore (abs b) (decodeMove m))).isEmpty then 0
      else (Move.src m + Move.dst m) / 2 := by
  obtain ⟨hiff, hval⟩ := make_ep_iff K hv hm
  by_cases he : (b.makeMove K m).1.ep = 0
  · have hnil : Rules.legalEpCaptures (Rules.applyCore (abs b) (decodeMove m)) = [] := by
      apply Classical.byContradiction
      intro hne
      exact (hiff.2 hne) he
    rw [he, hnil]; rfl
  · rw [isEmpty_false_of_ne_nil (hiff.1 he), (hval he).1]; rfl


theorem epNormal_apply (p : Pos) (mv : Mv) : Rules.epNormal (Rules.apply p mv) = true := by
  unfold Rules.apply Rules.epNormal
  simp only []
  cases hl : (Rules.legalEpCaptures (Rules.applyCore p mv)).isEmpty
  · simp only [Bool.false_eq_true, if_false, hl, Bool.not_false, Bool.or_true]
  · simp only [if_true, Option.isNone_none, Bool.true_or]

end ChessVerif.EpTarget
