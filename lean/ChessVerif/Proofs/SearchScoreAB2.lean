/-
  Score range, alphaBeta part — guarded by the ghost flag `St.ttOut` (see Proofs/SearchScoreQ2.lean):
  an un-aborted `alphaBeta` whose state has `ttOut = false` returns a value in `[-Inf, Inf]`, and keeps
  the table predicate `TTok` as long as no out-of-band value has been handed to a table store.

  Differences from Proofs/SearchScoreAB.lean: values are tracked as `InR` only (no `RelP ply`; the
  invariant `ABInv2` has no `mp` field); at the three store sites of `abAfter` / `abMoves` the
  ply-consistency `ScoreLaws.tt_store` asks for is read off the flag; `nullMove_range2` needs no
  reasoning about the flag `nmpOut` at all — the mate branch returns `beta`, which is within `±Inf`
  because the window is workable and `beta ≤ staticEval ≤ 9935`.
-/
import ChessVerif.Proofs.SearchScoreQ2

namespace ChessVerif
namespace Search

variable {σ π : Type} [PsInv σ]

/-- what an alphaBeta-like function guarantees about scores — guarded by `ttOut` (see `QRange2`). -/
def ABRange2 (Good : Board → Prop) (TTok : σ → Prop) (child : Child σ) : Prop :=
  ∀ a b d ply nt s, Good s.board → 0 ≤ ply → ply ≤ 63 → (s.ttOut = false → WinOK a b) → TTA2 TTok s →
    TTA2 TTok (child a b d ply nt s).2 ∧
      ((child a b d ply nt s).2.aborted = false → (child a b d ply nt s).2.ttOut = false →
        InR (child a b d ply nt s).1)

theorem callChild_range2 {Good : Board → Prop} {TTok : σ → Prop} (child : Child σ) (hr : ABRange2 Good TTok child)
    (a b : Score) (d : Int) {ply : Int} (h0 : 0 ≤ ply) (h1 : ply < 63) (nt : NodeType) (s : St σ) (hg : Good s.board)
    (hw : s.ttOut = false → WinOK a b) (htt : TTA2 TTok s) :
    let o := callChild child a b d (wrapS8 (ply + 1)) nt s
    TTA2 TTok o.2 ∧ (o.2.aborted = false → o.2.ttOut = false → InR o.1) := by
  have := hr a b d (wrapS8 (ply + 1)) nt s hg (by rw [wrapS8_succ h0 h1]; omega) (by rw [wrapS8_succ h0 h1]; omega) hw htt
  exact ⟨this.1, fun h hA => neg_inR (this.2 h hA)⟩

theorem searchRest_range2 (c : Comp σ π) (L : Limits) {Good : Board → Prop} {TTok : σ → Prop} (child : Child σ)
    (hc : ABSpec c L Good child) (hr : ABRange2 Good TTok child) (x : ABCtx) (l : ABLoop π) (next : NodeType) (s : St σ)
    (hg : Good s.board) (h0 : 0 ≤ x.ply) (h1 : x.ply < 63) (htt : TTA2 TTok s)
    (hn : s.ttOut = false → -10001 ≤ l.alpha ∧ l.alpha ≤ 10000 ∧ -10000 ≤ x.beta ∧ x.beta ≤ 32767) :
    let o := searchRest child x l next s
    TTA2 TTok o.2 ∧ (o.2.aborted = false → o.2.ttOut = false → InR o.1) := by
  simp only [searchRest]
  have c2 := callChild_post c L child hc (wrapS16 (neg l.alpha - 1)) (neg l.alpha) (wrapS8 (x.d - 1)) h0 h1 next s hg htt.1
  have r2 := callChild_range2 child hr (wrapS16 (neg l.alpha - 1)) (neg l.alpha) (wrapS8 (x.d - 1)) h0 h1 next s hg
    (fun hA => winOK_null (hn hA).1 (hn hA).2.1) htt
  simp only at c2 r2
  generalize callChild child (wrapS16 (neg l.alpha - 1)) (neg l.alpha) (wrapS8 (x.d - 1)) (wrapS8 (x.ply + 1)) next s = o2 at c2 r2 ⊢
  have hg2 : Good o2.2.board := by rw [c2.1.board]; exact hg
  split
  · exact r2
  · split
    · exact r2
    · exact callChild_range2 child hr (neg x.beta) (neg l.alpha) (wrapS8 (x.d - 1)) h0 h1 next o2.2 hg2
        (fun hA => by
          obtain ⟨ha1, ha2, hb1, hb2⟩ := hn (c2.1.mono.t_back hA)
          exact winOK_full (by simp only [Score] at *; omega) ha2 hb1 hb2) r2.1

theorem searchMove_range2 (c : Comp σ π) (L : Limits) {Good : Board → Prop} {TTok : σ → Prop} {μ : Board → Nat}
    (sl : ScoreLaws c Good TTok μ) (child : Child σ)
    (hc : ABSpec c L Good child) (hr : ABRange2 Good TTok child) (x : ABCtx) (l : ABLoop π) (next : NodeType) (s : St σ)
    (hg : Good s.board) (h0 : 0 ≤ x.ply) (h1 : x.ply < 63) (htt : TTA2 TTok s)
    (hn : s.ttOut = false → -32767 ≤ l.alpha ∧ l.alpha ≤ 10000 ∧ (2 ≤ l.quietCnt → -10000 ≤ l.alpha) ∧
      -10000 ≤ x.beta ∧ x.beta ≤ 32767) :
    let o := searchMove c child x l next s
    TTA2 TTok o.2 ∧ (o.2.aborted = false → o.2.ttOut = false → InR o.1) := by
  simp only [searchMove]
  split
  · next hlmr =>
    have hq : c.lmrTry x.d l.quietCnt = true := by
      simp only [Bool.and_eq_true] at hlmr; exact hlmr.1
    have hn' : s.ttOut = false → -10001 ≤ l.alpha ∧ l.alpha ≤ 10000 ∧ -10000 ≤ x.beta ∧ x.beta ≤ 32767 := fun hA => by
      obtain ⟨_, ha2, hlow, hb1, hb2⟩ := hn hA
      have := hlow (sl.lmr_late _ _ hq)
      exact ⟨by simp only [Score] at *; omega, ha2, hb1, hb2⟩
    split
    · have c1 := callChild_post c L child hc (wrapS16 (neg l.alpha - 1)) (neg l.alpha)
        (c.lmr x.d (l.moveCnt - 1) x.improving x.nt) h0 h1 next s hg htt.1
      have r1 := callChild_range2 child hr (wrapS16 (neg l.alpha - 1)) (neg l.alpha)
        (c.lmr x.d (l.moveCnt - 1) x.improving x.nt) h0 h1 next s hg
        (fun hA => winOK_null (hn' hA).1 (hn' hA).2.1) htt
      simp only at c1 r1
      generalize callChild child (wrapS16 (neg l.alpha - 1)) (neg l.alpha) (c.lmr x.d (l.moveCnt - 1) x.improving x.nt)
        (wrapS8 (x.ply + 1)) next s = o1 at c1 r1 ⊢
      have hg1 : Good o1.2.board := by rw [c1.1.board]; exact hg
      split
      · exact r1
      · exact searchRest_range2 c L child hc hr x l next o1.2 hg1 h0 h1 r1.1 (fun hA => hn' (c1.1.mono.t_back hA))
    · split
      · exact ⟨htt, fun _ _ => inR_zero⟩
      · exact searchRest_range2 c L child hc hr x l next s hg h0 h1 htt hn'
  · exact callChild_range2 child hr (neg x.beta) (neg l.alpha) (wrapS8 (x.d - 1)) h0 h1 next s hg
      (fun hA => by
        obtain ⟨ha0, ha2, _, hb1, hb2⟩ := hn hA
        exact winOK_full ha0 ha2 hb1 hb2) htt

/-- the invariant of the move loop at its head (`alpha0` = the node's alpha on entry). -/
structure ABInv2 (alpha0 : Int) (l : ABLoop π) : Prop where
  a1 : -32767 ≤ l.alpha
  a2 : l.alpha ≤ 10000
  m1 : l.hasLegal = true → InR l.maxim
  m0 : l.hasLegal = false → l.maxim = -10001
  qc : l.quietCnt ≤ l.moveCnt
  mc : 0 ≤ l.moveCnt
  lo : 1 ≤ l.moveCnt → -10000 ≤ l.alpha
  fl : l.failLow = true → l.alpha = alpha0 ∧ (l.hasLegal = true → l.maxim ≤ l.alpha)

omit [PsInv σ] in
/-- `abAfter` changes the flag `ttOut` at its store site only. -/
theorem abAfter_ttOut_back (c : Comp σ π) (L : Limits) (x : ABCtx) (m : Move) (r : Board.Reverse) (l : ABLoop π)
    (value : Score) (s : St σ) : (abAfter c L x m r l value s).2.ttOut = false → s.ttOut = false := by
  simp only [abAfter]
  have han : (abort L (s.setBoard (s.board.undoMove m r)).pop).2.ttOut = s.ttOut := abort_ttOut L _
  generalize abort L (s.setBoard (s.board.undoMove m r)).pop = as at han ⊢
  split
  · intro h; rw [← han]; exact h
  · split
    · split
      · intro h; rw [← han]; exact (flagTT_false h).1
      · split <;> (intro h; rw [← han]; exact h)
    · split <;> (intro h; rw [← han]; exact h)

/-- `abAfter` on a loop record `l` that `abEnter` has just updated: what holds when the flag is down
    afterwards. -/
theorem abAfter_core2 (c : Comp σ π) (L : Limits) {Good : Board → Prop} {TTok : σ → Prop} {μ : Board → Nat}
    (hlw : Laws c Good) (sl : ScoreLaws c Good TTok μ) (x : ABCtx) (m : Move) (r : Board.Reverse)
    (l : ABLoop π) (value : Score) (s : St σ) (alpha0 : Int) (h0 : 0 ≤ x.ply) (h1 : x.ply < 63) (htt : TTA2 TTok s)
    (hgb : Good (s.board.undoMove m r)) (hmb : m ∈ MoveGen.gen (s.board.undoMove m r))
    (hv : s.aborted = false → s.ttOut = false → InR value) (hleg : l.hasLegal = true)
    (hn : s.ttOut = false → -32767 ≤ l.alpha ∧ l.alpha ≤ 10000 ∧ (InR l.maxim ∨ l.maxim = -10001) ∧
      l.quietCnt ≤ l.moveCnt ∧ 1 ≤ l.moveCnt ∧
      (l.failLow = true → l.alpha = alpha0 ∧ (l.maxim = -10001 ∨ l.maxim ≤ l.alpha))) :
    let o := abAfter c L x m r l value s
    (o.2.ttOut = false → TTok o.2.ps) ∧ (∀ v, o.1 = .ret v → o.2.aborted = false → o.2.ttOut = false → InR v) ∧
      (∀ l', (o.1 = .cont l' ∨ o.1 = .brk l') → o.2.ttOut = false → ABInv2 alpha0 l') := by
  simp only [abAfter]
  have hps := abort_ps L (s.setBoard (s.board.undoMove m r)).pop
  have han : (abort L (s.setBoard (s.board.undoMove m r)).pop).2.ttOut = s.ttOut := abort_ttOut L _
  have hfa := @abort_false σ _ L (s.setBoard (s.board.undoMove m r)).pop
  have hat := abort_true_iff L (s.setBoard (s.board.undoMove m r)).pop
  have hbd : (abort L (s.setBoard (s.board.undoMove m r)).pop).2.board = s.board.undoMove m r :=
    (abort_frame L (s.setBoard (s.board.undoMove m r)).pop).board
  generalize abort L (s.setBoard (s.board.undoMove m r)).pop = as at hps han hfa hat hbd ⊢
  have hback : as.2.ttOut = false → s.ttOut = false := fun h => by rw [← han]; exact h
  have htt' : as.2.ttOut = false → TTok as.2.ps := fun h => by rw [hps]; exact htt.2 (hback h)
  have hok' : PsInv.ok as.2.ps := by rw [hps]; exact htt.1
  split
  · next hab =>
    refine ⟨htt', fun v _ hna => ?_, (fun l' h => by rcases h with h | h <;> cases h)⟩
    rw [← hat, hab] at hna; cases hna
  · next hab =>
    have hab' : as.1 = false := by simpa using hab
    have hsab : s.aborted = false := by simpa using (hfa hab').2
    have hvr : s.ttOut = false → InR value := fun hA => hv hsab hA
    split
    · next hgt =>
      split
      · have hok2 := hlw.ok_store as.2.ps as.2.board x.d x.ply m value .lower hok' (by rw [hbd]; exact hgb)
          (Or.inr (by rw [hbd]; exact hmb))
        refine ⟨fun hA => ?_, fun v hv' _ hA => ?_, (fun l' h => by rcases h with h | h <;> cases h)⟩
        · obtain ⟨hA1, hbad⟩ := flagTT_false hA
          have hA' : as.2.ttOut = false := hA1
          exact sl.tt_failHigh _ _ _ _ _ (sl.tt_store _ _ _ _ _ _ _ (htt' hA') h0 (by omega) (relP_of_not_bad hbad) hok2)
        · cases hv'
          have hA' : as.2.ttOut = false := (flagTT_false hA).1
          exact hvr (hback hA')
      · have hinv : as.2.ttOut = false → ABInv2 alpha0 { l with maxim := (if value > l.maxim then value else l.maxim), pick := c.setWeight l.pick value, failLow := false, alpha := value, bestMove := m } := fun hA => by
          obtain ⟨_, _, hm, qc, mc, _⟩ := hn (hback hA)
          have hvr' := hvr (hback hA)
          exact ⟨Int.le_trans (by decide) hvr'.1, hvr'.2, fun _ => maxim_step hvr' hm, (fun h => by rw [hleg] at h; cases h), qc,
            Int.le_trans (by decide) mc, fun _ => hvr'.1, (fun h => by cases h)⟩
        split
        · exact ⟨htt', (fun v h => by cases h), fun l' h hA => by rcases h with h | h <;> cases h; exact hinv hA⟩
        · exact ⟨htt', (fun v h => by cases h), fun l' h hA => by rcases h with h | h <;> cases h; exact hinv hA⟩
    · next hle =>
      have hle' : value ≤ (l.alpha : Int) := Int.not_lt.1 hle
      have hinv : as.2.ttOut = false → ABInv2 alpha0 { l with maxim := (if value > l.maxim then value else l.maxim), pick := c.setWeight l.pick (-Inf) } := fun hA => by
        obtain ⟨a1, a2, hm, qc, mc, fl⟩ := hn (hback hA)
        have hvr' := hvr (hback hA)
        exact ⟨a1, a2, fun _ => maxim_step hvr' hm, (fun h => by rw [hleg] at h; cases h), qc, Int.le_trans (by decide) mc,
          fun _ => Int.le_trans hvr'.1 hle', fun h => ⟨(fl h).1, fun _ => maxim_le hvr' hle' (fl h).2⟩⟩
      split
      · exact ⟨htt', (fun v h => by cases h), fun l' h hA => by rcases h with h | h <;> cases h; exact hinv hA⟩
      · exact ⟨htt', (fun v h => by cases h), fun l' h hA => by rcases h with h | h <;> cases h; exact hinv hA⟩

/-- `abAfter`, guarded by `ttOut`. -/
theorem abAfter_range2 (c : Comp σ π) (L : Limits) {Good : Board → Prop} {TTok : σ → Prop} {μ : Board → Nat}
    (hlw : Laws c Good) (sl : ScoreLaws c Good TTok μ) (x : ABCtx) (m : Move) (r : Board.Reverse)
    (l : ABLoop π) (value : Score) (s : St σ) (alpha0 : Int) (h0 : 0 ≤ x.ply) (h1 : x.ply < 63) (htt : TTA2 TTok s)
    (hgb : Good (s.board.undoMove m r)) (hmb : m ∈ MoveGen.gen (s.board.undoMove m r))
    (hv : s.aborted = false → s.ttOut = false → InR value) (hleg : l.hasLegal = true)
    (hn : s.ttOut = false → -32767 ≤ l.alpha ∧ l.alpha ≤ 10000 ∧ (InR l.maxim ∨ l.maxim = -10001) ∧
      l.quietCnt ≤ l.moveCnt ∧ 1 ≤ l.moveCnt ∧
      (l.failLow = true → l.alpha = alpha0 ∧ (l.maxim = -10001 ∨ l.maxim ≤ l.alpha))) :
    let o := abAfter c L x m r l value s
    TTA2 TTok o.2 ∧ (∀ v, o.1 = .ret v → o.2.aborted = false → o.2.ttOut = false → InR v) ∧
      (∀ l', (o.1 = .cont l' ∨ o.1 = .brk l') → o.2.ttOut = false → ABInv2 alpha0 l') := by
  intro o
  have hsp := abAfter_spec c L hlw x m r l value s hgb hmb
  have core := abAfter_core2 c L hlw sl x m r l value s alpha0 h0 h1 htt hgb hmb hv hleg hn
  exact ⟨⟨hsp.1.ps_ok htt.1, core.1⟩, core.2.1, core.2.2⟩

theorem abLoop_range2 (c : Comp σ π) (L : Limits) {Good : Board → Prop} {TTok : σ → Prop} {μ : Board → Nat}
    (hl : Laws c Good) (sl : ScoreLaws c Good TTok μ) (child : Child σ)
    (hc : ABSpec c L Good child) (hr : ABRange2 Good TTok child) (x : ABCtx) (h0 : 0 ≤ x.ply) (h1 : x.ply < 63)
    (hmv : Move) (alpha0 : Int) :
    ∀ (n : Nat) (l : ABLoop π) (s : St σ), Good s.board → s.board.fifty < 100 → HashOK c s.board hmv →
      Reach c s.board hmv l.pick l.yielded → TTA2 TTok s →
      (s.ttOut = false → -10000 ≤ x.beta ∧ x.beta ≤ 32767 ∧ ABInv2 alpha0 l) →
      (l.bestMove = 0 ∨ l.bestMove ∈ MoveGen.gen s.board) →
      let o := abLoop c L child x n l s
      TTA2 TTok o.2 ∧ (∀ v, o.1 = .ret v → o.2.aborted = false → o.2.ttOut = false → InR v) ∧
        (∀ l', o.1 = .done l' → (o.2.ttOut = false → ABInv2 alpha0 l') ∧
          (l'.bestMove = 0 ∨ l'.bestMove ∈ MoveGen.gen s.board) ∧ o.2.board = s.board) := by
  intro n
  induction n with
  | zero => intro l s _ _ _ _ htt _ _; exact ⟨⟨htt.1, htt.2⟩, (fun v _ h => by cases h), fun l' h => by cases h⟩
  | succ n ih =>
    intro l s hg hfl hhash hreach htt hinv hbest
    simp only [abLoop]
    split
    · exact ⟨htt, (fun v h => by cases h), fun l' h => by cases h; exact ⟨fun hA => (hinv hA).2.2, hbest, rfl⟩⟩
    · next m pk hpick =>
      have hmem : m ∈ MoveGen.gen s.board := hl.pick_mem _ _ _ _ _ _ _ _ hg hhash hreach htt.1 hpick
      have hreach' : Reach c s.board hmv pk (m :: l.yielded) := Reach.next hreach htt.1 hpick
      have hu := hl.undo_make s.board m hg hmem
      have hinv0 : s.ttOut = false → -10000 ≤ x.beta ∧ x.beta ≤ 32767 ∧
          ABInv2 alpha0 { l with pick := pk, yielded := m :: l.yielded } := fun hA => by
        obtain ⟨hb1, hb2, hi⟩ := hinv hA
        exact ⟨hb1, hb2, hi.a1, hi.a2, hi.m1, hi.m0, hi.qc, hi.mc, hi.lo, hi.fl⟩
      split
      · rw [hu, setBoard_self]; exact ih _ s hg hfl hhash hreach' htt hinv0 hbest
      · next hchk =>
        have hchk' : (s.board.makeMove c.keys m).1.inCheck s.board.stm = false := by simpa using hchk
        have hg' := hl.good_make s.board m hg hfl hmem hchk'
        generalize hl2 : abEnter { l with pick := pk, yielded := m :: l.yielded } (s.board.pieceAt (s.board.captureSq m)) m = l2
        have e_alpha : l2.alpha = l.alpha := by rw [← hl2]; rfl
        have e_maxim : l2.maxim = l.maxim := by rw [← hl2]; rfl
        have e_fl : l2.failLow = l.failLow := by rw [← hl2]; rfl
        have e_leg : l2.hasLegal = true := by rw [← hl2]; rfl
        have e_mc : l2.moveCnt = l.moveCnt + 1 := by rw [← hl2]; rfl
        have e_qc : l2.quietCnt ≤ l.quietCnt + 1 ∧ l.quietCnt ≤ l2.quietCnt := by
          rw [← hl2]; simp only [abEnter]; split <;> omega
        -- what the invariant says about the loop record after `abEnter`
        have hn2 : s.ttOut = false → -32767 ≤ l2.alpha ∧ l2.alpha ≤ 10000 ∧ (InR l2.maxim ∨ l2.maxim = -10001) ∧
            l2.quietCnt ≤ l2.moveCnt ∧ 1 ≤ l2.moveCnt ∧
            (l2.failLow = true → l2.alpha = alpha0 ∧ (l2.maxim = -10001 ∨ l2.maxim ≤ l2.alpha)) := fun hA => by
          obtain ⟨_, _, hi⟩ := hinv hA
          refine ⟨by rw [e_alpha]; exact hi.a1, by rw [e_alpha]; exact hi.a2, ?_,
            by rw [e_mc]; have := hi.qc; omega, by rw [e_mc]; have := hi.mc; omega, ?_⟩
          · rw [e_maxim]
            cases hh : l.hasLegal
            · exact Or.inr (hi.m0 hh)
            · exact Or.inl (hi.m1 hh)
          · intro h
            rw [e_fl] at h
            rw [e_alpha, e_maxim]
            refine ⟨(hi.fl h).1, ?_⟩
            cases hh : l.hasLegal
            · exact Or.inl (hi.m0 hh)
            · exact Or.inr ((hi.fl h).2 hh)
        have hnm : s.ttOut = false → -32767 ≤ l2.alpha ∧ l2.alpha ≤ 10000 ∧ (2 ≤ l2.quietCnt → -10000 ≤ l2.alpha) ∧
            -10000 ≤ x.beta ∧ x.beta ≤ 32767 := fun hA => by
          obtain ⟨hb1, hb2, hi⟩ := hinv hA
          refine ⟨by rw [e_alpha]; exact hi.a1, by rw [e_alpha]; exact hi.a2, fun h2 => ?_, hb1, hb2⟩
          rw [e_alpha]; exact hi.lo (by have := hi.qc; omega)
        have hsm := searchMove_spec c L child hc x l2 (nextNodeType x.nt l2.moveCnt)
          ((s.setBoard (s.board.makeMove c.keys m).1).push
            { piece := s.board.pieceAt (Move.src m), to := Move.dst m, score := x.staticEval }) hg' htt.1 h0 h1
        have hsr := searchMove_range2 c L sl child hc hr x l2 (nextNodeType x.nt l2.moveCnt)
          ((s.setBoard (s.board.makeMove c.keys m).1).push
            { piece := s.board.pieceAt (Move.src m), to := Move.dst m, score := x.staticEval }) hg' h0 h1
          (htt.congr rfl rfl) hnm
        simp only at hsm hsr
        generalize searchMove c child x l2 (nextNodeType x.nt l2.moveCnt)
          ((s.setBoard (s.board.makeMove c.keys m).1).push
            { piece := s.board.pieceAt (Move.src m), to := Move.dst m, score := x.staticEval }) = r at hsm hsr ⊢
        have hub : r.2.board.undoMove m (s.board.makeMove c.keys m).2 = s.board := by
          rw [hsm.1.board]; simpa using hu
        have hback : r.2.ttOut = false → s.ttOut = false := fun h => hsm.1.mono.t_back h
        have ha := abAfter_spec c L hl x m (s.board.makeMove c.keys m).2 l2 r.1 r.2
          (by rw [hub]; exact hg) (by rw [hub]; exact hmem)
        have hbm := abAfter_best c L x m (s.board.makeMove c.keys m).2 l2 r.1 r.2
        have har := abAfter_range2 c L hl sl x m (s.board.makeMove c.keys m).2 l2 r.1 r.2 alpha0 h0 h1 hsr.1
          (by rw [hub]; exact hg) (by rw [hub]; exact hmem) hsr.2 e_leg (fun hA => hn2 (hback hA))
        simp only at ha har
        generalize abAfter c L x m (s.board.makeMove c.keys m).2 l2 r.1 r.2 = o at ha har hbm ⊢
        obtain ⟨hsf, _, _⟩ := hsm
        obtain ⟨hm1, hb1', _, _, _, hpick'⟩ := ha
        obtain ⟨htt', hret, hcb⟩ := har
        have hboard : o.2.board = s.board := by rw [hb1', hsf.board]; simpa using hu
        have hback2 : o.2.ttOut = false → s.ttOut = false := fun h => hback (hm1.t_back h)
        have hbest2 : ∀ l', (o.1 = .cont l' ∨ o.1 = .brk l') → l'.bestMove = 0 ∨ l'.bestMove ∈ MoveGen.gen s.board := by
          intro l' h'
          have e2 : l2.bestMove = l.bestMove := by rw [← hl2]; rfl
          rcases hbm l' h' with e | e
          · rw [e, e2]; exact hbest
          · rw [e]; exact Or.inr hmem
        obtain ⟨st, s'⟩ := o
        cases st with
        | ret v =>
          refine ⟨htt', fun y hy hna hA => ?_, (fun l' h => by cases h)⟩
          have : v = y := by simpa using hy
          subst this; exact hret v rfl hna hA
        | brk l' =>
          refine ⟨htt', (fun v h => by cases h), fun l'' h => ?_⟩
          have : l' = l'' := by simpa using h
          subst this; exact ⟨hcb l' (Or.inr rfl), hbest2 l' (Or.inr rfl), hboard⟩
        | cont l' =>
          simp only at hboard htt' hback2 hcb ⊢
          have hr2 : Reach c s'.board hmv l'.pick l'.yielded := by
            obtain ⟨hy, w, hw⟩ := hpick' l' (Or.inl rfl)
            rw [hboard, hy, hw, ← hl2]
            exact Reach.weight hreach'
          have := ih l' s' (by rw [hboard]; exact hg) (by rw [hboard]; exact hfl) (by rw [hboard]; exact hhash) hr2 htt'
            (fun hA => ⟨(hinv (hback2 hA)).1, (hinv (hback2 hA)).2.1, hcb l' (Or.inl rfl) hA⟩)
            (by rw [hboard]; exact hbest2 l' (Or.inl rfl))
          rw [hboard] at this
          exact this

/-- null-move pruning: whatever branch is taken, the value handed out is within `±Inf` — the mate branch
    returns `beta`, and `-Inf ≤ beta ≤ staticEval < Inf`.  (That `beta` may be BELOW the ply-relative band
    is the event `nmpOut`; it matters only if the parent stores it, which is what `ttOut` records.) -/
theorem nullMove_range2 (c : Comp σ π) (L : Limits) {Good : Board → Prop} {TTok : σ → Prop} (hl : Laws c Good)
    (child : Child σ) (hc : ABSpec c L Good child)
    (hr : ABRange2 Good TTok child) (beta : Score) (d : Int) {ply : Int} (h0 : 0 ≤ ply) (h1 : ply < 63) (se : Score)
    (s : St σ) (hg : Good s.board) (hchk : s.board.inCheck s.board.stm = false) (htt : TTA2 TTok s)
    (hb : s.ttOut = false → -10000 ≤ beta ∧ beta ≤ 9936) :
    let o := nullMove c child beta d ply se s
    TTA2 TTok o.2 ∧ (∀ v, o.1 = some v → o.2.aborted = false → o.2.ttOut = false → InR v) := by
  simp only [nullMove]
  have hg' := hl.good_null s.board hg hchk
  have cc := callChild_post c L child hc (neg beta) (wrapS16 (neg beta + 1)) (c.nmpDepth d se beta) h0 h1 .cut
    (s.setBoard (s.board.makeNull c.keys).1) hg' htt.1
  have rr := callChild_range2 child hr (neg beta) (wrapS16 (neg beta + 1)) (c.nmpDepth d se beta) h0 h1 .cut
    (s.setBoard (s.board.makeNull c.keys).1) hg'
    (fun hA => winOK_nmp (hb hA).1 (Int.le_trans (hb hA).2 (by decide))) (htt.congr rfl rfl)
  simp only at rr cc
  generalize callChild child (neg beta) (wrapS16 (neg beta + 1)) (c.nmpDepth d se beta) (wrapS8 (ply + 1)) .cut
    (s.setBoard (s.board.makeNull c.keys).1) = r at rr cc ⊢
  have hback : r.2.ttOut = false → s.ttOut = false := fun h => cc.1.mono.t_back h
  split
  · refine ⟨rr.1.congr rfl rfl, fun v hv hna hA => ?_⟩
    have hAr : r.2.ttOut = false := hA
    simp only [Option.some.injEq] at hv
    subst hv
    split
    · have hbb := hb (hback hAr)
      unfold InR
      simp only [Score] at *
      omega
    · exact rr.2 hna hAr
  · exact ⟨rr.1.congr rfl rfl, fun v hv => by cases hv⟩

theorem abMoves_range2 (c : Comp σ π) (L : Limits) {Good : Board → Prop} {TTok : σ → Prop} {μ : Board → Nat}
    (hl : Laws c Good) (sl : ScoreLaws c Good TTok μ) (child : Child σ)
    (hc : ABSpec c L Good child) (hr : ABRange2 Good TTok child) (alpha beta : Score) (d : Int)
    {ply : Int} (h0 : 0 ≤ ply) (h1 : ply < 63)
    (nt : NodeType) (inCheck improving : Bool) (se : Score) (hm : Move) (s : St σ) (hg : Good s.board)
    (hw : s.ttOut = false → WinOK alpha beta)
    (hfl : s.board.fifty < 100) (hhash : HashOK c s.board hm) (htt : TTA2 TTok s) :
    let o := abMoves c L child alpha beta d ply nt inCheck improving se hm s
    TTA2 TTok o.2 ∧ (o.2.aborted = false → o.2.ttOut = false → InR o.1) := by
  simp only [abMoves]
  generalize hx : ABCtx.mk alpha beta (if c.iir nt d hm then wrapS8 (d - 1) else d) ply nt inCheck improving se = x
  have hxp : x.ply = ply := by rw [← hx]
  have hxb : x.beta = beta := by rw [← hx]
  have h := abLoop_range2 c L hl sl child hc hr x (by rw [hxp]; exact h0) (by rw [hxp]; exact h1) hm alpha
    ((MoveGen.gen s.board).length + 1)
    { alpha := alpha, bestMove := 0, hasLegal := false, failLow := true, maxim := -Inf - 1, moveCnt := 0, quietCnt := 0,
      pick := c.pickInit s.board hm, yielded := [] } s.pushFrame hg hfl hhash Reach.init (htt.congr rfl rfl)
    (fun hA => by
      obtain ⟨hw1, hw2, hw3, hw4⟩ := hw hA
      exact ⟨by rw [hxb]; exact hw3, by rw [hxb]; exact hw4, hw1, hw2, (fun h => by cases h),
        (fun _ => rfl), Int.le_refl _, Int.le_refl _, (fun h => by simp at h), fun _ => ⟨rfl, fun h => by cases h⟩⟩)
    (Or.inl rfl)
  generalize abLoop c L child x ((MoveGen.gen s.board).length + 1)
    { alpha := alpha, bestMove := 0, hasLegal := false, failLow := true, maxim := -Inf - 1, moveCnt := 0, quietCnt := 0,
      pick := c.pickInit s.board hm, yielded := [] } s.pushFrame = r at h ⊢
  obtain ⟨htt', hret, hdone⟩ := h
  obtain ⟨fl, s'⟩ := r
  cases fl with
  | ret v => exact ⟨htt', fun hna hA => hret v rfl hna hA⟩
  | done l =>
    obtain ⟨hinv, hbest, hbrd⟩ := hdone l rfl
    have hgb : Good s'.popFrame.board := by
      have : s'.board = s.board := hbrd
      show Good s'.board
      rw [this]; exact hg
    have hbest' : l.bestMove = 0 ∨ l.bestMove ∈ MoveGen.gen s'.popFrame.board := by
      have : s'.board = s.board := hbrd
      show l.bestMove = 0 ∨ l.bestMove ∈ MoveGen.gen s'.board
      rw [this]; exact hbest
    have hok' : PsInv.ok s'.popFrame.ps := htt'.1
    have htok : s'.ttOut = false → TTok s'.popFrame.ps := htt'.2
    simp only
    cases hh : l.hasLegal
    · have hmx : InR (if inCheck = true then wrapS16 (-Inf + ply) else 0) := by
        split
        · exact inR_mate h0 (by omega)
        · exact inR_zero
      simp only [Bool.not_false, if_true, Bool.false_eq_true, if_false]
      have hok2 := hl.ok_store s'.popFrame.ps s'.popFrame.board (if c.iir nt d hm then wrapS8 (d - 1) else d) ply
        l.bestMove (if inCheck = true then wrapS16 (-Inf + ply) else 0) .exact hok' hgb hbest'
      refine ⟨⟨hok2, fun hA => ?_⟩, fun _ _ => hmx⟩
      obtain ⟨hA1, hbad⟩ := flagTT_false hA
      have hA' : s'.ttOut = false := hA1
      exact sl.tt_store _ _ _ _ _ _ _ (htok hA') h0 (by omega) (relP_of_not_bad hbad) hok2
    · simp only [Bool.not_true, Bool.false_eq_true, if_false]
      refine ⟨?_, fun _ hA => ?_⟩
      · split
        · have hok2 := hl.ok_store s'.popFrame.ps s'.popFrame.board (if c.iir nt d hm then wrapS8 (d - 1) else d) ply
            0 l.maxim .upper hok' hgb (Or.inl rfl)
          refine ⟨hok2, fun hA => ?_⟩
          obtain ⟨hA1, hbad⟩ := flagTT_false hA
          have hA' : s'.ttOut = false := hA1
          exact sl.tt_store _ _ _ _ _ _ _ (htok hA') h0 (by omega) (relP_of_not_bad hbad) hok2
        · have hok2 := hl.ok_store s'.popFrame.ps s'.popFrame.board (if c.iir nt d hm then wrapS8 (d - 1) else d) ply
            l.bestMove l.maxim .exact hok' hgb hbest'
          refine ⟨hok2, fun hA => ?_⟩
          obtain ⟨hA1, hbad⟩ := flagTT_false hA
          have hA' : s'.ttOut = false := hA1
          exact sl.tt_store _ _ _ _ _ _ _ (htok hA') h0 (by omega) (relP_of_not_bad hbad) hok2
      · have hA' : s'.ttOut = false := (flagTT_false hA).1
        exact (hinv hA').m1 hh

theorem abPrune_range2 (c : Comp σ π) (L : Limits) {Good : Board → Prop} {TTok : σ → Prop} {μ : Board → Nat}
    (hl : Laws c Good) (sl : ScoreLaws c Good TTok μ) (child : Child σ)
    (hc : ABSpec c L Good child) (hr : ABRange2 Good TTok child) (alpha beta : Score) (d : Int)
    {ply : Int} (h0 : 0 ≤ ply) (h1 : ply < 63)
    (nt : NodeType) (inCheck improving : Bool) (se : Score) (hse : inCheck = false → -9935 ≤ se ∧ se ≤ 9935) (hm : Move) (s : St σ)
    (hw : s.ttOut = false → WinOK alpha beta)
    (hg : Good s.board) (hfl : s.board.fifty < 100) (hhash : HashOK c s.board hm)
    (hic : inCheck = s.board.inCheck s.board.stm) (htt : TTA2 TTok s) :
    let o := abPrune c L child alpha beta d ply nt inCheck improving se hm s
    TTA2 TTok o.2 ∧ (o.2.aborted = false → o.2.ttOut = false → InR o.1) := by
  simp only [abPrune]
  split
  · next hrfp =>
    have : inCheck = false := by cases inCheck <;> simp_all
    refine ⟨htt.congr rfl rfl, fun _ _ => ?_⟩
    have := hse this; unfold InR; simp only [Score] at *; omega
  · split
    · next hnm =>
      have hic' : inCheck = false := by cases inCheck <;> simp_all
      have hchk : s.board.inCheck s.board.stm = false := by rw [← hic]; exact hic'
      have hnmp : c.nmpTry s.board d se beta = true := by
        simp only [Bool.and_eq_true] at hnm; exact hnm.2
      have hbse : (beta : Int) ≤ se := sl.nmp_sound _ _ _ _ hnmp
      have hb2 : beta ≤ 9936 := Int.le_trans hbse (Int.le_trans (hse hic').2 (by decide))
      have hn := nullMove_spec c L hl child hc beta d h0 h1 se s hg htt.1 hchk
      have hnr := nullMove_range2 c L hl child hc hr beta d h0 h1 se s hg hchk htt (fun hA => ⟨(hw hA).2.2.1, hb2⟩)
      simp only at hn hnr
      generalize nullMove c child beta d ply se s = nm at hn hnr ⊢
      split
      · next v hv => exact ⟨hnr.1, fun hna hA => hnr.2 v hv hna hA⟩
      · exact abMoves_range2 c L hl sl child hc hr alpha beta d h0 h1 nt inCheck improving se hm nm.2
          (by rw [hn.1.board]; exact hg) (fun hA => hw (hn.1.mono.t_back hA))
          (by rw [hn.1.board]; exact hfl) (by rw [hn.1.board]; exact hhash) hnr.1
    · exact abMoves_range2 c L hl sl child hc hr alpha beta d h0 h1 nt inCheck improving se hm s hg hw hfl hhash htt

theorem abBody_range2 (c : Comp σ π) (L : Limits) {Good : Board → Prop} {TTok : σ → Prop} {μ : Board → Nat}
    (hl : Laws c Good) (sl : ScoreLaws c Good TTok μ) (child : Child σ)
    (hc : ABSpec c L Good child) (hr : ABRange2 Good TTok child) (alpha beta : Score) (d : Int)
    {ply : Int} (h0 : 0 ≤ ply) (h1 : ply < 63) (nt : NodeType) (s : St σ) (hw : s.ttOut = false → WinOK alpha beta)
    (hg : Good s.board)
    (hfl : s.board.fifty < 100) (htt : TTA2 TTok s) :
    let o := abBody c L child alpha beta d ply nt s
    TTA2 TTok o.2 ∧ (o.2.aborted = false → o.2.ttOut = false → InR o.1) := by
  simp only [abBody]
  split
  · next v hcut =>
    refine ⟨htt, fun _ hA => ?_⟩
    split at hcut
    · next e he =>
      split at hcut
      · exact ttCut_inR ((sl.tt_probe _ _ _ _ (htt.2 hA) h0 (by omega) he).inR h0) hcut
      · cases hcut
    · cases hcut
  · refine abPrune_range2 c L hl sl child hc hr alpha beta d h0 h1 nt _ _ _ ?_ _ s hw hg hfl
      (hashOK_probe c htt.1 s.board ply) rfl htt
    intro h
    simp only [h, Bool.false_eq_true, if_false]
    exact eval_band c s.board

/-- The main range theorem, guarded by `ttOut`: for every fuel, `alphaBeta` returns a value within `±Inf`
    when it returns un-aborted with the flag down, and keeps the table predicate as long as the flag is
    down. -/
theorem alphaBeta_range2 (c : Comp σ π) (L : Limits) {Good : Board → Prop} {TTok : σ → Prop} {μ : Board → Nat}
    (hl : Laws c Good) (sl : ScoreLaws c Good TTok μ) (fuel : Nat) :
    ABRange2 Good TTok (alphaBeta c L fuel) := by
  induction fuel with
  | zero => intro a b d ply nt s _ _ _ _ htt; exact ⟨htt.congr rfl rfl, fun h => by cases h⟩
  | succ fuel ih =>
    intro a b d ply nt s hg h0 h63 hw htt
    simp only [alphaBeta]
    split
    · have hmu := sl.measure_bound s.board hg
      exact quiescence_range2 c L hl sl (fuel + 1) a b ply (s.setPv (s.pv.setNull ply.toNat)) hg h0
        (by simp only [setPv_board]; omega) hw (htt.congr rfl rfl)
    · next hq =>
      have h1 : ply < 63 := by simp [maxPlies] at hq; omega
      have i1 := incrementNodes_frame L (s.setPv (s.pv.setNull ply.toNat))
      have ips := incrementNodes_ps L (s.setPv (s.pv.setNull ply.toNat))
      have ian := incrementNodes_ttOut L (s.setPv (s.pv.setNull ply.toNat))
      generalize incrementNodes L (s.setPv (s.pv.setNull ply.toNat)) = s1 at i1 ips ian ⊢
      have a1 := abort_frame L { s1 with abNodes := s1.abNodes + 1 }
      have aps := abort_ps L { s1 with abNodes := s1.abNodes + 1 }
      have aan := abort_ttOut L { s1 with abNodes := s1.abNodes + 1 }
      have hat := abort_true_iff L { s1 with abNodes := s1.abNodes + 1 }
      generalize abort L { s1 with abNodes := s1.abNodes + 1 } = as at a1 aps aan hat ⊢
      have hps : as.2.ps = s.ps := by rw [aps]; exact ips
      have han : as.2.ttOut = s.ttOut := by rw [aan]; exact ian
      have hb : as.2.board = s.board := by rw [a1.board]; exact i1.board
      have htt' : TTA2 TTok as.2 := htt.congr hps han
      split
      · next hab => exact ⟨htt', fun hna => by rw [← hat, hab] at hna; cases hna⟩
      · split
        · exact ⟨htt', fun _ _ => inR_zero⟩
        · next hnd =>
          exact abBody_range2 c L hl sl (alphaBeta c L fuel) (alphaBeta_spec c L hl fuel) ih a b d h0 h1 nt as.2
            (fun hA => hw (by rw [← han]; exact hA)) (by rw [hb]; exact hg) (fifty_lt_of_not_draw hnd) htt'

end Search
end ChessVerif
