/-
  C09: the pawn shift formulas used by `Block`, `IsCheckmate` and `IsStalemate`, bit by bit.
-/
import ChessVerif.Proofs.MateProbe

namespace ChessVerif.Mate
open ChessVerif Board Rules Bridge

/-- `PawnSinglePushMoves(X, c)`: the squares directly ahead (for colour `c`) of the members of `X`. -/
theorem push_get (c : Color) (X : BB) (t : Nat) (ht : t < 64) :
    (Attacks.pawnSinglePushMoves X c).getLsbD t = true ↔
      ∃ s, s < 64 ∧ X.getLsbD s = true ∧ PL.ahead c s 8 t := by
  unfold Attacks.pawnSinglePushMoves
  cases c
  · simp only [Color.toNat, Color.flip, PL.ahead, BitVec.getLsbD_or, BitVec.getLsbD_shiftLeft,
      BitVec.getLsbD_ushiftRight, PL.sh4_0, PL.sh4_1, Bool.or_eq_true, Bool.and_eq_true, decide_eq_true_eq,
      Bool.not_eq_true', decide_eq_false_iff_not, Nat.zero_add, Nat.add_zero]
    constructor
    · rintro (⟨⟨_, h8⟩, h⟩ | ⟨⟨_, h16⟩, h⟩)
      · exact ⟨t - 8, by omega, h, by omega⟩
      · refine ⟨t - 8, by omega, ?_, by omega⟩
        have : 8 + (t - 16) = t - 8 := by omega
        rw [this] at h; exact h
    · rintro ⟨s, hs, hx, rfl⟩
      left
      refine ⟨⟨ht, by omega⟩, ?_⟩
      have : s + 8 - 8 = s := by omega
      rw [this]; exact hx
  · simp only [Color.toNat, Color.flip, PL.ahead, BitVec.getLsbD_or, BitVec.getLsbD_shiftLeft,
      BitVec.getLsbD_ushiftRight, PL.sh4_0, PL.sh4_1, Bool.or_eq_true, Bool.and_eq_true, decide_eq_true_eq,
      Bool.not_eq_true', decide_eq_false_iff_not, Nat.zero_add, Nat.add_zero]
    constructor
    · rintro (⟨⟨_, h8⟩, h⟩ | h)
      · refine ⟨t + 8, by omega, ?_, rfl⟩
        have : 16 + t - 8 = t + 8 := by omega
        rw [this] at h; exact h
      · have e : 8 + (t - 0) = t + 8 := by omega
        rw [e] at h
        have hlt : t + 8 < 64 := by
          apply Classical.byContradiction; intro hge
          have := BitVec.getLsbD_of_ge X (t + 8) (by omega)
          have h2 := h.2
          rw [this] at h2; exact Bool.noConfusion h2
        exact ⟨t + 8, hlt, h.2, rfl⟩
    · rintro ⟨s, hs, hx, rfl⟩
      right
      have e : 8 + (t - 0) = t + 8 := by omega
      rw [e]; exact ⟨⟨ht, by omega⟩, hx⟩

/-- the square ahead of a single pawn. -/
theorem push_bit (c : Color) (s t : Nat) (hs : s < 64) (ht : t < 64) :
    (Attacks.pawnSinglePushMoves (bit s) c).getLsbD t = true ↔ PL.ahead c s 8 t := by
  rw [push_get c _ t ht]
  constructor
  · rintro ⟨s', hs', hb, ha⟩
    rw [bit_getLsbD s s' hs, decide_eq_true_eq] at hb
    subst hb; exact ha
  · intro ha
    exact ⟨s, hs, by rw [bit_getLsbD s s hs]; simp, ha⟩

/-- `PawnCaptureMoves(X, c)`: union over the members of `X`. -/
theorem cap_get (c : Color) (X : BB) (t : Nat) (ht : t < 64) :
    (Attacks.pawnCaptureMoves X c).getLsbD t = true ↔
      ∃ s, s < 64 ∧ X.getLsbD s = true ∧ PL.capGeom c s t := by
  rw [pawnCapture_union]
  constructor
  · rintro ⟨a, ha, hx, hc⟩
    exact ⟨a, ha, hx, ((PL.pawnCap_get c a t ha).1 hc).2⟩
  · rintro ⟨a, ha, hx, hc⟩
    exact ⟨a, ha, hx, (PL.pawnCap_get c a t ha).2 ⟨ht, hc⟩⟩

theorem cap_bit (c : Color) (s t : Nat) (hs : s < 64) (ht : t < 64) :
    (Attacks.pawnCaptureMoves (bit s) c).getLsbD t = true ↔ PL.capGeom c s t := by
  rw [PL.pawnCap_get c s t hs]
  exact ⟨fun h => h.2, fun h => ⟨ht, h⟩⟩

end ChessVerif.Mate
