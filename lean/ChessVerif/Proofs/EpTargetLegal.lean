/-
  C02, en-passant clause, part 4: the rule-book side.  The enumeration `Rules.legalMoves` unfolded
  (`mem_legalMoves`), `legalEpCaptures p ≠ []` as an existence statement, and — for the successor of a
  double push — "a legal en-passant capture exists iff some enemy pawn beside the pushed pawn can take
  it without leaving its own king in check" (`legalEp_succ_iff`).
-/
import ChessVerif.Proofs.EpTargetProbe
namespace ChessVerif.EpTarget
open ChessVerif Board Rules Bridge

/-! ### the enumeration `legalMoves` -/

theorem pseudoLegal_bounds {p : Pos} {mv : Mv} (h : Rules.pseudoLegal p mv = true) :
    mv.src < 64 ∧ mv.dst < 64 ∧ p.hasColor mv.src p.turn = true := by
  unfold Rules.pseudoLegal at h
  simp only [Bool.and_eq_true, decide_eq_true_eq] at h
  refine ⟨h.1.1, h.1.2, ?_⟩
  have h2 := h.2
  unfold Pos.hasColor
  cases hat : p.at_ mv.src with
  | none => rw [hat] at h2; exact Bool.noConfusion h2
  | some x =>
    obtain ⟨c', k⟩ := x
    rw [hat] at h2
    simp only [Bool.and_eq_true] at h2
    exact h2.1.1

theorem mem_legalMoves (p : Pos) (mv : Mv) :
    mv ∈ Rules.legalMoves p ↔ Rules.legal p mv = true ∧ mv.promo ∈ Rules.promoChoices := by
  unfold Rules.legalMoves
  rw [List.mem_flatMap]
  constructor
  · rintro ⟨s, _, h⟩
    split at h
    · rw [List.mem_flatMap] at h
      obtain ⟨d, _, h⟩ := h
      rw [List.mem_filterMap] at h
      obtain ⟨q, hq, hx⟩ := h
      simp only at hx
      split at hx
      · rename_i hl
        rw [Option.some.injEq] at hx
        subst hx
        exact ⟨hl, hq⟩
      · exact absurd hx (by simp)
    · exact absurd h (by simp)
  · rintro ⟨hl, hq⟩
    have hpl : Rules.pseudoLegal p mv = true := by
      unfold Rules.legal at hl; rw [Bool.and_eq_true] at hl; exact hl.1
    obtain ⟨hs, hd, hc⟩ := pseudoLegal_bounds hpl
    refine ⟨mv.src, List.mem_range.2 hs, ?_⟩
    rw [if_pos hc, List.mem_flatMap]
    refine ⟨mv.dst, List.mem_range.2 hd, ?_⟩
    rw [List.mem_filterMap]
    refine ⟨mv.promo, hq, ?_⟩
    simp only
    rw [if_pos hl]

theorem legalEpCaptures_ne_nil (p : Pos) :
    Rules.legalEpCaptures p ≠ [] ↔
      ∃ mv, Rules.legal p mv = true ∧ mv.promo ∈ Rules.promoChoices ∧ Rules.isEnPassant p mv = true := by
  unfold Rules.legalEpCaptures
  rw [Ne, List.filter_eq_nil_iff]
  constructor
  · intro h
    apply Classical.byContradiction
    intro hn
    apply h
    intro mv hmem hep
    rw [mem_legalMoves] at hmem
    exact hn ⟨mv, hmem.1, hmem.2, hep⟩
  · rintro ⟨mv, hl, hq, hep⟩ h
    exact h mv ((mem_legalMoves p mv).2 ⟨hl, hq⟩) hep

/-- pseudo-legality of a move of a pawn of the side to move, unfolded. -/
theorem pseudoLegal_pawn (p : Pos) (mv : Mv) (hat : p.at_ mv.src = some (p.turn, Piece.pawn)) :
    Rules.pseudoLegal p mv =
      (decide (mv.src < 64) && decide (mv.dst < 64) && (!(p.hasColor mv.dst p.turn) && RLk p .pawn mv)) := by
  unfold Rules.pseudoLegal RLk
  simp only [hat, beq_self_eq_true, Bool.true_and]
  rfl

/-! ### the en-passant captures of the successor of a double push -/

section
variable {b : Board} {m : Move}

theorem succ_hasColor_mid (hw : WFP b) (h : DP b m) (c : Color) : (succ b m).hasColor (mid m) c = false := by
  unfold Pos.hasColor; rw [succ_at_mid hw h]

/-- the capture `a × passed square` obeys the pawn's way of moving in the successor position. -/
theorem cap_pseudoLegal (hw : WFP b) (h : DP b m) {a : Nat} (ha : Able b (Move.dst m) a) :
    Rules.pseudoLegal (succ b m) (cap m a) = true := by
  have hat : (succ b m).at_ (cap m a).src = some ((succ b m).turn, Piece.pawn) := by
    rw [succ_turn]; exact succ_at_able hw h ha
  rw [pseudoLegal_pawn _ _ hat]
  unfold RLk
  simp only [cap, succ_turn, succ_hasColor_mid hw h, succ_ep hw h, ha.1, h.mid_lt, decide_true, Bool.true_and,
    Bool.not_false, beq_self_eq_true, Bool.or_true, Bool.and_true, Option.isNone_none]
  obtain ⟨hr, hf, _, _, _, _, _, _, hm, _⟩ := able_nums h ha
  have hsl := PL.src_lt m
  have hdl := PL.dst_lt m
  have hal := ha.1
  rw [Bool.and_eq_true]
  constructor
  · -- no promotion: the passed square is not on the capturer's last rank
    have : (Rules.rank (mid m) == Rules.lastRank b.stm.flip) = false := by
      rw [beq_eq_false_iff_ne]
      rcases h.nums with ⟨hc, h0, h1, h2⟩ | ⟨hc, h0, h1, h2⟩ <;> rw [hc] <;>
        simp only [Color.flip, Rules.lastRank, Rules.rank] <;> omega
    simp only [this, Bool.false_eq_true, if_false]
  · -- third clause: one file aside, one rank ahead for the capturer
    have g1 : ((Rules.file (mid m) - Rules.file a).natAbs == 1) = true := by
      rw [beq_iff_eq]; unfold Rules.file; omega
    have g2 : (Rules.rank (mid m) - Rules.rank a == Rules.up b.stm.flip) = true := by
      rw [beq_iff_eq]
      rcases h.nums with ⟨hc, h0, h1, h2⟩ | ⟨hc, h0, h1, h2⟩ <;> rw [hc] <;>
        simp only [Color.flip, Rules.up, Rules.rank] <;> omega
    rw [g1, g2]; simp

theorem legal_cap_iff (hw : WFP b) (h : DP b m) {a : Nat} (ha : Able b (Move.dst m) a) :
    Rules.legal (succ b m) (cap m a) = true ↔ Rules.inCheck (fin b m a) b.stm.flip = false := by
  unfold Rules.legal
  rw [cap_pseudoLegal hw h ha, Bool.true_and, succ_turn]
  show (!Rules.inCheck (fin b m a) b.stm.flip) = true ↔ _
  rw [Bool.not_eq_true']

/-- every en-passant capture that is pseudo-legal in the successor is `cap m a` for an enemy pawn
    `a` beside the destination. -/
theorem ep_capture_shape (hw : WFP b) (h : DP b m) (mv : Mv)
    (hpl : Rules.pseudoLegal (succ b m) mv = true) (hep : Rules.isEnPassant (succ b m) mv = true) :
    ∃ a, Able b (Move.dst m) a ∧ mv = cap m a := by
  unfold Rules.isEnPassant at hep
  simp only [Bool.and_eq_true, has_iff_at, beq_iff_eq, decide_eq_true_eq] at hep
  obtain ⟨⟨⟨hat, hepq⟩, hfile⟩, _⟩ := hep
  rw [succ_ep hw h, Option.some.injEq] at hepq
  obtain ⟨hs, _, _⟩ := pseudoLegal_bounds hpl
  rw [pseudoLegal_pawn _ _ hat] at hpl
  unfold RLk at hpl
  simp only [Bool.and_eq_true, Bool.or_eq_true, beq_iff_eq, decide_eq_true_eq] at hpl
  obtain ⟨_, _, hpromo, hshape⟩ := hpl
  obtain ⟨s, d, q⟩ := mv
  simp only at hat hepq hfile hs hpromo hshape
  subst hepq
  rw [succ_turn] at hat hpromo hshape
  have hsl := PL.src_lt m
  have hdl := PL.dst_lt m
  -- the capturer is not the pushed pawn, and its square is not the vacated origin
  rw [succ_at hw h] at hat
  have n1 : s ≠ Move.dst m := by
    intro e; rw [if_pos e] at hat
    simp only [Option.some.injEq, Prod.mk.injEq] at hat
    exact Color.flip_ne' _ hat.1
  rw [if_neg n1] at hat
  have n2 : s ≠ Move.src m := by
    intro e; rw [if_pos e] at hat; exact absurd hat (by simp)
  rw [if_neg n2] at hat
  obtain ⟨hcol, hpawn⟩ := (manAt_eq_some hw s _ _).1 hat
  -- geometry
  have hgeo : (Rules.file (mid m) - Rules.file s).natAbs = 1 ∧
      Rules.rank (mid m) - Rules.rank s = Rules.up b.stm.flip := by
    rcases hshape with (hh | hh) | hh
    · exact absurd hh.1.1 (by intro e; apply hfile; omega)
    · exact absurd hh.1.1.1.1 (by intro e; apply hfile; omega)
    · exact ⟨hh.1.1, hh.1.2⟩
  have hq : q = none := by
    have : Rules.rank (mid m) ≠ Rules.lastRank b.stm.flip := by
      rcases h.nums with ⟨hc, h0, h1, h2⟩ | ⟨hc, h0, h1, h2⟩ <;> rw [hc] <;>
        simp only [Color.flip, Rules.lastRank, Rules.rank] <;> omega
    rw [if_neg this] at hpromo
    simpa using hpromo
  subst hq
  refine ⟨s, ⟨hs, ?_, hpawn, hcol⟩, rfl⟩
  obtain ⟨g1, g2⟩ := hgeo
  revert g1 g2
  rcases h.nums with ⟨hc, h0, h1, h2⟩ | ⟨hc, h0, h1, h2⟩ <;> rw [hc] <;>
    simp only [Color.flip, Rules.up, Rules.rank, Rules.file] <;> omega

/-- **the legal en-passant captures of the successor of a double push**: one exists iff some enemy
    pawn beside the destination can take without leaving its king in check. -/
theorem legalEp_succ_iff (hw : WFP b) (h : DP b m) :
    Rules.legalEpCaptures (succ b m) ≠ [] ↔
      ∃ a, Able b (Move.dst m) a ∧ Rules.inCheck (fin b m a) b.stm.flip = false := by
  rw [legalEpCaptures_ne_nil]
  constructor
  · rintro ⟨mv, hl, _, hep⟩
    have hpl : Rules.pseudoLegal (succ b m) mv = true := by
      unfold Rules.legal at hl; rw [Bool.and_eq_true] at hl; exact hl.1
    obtain ⟨a, ha, rfl⟩ := ep_capture_shape hw h mv hpl hep
    exact ⟨a, ha, (legal_cap_iff hw h ha).1 hl⟩
  · rintro ⟨a, ha, hc⟩
    exact ⟨cap m a, (legal_cap_iff hw h ha).2 hc, by simp [cap, Rules.promoChoices], cap_isEnPassant hw h ha⟩

end
end ChessVerif.EpTarget
