/-
  C20, part 6: one epoch (all chunks of all batches, each opened through the shuffle, sorted and read
  to EOF) delivers a permutation of the non-blank lines of the data file.
-/
import ChessVerif.Proofs.TunerShuffle
import ChessVerif.Proofs.TunerBatch
import ChessVerif.Proofs.TunerManifest
import ChessVerif.Proofs.TunerRead
import Mathlib.Data.List.Perm.Basic
import Mathlib.Data.List.Nodup

namespace ChessVerif.Tuner
open Spec

/-- The manifest entries `Open` selects for the shuffled indices `[s, e)`. -/
def picked (manifest : Array LineAddr) (epoch : Int) (s e : Nat) : List LineAddr :=
  (List.range' s (e - s)).map (fun ix => manifest[shuffleIndex ix manifest.size (epochSeed epoch)]!)

theorem openChunk_ok (manifest : Array LineAddr) (epoch : Int) (s e : Nat) (hse : s < e) (he : e ≤ manifest.size) :
    openChunk manifest epoch s e =
      some { chunkLines := (sortByStart (picked manifest epoch s e)).toArray, chunkLinesIx := 0,
             mapStart := 0, mapEnd := 0, mapBytes := fun _ => 0 } := by
  unfold openChunk
  have hc : ¬ ((decide ((s : Int) < 0) || decide ((e : Int) < 0) || decide ((s : Int) > (manifest.size : Int) - 1)
      || decide ((e : Int) > (manifest.size : Int)) || decide ((s : Int) > (e : Int))) = true) := by
    simp only [Bool.or_eq_true, decide_eq_true_eq]
    omega
  simp only
  rw [if_neg hc]
  simp only [Int.toNat_natCast, picked]

theorem sortByStart_perm (l : List LineAddr) : (sortByStart l).Perm l := List.mergeSort_perm _ _

theorem spans_mem : ∀ (lines : List (List UInt8)) (off : Nat) (a : LineAddr), a ∈ spans lines off →
    ∃ l ∈ lines, a.stop = a.start + l.length + 1 ∧ off ≤ a.start ∧ a.stop ≤ off + (joined lines).length := by
  intro lines
  induction lines with
  | nil => intro off a h; simp [spans] at h
  | cons l ls ih =>
    intro off a h
    simp only [spans, List.mem_cons] at h
    have hj : (joined (l :: ls)).length = l.length + 1 + (joined ls).length := by
      rw [joined_cons]; simp; omega
    rcases h with h | h
    · subst h
      exact ⟨l, by simp, rfl, Nat.le_refl _, by simp only; omega⟩
    · obtain ⟨q, hq, h1, h2, h3⟩ := ih _ a h
      exact ⟨q, by simp [hq], h1, by omega, by omega⟩

/-- Every manifest entry can be served by `Read` when every line content fits the buffer. -/
theorem manifest_addrOK (f : File) (bufLen : Nat) (lines : List (List UInt8)) (tail : List UInt8)
    (hp : Parsed f.content lines tail) (hfit : ∀ l ∈ lines, l.length ≤ bufLen) :
    ∀ a ∈ nonBlankSpans lines, AddrOK f bufLen a := by
  intro a ha
  simp only [nonBlankSpans, List.mem_filter, decide_eq_true_eq] at ha
  obtain ⟨hmem, hgt⟩ := ha
  obtain ⟨l, hl, h1, _, h3⟩ := spans_mem lines 0 a hmem
  have hsz : f.size = (joined lines).length + tail.length := by
    have : f.content.length = f.size := by simp [File.content]
    rw [← this, hp.eq, List.length_append]; rfl
  refine ⟨by omega, by omega, ?_⟩
  have := hfit l hl
  omega

/-- The lines one opened chunk delivers. -/
def chunkOut (f : File) (manifest : Array LineAddr) (epoch : Int) (r : Range) : List (List UInt8) :=
  (sortByStart (picked manifest epoch r.start r.stop)).map (fun a => f.slice a.start (a.stop - 1))

theorem getElem!_mem_toList (manifest : Array LineAddr) (i : Nat) (h : i < manifest.size) :
    manifest[i]! ∈ manifest.toList := by
  rw [getElem!_pos manifest i h]
  simp

theorem epochFold_spec (f : File) (bufLen : Nat) (manifest : Array LineAddr) (epoch : Int)
    (hn : manifest.size ≤ 2 ^ 64) (hall : ∀ a ∈ manifest.toList, AddrOK f bufLen a) :
    ∀ (ranges : List Range), (∀ r ∈ ranges, r.start < r.stop ∧ r.stop ≤ manifest.size) →
      ranges.foldr (fun r acc =>
        match openChunk manifest epoch r.start r.stop, acc with
        | some c, some rest => (c.readAll f bufLen).map (· ++ rest)
        | _, _ => none) (some []) = some (ranges.flatMap (chunkOut f manifest epoch)) := by
  intro ranges
  induction ranges with
  | nil => intro _; rfl
  | cons r rs ih =>
    intro hr
    have hr0 := hr r (by simp)
    rw [List.foldr_cons, ih (fun q hq => hr q (by simp [hq])), openChunk_ok manifest epoch r.start r.stop hr0.1 hr0.2]
    have hread := readAll_spec f bufLen
      { chunkLines := (sortByStart (picked manifest epoch r.start r.stop)).toArray, chunkLinesIx := 0,
        mapStart := 0, mapEnd := 0, mapBytes := fun _ => 0 } rfl rfl rfl
      (by
        intro a ha
        have hp := (sortByStart_perm _).mem_iff.1 ha
        simp only [picked, List.mem_map, List.mem_range'_1] at hp
        obtain ⟨ix, hix, rfl⟩ := hp
        apply hall
        apply getElem!_mem_toList
        exact (shuffleIndex_terminates manifest.size _ ix hn (by omega)).1)
    simp only [hread, Option.map_some, List.flatMap_cons, chunkOut]

/-- `Open` on an arbitrary valid sub-range `[s,e)` followed by reading to EOF. -/
theorem open_readAll (f : File) (bufLen : Nat) (manifest : Array LineAddr) (epoch : Int)
    (hn : manifest.size ≤ 2 ^ 64) (hall : ∀ a ∈ manifest.toList, AddrOK f bufLen a)
    (s e : Nat) (hse : s < e) (he : e ≤ manifest.size) :
    ∃ c out, openChunk manifest epoch s e = some c ∧ c.readAll f bufLen = some out ∧
      out.Perm ((List.range' s (e - s)).map (fun ix =>
        let a := manifest[shuffleIndex ix manifest.size (epochSeed epoch)]!
        f.slice a.start (a.stop - 1))) := by
  have h := epochFold_spec f bufLen manifest epoch hn hall [⟨s, e⟩] (by simp; exact ⟨hse, he⟩)
  rw [List.foldr_cons, List.foldr_nil, openChunk_ok manifest epoch s e hse he] at h
  refine ⟨_, chunkOut f manifest epoch ⟨s, e⟩, openChunk_ok manifest epoch s e hse he, ?_, ?_⟩
  · simp only at h
    cases hr : Chunk.readAll f bufLen
        { chunkLines := (sortByStart (picked manifest epoch s e)).toArray, chunkLinesIx := 0,
          mapStart := 0, mapEnd := 0, mapBytes := fun _ => 0 } with
    | none => rw [hr] at h; simp at h
    | some out => rw [hr] at h; simpa using h
  · unfold chunkOut
    have := (sortByStart_perm (picked manifest epoch s e)).map (fun a : LineAddr => f.slice a.start (a.stop - 1))
    rw [picked, List.map_map] at this
    exact this

theorem tiles_mem : ∀ (rs : List Range) (lo hi : Nat), Tiles rs lo hi →
    ∀ r ∈ rs, lo ≤ r.start ∧ r.start < r.stop ∧ r.stop ≤ hi
  | [], _, _, _, r, hr => by simp at hr
  | q :: rs, lo, hi, h, r, hr => by
      obtain ⟨h1, h2, h3⟩ := h
      have hle := tiles_le rs _ _ h3
      rcases List.mem_cons.1 hr with e | e
      · subst e; omega
      · have := tiles_mem rs _ _ h3 r e
        omega

/-- A bijection of `[0,n)` permutes `0, …, n-1`. -/
theorem map_range_perm (σ : Nat → Nat) (n : Nat) (h : Set.BijOn σ (Set.Iio n) (Set.Iio n)) :
    ((List.range n).map σ).Perm (List.range n) := by
  rw [List.perm_ext_iff_of_nodup]
  · intro a
    simp only [List.mem_map, List.mem_range]
    constructor
    · rintro ⟨x, hx, rfl⟩; exact h.mapsTo hx
    · intro ha
      obtain ⟨x, hx, hxa⟩ := h.surjOn ha
      exact ⟨x, hx, hxa⟩
  · apply List.Nodup.map_on
    · intro x hx y hy hxy
      exact h.injOn (by simpa using hx) (by simpa using hy) hxy
    · exact List.nodup_range
  · exact List.nodup_range

/-- **epoch_exactly_once**, in terms of the manifest. -/
theorem epochLines_perm (f : File) (bufLen : Nat) (manifest : Array LineAddr) (epoch : Int)
    (hn : manifest.size ≤ 2 ^ 64) (hall : ∀ a ∈ manifest.toList, AddrOK f bufLen a) :
    ∃ out, epochLines f bufLen manifest epoch = some out ∧
      out.Perm (manifest.toList.map (fun a => f.slice a.start (a.stop - 1))) := by
  have htiles : Tiles ((batches manifest.size).flatMap chunks) 0 manifest.size :=
    allChunks_tiles Gen.Tuner.numLinesInBatch Gen.Tuner.numChunksInBatch manifest.size (by decide) (by decide)
  have hranges : ∀ r ∈ (batches manifest.size).flatMap chunks, r.start < r.stop ∧ r.stop ≤ manifest.size := by
    intro r hr
    have := tiles_mem _ _ _ htiles r hr
    omega
  refine ⟨_, epochFold_spec f bufLen manifest epoch hn hall _ hranges, ?_⟩
  set n := manifest.size with hn_def
  set σ := fun ix => shuffleIndex ix n (epochSeed epoch) with hσ
  set sl := fun a : LineAddr => f.slice a.start (a.stop - 1) with hsl
  -- drop the sort inside every chunk
  have h1 : (((batches n).flatMap chunks).flatMap (chunkOut f manifest epoch)).Perm
      (((batches n).flatMap chunks).flatMap (fun r => (picked manifest epoch r.start r.stop).map sl)) := by
    apply List.Perm.flatMap_left
    intro r _
    exact (sortByStart_perm _).map _
  refine h1.trans ?_
  -- all picked entries, in index order
  have h2 : ((batches n).flatMap chunks).flatMap (fun r => (picked manifest epoch r.start r.stop).map sl)
      = (((batches n).flatMap chunks).flatMap indices).map (fun ix => sl manifest[σ ix]!) := by
    rw [List.map_flatMap]
    congr 1
    funext r
    simp [picked, indices, hσ, hn_def]
  rw [h2, tiles_indices _ 0 n htiles, Nat.sub_zero, ← List.range_eq_range']
  have h3 : (List.range n).map (fun ix => sl manifest[σ ix]!) =
      ((List.range n).map σ).map (fun i => sl manifest[i]!) := by
    rw [List.map_map]; rfl
  rw [h3]
  have hperm := map_range_perm σ n (shuffleIndex_bijOn n (epochSeed epoch) hn)
  refine (hperm.map _).trans ?_
  have h4 : (List.range n).map (fun i => sl manifest[i]!) = manifest.toList.map sl := by
    apply List.ext_getElem
    · simp [hn_def]
    · intro i h1 h2
      have hi : i < manifest.size := by simpa using h1
      simp [getElem!_pos manifest i hi]
  rw [h4]

/-- **epoch_exactly_once**, from the file format down. -/
theorem epoch_exactly_once_file (f : File) (lines : List (List UInt8)) (tail : List UInt8)
    (hp : Parsed f.content lines tail) (bufSz : Nat)
    (hbufio : ∀ l ∈ lines, l.length + 1 ≤ bufSz) (htail : tail.length < bufSz)
    (hsize : f.size < 2 ^ 63) (bufLen : Nat) (hbuf : ∀ l ∈ lines, l.length ≤ bufLen) (epoch : Int) :
    ∃ m out, newChunkerWith bufSz f = some m ∧ epochLines f bufLen m epoch = some out ∧
      out.Perm (nonBlank lines) := by
  obtain ⟨m, hm, hml⟩ := newChunkerWith_spec f bufSz lines tail hp hbufio htail
  have hat : At f 0 (joined lines ++ tail) := by
    have := at_zero_of_content f
    rw [hp.eq] at this
    exact this
  have hsz : m.size ≤ 2 ^ 64 := by
    have h1 : m.size = (nonBlankSpans lines).length := by rw [← hml]; simp
    have h2 : (nonBlankSpans lines).length ≤ (spans lines 0).length := List.length_filter_le _ _
    have h3 : ∀ (ls : List (List UInt8)) (off : Nat), (spans ls off).length = ls.length := by
      intro ls; induction ls with
      | nil => intro _; rfl
      | cons l ls ih => intro off; simp [spans, ih]
    have h4 := length_le_joined lines
    have h5 := hat.1
    rw [List.length_append] at h5
    rw [h3] at h2
    omega
  have hall : ∀ a ∈ m.toList, AddrOK f bufLen a := by
    rw [hml]; exact manifest_addrOK f bufLen lines tail hp hbuf
  obtain ⟨out, hout, hperm⟩ := epochLines_perm f bufLen m epoch hsz hall
  refine ⟨m, out, hm, hout, ?_⟩
  rw [hml] at hperm
  have := spans_slice f tail lines 0 hat
  rw [nonBlankSpans, this] at hperm
  exact hperm

/-- Every byte string is in the documented format, in exactly the way `Spec.parse` computes. -/
theorem parseAux_parsed : ∀ (bytes cur : List UInt8), NL ∉ cur →
    Parsed (cur.reverse ++ bytes) (parseAux bytes cur).1 (parseAux bytes cur).2 := by
  intro bytes
  induction bytes with
  | nil =>
    intro cur hc
    exact ⟨by simp [parseAux], by simp [parseAux], by simpa [parseAux] using hc⟩
  | cons b rest ih =>
    intro cur hc
    unfold parseAux
    by_cases hb : b = NL
    · subst hb
      rw [if_pos rfl]
      have := ih [] (by simp)
      refine ⟨?_, ?_, this.tail_nonl⟩
      · have e := this.eq
        simp only [List.reverse_nil, List.nil_append] at e
        simp only [List.map_cons, List.flatten_cons]
        rw [List.append_assoc, List.append_assoc, ← e]
        simp
      · intro l hl
        rcases List.mem_cons.1 hl with h | h
        · subst h; simpa using hc
        · exact this.lines_nonl l h
    · rw [if_neg hb]
      have := ih (b :: cur) (by simp [hc, Ne.symm hb])
      simpa using this

theorem parse_parsed (bytes : List UInt8) : Parsed bytes (parse bytes).1 (parse bytes).2 := by
  simpa [parse] using parseAux_parsed bytes [] (by simp)

end ChessVerif.Tuner
