/-
  C09: what `IsCheckmate` does WITHOUT the hypothesis `Rules.epSound`.  The engine treats an
  en-passant capture only as "capture of the checking pawn"; so if every legal move is an en-passant
  capture and the pawn that has just advanced does not give check, `IsCheckmate` answers true although
  a legal move exists.  Used by Props/C09.lean to refute the property on a (non-reachable) position
  that satisfies `Board.valid` and `Rules.epNormal` but not `Rules.epSound`.
-/
import ChessVerif.Proofs.MateCheckFinal

namespace ChessVerif.Mate
open ChessVerif Board Rules Bridge

variable {b : Board} {K : Nat}

theorem safe_inCheck_false (cx : Ctx b K) (s t pr : Nat) (hs : s < 64) (ht : t < 64)
    (hPL : PL.PL b s t pr) (hnk : b.pieceAt s ≠ .king) (hne : ¬ IsEp b s t)
    (hsafe : ¬ Chk b ((b.occ &&& ~~~ bit s) ||| bit t) (bit t) K) :
    Rules.inCheck (Rules.applyCore (abs b) ⟨s, t, decPromo pr⟩) b.stm = false := by
  cases hi : Rules.inCheck (Rules.applyCore (abs b) ⟨s, t, decPromo pr⟩) b.stm
  · rfl
  · exact absurd ((after_nonking cx s t pr hs ht hPL hnk hne).1 hi) hsafe

theorem isCheckmate_of_onlyEp (cx : Ctx b K) (hchk : Chk b b.occ 0 K)
    (hmoves : ∀ s t pr, s < 64 → t < 64 → pr < 8 → PL.PL b s t pr →
      Rules.inCheck (Rules.applyCore (abs b) ⟨s, t, decPromo pr⟩) b.stm = false → IsEp b s t)
    (hP : ∀ P O, EpFacts b P O → ¬ PL.capGeom b.stm.flip P K) : b.isCheckmate = true := by
  have hking : stKingLoop b K = false := by
    apply (not_hasLegal_king_iff cx).1
    rintro ⟨s, t, pr, hs, ht, hpr, hp, hPL, hi⟩
    have := (hmoves s t pr hs ht hpr hPL hi).1
    rw [hp] at this
    exact absurd this (by decide)
  rcases checkers_cases cx hchk with ⟨hpop, _⟩ | ⟨A, hA64, hatk, hA, huniq⟩
  · rw [isCheckmate_double cx hpop, hking]; rfl
  · have hS : Single b K A := ⟨hA64, hA, huniq⟩
    have hcap : cmCapture b K A = false := by
      cases hc : cmCapture b K A
      · rfl
      · exfalso
        obtain ⟨s, pr, hs, hpr, hnk, hPL, hsafe⟩ := (capture_iff cx hS).1 hc
        have hne := not_isEp_of_occupied cx s A hA.occ
        exact hne (hmoves s A pr hs hA64 hpr hPL (safe_inCheck_false cx s A pr hs hA64 hPL hnk hne hsafe))
    have hblk : cmBlock b K A = false := by
      cases hc : cmBlock b K A
      · rfl
      · exfalso
        obtain ⟨s, t, pr, hs, ht, hpr, hnk, _, hPL, hne, hsafe⟩ := (block_iff cx hS).1 hc
        exact hne (hmoves s t pr hs ht hpr hPL (safe_inCheck_false cx s t pr hs ht hPL hnk hne hsafe))
    have hepf : cmEp b A = false := by
      cases hc : cmEp b A
      · rfl
      · exfalso
        have hep := cmEp_ne_zero hc
        obtain ⟨P, O, ef⟩ := ep_facts cx hep
        have hPA := (cmEp_iff ef hep).1 hc
        have hatt := hA.2
        rw [← hPA, ef.P_pawn] at hatt
        exact hP P O ef (Att_pawn.1 hatt)
    rw [isCheckmate_single cx A hA64 hatk, hking, hcap, hblk, hepf]
    rfl

end ChessVerif.Mate
