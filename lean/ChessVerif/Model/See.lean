/-
  Executable model of /repo/heur/see.go `SEE` (core Lean only), mirrored statement by statement.

  The Go loop interleaves two things that never influence each other: the GEOMETRY (which piece
  captures next: `stm`, `occ`, `attackers`, the per-side progress markers `start[stm]`, the
  fallthrough `switch`) and the ARITHMETIC (`swap`, the parity flag `res`, the early exit
  `if swap < res { return res == 1 }`).  In every case of the switch the source reads

      fromBB = stmAttackers & b.Pieces[X]
      if fromBB != 0 {
          swap = PieceValues[X] - swap;  if swap < res { return res == 1 }      -- arithmetic
          occ &= ^(fromBB & -fromBB);  attackers |= …                             -- geometry
          break
      }

  and the geometry part does not read `swap`/`res`.  The model therefore computes one iteration in
  two steps: `step` (the geometry of the iteration: which case fires, the value `PieceValues[X]`, the
  next `occ`/`attackers`/`start`) and the three arithmetic statements in `loop`, in the source order
  (`res ^= 1`, `swap = v - swap`, early exit; then the geometry takes effect).

  `Score` is `int16`: every `+`/`-` is wrapped with `wrapS16`.  `res` (0/1 in Go) is a `Bool`
  (`true` = 1), `res ^= 1` is `!res`, `swap < res` compares with `if res then 1 else 0`.

  Deviations, all outside the domain of C18: `PieceValues[7]` (promotion code 7) panics in Go, is 0
  here; `start[stm]` only ever holds Pawn/Knight/Bishop, any other value is treated as Bishop;
  the unbounded Go `for` has fuel 65 (every iteration that continues clears one bit of `occ`).
-/
import ChessVerif.Model.Board
import ChessVerif.Spec.SeeMinimax

namespace ChessVerif
namespace See
open Board SeeSpec

/-- the loop state the arithmetic does not touch. -/
structure Geo where
  stm : Color
  occ : BB
  attackers : BB
  startW : Piece   -- start[White]
  startB : Piece   -- start[Black]

/-- what one iteration of the loop does, geometrically. -/
inductive Pick where
  | stop                       -- `stmAttackers == 0`: break
  | king (ok : Bool)           -- only the king attacks: `ok` = no enemy attacker remains
  | take (v : Int) (g : Geo)   -- a piece worth `v` captures; `g` = state at the next loop head

def Geo.start (g : Geo) (c : Color) : Piece := match c with | .white => g.startW | .black => g.startB
def Geo.setStart (g : Geo) (c : Color) (p : Piece) : Geo :=
  match c with | .white => { g with startW := p } | .black => { g with startB := p }

/-- `attacks.BishopMoves(to, occ) & (b.Pieces[Bishop] | b.Pieces[Queen])` -/
@[inline] def diagXray (b : Board) (to : Nat) (occ : BB) : BB :=
  Attacks.bishopMoves to occ &&& (b.pieceBB .bishop ||| b.pieceBB .queen)

/-- `attacks.RookMoves(to, occ) & (b.Pieces[Rook] | b.Pieces[Queen])` -/
@[inline] def lineXray (b : Board) (to : Nat) (occ : BB) : BB :=
  Attacks.rookMoves to occ &&& (b.pieceBB .rook ||| b.pieceBB .queen)

/-- `occ &= ^(fromBB & -fromBB)` -/
@[inline] def clearLowest (occ fromBB : BB) : BB := occ &&& ~~~ (fromBB &&& (-fromBB))

/-- `case Bishop:` (and the fall-through target of `case Knight:`). -/
def caseBishop (b : Board) (to : Nat) (stm : Color) (g : Geo) (stmAttackers : BB) : Pick :=
  let g := g.setStart stm .bishop
  let fromBB := stmAttackers &&& b.pieceBB .bishop
  if fromBB != 0 then
    let occ := clearLowest g.occ fromBB
    .take (pv 3) { g with occ := occ, attackers := g.attackers ||| diagXray b to occ }
  else
  let fromBB := stmAttackers &&& b.pieceBB .rook
  if fromBB != 0 then
    let occ := clearLowest g.occ fromBB
    .take (pv 4) { g with occ := occ, attackers := g.attackers ||| lineXray b to occ }
  else
  let fromBB := stmAttackers &&& b.pieceBB .queen
  if fromBB != 0 then
    let occ := clearLowest g.occ fromBB
    .take (pv 5) { g with occ := occ, attackers := g.attackers ||| diagXray b to occ ||| lineXray b to occ }
  else
  -- `if attackers & ^b.Colors[stm] != 0 { return res == 0 }; return res == 1`
  .king (g.attackers &&& ~~~ b.colorBB stm == 0)

/-- `case Knight:` (and the fall-through target of `case Pawn:`). -/
def caseKnight (b : Board) (to : Nat) (stm : Color) (g : Geo) (stmAttackers : BB) : Pick :=
  let g := g.setStart stm .knight
  let fromBB := stmAttackers &&& b.pieceBB .knight
  if fromBB != 0 then
    .take (pv 2) { g with occ := clearLowest g.occ fromBB }
  else caseBishop b to stm g stmAttackers

/-- `case Pawn:` -/
def casePawn (b : Board) (to : Nat) (stm : Color) (g : Geo) (stmAttackers : BB) : Pick :=
  let fromBB := stmAttackers &&& b.pieceBB .pawn
  if fromBB != 0 then
    let occ := clearLowest g.occ fromBB
    .take (pv 1) { g with occ := occ, attackers := g.attackers ||| diagXray b to occ }
  else caseKnight b to stm g stmAttackers

/-- The geometry of one loop iteration, from the loop head:
    `stm = stm.Flip(); attackers &= occ; stmAttackers := attackers & b.Colors[stm]; …switch…`. -/
def step (b : Board) (to : Nat) (g : Geo) : Pick :=
  let stm := g.stm.flip
  let attackers := g.attackers &&& g.occ
  let g := { g with stm := stm, attackers := attackers }
  let stmAttackers := attackers &&& b.colorBB stm
  if stmAttackers == 0 then .stop else
  match g.start stm with
  | .pawn => casePawn b to stm g stmAttackers
  | .knight => caseKnight b to stm g stmAttackers
  | _ => caseBishop b to stm g stmAttackers

/-- Go `res` as a `Score`. -/
@[inline] def resVal (res : Bool) : Int := if res then 1 else 0

/-- The `for { … }` loop. -/
def loop (b : Board) (to : Nat) : Nat → Geo → Int → Bool → Bool
  | 0, _, _, res => res
  | fuel + 1, g, swap, res =>
    match step b to g with
    | .stop => res                              -- break; `return res == 1`
    | .king ok =>
      let res := !res                           -- res ^= 1
      if !ok then !res else res                 -- `return res == 0` / `return res == 1`
    | .take v g' =>
      let res := !res                           -- res ^= 1
      let swap := wrapS16 (v - swap)            -- swap = PieceValues[X] - swap
      if swap < resVal res then res             -- if swap < res { return res == 1 }
      else loop b to fuel g' swap res

/-- the attacker set computed before the loop. -/
def attackers0 (b : Board) (to : Nat) (occ : BB) : BB :=
  let toBB := bit to
  (Attacks.pawnCaptureMoves toBB .black &&& b.pieceBB .pawn &&& b.colorBB .white) |||
  (Attacks.pawnCaptureMoves toBB .white &&& b.pieceBB .pawn &&& b.colorBB .black) |||
  (Attacks.knightMoves to &&& b.pieceBB .knight) |||
  (Attacks.bishopMoves to occ &&& (b.pieceBB .bishop ||| b.pieceBB .queen)) |||
  (Attacks.rookMoves to occ &&& (b.pieceBB .rook ||| b.pieceBB .queen)) |||
  (Attacks.kingMoves to &&& b.pieceBB .king)

/-- `occ` as the loop first sees it. -/
def occ0 (b : Board) (m : Move) : BB :=
  let occ := (b.colorBB .white ||| b.colorBB .black) ^^^ bit (Move.src m)
  if b.isEnPassant m then occ &&& ~~~ bit (b.captureSq m) else occ

/-- `promoVal`. -/
def promoVal (m : Move) : Int :=
  if Move.promo m ≠ 0 then wrapS16 (pv (Move.promo m) - pv 1) else 0

/-- the loop state at the first loop head. -/
def geo0 (b : Board) (m : Move) : Geo :=
  { stm := b.stm, occ := occ0 b m, attackers := attackers0 b (Move.dst m) (occ0 b m),
    startW := .pawn, startB := .pawn }

def fuel : Nat := 65

/-- `func SEE(b *board.Board, m move.Move, threshold Score) bool` -/
def see (b : Board) (m : Move) (threshold : Int) : Bool :=
  let captured := b.pieceAt (b.captureSq m)
  let swap := wrapS16 (wrapS16 (pv captured.toNat + promoVal m) - threshold)
  if swap < 0 then false else
  let swap := wrapS16 (wrapS16 (pv (b.pieceAt (Move.src m)).toNat + promoVal m) - swap)
  if swap ≤ 0 then true else
  loop b (Move.dst m) fuel (geo0 b m) swap true

/-- The sequence of capturers the loop walks through (the geometry alone, incrementally
    maintained attacker set): what `SeeSpec.capsOf` recomputes from scratch. -/
def caps (b : Board) (to : Nat) : Nat → Geo → List Cap
  | 0, _ => []
  | fuel + 1, g =>
    match step b to g with
    | .stop => []
    | .king ok => [.king ok]
    | .take v g' => .piece v :: caps b to fuel g'

def capsOf (b : Board) (m : Move) : List Cap := caps b (Move.dst m) fuel (geo0 b m)


end See
end ChessVerif
