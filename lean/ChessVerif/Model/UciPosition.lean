/-
  Executable model of the UCI `position` command of /repo/uci/uci.go:
  `handlePosition`, `applyMoves`, `parseUCIMove`.

  Go strings are byte strings, so the arguments (the result of `strings.Fields(line)[1:]`, the
  splitting is done by the caller) are byte arrays here; `handlePositionS` is the same function on
  Lean `String`s.  Core Lean only.
-/
import ChessVerif.Model.Fen

namespace ChessVerif
namespace UciPosition

open Fen (Bytes PR)

/-- `chess.StartPosFEN`. -/
def startPosFEN : String := "rnbqkbnr/pppppppp/8/8/8/8/PPPPPPPP/RNBQKBNR w KQkq - 0 1"

def kwStartpos : Bytes := #[115, 116, 97, 114, 116, 112, 111, 115]   -- "startpos"
def kwFen : Bytes := #[102, 101, 110]                                 -- "fen"
def kwMoves : Bytes := #[109, 111, 118, 101, 115]                     -- "moves"

/-- `strings.Join(parts, " ")`. -/
def joinSp : List Bytes → Bytes
  | [] => #[]
  | [a] => a
  | a :: rest => a ++ #[32] ++ joinSp rest

/-- `board.StartPos()` = `Must(FromFEN(StartPosFEN))` (`Must` panics on an error; the constant
    parses, see `Proofs/FenUci.lean: startPos_ok`, so the fallback is never taken). -/
def startPos (K : Keys) : Board :=
  match Fen.fromFEN K startPosFEN.toUTF8.data with
  | .ok b => b
  | _ => Board.empty

/-- `Square((uciM[i] - 'a') + (uciM[i+1]-'1')*8)`: `uint8` arithmetic (wrapping — `UInt8` in Lean
    wraps the same way) followed by the conversion to the `int8` type `Square`. -/
def sqOfBytes (f r : UInt8) : Int := wrapS8 (((f - 97) + (r - 49) * 8 : UInt8).toNat)

/-- `parseUCIMove`: `none` = the Go function returned an error. -/
def parseUCIMove (b : Board) (m : Bytes) : Option Move :=
  if m.size ≠ 4 ∧ m.size ≠ 5 then none else
  let from_ := sqOfBytes (m.getD 0 0) (m.getD 1 0)
  let to := sqOfBytes (m.getD 2 0) (m.getD 3 0)
  if from_ < 0 ∨ from_ > 63 ∨ to < 0 ∨ to > 63 then none else
  let promo : Option Nat :=
    if m.size = 5 then
      let c := m.getD 4 0
      if c = 113 then some 5          -- 'q' Queen
      else if c = 114 then some 4     -- 'r' Rook
      else if c = 98 then some 3      -- 'b' Bishop
      else if c = 110 then some 2     -- 'n' Knight
      else none
    else some 0
  match promo with
  | none => none
  | some p =>
    let mv := Move.mk from_.toNat to.toNat p
    if b.isPseudoLegal mv then some mv else none

/-- `applyMoves`: the moves are made on the driver's board one by one; the first move that does not
    parse (or is not pseudo-legal) ends the loop and the moves made so far stay. -/
def applyMoves (K : Keys) (b : Board) : List Bytes → Board
  | [] => b
  | m :: rest =>
    match parseUCIMove b m with
    | none => b
    | some mv => applyMoves K (b.makeMove K mv).1 rest

/-- `handlePosition(args)`: the new value of `d.board` (`cur` = its old value). -/
def handlePosition (K : Keys) (cur : Board) (args : List Bytes) : Board :=
  match args with
  | [] => cur
  | a0 :: rest =>
    if a0 = kwStartpos then
      let b := startPos K
      -- `len(args) > 2 && args[1] == "moves"` → `applyMoves(args[2:])`
      match rest with
      | a1 :: m :: ms => if a1 = kwMoves then applyMoves K b (m :: ms) else b
      | _ => b
    else if a0 = kwFen then
      if args.length < 7 then cur else
      let fen := joinSp (rest.take 6)
      match Fen.fromFEN K fen with
      | .ok b =>
        if b.invalidPieceCount then cur else
        -- `len(args) >= 8 && args[7] == "moves"` → `applyMoves(args[8:])`
        match rest.drop 6 with
        | a7 :: ms => if a7 = kwMoves then applyMoves K b ms else b
        | [] => b
      | .err => cur
      | .panic => cur   -- the Go process would have crashed; unreachable (`fromFEN_ne_panic`)
    else cur

/-- the same on Lean strings (their UTF-8 bytes). -/
def handlePositionS (K : Keys) (cur : Board) (args : List String) : Board :=
  handlePosition K cur (args.map fun s => s.toUTF8.data)

end UciPosition
end ChessVerif
