/-
  Executable model of /repo/transp/transp.go (core Lean only).

  The Go code is mirrored line by line; fixed-width Go integers are modelled as

    * `uint64`, `partialKey` (uint16), `move.Move` (uint16), `packed`/`Type`/`Gen` (byte):
      `BitVec 64 / 16 / 16 / 8`;
    * `Score` (int16) and `Depth` (int8): mathematical `Int` with explicit `wrapS16` / `wrapS8`
      at every place where Go arithmetic could wrap; callers pass values in the type's range;
    * `int` (64 bit, `quality`, `minQ`): `Int` (the values are tiny, no wrap is possible).

  Every literal comes from `Gen/Transp.lean`, which is regenerated from /repo.
-/
import ChessVerif.Basic
import ChessVerif.Gen.Transp
import ChessVerif.Spec.AbstractTT

namespace ChessVerif.Model.Transp
open ChessVerif

/-! ### constants (from Gen) -/

/-- `partialKeyBits` -/
def keyBits : Nat := Gen.Transp.partialKeyBits.toNat
/-- `bucketEntryCnt` -/
def entryCnt : Nat := Gen.Transp.bucketEntryCnt.toNat
/-- `bucketSize` (bytes) -/
def bucketBytes : Nat := Gen.Transp.bucketSize.toNat
def rep16 : BitVec 64 := BitVec.ofInt 64 Gen.Transp.rep16
def hi16 : BitVec 64 := BitVec.ofInt 64 Gen.Transp.hi16
def upperBound : BitVec 8 := BitVec.ofInt 8 Gen.Transp.upperBound
def lowerBound : BitVec 8 := BitVec.ofInt 8 Gen.Transp.lowerBound
def exact : BitVec 8 := BitVec.ofInt 8 Gen.Transp.exact
/-- `(1 << partialKeyBits) - 1` as `uint64` -/
def laneMask : BitVec 64 := (1#64 <<< keyBits) - 1

/-- A signature: the `partialKey` (upper 16 bits of the Zobrist hash). -/
abbrev Sig := BitVec 16

/-! ### entry -/

/-- `type entry struct { move.Move; value Score; packed; gen Gen }` -/
structure Entry where
  move : BitVec 16
  /-- `Score` (int16) as an integer in `[-32768, 32767]` -/
  value : Int
  packed : BitVec 8
  gen : BitVec 8
  deriving DecidableEq, Repr, Inhabited

/-- `entry{}` -/
def Entry.zero : Entry := ⟨0, 0, 0, 0⟩

/-- `func (p packed) Depth() Depth { return Depth(p >> 2) }` (byte → int8 conversion) -/
def Entry.depth (e : Entry) : Int := wrapS8 ((e.packed >>> Gen.Transp.packedDepthShift.toNat).toNat : Nat)

/-- `func (p packed) Type() Type { return Type(p & 3) }` -/
def Entry.typ (e : Entry) : BitVec 8 := e.packed &&& BitVec.ofInt 8 Gen.Transp.packedTypeMask

/-- `func (e *entry) Value(ply Depth) Score` -/
def Entry.valueAt (e : Entry) (ply : Int) : Int :=
  if e.value > Gen.Transp.valueHiThreshold then wrapS16 (e.value - ply)
  else if e.value < Gen.Transp.valueLoThreshold then wrapS16 (e.value + ply)
  else e.value

/-- `func quality(curr, g Gen, d Depth) int { return int(d) + 2*(int(g)-int(curr)) }` -/
def quality (curr g : BitVec 8) (d : Int) : Int :=
  d + Gen.Transp.qualityGenFactor * ((g.toNat : Int) - (curr.toNat : Int))

/-- `func (e *entry) quality(curr Gen) int` -/
def Entry.quality (e : Entry) (curr : BitVec 8) : Int := Transp.quality curr e.gen e.depth

/-! ### bucket -/

/-- `type bucket struct { pKeys uint64; entries [4]entry }` -/
structure Bucket where
  pKeys : BitVec 64
  e0 : Entry
  e1 : Entry
  e2 : Entry
  e3 : Entry
  deriving DecidableEq, Repr, Inhabited

def Bucket.zero : Bucket := ⟨0, Entry.zero, Entry.zero, Entry.zero, Entry.zero⟩

/-- `bucket.entries[i]` (`i < 4`) -/
def Bucket.get (b : Bucket) : Nat → Entry
  | 0 => b.e0
  | 1 => b.e1
  | 2 => b.e2
  | _ => b.e3

/-- `bucket.entries[i] = e` (`i < 4`) -/
def Bucket.set (b : Bucket) (i : Nat) (e : Entry) : Bucket :=
  match i with
  | 0 => { b with e0 := e }
  | 1 => { b with e1 := e }
  | 2 => { b with e2 := e }
  | _ => { b with e3 := e }

/-- 16-bit lane `i` of a word: `partialKey(w >> (16*i))`. -/
def lane (w : BitVec 64) (i : Nat) : Sig := (w >>> (i * keyBits)).setWidth 16

/-- The two statements
    `pKeys &= ^(((1 << partialKeyBits) - 1) << (replace * partialKeyBits))`
    `pKeys |= uint64(hashKey) << (replace * partialKeyBits)` -/
def setLane (w : BitVec 64) (r : Nat) (k : Sig) : BitVec 64 :=
  (w &&& ~~~(laneMask <<< (r * keyBits))) ||| (k.setWidth 64 <<< (r * keyBits))

/-! ### match64, bucketIx -/

/-- `bits.TrailingZeros64`. -/
def tz64 (w : BitVec 64) : Nat := lowestSet w

/-- `func match64(w uint64, key partialKey) (ix int, ok bool)` -/
def match64 (w : BitVec 64) (key : Sig) : Option Nat :=
  let r := key.setWidth 64 * rep16
  let x := w ^^^ r
  let mask := (x - rep16) &&& ~~~x &&& hi16
  if mask = 0 then none else some (tz64 mask / keyBits)

/-- `func (t *Table) bucketIx(hash) int` with `n = len(t.data)`:
    `h := uint32(hash); return int(uint64(h) * uint64(n) >> 32)` (the product wraps modulo 2^64). -/
def bucketIx (hash : BitVec 64) (n : Nat) : Nat :=
  ((hash.toNat % 2 ^ 32) * (n % 2 ^ 64) % 2 ^ 64) >>> 32

/-- `partialKey(hash >> (64 - partialKeyBits))` -/
def partialKeyOf (hash : BitVec 64) (shift : Int) : Sig := (hash >>> shift.toNat).setWidth 16

/-! ### Insert -/

/-- Result of the lane loop of `Insert`. -/
inductive LoopRes where
  /-- the early `return` (keep the deeper same-search entry) -/
  | ret
  /-- fall through to the write with `replace` and the (possibly inherited) move `sm` -/
  | go (replace : Nat) (sm : BitVec 16)
  deriving DecidableEq, Repr

/-- The loop `for i := range bucketEntryCnt { … }` of `Insert`; `k` = remaining iterations. -/
def insertLoop (b : Bucket) (hashKey : Sig) (gen : BitVec 8) (d : Int) (typ : BitVec 8) :
    Nat → Nat → BitVec 64 → Int → Nat → BitVec 16 → LoopRes
  | 0, _, _, _, replace, sm => .go replace sm
  | k + 1, i, bucketKeys, minQ, replace, sm =>
    let target := b.get i
    let entryQ := target.quality gen
    if bucketKeys.setWidth 16 = hashKey then
      if typ ≠ exact ∧ target.depth > wrapS8 (d + Gen.Transp.keepDeeperMargin) ∧ target.gen = gen then
        .ret
      else
        -- if sm is null but we have a move in the entry keep it
        .go i (if sm = 0 then target.move else sm)
    else
      if entryQ < minQ then
        insertLoop b hashKey gen d typ k (i + 1) (bucketKeys >>> keyBits) entryQ i sm
      else
        insertLoop b hashKey gen d typ k (i + 1) (bucketKeys >>> keyBits) minQ replace sm

/-- The mate re-basing of `Insert`:
    `if value < -Inf+MaxPlies { value -= Score(ply) }; if value > Inf-MaxPlies { value += Score(ply) }` -/
def storedValue (value ply : Int) : Int :=
  let v1 := if value < Gen.Transp.insertLoThreshold then wrapS16 (value - ply) else value
  if v1 > Gen.Transp.insertHiThreshold then wrapS16 (v1 + ply) else v1

/-- `packed(d)<<2 | packed(typ)` (byte arithmetic) -/
def pack (d : Int) (typ : BitVec 8) : BitVec 8 :=
  (BitVec.ofInt 8 d <<< Gen.Transp.insertPackedShift.toNat) ||| typ

/-- The body of `Insert` on the selected bucket. -/
def Bucket.insert (b : Bucket) (hashKey : Sig) (gen : BitVec 8) (d ply : Int) (sm : BitVec 16)
    (value : Int) (typ : BitVec 8) : Bucket :=
  match insertLoop b hashKey gen d typ entryCnt 0 b.pKeys Gen.Transp.insertMinQStart 0 sm with
  | .ret => b
  | .go replace sm =>
    let e : Entry := { move := sm, value := storedValue value ply, packed := pack d typ, gen := gen }
    let b := b.set replace e
    { b with pKeys := setLane b.pKeys replace hashKey }

/-- The body of `LookUp` on the selected bucket. -/
def Bucket.lookUp (b : Bucket) (hashKey : Sig) : Option Entry :=
  match match64 b.pKeys hashKey with
  | some ix => some (b.get ix)
  | none => none

/-! ### Table -/

/-- `Table.data`. -/
abbrev Table := Array Bucket

/-- `validateSize` does not panic. -/
def validSize (size : Nat) : Bool := size ≥ bucketBytes && size % bucketBytes == 0

/-- `New(size)`, and also `Resize(size)` followed by `Clear()`: `size / bucketSize` zeroed buckets. -/
def Table.new (size : Nat) : Table := Array.replicate (size / bucketBytes) Bucket.zero

/-- `func (t *Table) Clear()` -/
def Table.clear (t : Table) : Table := t.map (fun _ => Bucket.zero)

/-- `func (t *Table) LookUp(hash) (*entry, bool)` -/
def Table.lookUp (t : Table) (hash : BitVec 64) : Option Entry :=
  (t.getD (bucketIx hash t.size) Bucket.zero).lookUp (partialKeyOf hash Gen.Transp.lookupKeyShift)

/-- `func (t *Table) Insert(hash, gen, d, ply, sm, value, typ)` -/
def Table.insert (t : Table) (hash : BitVec 64) (gen : BitVec 8) (d ply : Int) (sm : BitVec 16)
    (value : Int) (typ : BitVec 8) : Table :=
  t.modify (bucketIx hash t.size)
    (fun b => b.insert (partialKeyOf hash Gen.Transp.insertKeyShift) gen d ply sm value typ)

/-! ### operation sequences -/

/-- The arguments of one `Insert` (shared with the specification). -/
abbrev StoreArgs := Spec.AbstractTT.Store

/-- State-changing operations (a probe does not change the table): `store`, `clear`, and
    `resizeClear size` = `Resize(size)` followed by `Clear()` (or `New(size)`). -/
abbrev Op := Spec.AbstractTT.Op

def Table.step (t : Table) : Op → Table
  | .store s => t.insert s.hash s.gen s.d s.ply s.mv s.value s.typ
  | .clear => t.clear
  | .resizeClear size => Table.new size

def Table.run (t : Table) (ops : List Op) : Table := ops.foldl Table.step t

end ChessVerif.Model.Transp
