/-
  Executable model of /repo/picker/picker.go (`New`, `Next`, `Move`) over the top frame of
  /repo/move/store.go (core Lean only).

  The Go picker owns the top frame `moves = ms.Frame()` of the move store and an index `ix`:
  `moves[:ix]` are the moves yielded so far (in yield order), `moves[ix:]` the generated, not yet
  yielded ones.  The model keeps the two parts of the frame as two lists

      done = moves[:ix]        rest = moves[ix:]        (frame = done ++ rest, ix = done.length)

  * `Alloc` appends to the frame, i.e. to `rest` (weight 0);
  * the selection loop `for i := p.ix; i < len(moves); i++ { if maxim < moves[i].Weight { … best = i } }`
    scans `rest` left to right (`scan`): first strictly greatest weight above the start value of `maxim`;
  * `moves[p.ix], moves[best] = moves[best], moves[p.ix]; p.ix++` (`takeAt`): the chosen element is
    yielded (appended to `done`), the former `moves[ix]` takes its place, the head of `rest` is dropped;
  * `Move()` = `&moves[ix-1]` = the last element of `done`.

  The ranking functions are a parameter `rk` (C16 is stated for arbitrary ranking functions inside
  the bands); the real ones are `Heur.rankNoisy` / `Heur.rankQuiet` (`rankOf`).

  Precondition of `New` (as used by search.go: `picker.New(...)` is followed by `ms.Push()` before the
  first `Next`): the top frame is empty when the first `Next` runs — `init`.
  Not modelled: `Alloc` beyond `move.StoreSize` entries panics (named assumption `StoreFits` of C16).
-/
import ChessVerif.Model.Board
import ChessVerif.Model.MoveGen
import ChessVerif.Model.Heur
import ChessVerif.Gen.Heur

namespace ChessVerif
namespace Picker

/-- `move.Weighted`. -/
structure WMove where
  move : Move
  weight : Int
  deriving DecidableEq, Repr, Inhabited

/-- a pair of ranking functions (`ranker.RankNoisy(·, board, hstack)`, `ranker.RankQuiet(·, board, hstack)`). -/
structure Rank where
  noisy : Move → Int
  quiet : Move → Int

/-- the real ranking functions of a ranker state, a board and a history stack. -/
def rankOf (r : Heur.Ranker) (b : Board) (st : Heur.HStack) : Rank :=
  { noisy := Heur.rankNoisy r b, quiet := Heur.rankQuiet r b st }

inductive Stage where
  | pickHash | genNoisy | yieldGoodNoisy | genQuiet | yieldRest
  deriving DecidableEq, Repr

structure PSt where
  stage : Stage
  done : List WMove
  rest : List WMove

/-- the picker right after `New` (+ `ms.Push()`). -/
def init : PSt := { stage := .pickHash, done := [], rest := [] }

/-- The selection loop over `moves[ix:]`; `i` is the index relative to `ix`, `best = none` is `-1`. -/
def scan : List WMove → Nat → Int → Option Nat → Option Nat
  | [], _, _, best => best
  | w :: ws, i, maxim, best =>
    if maxim < w.weight then scan ws (i + 1) w.weight (some i) else scan ws (i + 1) maxim best

/-- `maxim := thr; best := -1; for … ` -/
def selectBest (thr : Int) (rest : List WMove) : Option Nat := scan rest 0 thr none

/-- `moves[p.ix], moves[best] = moves[best], moves[p.ix]; p.ix++` on `rest = moves[ix:]`:
    the yielded element and the new `moves[ix:]`. -/
def takeAt (rest : List WMove) (best : Nat) : WMove × List WMove :=
  (rest.getD best default, (rest.set best (rest.headD default)).tail)

/-- the weight the ranking loops give to a generated move. -/
def rankNoisyOne (hm : Move) (rk : Rank) (w : WMove) : WMove :=
  if hm = w.move then { w with weight := Gen.Heur.noisySentinel }   -- hash move was already yielded
  else { w with weight := rk.noisy w.move }

def rankQuietOne (hm : Move) (rk : Rank) (w : WMove) : WMove :=
  if hm = w.move then { w with weight := Gen.Heur.quietSentinel }
  else { w with weight := rk.quiet w.move }

/-- `Alloc(m)`: `Weighted{Move: m}` (weight reset to 0). -/
def alloc (m : Move) : WMove := { move := m, weight := 0 }

/-- `case yieldRest:` -/
def nextYieldRest (s : PSt) : Bool × PSt :=
  match selectBest Gen.Heur.restThreshold s.rest with
  | some best =>
    let (w, r) := takeAt s.rest best
    (true, { s with done := s.done ++ [w], rest := r })
  | none => (false, s)

/-- `case genQuiet:` … `fallthrough` -/
def nextGenQuiet (b : Board) (hm : Move) (rk : Rank) (s : PSt) : Bool × PSt :=
  -- quietStart := len(frame); GenNotNoisy; `for i := quietStart; …` ranks the new moves only
  let quiets := (MoveGen.genNotNoisy b).map alloc
  nextYieldRest { s with stage := .yieldRest, rest := s.rest ++ quiets.map (rankQuietOne hm rk) }

/-- `case yieldGoodNoisy:` … `fallthrough` -/
def nextYieldGoodNoisy (b : Board) (hm : Move) (rk : Rank) (s : PSt) : Bool × PSt :=
  match selectBest Gen.Heur.goodNoisyThreshold s.rest with
  | some best =>
    let (w, r) := takeAt s.rest best
    (true, { s with done := s.done ++ [w], rest := r })
  | none => nextGenQuiet b hm rk { s with stage := .genQuiet }

/-- `case genNoisy:` … `fallthrough` -/
def nextGenNoisy (b : Board) (hm : Move) (rk : Rank) (s : PSt) : Bool × PSt :=
  -- GenNoisy; `for i := p.ix; i < len(moves); i++` ranks everything from ix
  let frameRest := s.rest ++ (MoveGen.genNoisy b).map alloc
  nextYieldGoodNoisy b hm rk { s with stage := .yieldGoodNoisy, rest := frameRest.map (rankNoisyOne hm rk) }

/-- `case pickHash:` … `fallthrough` -/
def nextPickHash (b : Board) (hm : Move) (rk : Rank) (s : PSt) : Bool × PSt :=
  let s := { s with stage := .genNoisy }
  if b.isPseudoLegal hm then
    -- m := Alloc(hashMove); m.Weight = HashMove; ix++   (the frame is empty: the new entry is moves[ix])
    (true, { s with done := s.done ++ [{ move := hm, weight := Gen.Heur.hashWeight }] })
  else nextGenNoisy b hm rk s

/-- `func (p *Picker) Next() bool` -/
def next (b : Board) (hm : Move) (rk : Rank) (s : PSt) : Bool × PSt :=
  match s.stage with
  | .pickHash => nextPickHash b hm rk s
  | .genNoisy => nextGenNoisy b hm rk s
  | .yieldGoodNoisy => nextYieldGoodNoisy b hm rk s
  | .genQuiet => nextGenQuiet b hm rk s
  | .yieldRest => nextYieldRest s

/-- `Move()`: `&p.ms.Frame()[p.ix-1]`. -/
def current (s : PSt) : WMove := s.done.getLast?.getD default

/-- `for pck.Next() { … pck.Move() … }`: the sequence of yielded entries; `n` bounds the number of
    `Next` calls. -/
def run (b : Board) (hm : Move) (rk : Rank) : Nat → PSt → List WMove
  | 0, _ => []
  | n + 1, s =>
    match next b hm rk s with
    | (true, s') => current s' :: run b hm rk n s'
    | (false, _) => []

/-- the state after `n` calls that returned true (used to state exhaustion). -/
def runState (b : Board) (hm : Move) (rk : Rank) : Nat → PSt → PSt
  | 0, s => s
  | n + 1, s =>
    match next b hm rk s with
    | (true, s') => runState b hm rk n s'
    | (false, s') => s'

/-- enough calls: every successful `Next` yields the hash move or consumes one generated move, and
    the frame holds at most `move.StoreSize` entries (assumption `StoreFits`). -/
def fuel : Nat := Gen.Heur.storeSize.toNat + 2

/-- the yielded entries (move and weight at the time of the yield), iterating `Next` to exhaustion. -/
def yieldedW (b : Board) (hm : Move) (rk : Rank) : List WMove := run b hm rk fuel init

/-- the yielded moves. -/
def yielded (b : Board) (hm : Move) (rk : Rank) : List Move := (yieldedW b hm rk).map (·.move)


end Picker
end ChessVerif
