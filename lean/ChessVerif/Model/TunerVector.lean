/-
  Executable model of the reflection walkers of /repo/tools/tuner/tuning/vector.go (core Lean only):
  `EngineCoeffs` / `convert`, `EngineRep.ToVector` / `getFieldFloats`, `EngineRep.SetVector` /
  `setFieldFloats`, `EngineRep.TunedParams` / `yieldFields`.

  Go's `reflect.Value` of an `eval.CoeffSet[float64]` is modelled by its value tree: a struct is the
  list of its fields `(name, value)` in declaration order (`reflect.Type.Field(i)`), an array is a
  `node` with its elements (`v.Index(i)`, `v.Len()`), a `float64` is a `leaf`.  The concrete tree is
  built from the REGENERATED shape `Gen.Eval.shape` (`ofShape`), so a changed struct in /repo changes
  the objects the theorems speak about.  The theorems themselves hold for every tree.

  * a Go panic (`array length mismatch`, `array empty`, `invalid kind`) is the result `none`;
  * a pointer `*float64` yielded by `TunedParams` is modelled by the path of the cell it addresses
    (field index, array indices): `getAt` / `setAt` are `*ptr` / `*ptr = v`;
  * `TunedParams` returns an `iter.Seq2` closure; the model is the complete sequence a `for … range`
    over a *fresh* call produces (the counter `cnt` lives outside the closure, so ranging twice over
    the same `Seq2` value would continue counting — no caller does that; early `break` yields a prefix).
-/
import ChessVerif.Gen.Eval

namespace ChessVerif.TunerVector


/-- a reflected value of kind Array (`node`) or Float64 / Int16 (`leaf`). -/
inductive Tree (α : Type) where
  | leaf (x : α)
  | node (kids : List (Tree α))
  deriving Repr

/-- `eval.CoeffSet[T]` as reflect sees it: `(Field(i).Name, Field(i) value)` in declaration order. -/
abbrev Rep (α : Type) := List (String × Tree α)

variable {α β : Type}

/-! ### EngineCoeffs / convert -/

mutual
/-- `convert(dst, src)`: the destination has the same type up to the leaf kind, so the result is the
    source tree with every leaf converted (`float64(src.Int())`). -/
def Tree.map (f : α → β) : Tree α → Tree β
  | .leaf x => .leaf (f x)
  | .node ks => .node (mapList f ks)
def mapList (f : α → β) : List (Tree α) → List (Tree β)
  | [] => []
  | t :: ts => t.map f :: mapList f ts
end

/-- `EngineCoeffs()`: field by field `convert`. -/
def engineCoeffs (f : α → β) (src : Rep α) : Rep β := src.map fun (n, t) => (n, t.map f)

/-! ### ToVector / getFieldFloats -/

mutual
/-- `getFieldFloats(v)` -/
def Tree.flatten : Tree α → List α
  | .leaf x => [x]
  | .node ks => flattenList ks
/-- the loop `for i := range v.Len() { floats = append(floats, getFieldFloats(v.Index(i))...) }` -/
def flattenList : List (Tree α) → List α
  | [] => []
  | t :: ts => t.flatten ++ flattenList ts
end

/-- `slices.Contains(targets, name)` -/
@[inline] def selected (targets : List String) (name : String) : Bool := targets.contains name

/-- `func (e EngineRep) ToVector(targets []string) Vector` -/
def toVector (e : Rep α) (targets : List String) : List α :=
  e.foldl (fun data (n, t) => if selected targets n then data ++ t.flatten else data) []

/-! ### SetVector / setFieldFloats -/

mutual
/-- `setFieldFloats(dst, floats)`: the updated value and `numUsed`; `none` = panic. -/
def Tree.setFloats : Tree α → List α → Option (Tree α × Nat)
  | .leaf _, fs =>
    match fs with
    | [] => none                                   -- panic("array empty")
    | f :: _ => some (.leaf f, 1)
  | .node ks, fs =>
    if ks.length > fs.length then none             -- panic("array length mismatch")
    else
      match setFloatsList ks fs with
      | none => none
      | some (ks', used) => some (.node ks', used)
/-- the loop `for i := range dst.Len() { rec := setFieldFloats(dst.Index(i), floats); floats = floats[rec:]; numUsed += rec }` -/
def setFloatsList : List (Tree α) → List α → Option (List (Tree α) × Nat)
  | [], _ => some ([], 0)
  | t :: ts, fs =>
    match t.setFloats fs with
    | none => none
    | some (t', r) =>
      match setFloatsList ts (fs.drop r) with
      | none => none
      | some (ts', used) => some (t' :: ts', r + used)
end

/-- `func (e *EngineRep) SetVector(v Vector, targets []string)`: the updated struct; `none` = panic. -/
def setVector : Rep α → List α → List String → Option (Rep α)
  | [], _, _ => some []
  | (n, t) :: rest, floats, targets =>
    if selected targets n then
      match t.setFloats floats with
      | none => none
      | some (t', numUsed) =>
        match setVector rest (floats.drop numUsed) targets with
        | none => none
        | some rest' => some ((n, t') :: rest')
    else
      match setVector rest floats targets with
      | none => none
      | some rest' => some ((n, t) :: rest')

/-! ### TunedParams / yieldFields -/

/-- the cell a `*float64` points to: array indices inside one field. -/
abbrev Path := List Nat

mutual
/-- `yieldFields`: the cells (as index paths) in the order they are yielded. -/
def Tree.paths : Tree α → List Path
  | .leaf _ => [[]]
  | .node ks => pathsList ks 0
/-- the loop `for i := 0; i < v.Len(); i++ { yieldFields(…, v.Index(i)) }` from index `k` on. -/
def pathsList : List (Tree α) → Nat → List Path
  | [], _ => []
  | t :: ts, k => (t.paths.map fun p => k :: p) ++ pathsList ts (k + 1)
end

/-- the cells `TunedParams(targets)` yields, in order: (field index, path inside the field). -/
def tunedCells (e : Rep α) (targets : List String) : List (Nat × Path) :=
  (e.zipIdx).flatMap fun ((n, t), fi) =>
    if selected targets n then t.paths.map fun p => (fi, p) else []

/-- `TunedParams(targets)`: the pairs `(cnt, pointer)` of a complete iteration. -/
def tunedParams (e : Rep α) (targets : List String) : List (Nat × (Nat × Path)) :=
  (tunedCells e targets).zipIdx.map fun (cell, k) => (k, cell)

/-- `*ptr` inside one field. -/
def Tree.getAt : Tree α → Path → Option α
  | .leaf x, [] => some x
  | .leaf _, _ :: _ => none
  | .node _, [] => none
  | .node ks, k :: p =>
    match ks[k]? with
    | some t => t.getAt p
    | none => none

/-- `*ptr = v` inside one field. -/
def Tree.setAt : Tree α → Path → α → Tree α
  | .leaf _, [], v => .leaf v
  | .leaf x, _ :: _, _ => .leaf x
  | .node ks, [], _ => .node ks
  | .node ks, k :: p, v =>
    match ks[k]? with
    | some t => .node (ks.set k (t.setAt p v))
    | none => .node ks

/-- `*ptr` -/
def getCell (e : Rep α) (cell : Nat × Path) : Option α :=
  match e[cell.1]? with
  | some (_, t) => t.getAt cell.2
  | none => none

/-- `*ptr = v` -/
def setCell (e : Rep α) (cell : Nat × Path) (v : α) : Rep α :=
  match e[cell.1]? with
  | some (n, t) => e.set cell.1 (n, t.setAt cell.2 v)
  | none => e

/-! ### The concrete struct, from the regenerated shape -/

/-- take the first `n` chunks of size `sz` … -/
def chunks (sz : Nat) : Nat → List α → List (List α)
  | 0, _ => []
  | k + 1, l => l.take sz :: chunks sz k (l.drop sz)

/-- the value tree of an array type with dimensions `dims` filled row-major from `flat`
    (missing leaves are `z`). -/
def ofDims (z : α) : List Nat → List α → Tree α
  | [], flat => .leaf (flat.headD z)
  | d :: ds, flat =>
    let sz := ds.foldl (· * ·) 1
    .node ((chunks sz d flat).map (ofDims z ds))

/-- a `CoeffSet` of the regenerated shape with the given leaves per field. -/
def ofShape (z : α) (shape : List (String × List Nat)) (vals : String → List α) : Rep α :=
  shape.map fun (n, dims) => (n, ofDims z dims (vals n))

/-- `eval.Coefficients` as reflect sees it. -/
def shippedRep : Rep Int :=
  ofShape 0 Gen.Eval.shape fun n => (Gen.Eval.coefficients.lookup n).getD []

/-- number of leaves (`float64` cells) of a value. -/
def Tree.size (t : Tree α) : Nat := t.flatten.length

/-- number of parameters `targets` selects. -/
def paramCount (e : Rep α) (targets : List String) : Nat := (toVector e targets).length

end ChessVerif.TunerVector
