/-
  Source-fingerprint guards of Model/Heur.lean (moved out of the model so that a changed fingerprint
  breaks the PROPERTY modules — a broken obligation — while the compiled driver, which imports only the
  model, can still be built and used to search for a concrete failing input).
-/
import ChessVerif.Model.Heur

namespace ChessVerif
namespace Heur

/-- The versions of the Go functions this hand model was written against (normalised-source
    fingerprints from the extractor; auxiliary alarm: ANY edit of a modelled function of heur / stack refutes this
    until the model has been re-inspected and the list updated). -/
theorem modelled_against :
    ["heur.MoveRanker.RankNoisy", "heur.MoveRanker.RankQuiet", "heur.MoveRanker.FailHigh", "heur.History.Add", "heur.History.LookUp", "heur.Continuation.Add", "heur.Continuation.LookUp", "heur.CaptHist.Add", "heur.CaptHist.LookUp", "stack.Stack.Top", "stack.Stack.Push"].map (fun n => Gen.Heur.fingerprints.lookup n) =
    [some "8f375b784286aeec", some "2c3d3dc9b6f6780a", some "655b0ef1a6cbda3a", some "72e4a043f2de0964", some "792aa0ce9059079c", some "b3173a69a6a6b817", some "9e63e9bf0f09cc6b", some "9279da2aaee9a432", some "a7ce7b22f5fe8be7", some "672038a9b05df480", some "9c89fa6119111b72"] := by decide

end Heur
end ChessVerif
