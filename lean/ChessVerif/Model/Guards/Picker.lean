/-
  Source-fingerprint guards of Model/Picker.lean (moved out of the model so that a changed fingerprint
  breaks the PROPERTY modules — a broken obligation — while the compiled driver, which imports only the
  model, can still be built and used to search for a concrete failing input).
-/
import ChessVerif.Model.Picker

namespace ChessVerif
namespace Picker

/-- The versions of the Go functions this hand model was written against (normalised-source
    fingerprints from the extractor; auxiliary alarm: ANY edit of a modelled function of picker / move.Store refutes this
    until the model has been re-inspected and the list updated). -/
theorem modelled_against :
    ["picker.New", "picker.Picker.Next", "picker.Picker.Move", "move.Store.Alloc", "move.Store.Frame", "move.Store.Push", "move.Store.Pop"].map (fun n => Gen.Heur.fingerprints.lookup n) =
    [some "c9a0df14b358b5af", some "d8911b1a2e6798d4", some "3e5ede4f949a1a15", some "c090d7419e953123", some "851a1b314f93973d", some "ab7db6a09b91e80f", some "453e898e20218a4a"] := by decide

end Picker
end ChessVerif
