/-
  Source-fingerprint guards of Model/TunerVector.lean (moved out of the model so that a changed fingerprint
  breaks the PROPERTY modules — a broken obligation — while the compiled driver, which imports only the
  model, can still be built and used to search for a concrete failing input).
-/
import ChessVerif.Model.TunerVector

namespace ChessVerif.TunerVector

/-- The versions of the walkers of vector.go this hand model was written against (auxiliary alarm). -/
theorem modelled_against : Gen.Eval.tunerFingerprints = [
  ("tuning.EngineRep.Eval", "be6c417cd802a612"),
  ("tuning.EngineCoeffs", "cdfcb4739e913dcd"),
  ("tuning.convert", "c4da054d459aaa1a"),
  ("tuning.EngineRep.ToVector", "6e4f2f608b64d368"),
  ("tuning.getFieldFloats", "5b547173f5ad6177"),
  ("tuning.EngineRep.SetVector", "7c3c2b2e59c8783a"),
  ("tuning.setFieldFloats", "a1424cb82b97e5fd"),
  ("tuning.EngineRep.TunedParams", "75eeb1976ff72de6"),
  ("tuning.yieldFields", "060dcefad033fd35")
] := by decide

end ChessVerif.TunerVector
