/-
  Source-fingerprint guards of Model/Eval.lean (moved out of the model so that a changed fingerprint
  breaks the PROPERTY modules — a broken obligation — while the compiled driver, which imports only the
  model, can still be built and used to search for a concrete failing input).
-/
import ChessVerif.Model.Eval

namespace ChessVerif.Eval
namespace EvalInput
namespace EvalInput

/-- The static tie of "unchanged by anything else / by previous evaluations": package eval reads
    exactly these board fields, writes none, and has no mutable package-level state. -/
theorem boardFieldsRead_expected :
    Gen.Eval.boardFieldsRead = ["Colors", "FiftyCnt", "Pieces", "STM"] ∧
    Gen.Eval.boardFieldsWritten = [] ∧ Gen.Eval.pkgVarsWritten = [] ∧
    Gen.Eval.pkgVarsRead = ["KBCorners", "Phase", "sideOfBoard", "sigm"] := by decide
/-- The versions of the functions of eval.go this hand model was written against (normalised-source
    fingerprints; auxiliary alarm: ANY edit of a modelled function refutes this until the model has
    been re-inspected and the list updated). -/
theorem modelled_against : Gen.Eval.fingerprints = [
  ("eval.Chebishev", "6f8441a380108b45"),
  ("eval.Eval", "d8a941aafc090286"),
  ("eval.KNBvK", "b1f77eaa6691d27a"),
  ("eval.frontFill", "505fd542f98410f8"),
  ("eval.insufficientMat", "f8eaf3d9871e62b2"),
  ("eval.kingAttacks.addAttackPieces", "5b75ab9bd4422597"),
  ("eval.kingAttacks.addSafeChecks", "8726975f277e6f02"),
  ("eval.kingAttacks.addShelter", "7f4af6d35aa49d44"),
  ("eval.kingAttacks.sigmoidal", "97bdfde30e975870"),
  ("eval.pieceWise.calcBishopAttacks", "90c1c3fb9d80ee22"),
  ("eval.pieceWise.calcCover", "8a737f873f159432"),
  ("eval.pieceWise.calcKingSquares", "7c168fad063d6089"),
  ("eval.pieceWise.calcKnightAttacks", "67c1942df4c99758"),
  ("eval.pieceWise.calcOccupancy", "8d1a821852928eae"),
  ("eval.pieceWise.calcPawnStructure", "75ff1250d0b5dc74"),
  ("eval.pieceWise.calcQueenAttacks", "b9d182ea472d27e3"),
  ("eval.pieceWise.calcRookAttacks", "11c52d875c60eddb"),
  ("eval.scorePair.KNBvK", "55b533af56a0cb26"),
  ("eval.scorePair.addBishopMobility", "ff78f13571966374"),
  ("eval.scorePair.addBishopPair", "48aeee1bcdf34374"),
  ("eval.scorePair.addDoubledPawns", "f4f40b241bc2f920"),
  ("eval.scorePair.addIsolatedPawns", "9734ae62f7be5ddf"),
  ("eval.scorePair.addKingAttacks", "8e7e47cc4499c174"),
  ("eval.scorePair.addKnightMobility", "73d5ac2a7f069bef"),
  ("eval.scorePair.addKnightOutposts", "e82b241afa2d2d0d"),
  ("eval.scorePair.addPSqT", "74e8e6f89bfc71b9"),
  ("eval.scorePair.addPassers", "14eb2c306d4cd2c4"),
  ("eval.scorePair.addPieceValues", "781557a23ac9ff5f"),
  ("eval.scorePair.addRookMobility", "227a96fb59a3dbe2"),
  ("eval.scorePair.addTempo", "96a2f227e0a18257"),
  ("eval.scorePair.endgameScore", "9b3fedd6ebb0b8c7"),
  ("eval.scorePair.taperedScore", "a066a4c4087dd450"),
  ("eval.sigmoidal", "a1482596d4c42c13")
] := by decide

end EvalInput
end EvalInput
end ChessVerif.Eval
