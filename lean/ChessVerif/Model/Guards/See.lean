/-
  Source-fingerprint guards of Model/See.lean (moved out of the model so that a changed fingerprint
  breaks the PROPERTY modules — a broken obligation — while the compiled driver, which imports only the
  model, can still be built and used to search for a concrete failing input).
-/
import ChessVerif.Model.See

namespace ChessVerif
namespace See

/-- The versions of the Go functions this hand model was written against (normalised-source
    fingerprints from the extractor; auxiliary alarm: ANY edit of heur.SEE refutes this
    until the model has been re-inspected and the list updated). -/
theorem modelled_against :
    ["heur.SEE"].map (fun n => Gen.Heur.fingerprints.lookup n) =
    [some "95d3ca663ed895bc"] := by decide

end See
end ChessVerif
