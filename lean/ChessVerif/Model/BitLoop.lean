/-
  The Go bit-loop idiom, rendered literally on `BitVec 64` (uint64 wrap-around arithmetic).

      for x != 0 { sq := x.LowestSet(); body(sq); x &= x - 1 }

  and its variants (`piece := x & -x`, `x ^= tSqr` with `tSqr = x & -x`), as they occur in
  /repo/chess/bitboard.go, /repo/board/attacks.go, /repo/movegen/movegen.go, /repo/eval/eval.go.
  Nothing in this file mentions `bits`: `Props/BitLoop.lean` proves that these loops coincide with
  iteration over `bits x`, which is how every other model renders them.

  Core Lean only.
-/
import ChessVerif.Basic

namespace ChessVerif.Model.BitLoop
open ChessVerif

/-- Scan upwards from bit `i` for at most `n` positions; the first position whose bit is set, or
    `i + n` if there is none. -/
def tzAux (x : BB) : Nat → Nat → Nat
  | 0, i => i
  | n + 1, i => if x.getLsbD i then i else tzAux x n (i + 1)

/-- `math/bits.TrailingZeros64`: the first index `i < 64` with bit `i` set, 64 for `x = 0`
    (`BitBoard.LowestSet`, /repo/chess/bitboard.go). -/
def tz (x : BB) : Nat := tzAux x 64 0

/-- Go `x & (x - 1)` on `uint64` (the loop step `x &= x - 1`). -/
def clearLowest (x : BB) : BB := x &&& (x - 1)

/-- Go `x & -x` on `uint64` (`piece := pieces & -pieces`). -/
def isolateLowest (x : BB) : BB := x &&& (-x)

/-- The literal loop `for x != 0 { out = append(out, x.LowestSet()); x &= x - 1 }`, cut off after
    `fuel` iterations. -/
def goLoop : Nat → BB → List Nat
  | 0, _ => []
  | fuel + 1, x => if x = 0 then [] else tz x :: goLoop fuel (x &&& (x - 1))

/-- The loop with a body: `for ; x != 0; x &= x - 1 { acc = f(acc, x.LowestSet()) }`. -/
def goFold {α : Type} (f : α → Nat → α) : Nat → α → BB → α
  | 0, acc, _ => acc
  | fuel + 1, acc, x => if x = 0 then acc else goFold f fuel (f acc (tz x)) (x &&& (x - 1))

/-- The `piece := x & -x` variant: `for ; x != 0; x &= x - 1 { p := x & -x; out = append(out, p) }`
    (one-bit boards instead of squares, /repo/board/attacks.go). -/
def goLoopIso : Nat → BB → List BB
  | 0, _ => []
  | fuel + 1, x => if x = 0 then [] else (x &&& (-x)) :: goLoopIso fuel (x &&& (x - 1))

/-- The xor variant of /repo/movegen/movegen.go:
    `for t := BitBoard(0); x != 0; x ^= t { t = x & -x; out = append(out, t.LowestSet()) }`. -/
def goLoopXor : Nat → BB → List Nat
  | 0, _ => []
  | fuel + 1, x =>
    if x = 0 then [] else
      let t := x &&& (-x)
      tz t :: goLoopXor fuel (x ^^^ t)

/-- Population count by Kernighan's loop `n := 0; for x != 0 { n++; x &= x - 1 }`. -/
def popcount' : Nat → BB → Nat
  | 0, _ => 0
  | fuel + 1, x => if x = 0 then 0 else popcount' fuel (x &&& (x - 1)) + 1

end ChessVerif.Model.BitLoop
