/-
  The abstraction from the bitboard `Board` to the rule-book position `Rules.Pos`, the
  representation invariant `wf`, and the decoding of the engine's 16-bit move words.
  Core Lean only.
-/
import ChessVerif.Model.Board
import ChessVerif.Spec.Rules

namespace ChessVerif
namespace Board

/-- the man on square `s` as the colour sets and the per-square map describe it. -/
def manAt (b : Board) (s : Nat) : Option Rules.Man :=
  if (b.colorBB .white).getLsbD s then some (.white, b.pieceAt s)
  else if (b.colorBB .black).getLsbD s then some (.black, b.pieceAt s)
  else none

/-- `abs`: forget the redundant encodings and the hash history. -/
def abs (b : Board) : Rules.Pos :=
  { men := Vector.ofFn fun (i : Fin 64) => b.manAt i.val,
    turn := b.stm,
    rights := { wk := b.castles.getLsbD 0, wq := b.castles.getLsbD 1,
                bk := b.castles.getLsbD 2, bq := b.castles.getLsbD 3 },
    ep := if b.ep = 0 then none else some b.ep,
    halfmove := b.fifty,
    fullmove := b.fullMoves }

/-- Representation invariant: the three redundant encodings of the placement agree. -/
def wf (b : Board) : Bool :=
  (b.colorBB .white &&& b.colorBB .black == 0) &&
  (b.pieceBB .none == 0) &&
  (List.range 64).all (fun s =>
    let p := b.pieceAt s
    -- the per-square map agrees with the per-piece sets …
    [Piece.pawn, .knight, .bishop, .rook, .queen, .king].all (fun q => (b.pieceBB q).getLsbD s == (p == q)) &&
    -- … and a square is occupied in exactly one colour set iff it carries a piece
    (((b.colorBB .white).getLsbD s || (b.colorBB .black).getLsbD s) == (p != .none)))

/-- `Valid b`: the quantifier text of the properties (`Rules.valid` of the abstraction) on a
    well-formed board, with the en-passant square never a1 (`0` encodes "none"). -/
def valid (b : Board) : Bool := b.wf && Rules.valid b.abs

end Board

/-- decode an engine move word into the rule-book move. -/
def decodeMove (m : Move) : Rules.Mv :=
  { src := Move.src m, dst := Move.dst m,
    promo := match Move.promo m with
      | 2 => some .knight | 3 => some .bishop | 4 => some .rook | 5 => some .queen
      | 1 => some .pawn | 6 => some .king | 7 => some .none   -- never legal: not promotion pieces
      | _ => none }

/-- encode a rule-book move as the engine does (`move.From | move.To | move.Promo`). -/
def encodeMove (mv : Rules.Mv) : Move :=
  Move.mk mv.src mv.dst (match mv.promo with | some p => p.toNat | none => 0)

end ChessVerif
