/-
  Executable model of /repo/eval/eval.go (core Lean only), GENERIC in the score type.

  The Go function `Eval[T ScoreType](b, c)` is instantiated by the engine with `T = Score` (int16) and by
  the tuner with `T = float64`.  The model takes the score type `S` and a small record `Ops S` of the
  operations the Go text uses on `T` (conversion from an integer, `+`, `-`, product with an integer
  count, the sigmoid, the final taper) and is instantiated

  * `evalInt`  – `S = Int` holding int16 values, every operation wrapped as Go wraps `Score`
                 (bit for bit the engine's `Eval[Score]`, including the truncating taper division), and
  * `evalQ σ`  – `S = Rat`, exact arithmetic, the sigmoid an abstract function `σ` (the exact-arithmetic
                 reading of the tuner's `Eval[float64]`), and, as a stepping stone of C19 (a),
  * `opsZ`     – `S = Int` without wrap-around (`noInt16Wrap cs i` says when `evalInt` agrees with it).

  What the evaluation can see of a board is the projection `EvalInput` (`Pieces`, `Colors`, `STM`,
  `FiftyCnt` — exactly the fields the extractor finds package eval reading, see
  `Gen.Eval.boardFieldsRead` and the check `boardFieldsRead_expected` below):
  `evalInt cs b = evalCore opsI16 cs (input b)` by definition.

  STRUCTURE.  eval.go accumulates into `sp.mg[color]`, `sp.eg[color]` (and `ka.score[phase][color]`,
  `pw.attacks[color][piece]`) by `+=` / `|=` scattered over helper methods.  All these accumulators are
  independent of each other, so the model performs loop fission: for every accumulator it lists the
  addends *in the order in which the Go code adds them* (`spTerms ph c`, `kaTerms ph c`; `ph` = 0 for
  the middle-game half, 1 for the end-game half — the Go code indexes every tapered coefficient by
  this number) and folds them from the zero value with `Ops.add` (`sum`).  Each Go helper corresponds
  to the like-named `…Terms` function.  The result is identical to the Go computation operation by
  operation (same additions in the same order on each accumulator).

  Deviations, all outside the domain of the properties (valid positions):
  * an array index out of range makes Go panic; the model reads the zero value (`at1`, `at2`) —
    this covers a side without king (`LowestSet() = 64`) and a passed pawn on its own first rank
    (`PasserRank[..][rank-1]` with `rank = 0`);
  * `int` (64-bit) arithmetic in `taperedScore` is modelled by unbounded integers (|v| < 2^40);
  * inside the passer loop `passers & -passers` (the lowest set bit of the loop variable) is `bit sq`.
-/
import ChessVerif.Basic
import ChessVerif.Model.Attacks
import ChessVerif.Model.Board
import ChessVerif.Gen.Eval

namespace ChessVerif.Eval
open ChessVerif

/-! ## The operations on the score type -/

/-- What eval.go does with values of its type parameter `T`. -/
structure Ops (S : Type) where
  /-- `T(n)` for an integer `n` (also untyped constants such as `0`, `30`). -/
  ofInt : Int → S
  /-- `x + y` -/
  add : S → S → S
  /-- `x - y` -/
  sub : S → S → S
  /-- `T(n) * x` (equivalently `x * T(n)`) for an `int` count `n`. -/
  mulInt : Int → S → S
  /-- `sigmoidal(x)` -/
  sigmoid : S → S
  /-- the body of `taperedScore` after `mgScore`, `egScore`, `mgPhase`, `egPhase` are known:
      arguments `mgScore egScore mgPhase egPhase fifty`. -/
  taper : S → S → Int → Int → Int → S

/-- `eval.CoeffSet[T]`, field for field (nested Go arrays as nested `Array`s). -/
structure CoeffSet (S : Type) where
  PSqT : Array (Array S)
  PieceValues : Array (Array S)
  TempoBonus : Array S
  KingAttackPieces : Array (Array S)
  SafeChecks : Array (Array S)
  KingShelter : Array S
  MobilityKnight : Array (Array S)
  MobilityBishop : Array (Array S)
  MobilityRook : Array (Array S)
  KnightOutpost : Array (Array S)
  ConnectedRooks : Array S
  BishopPair : Array S
  ProtectedPasser : Array S
  PasserKingDist : Array S
  PasserRank : Array (Array S)
  DoubledPawns : Array S
  IsolatedPawns : Array S

/-- The hand-written shape of `CoeffSet` above; `shape_matches` ties it to the regenerated one. -/
def CoeffSet.shape : List (String × List Nat) := [
  ("PSqT", [12, 64]), ("PieceValues", [2, 7]), ("TempoBonus", [2]), ("KingAttackPieces", [2, 4]),
  ("SafeChecks", [2, 4]), ("KingShelter", [2]), ("MobilityKnight", [2, 9]), ("MobilityBishop", [2, 14]),
  ("MobilityRook", [2, 11]), ("KnightOutpost", [2, 40]), ("ConnectedRooks", [2]), ("BishopPair", [9]),
  ("ProtectedPasser", [2]), ("PasserKingDist", [2]), ("PasserRank", [2, 6]), ("DoubledPawns", [2]),
  ("IsolatedPawns", [2])]

/-- A changed `CoeffSet` in /repo (field added, renamed, reordered, resized) refutes this. -/
theorem shape_matches : Gen.Eval.shape = CoeffSet.shape := by decide




/-! ## What the evaluation reads of a board -/

/-- The projection of `board.Board` that eval.go reads. -/
structure EvalInput where
  pieces : Vector BB 7      -- b.Pieces
  colors : Vector BB 2      -- b.Colors
  stm : Color               -- b.STM
  fifty : Int               -- b.FiftyCnt (int8)

def input (b : Board) : EvalInput :=
  { pieces := b.pieces, colors := b.colors, stm := b.stm, fifty := b.fifty }

namespace EvalInput
/-- `b.Pieces[p]` -/
@[inline] def pc (i : EvalInput) (p : Piece) : BB := i.pieces.getD p.toNat 0
/-- `b.Colors[c]` -/
@[inline] def col (i : EvalInput) (c : Color) : BB := i.colors.getD c.toNat 0
/-- `b.Pieces[p] & b.Colors[c]` -/
@[inline] def own (i : EvalInput) (c : Color) (p : Piece) : BB := i.pc p &&& i.col c
end EvalInput

/-! ## Plain (score-independent) ingredients -/

/-- `chess.Clamp(x, a, b) = min(b, max(x, a))` -/
@[inline] def clamp (x a b : Int) : Int := min b (max x a)

/-- `func Chebishev(a, b Square) int` -/
def cheb (a b : Nat) : Int :=
  let ax : Int := (a % 8 : Nat); let ay : Int := (a / 8 : Nat)
  let bx : Int := (b % 8 : Nat); let by_ : Int := (b / 8 : Nat)
  max (Attacks.abs (ax - bx)) (Attacks.abs (ay - by_))

/-- `func insufficientMat(b *board.Board) bool` -/
def insufficientMat (i : EvalInput) : Bool :=
  if i.pc .pawn ||| i.pc .queen ||| i.pc .rook != 0 then false else
  let wN : Int := popcount (i.col .white &&& i.pc .knight)
  let bN : Int := popcount (i.col .black &&& i.pc .knight)
  let wB : Int := popcount (i.col .white &&& i.pc .bishop)
  let bB : Int := popcount (i.col .black &&& i.pc .bishop)
  if wN + bN + wB + bB ≤ 3 then
    let wScr := wN + 3 * wB
    let bScr := bN + 3 * bB
    if max (wScr - bScr) (bScr - wScr) ≤ 3 then true else false
  else false

/-- `func KNBvK(b *board.Board) bool` -/
def knbvk (i : EvalInput) : Bool :=
  let whiteN := i.pc .knight &&& i.col .white
  let blackN := i.pc .knight &&& i.col .black
  let whiteB := i.pc .bishop &&& i.col .white
  let blackB := i.pc .bishop &&& i.col .black
  (i.pc .pawn ||| i.pc .rook ||| i.pc .queen == 0) &&
    ((isPow2 whiteN && isPow2 whiteB && (blackN ||| blackB) == 0) ||
     (isPow2 blackN && isPow2 blackB && (whiteN ||| whiteB) == 0))

def maxPhase : Int := Gen.Eval.maxPhase
/-- `Phase[pType]` -/
def phaseOf (p : Piece) : Int := Gen.Eval.phase.getD p.toNat 0

/-- the piece types of the loop `for pType := Pawn; pType <= Queen; pType++`. -/
def pawnToQueen : List Piece := [.pawn, .knight, .bishop, .rook, .queen]

/-- `sp.phase` after `addPieceValues`. -/
def phaseSum (i : EvalInput) : Int :=
  pawnToQueen.foldl (fun acc p =>
    acc + ((popcount (i.own .white p) : Int) + (popcount (i.own .black p) : Int)) * phaseOf p) 0

/-- `KBCorners[parity][k]` -/
def kbCorner (parity k : Nat) : Nat := (Gen.Eval.kbCorners.getD parity []).getD k 0

/-- `sideOfBoard[c]` -/
def sideOfBoard (c : Color) : BB := BitVec.ofNat 64 (Gen.Eval.sideOfBoard.getD c.toNat 0)

/-- `func frontFill(b BitBoard, color Color) BitBoard` -/
def frontFill (b : BB) : Color → BB
  | .white =>
    let b := b ||| (b <<< 8)
    let b := b ||| (b <<< 16)
    b ||| (b <<< 32)
  | .black =>
    let b := b ||| (b >>> 8)
    let b := b ||| (b >>> 16)
    b ||| (b >>> 32)

/-! ### `pieceWise` (calcOccupancy, calcKingSquares, calcPawnStructure) -/

namespace EvalInput
/-- `pw.occ` -/
def occ (i : EvalInput) : BB := i.col .white ||| i.col .black
/-- `king := b.Colors[color] & b.Pieces[King]` -/
def kingBB (i : EvalInput) (c : Color) : BB := i.col c &&& i.pc .king
/-- `pw.kingSq[color]` -/
def kingSq (i : EvalInput) (c : Color) : Nat := lowestSet (i.kingBB c)
/-- `pw.attacks[color][King-Pawn]` -/
def kingA (i : EvalInput) (c : Color) : BB := Attacks.kingMoves (i.kingSq c)
/-- `pw.kingRays[color][0]` -/
def kingRayB (i : EvalInput) (c : Color) : BB := Attacks.bishopMoves (i.kingSq c) i.occ
/-- `pw.kingRays[color][Rook-Bishop]` -/
def kingRayR (i : EvalInput) (c : Color) : BB := Attacks.rookMoves (i.kingSq c) i.occ
/-- `pw.kingNb[color]` -/
def kingNb (i : EvalInput) (c : Color) : BB := i.kingBB c ||| i.kingA c

/-- `ps[color]` -/
def ps (i : EvalInput) (c : Color) : BB := i.pc .pawn &&& i.col c
/-- `pw.attacks[color][0]` -/
def pawnAtt (i : EvalInput) (c : Color) : BB := Attacks.pawnCaptureMoves (i.ps c) c
/-- `frontSpan[color]` -/
def frontSpan (i : EvalInput) : Color → BB
  | .white => frontFill (i.ps .white) .white <<< 8
  | .black => frontFill (i.ps .black) .black >>> 8
/-- `rearSpan[color]` -/
def rearSpan (i : EvalInput) : Color → BB
  | .white => frontFill (i.ps .white) .black >>> 8
  | .black => frontFill (i.ps .black) .white <<< 8
/-- `cover[color]` of calcPawnStructure (squares a pawn of `color` can ever protect). -/
def pcover (i : EvalInput) : Color → BB
  | .white => ((i.frontSpan .white &&& ~~~Attacks.aFileBB) >>> 1) ||| ((i.frontSpan .white &&& ~~~Attacks.hFileBB) <<< 1)
  | .black => ((i.frontSpan .black &&& ~~~Attacks.hFileBB) <<< 1) ||| ((i.frontSpan .black &&& ~~~Attacks.aFileBB) >>> 1)
/-- `pw.holes[color]` -/
def holes (i : EvalInput) (c : Color) : BB := sideOfBoard c &&& ~~~(i.pcover c)
/-- `wFiles` / `bFiles` -/
def pfiles (i : EvalInput) (c : Color) : BB := i.ps c ||| i.frontSpan c ||| i.rearSpan c
/-- `neighbourF[color]` -/
def neighbourF (i : EvalInput) : Color → BB
  | .white => ((i.pfiles .white &&& ~~~Attacks.aFileBB) >>> 1) ||| ((i.pfiles .white &&& ~~~Attacks.hFileBB) <<< 1)
  | .black => ((i.pfiles .black &&& ~~~Attacks.hFileBB) <<< 1) ||| ((i.pfiles .black &&& ~~~Attacks.aFileBB) >>> 1)
/-- `frontLine[color]` -/
def frontLine (i : EvalInput) (c : Color) : BB := ~~~(i.rearSpan c) &&& i.ps c
/-- `pw.passers[color]` -/
def passers (i : EvalInput) (c : Color) : BB :=
  i.frontLine c &&& ~~~(i.frontSpan c.flip ||| i.pcover c.flip)
/-- `pw.doubledPawns[color]` (`&^` is and-not) -/
def doubledPawns (i : EvalInput) (c : Color) : BB := i.ps c &&& ~~~(i.frontLine c)
/-- `pw.isolatedPawns[color]` -/
def isolatedPawns (i : EvalInput) (c : Color) : BB := i.ps c &&& ~~~(i.neighbourF c)

/-! ### per-piece attack sets and the accumulated `pw.attacks[color][piece]` -/

/-- the attack set `calcQueenAttacks` / `calcRookAttacks` / `calcBishopAttacks` / `calcKnightAttacks`
    computes for a piece of type `p` standing on `sq`. -/
def pieceAttacks (i : EvalInput) (p : Piece) (sq : Nat) : BB :=
  match p with
  | .queen => Attacks.bishopMoves sq i.occ ||| Attacks.rookMoves sq i.occ
  | .rook => Attacks.rookMoves sq i.occ
  | .bishop => Attacks.bishopMoves sq i.occ
  | .knight => Attacks.knightMoves sq
  | _ => 0

/-- `pw.attacks[color][p-Pawn]` after the main loop, for `p` ∈ {Knight, Bishop, Rook, Queen}:
    `|=` of the attack sets in the order of the piece loop. -/
def attacksBy (i : EvalInput) (c : Color) (p : Piece) : BB :=
  (bits (i.own c p)).foldl (fun acc sq => acc ||| i.pieceAttacks p sq) 0

/-- `pw.cover[color]` (`calcCover`). -/
def coverAll (i : EvalInput) (c : Color) : BB :=
  i.pawnAtt c ||| i.attacksBy c .knight ||| i.attacksBy c .bishop ||| i.attacksBy c .rook |||
    i.attacksBy c .queen ||| i.kingA c

/-- `safeChecks` for piece type `p` of `color` in the second loop of `Eval`. -/
def safeChecks (i : EvalInput) (c : Color) (p : Piece) : BB :=
  let eCover := i.coverAll c.flip
  let eKAttack : BB :=
    match p with
    | .queen => i.kingRayB c.flip ||| i.kingRayR c.flip
    | .rook => i.kingRayR c.flip
    | .bishop => i.kingRayB c.flip
    | .knight => Attacks.knightMoves (i.kingSq c.flip)
    | _ => 0
  i.attacksBy c p &&& eKAttack &&& ~~~eCover &&& ~~~(i.col c)

/-- `pCnt` of the shelter computation for `color`. -/
def shelterPawns (i : EvalInput) (c : Color) : Int :=
  popcount (i.kingNb c &&& i.col c &&& i.pc .pawn)
end EvalInput

/-! ## The generic evaluation -/

section generic
variable {S : Type} (o : Ops S) (cs : CoeffSet S) (i : EvalInput)

/-- zero value of `T` -/
@[inline] def zero : S := o.ofInt 0
/-- `a[k]` (Go panics when out of range; the model reads zero). -/
@[inline] def at1 (a : Array S) (k : Nat) : S := a.getD k (o.ofInt 0)
/-- `a[r][k]` -/
@[inline] def at2 (a : Array (Array S)) (r k : Nat) : S := (a.getD r #[]).getD k (o.ofInt 0)

/-- an accumulator that starts at the zero value and receives `+=` of the terms, in order. -/
def sum (l : List S) : S := l.foldl o.add (o.ofInt 0)

/-- the addends of `addPSqT(color, pType, sq, c)` to `sp.mg[color]` (`ph = 0`) / `sp.eg[color]` (`ph = 1`). -/
def psqt (ph : Nat) (c : Color) (p : Piece) (sq : Nat) : S :=
  let sq := if c = .white then sq ^^^ 56 else sq
  let ix := p.toNat - 1
  at2 o cs.PSqT (2 * ix + ph) sq

/-- `addPieceValues` -/
def pieceValueTerms (ph : Nat) (c : Color) : List S :=
  pawnToQueen.map fun p => o.mulInt (popcount (i.own c p)) (at2 o cs.PieceValues ph p.toNat)

/-- `addTempo` -/
def tempoTerms (ph : Nat) (c : Color) : List S :=
  if c = i.stm then [at1 o cs.TempoBonus ph] else []

/-- `addBishopPair` -/
def bishopPairTerms (_ph : Nat) (c : Color) : List S :=
  let myBishops := i.col c &&& i.pc .bishop
  let myPawnCnt := popcount (i.col c &&& i.pc .pawn)
  let myPawnCnt := min myPawnCnt (cs.BishopPair.size - 1)
  if myBishops &&& (myBishops - 1) != 0 then [at1 o cs.BishopPair myPawnCnt] else []

/-- `addPassers` -/
def passerTerms (ph : Nat) (c : Color) : List S :=
  let passers := i.passers c
  (if passers != 0 && passers &&& (passers - 1) == 0 then
    let sq := lowestSet passers
    if (i.pc .knight ||| i.pc .bishop ||| i.pc .queen == 0) || (i.pc .rook ||| i.pc .queen == 0) then
      let qSq := sq % 8
      let qSq := if c = .white then qSq + 56 else qSq
      let kingDist := cheb qSq (i.kingSq c.flip) - cheb qSq (i.kingSq c)
      [o.mulInt kingDist (at1 o cs.PasserKingDist ph)]
    else []
  else []) ++
  (bits passers).flatMap fun sq =>
    let rank := sq / 8
    let rank := if c = .black then rank ^^^ 7 else rank
    let passer := bit sq
    (if passer &&& i.pawnAtt c != 0 then [at1 o cs.ProtectedPasser ph] else []) ++
    [if rank = 0 then zero o else at2 o cs.PasserRank ph (rank - 1)]

/-- `addDoubledPawns` -/
def doubledTerms (ph : Nat) (c : Color) : List S :=
  [o.mulInt (popcount (i.doubledPawns c)) (at1 o cs.DoubledPawns ph)]

/-- `addIsolatedPawns` -/
def isolatedTerms (ph : Nat) (c : Color) : List S :=
  [o.mulInt (popcount (i.isolatedPawns c)) (at1 o cs.IsolatedPawns ph)]

/-- `addRookMobility` -/
def rookMobilityTerms (ph : Nat) (c : Color) (sq : Nat) (attacks : BB) : List S :=
  let rank : BB := 0xff#64 <<< (sq &&& 56)
  let hmob := popcount (attacks &&& rank &&& ~~~(i.col c))
  let vmob := popcount (attacks &&& ~~~rank &&& ~~~(i.col c))
  let mobCnt := (2 * vmob + hmob) / 2
  [at2 o cs.MobilityRook ph mobCnt] ++
  (if attacks &&& i.pc .rook &&& i.col c != 0 then [at1 o cs.ConnectedRooks ph] else [])

/-- `addBishopMobility` -/
def bishopMobilityTerms (ph : Nat) (c : Color) (attacks : BB) : List S :=
  [at2 o cs.MobilityBishop ph (popcount (attacks &&& ~~~(i.col c)))]

/-- `addKnightMobility` -/
def knightMobilityTerms (ph : Nat) (c : Color) (attacks pawnCover : BB) : List S :=
  [at2 o cs.MobilityKnight ph (popcount (attacks &&& ~~~(i.col c) &&& ~~~pawnCover))]

/-- `addKnightOutposts` -/
def knightOutpostTerms (ph : Nat) (c : Color) (sq : Nat) (holes : BB) : List S :=
  if bit sq &&& holes != 0 then
    let sq := if c = .white then sq ^^^ 56 else sq
    [at2 o cs.KnightOutpost ph sq]
  else []

/-- the addends to `sp.mg/eg[color]` of the first `for color` loop of `Eval`, in order. -/
def loopTerms (ph : Nat) (c : Color) : List S :=
  ((bits (i.own c .queen)).map fun sq => psqt o cs ph c .queen sq) ++
  ((bits (i.own c .rook)).flatMap fun sq =>
    rookMobilityTerms o cs i ph c sq (i.pieceAttacks .rook sq) ++ [psqt o cs ph c .rook sq]) ++
  ((bits (i.own c .bishop)).flatMap fun sq =>
    bishopMobilityTerms o cs i ph c (i.pieceAttacks .bishop sq) ++ [psqt o cs ph c .bishop sq]) ++
  ((bits (i.own c .knight)).flatMap fun sq =>
    knightMobilityTerms o cs i ph c (i.pieceAttacks .knight sq) (i.pawnAtt c.flip) ++
    knightOutpostTerms o cs ph c sq (i.holes c.flip &&& i.pawnAtt c) ++
    [psqt o cs ph c .knight sq]) ++
  ((bits (i.own c .pawn)).map fun sq => psqt o cs ph c .pawn sq) ++
  [psqt o cs ph c .king (i.kingSq c)]

/-! ### king attacks -/

/-- the piece types of the main loop in its order, with the index `pType-Knight`. -/
def attackers : List Piece := [.queen, .rook, .bishop, .knight]

/-- `addAttackPieces` over the whole first loop, for `ka.score[ph][color]`. -/
def attackPieceTerms (ph : Nat) (c : Color) : List S :=
  attackers.flatMap fun p =>
    (bits (i.own c p)).flatMap fun sq =>
      if i.kingNb c.flip &&& i.pieceAttacks p sq != 0 then [at2 o cs.KingAttackPieces ph (p.toNat - 2)] else []

/-- `addSafeChecks` ×4 for `color`. -/
def safeCheckTerms (ph : Nat) (c : Color) : List S :=
  attackers.map fun p => o.mulInt (popcount (i.safeChecks c p)) (at2 o cs.SafeChecks ph (p.toNat - 2))

/-- `addShelter(color.Flip(), …)`: the addend that `ka.score[ph][c]` receives in the iteration
    `color = c.Flip()` of the second loop. -/
def shelterTerm (ph : Nat) (c : Color) : S :=
  o.mulInt (max (3 - i.shelterPawns c.flip) 0) (at1 o cs.KingShelter ph)

/-- all addends of `ka.score[ph][c]` in the order of execution (white's shelter addend arrives in
    black's iteration, i.e. last; black's arrives in white's iteration, before black's safe checks). -/
def kaTerms (ph : Nat) (c : Color) : List S :=
  attackPieceTerms o cs i ph c ++
  (match c with
   | .white => safeCheckTerms o cs i ph .white ++ [shelterTerm o cs i ph .white]
   | .black => [shelterTerm o cs i ph .black] ++ safeCheckTerms o cs i ph .black)

/-- `ka.sigmoidal(ph, c)` -/
def kingAttackTerm (ph : Nat) (c : Color) : S := o.sigmoid (sum o (kaTerms o cs i ph c))

/-- all addends of `sp.mg[c]` (`ph = 0`) / `sp.eg[c]` (`ph = 1`) on the normal path, in order. -/
def spTerms (ph : Nat) (c : Color) : List S :=
  pieceValueTerms o cs i ph c ++ tempoTerms o cs i ph c ++ bishopPairTerms o cs i ph c ++
  passerTerms o cs i ph c ++ doubledTerms o cs i ph c ++ isolatedTerms o cs i ph c ++
  loopTerms o cs i ph c ++ [kingAttackTerm o cs i ph c]

/-! ### knight + bishop mate -/

/-- `victim` of `scorePair.KNBvK` -/
def knbVictim : Color := if i.pc .bishop &&& i.col .white != 0 then .black else .white

/-- `cornerDist` at the end of `scorePair.KNBvK` -/
def knbCornerDist : Int :=
  let bishopSq := lowestSet (i.pc .bishop)
  let victimKSq := lowestSet (i.pc .king &&& i.col (knbVictim i))
  let parity := ((bishopSq &&& 7) + ((bishopSq >>> 3) &&& 7)) &&& 1
  let cornerDist := min (cheb victimKSq (kbCorner parity 0)) (cheb victimKSq (kbCorner parity 1))
  let cornerDist := 7 - cornerDist
  cornerDist * cornerDist

/-- the addends of `scorePair.KNBvK` to `sp.mg/eg[c]` (`ph = 0` has no corner bonus). -/
def knbvkTerms (ph : Nat) (c : Color) : List S :=
  let victim := knbVictim i
  let bishopSq := lowestSet (i.pc .bishop)
  let knightSq := lowestSet (i.pc .knight)
  let victimKSq := lowestSet (i.pc .king &&& i.col victim)
  let attackKSq := lowestSet (i.pc .king &&& i.col victim.flip)
  if c = victim then [psqt o cs ph victim .king victimKSq]
  else
    [psqt o cs ph victim.flip .king attackKSq, psqt o cs ph victim.flip .knight knightSq,
     psqt o cs ph victim.flip .bishop bishopSq] ++
    (if ph = 1 then [o.mulInt (knbCornerDist i) (o.ofInt 30)] else [])

/-- `func Eval[T ScoreType](b *board.Board, c *CoeffSet[T]) T` on the projection of the board. -/
def evalCore : S :=
  if insufficientMat i then o.ofInt 0 else
  if knbvk i then
    let eg := fun c => sum o (pieceValueTerms o cs i 1 c ++ knbvkTerms o cs i 1 c)
    -- endgameScore
    o.sub (eg i.stm) (eg i.stm.flip)
  else
    let mg := fun c => sum o (spTerms o cs i 0 c)
    let eg := fun c => sum o (spTerms o cs i 1 c)
    -- taperedScore
    let mgScore := o.sub (mg i.stm) (mg i.stm.flip)
    let egScore := o.sub (eg i.stm) (eg i.stm.flip)
    let mgPhase := min (phaseSum i) maxPhase
    let egPhase := maxPhase - mgPhase
    o.taper mgScore egScore mgPhase egPhase i.fifty

end generic

/-! ## Instantiations -/

/-- `sigm[Clamp(int(n), 0, len(sigm)-1)]` -/
def sigmTable (n : Int) : Int :=
  Gen.Eval.sigm.getD (clamp n 0 ((Gen.Eval.sigm.length : Int) - 1)).toNat 0

/-- `T = Score` (int16): every result converted back to int16 as Go does.
    taper: `v := int(mg)*mgPhase + int(eg)*egPhase; v *= int(100 - fifty); T(v / MaxPhase / 100)` where
    `100 - fifty` is computed in `Depth` (int8). -/
def opsI16 : Ops Int where
  ofInt n := wrapS16 n
  add a b := wrapS16 (a + b)
  sub a b := wrapS16 (a - b)
  mulInt n x := wrapS16 (n * x)
  sigmoid n := wrapS16 (sigmTable n)
  taper mg eg mgPhase egPhase fifty :=
    let v := mg * mgPhase + eg * egPhase
    let v := v * wrapS8 (100 - fifty)
    wrapS16 (goDiv (goDiv v maxPhase) 100)

/-- exact integer arithmetic: no wrap-around, table sigmoid, truncating taper (what the engine's
    `Eval[Score]` computes as long as no conversion to int16 changes a value). -/
def opsZ : Ops Int where
  ofInt n := n
  add a b := a + b
  sub a b := a - b
  mulInt n x := n * x
  sigmoid n := sigmTable n
  taper mg eg mgPhase egPhase fifty :=
    goDiv (goDiv ((mg * mgPhase + eg * egPhase) * (100 - fifty)) maxPhase) 100

/-- `x` is an int16 value. -/
def inRange16 (x : Int) : Bool := decide (-32768 ≤ x) && decide (x ≤ 32767)

/-- every coefficient satisfies `p`. -/
def CoeffSet.all {S : Type} (p : S → Bool) (cs : CoeffSet S) : Bool :=
  cs.PSqT.all (·.all p) && cs.PieceValues.all (·.all p) && cs.TempoBonus.all p &&
  cs.KingAttackPieces.all (·.all p) && cs.SafeChecks.all (·.all p) && cs.KingShelter.all p &&
  cs.MobilityKnight.all (·.all p) && cs.MobilityBishop.all (·.all p) && cs.MobilityRook.all (·.all p) &&
  cs.KnightOutpost.all (·.all p) && cs.ConnectedRooks.all p && cs.BishopPair.all p &&
  cs.ProtectedPasser.all p && cs.PasserKingDist.all p && cs.PasserRank.all (·.all p) &&
  cs.DoubledPawns.all p && cs.IsolatedPawns.all p

/-- No conversion to int16 (or, for `100 - fifty`, to int8) that matters for the result changes a
    value: the coefficients are int16 values, the halfmove clock is in `0..100`, and — computed in exact
    integers — the four king-attack scores fed to the sigmoid table, the middle-game and end-game
    differences fed to the taper (or the end-game difference of the KNB v K path) and the final result
    are int16 values.  (Partial sums may wrap harmlessly: two's complement addition is exact modulo
    2^16, so only the values that are *inspected* — table index, conversion to `int`, result — count.) -/
def noInt16Wrap (cs : CoeffSet Int) (i : EvalInput) : Bool :=
  cs.all inRange16 && decide (0 ≤ i.fifty) && decide (i.fifty ≤ 100) &&
  inRange16 (evalCore opsZ cs i) &&
  (if insufficientMat i then true
   else if knbvk i then
     inRange16 (sum opsZ (pieceValueTerms opsZ cs i 1 i.stm ++ knbvkTerms opsZ cs i 1 i.stm) -
                sum opsZ (pieceValueTerms opsZ cs i 1 i.stm.flip ++ knbvkTerms opsZ cs i 1 i.stm.flip))
   else
     ([0, 1].all fun ph => [Color.white, Color.black].all fun c => inRange16 (sum opsZ (kaTerms opsZ cs i ph c))) &&
     ([0, 1].all fun ph =>
        inRange16 (sum opsZ (spTerms opsZ cs i ph i.stm) - sum opsZ (spTerms opsZ cs i ph i.stm.flip))))

/-- exact rational arithmetic with an abstract sigmoid `σ`
    (taper: `v := mg*T(mgPhase) + eg*T(egPhase); v *= 100 - T(fifty); v / MaxPhase / 100`). -/
def opsQ (σ : Rat → Rat) : Ops Rat where
  ofInt n := (n : Rat)
  add a b := a + b
  sub a b := a - b
  mulInt n x := (n : Rat) * x
  sigmoid := σ
  taper mg eg mgPhase egPhase fifty :=
    (mg * (mgPhase : Rat) + eg * (egPhase : Rat)) * (100 - (fifty : Rat)) / (maxPhase : Rat) / 100

/-- reshape the row-major leaves of a field. -/
def arr1 {S : Type} (f : Int → S) (l : List Int) : Array S := (l.map f).toArray
def chunk {α : Type} (n : Nat) : Nat → List α → List (List α)
  | 0, _ => []
  | k + 1, l => l.take n :: chunk n k (l.drop n)
def arr2 {S : Type} (f : Int → S) (rows cols : Nat) (l : List Int) : Array (Array S) :=
  ((chunk cols rows l).map (arr1 f)).toArray

/-- a coefficient set from the flat row-major leaves of all fields in declaration order (the layout
    of `Gen.Eval.coefficients`; also the layout of the tuner's full parameter vector). -/
def CoeffSet.ofFlat {S : Type} (f : Int → S) (g : String → List Int) : CoeffSet S where
  PSqT := arr2 f 12 64 (g "PSqT")
  PieceValues := arr2 f 2 7 (g "PieceValues")
  TempoBonus := arr1 f (g "TempoBonus")
  KingAttackPieces := arr2 f 2 4 (g "KingAttackPieces")
  SafeChecks := arr2 f 2 4 (g "SafeChecks")
  KingShelter := arr1 f (g "KingShelter")
  MobilityKnight := arr2 f 2 9 (g "MobilityKnight")
  MobilityBishop := arr2 f 2 14 (g "MobilityBishop")
  MobilityRook := arr2 f 2 11 (g "MobilityRook")
  KnightOutpost := arr2 f 2 40 (g "KnightOutpost")
  ConnectedRooks := arr1 f (g "ConnectedRooks")
  BishopPair := arr1 f (g "BishopPair")
  ProtectedPasser := arr1 f (g "ProtectedPasser")
  PasserKingDist := arr1 f (g "PasserKingDist")
  PasserRank := arr2 f 2 6 (g "PasserRank")
  DoubledPawns := arr1 f (g "DoubledPawns")
  IsolatedPawns := arr1 f (g "IsolatedPawns")

def lookupField (fs : List (String × List Int)) (name : String) : List Int :=
  match fs.lookup name with
  | some l => l
  | none => []

/-- `eval.Coefficients` -/
def shipped : CoeffSet Int := CoeffSet.ofFlat id (lookupField Gen.Eval.coefficients)

/-- `tuning.EngineCoeffs()` in exact arithmetic: the shipped coefficients converted. -/
def shippedQ : CoeffSet Rat := CoeffSet.ofFlat (fun n => (n : Rat)) (lookupField Gen.Eval.coefficients)

/-- the engine's `Eval[Score](b, cs)`. -/
def evalInt (cs : CoeffSet Int) (b : Board) : Int := evalCore opsI16 cs (input b)

/-- the exact-arithmetic reading of `Eval[float64](b, cs)` with sigmoid `σ`. -/
def evalQ (σ : Rat → Rat) (cs : CoeffSet Rat) (b : Board) : Rat := evalCore (opsQ σ) cs (input b)

/-- `EngineRep.Eval`: white-relative sign. -/
def tunerEvalQ (σ : Rat → Rat) (cs : CoeffSet Rat) (b : Board) : Rat :=
  if b.stm = .black then - evalQ σ cs b else evalQ σ cs b

/-- The hypothesis of C19 (a) on the sigmoid: on every int16 argument it is within 1/2 of the table
    entry the integer path uses (the table was produced by rounding).  Discharged numerically, outside
    Lean, by the `tunereval` harness (suite B) for the real `600/(1+exp(-0.2(n-50)))` in float64. -/
def TableNear (σ : Rat → Rat) : Prop :=
  ∀ n : Int, -32768 ≤ n → n ≤ 32767 →
    -(1 / 2 : Rat) ≤ σ (n : Rat) - (sigmTable n : Rat) ∧ σ (n : Rat) - (sigmTable n : Rat) ≤ 1 / 2

/-- `EngineRep.Eval`'s sign convention applied to the integer evaluation. -/
def tunerEvalInt (cs : CoeffSet Int) (b : Board) : Int :=
  if b.stm = .black then - evalInt cs b else evalInt cs b

/-! ## The mirror image of a position -/

/-- the set of squares `t < 64` with `p t`. -/
def ofPred (p : Nat → Bool) : BB :=
  (List.range 64).foldl (fun acc t => if p t then acc ||| bit t else acc) 0

/-- vertical flip of a bitboard (rank `r` ↔ rank `7 - r`): square `s` is in `flipBB x` iff
    `s ^ 56` is in `x`. -/
def flipBB (x : BB) : BB := ofPred fun s => x.getLsbD (s ^^^ 56)

/-- castling rights with the colours exchanged (K↔k, Q↔q). -/
def flipCastles (c : Castles) : Castles := (c <<< 2) ||| (c >>> 2)

/-- ranks flipped, colours and side to move swapped (castling rights and en-passant square follow;
    the hash history is dropped — the evaluation cannot see it). -/
def mirror (b : Board) : Board :=
  { sq := Vector.ofFn fun (s : Fin 64) => b.pieceAt (s.val ^^^ 56),
    pieces := Vector.ofFn fun (p : Fin 7) => flipBB (b.pieces.getD p.val 0),
    colors := Vector.ofFn fun (c : Fin 2) => flipBB (b.colors.getD (1 - c.val) 0),
    hashes := [],
    fullMoves := b.fullMoves,
    stm := b.stm.flip,
    ep := if b.ep = 0 then 0 else b.ep ^^^ 56,
    castles := flipCastles b.castles,
    fifty := b.fifty }

end ChessVerif.Eval
