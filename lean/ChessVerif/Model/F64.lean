/-
  Executable model of IEEE-754 binary64 ("float64") arithmetic, core Lean only (C19 a).

  A double is modelled by its exact real value (a rational), its sign bit (so that `-0` and the bit
  pattern of `math.Float64bits` are available) and a flag `ok`.  `ok = false` means "the model does not
  describe this value": an overflow to ±Inf, a division by zero or a bit pattern with exponent field
  2047 (Inf / NaN) occurred on the way.  Nothing is assumed about such values; the theorems of
  Proofs/EvalFloat*.lean prove `ok = true` for the tuner's evaluation of every valid position.

  * `round x` — the double nearest to the real number `x`, ties to even (the default and only rounding
    mode Go uses), with GRADUAL UNDERFLOW: the spacing of doubles around `x` is
    `ulp x = 2^(max(⌊log₂|x|⌋, -1022) - 52)`, so below 2^-1022 the grid is the subnormal grid 2^-1074·ℤ.
    `round` has an unbounded upper exponent; a result above `maxFinite` is an overflow and clears `ok`.
  * `fadd / fsub / fmul / fdiv x y` = `round (x op y)` on the exact values — the IEEE-754 definition of a
    correctly rounded basic operation (what the amd64 SSE2 instructions ADDSD / SUBSD / MULSD / DIVSD
    compute and what Go's spec requires of `+ - * /` on float64 when no fusion happens).  Sign of a zero
    result as in IEEE-754 §6.3 (round-to-nearest): `x + y` exact zero is `-0` only if both are negative
    (zeros); a product / quotient has the xor of the signs.
  * `ofInt n` — Go's conversion `float64(n)` of an integer (round to nearest even).
  * `toBits` / `ofBits` — `math.Float64bits` / `math.Float64frombits`.

  Not modelled: NaN payloads, ±Inf (both are `ok = false`), rounding modes other than nearest-even,
  fused multiply-add (Go fuses `x*y + z` on arm64 / ppc64 / s390x / riscv64 and on amd64 only with
  GOAMD64=v3; the harness runs on amd64 with GOAMD64=v1 — trusted-base sentence of C19).
-/
namespace ChessVerif.IEEE

/-- `2^e` as a rational. -/
def pow2 (e : Int) : Rat :=
  if 0 ≤ e then ((2 ^ e.toNat : Nat) : Rat) else 1 / ((2 ^ (-e).toNat : Nat) : Rat)

/-- `|x|` -/
def absQ (x : Rat) : Rat := if x < 0 then -x else x

/-- `⌊log₂ |x|⌋` for `x ≠ 0` (the estimate from the bit lengths of numerator and denominator is either
    exact or one too large). -/
def ilog2 (x : Rat) : Int :=
  let e : Int := (x.num.natAbs.log2 : Int) - (x.den.log2 : Int)
  if pow2 e ≤ absQ x then e else e - 1

/-- round to the nearest integer, ties to even. -/
def rne (r : Rat) : Int :=
  let f := r.floor
  let d := r - (f : Rat)
  if d < 1 / 2 then f else if 1 / 2 < d then f + 1 else if f % 2 = 0 then f else f + 1

/-- smallest exponent of a normal double. -/
def emin : Int := -1022

/-- the spacing of doubles at `x ≠ 0` (unit in the last place), subnormal range included. -/
def ulp (x : Rat) : Rat := pow2 (max (ilog2 x) emin - 52)

/-- **round to nearest even double** (unbounded upper exponent, gradual underflow). -/
def round (x : Rat) : Rat := if x = 0 then 0 else (rne (x / ulp x) : Rat) * ulp x

/-- the largest finite double, `(2^53 - 1)·2^971`. -/
def maxFinite : Rat := ((2 ^ 53 - 1 : Nat) : Rat) * pow2 971

/-- no overflow: the rounded value (unbounded exponent) is a finite double. -/
def finiteQ (r : Rat) : Bool := decide (absQ r ≤ maxFinite)

/-- A float64 value: exact value, sign bit, and "the model describes it". -/
structure F64 where
  val : Rat
  sign : Bool
  ok : Bool
deriving DecidableEq, Inhabited

namespace F64

/-- the double nearest to the real `x` with the given sign-of-zero rule input. -/
@[inline] def mk' (exact : Rat) (sign ok : Bool) : F64 :=
  let r := round exact
  ⟨r, sign, ok && finiteQ r⟩

/-- an untyped constant (or exact real) converted to float64, e.g. `-0.2`. -/
def ofRat (x : Rat) : F64 := mk' x (decide (x < 0)) true

/-- `float64(n)` for an integer `n`. -/
def ofInt (n : Int) : F64 := mk' (n : Rat) (decide (n < 0)) true

/-- `x + y` -/
def add (x y : F64) : F64 :=
  let s := x.val + y.val
  mk' s (if s = 0 then x.sign && y.sign else decide (s < 0)) (x.ok && y.ok)

/-- `x - y` -/
def sub (x y : F64) : F64 :=
  let s := x.val - y.val
  mk' s (if s = 0 then x.sign && !y.sign else decide (s < 0)) (x.ok && y.ok)

/-- `x * y` -/
def mul (x y : F64) : F64 := mk' (x.val * y.val) (x.sign != y.sign) (x.ok && y.ok)

/-- `x / y` (`y = 0` gives ±Inf or NaN: not described). -/
def div (x y : F64) : F64 := mk' (x.val / y.val) (x.sign != y.sign) (x.ok && y.ok && decide (y.val ≠ 0))

/-- `-x` (flips the sign bit, exact). -/
def neg (x : F64) : F64 := ⟨-x.val, !x.sign, x.ok⟩

/-! ### bit patterns -/

/-- the value is a double: on the grid of its binade (53 significant bits, or a multiple of 2^-1074). -/
def isDouble (x : Rat) : Bool := x == round x && finiteQ x

/-- `math.Float64bits(x)` (meaningful when `x.ok` and `isDouble x.val`). -/
def toBits (x : F64) : Nat :=
  let s := if x.sign then 2 ^ 63 else 0
  if x.val = 0 then s else
  let a := absQ x.val
  let e := ilog2 a
  if e < emin then s + (a / pow2 (-1074)).floor.toNat
  else s + (e + 1023).toNat * 2 ^ 52 + ((a / pow2 (e - 52)).floor.toNat - 2 ^ 52)

/-- `math.Float64frombits(b)`; exponent field 2047 (±Inf, NaN) is `ok = false`. -/
def ofBits (b : Nat) : F64 :=
  let s : Bool := b / 2 ^ 63 % 2 == 1
  let ex : Nat := b / 2 ^ 52 % 2048
  let m : Nat := b % 2 ^ 52
  let mag : Rat :=
    if ex = 0 then (m : Rat) * pow2 (-1074)
    else ((2 ^ 52 + m : Nat) : Rat) * pow2 ((ex : Int) - 1075)
  ⟨if s then -mag else mag, s, ex != 2047⟩

end F64

end ChessVerif.IEEE
