/-
  The search skeleton (Model/Search.lean) INSTANTIATED with the real component models:

      realComp K : Search.Comp PS Pick

  Every field of `Comp` is defined from an existing, separately tied component model and mirrors
  the corresponding call site of /repo/search/search.go:

    eval        Model/Eval      `eval.Eval(b, &eval.Coefficients)` = `evalInt shipped` (Gen/Eval coefficients)
    ttProbe     Model/Transp    `s.tt.LookUp(b.Hash())` + `.Move`, `.Depth()`, `.Value(ply)`, `.Type()`
    ttStore     Model/Transp    `s.tt.Insert(b.Hash(), s.gen, d, ply, m, value, typ)`
    failHigh    Model/Heur      `s.ranker.FailHigh(d, b, pck.YieldedMoves(), s.hstack)` — the yielded part of the
                                picker's frame WITH ITS CURRENT WEIGHTS (`w.Weight = value` / `-Inf` included)
    pickInit/pickNext/setWeight
                Model/Picker    `picker.New` / `Next` + `Move` / `w.Weight = …`; the ranker (current σ) and the
                                history stack are consulted lazily at the stage transitions, as in picker.go
    qMoves      MoveGen + Heur  `GenNoisy` + `rankMovesQ` + the in-place selection order of `getNextMove`
    rfpCut … deltaCut           params/params.go constants (Gen/Search), heur.PieceValues (Gen/Heur), `lmr`
                                (Gen/Funcs: the translated function over the `log` table)
    hashFull    transp.Table.HashFull(gen)        nextGen   `s.gen++` (byte)

  `PS` is the persistent part of a `search.Search` object (tt, gen, ranker); `Pick` is a
  `picker.Picker`: its hash move and the state of its frame (`Picker.PSt`).

  All numbers come from regenerated Gen files.  The skeleton itself repeats a few literals
  (`-Inf-1`, the clamp bounds of `evaluate`, `3 - min ply 1`, …): the `example`s at the end of this
  file re-check them against the regenerated values, so a changed literal in /repo breaks the build.

  Deviations from the Go code, all unreachable from `New`/`Clear`/`Go`:
  * `Type() = 3` (never written by `Insert`) matches no `case` of the Go switch (no cut-off, hash
    move still used); `Search.Bound` has three values, the model reads 3 as `upper`.
  * `HashFull` panics for fewer than 1000 buckets; the model samples the buckets that exist.
  * the 2048-entry move store (`StoreFits`) and the 64-entry history stack are unbounded lists;
    `heur.PieceValues[promo]` with promo bits 7 panics in Go, the model reads 0.
  Core Lean only.
-/
import ChessVerif.Model.Search
import ChessVerif.Model.Transp
import ChessVerif.Model.Heur
import ChessVerif.Model.Picker
import ChessVerif.Model.Eval
import ChessVerif.Gen.Search
import ChessVerif.Gen.Heur
import ChessVerif.Gen.Funcs

namespace ChessVerif
namespace SearchReal
open Search

/-! ## state -/

/-- the persistent part of `search.Search`: `tt`, `gen`, `ranker`. -/
structure PS where
  tt : Model.Transp.Table
  gen : BitVec 8
  ranker : Heur.Ranker

/-- `search.New(size)` with `size = 32 * buckets`. -/
def PS.new (buckets : Nat) : PS :=
  { tt := Model.Transp.Table.new (buckets * Model.Transp.bucketBytes), gen := 0, ranker := Heur.Ranker.new }

/-- `(*Search).Clear()`: `s.gen = 0; s.tt.Clear(); s.ranker.Clear()`. -/
def PS.clear (ps : PS) : PS := { tt := ps.tt.clear, gen := 0, ranker := ps.ranker.clear }

/-- a `picker.Picker`: the hash move it was created with and its frame. -/
structure Pick where
  hm : Move
  st : Picker.PSt

/-! ## conversions -/

/-- `heur.StackMove` of the skeleton → of the ranker model. -/
def stackMoveOf (m : Search.StackMove) : Heur.StackMove := { piece := m.piece.toNat, to := m.to, score := m.score }

/-- `s.hstack` as the ranker model sees it (head = top in both). -/
def hstackOf (h : List Search.StackMove) : Heur.HStack := h.map stackMoveOf

/-- `transp.Type` → `Search.Bound` (3 is never stored; see the header). -/
def boundOfTyp (t : BitVec 8) : Bound :=
  if t = Model.Transp.exact then .exact else if t = Model.Transp.lowerBound then .lower else .upper

def typOfBound : Bound → BitVec 8
  | .upper => Model.Transp.upperBound
  | .lower => Model.Transp.lowerBound
  | .exact => Model.Transp.exact

/-- `search.Node` as the integer the translated `lmr` takes. -/
def nodeCode : NodeType → Int
  | .pv => Gen.Search.pvNode
  | .cut => Gen.Search.cutNode
  | .all => Gen.Search.allNode

/-- `heur.PieceValues[p]`. -/
@[inline] def pieceValue (p : Nat) : Int := Gen.Heur.pieceValues.getD p 0

/-! ## transposition table -/

/-- `transpE, ok := s.tt.LookUp(b.Hash())` and the four reads of the entry. -/
def ttProbe (ps : PS) (b : Board) (ply : Int) : Option TTHit :=
  match ps.tt.lookUp b.hash with
  | none => none
  | some e => some { move := e.move.toNat, depth := e.depth, value := e.valueAt ply, bound := boundOfTyp e.typ }

/-- `s.tt.Insert(b.Hash(), s.gen, d, ply, m, value, typ)`. -/
def ttStore (ps : PS) (b : Board) (d ply : Int) (m : Move) (v : Score) (bd : Bound) : PS :=
  { ps with tt := ps.tt.insert b.hash ps.gen d ply (BitVec.ofNat 16 m) v (typOfBound bd) }

/-- lane `i` of `pKeys` is occupied and the entry is of generation `gen`. -/
def laneLive (bk : Model.Transp.Bucket) (gen : BitVec 8) (i : Nat) : Bool :=
  ((bk.pKeys >>> (i * Model.Transp.keyBits)) &&& BitVec.ofInt 64 Gen.Search.hashFullLaneMask != 0) && (bk.get i).gen == gen

/-- `func (t Table) HashFull(gen Gen) int`. -/
def hashFull (ps : PS) : Int :=
  let n := min Gen.Search.hashFullSample.toNat ps.tt.size
  let cnt := (List.range n).foldl (fun cnt k =>
    let bk := ps.tt.getD k Model.Transp.Bucket.zero
    (List.range Model.Transp.entryCnt).foldl (fun cnt i => if laneLive bk ps.gen i then cnt + 1 else cnt) cnt) (0 : Nat)
  goDiv cnt Gen.Search.hashFullDiv

/-- the deferred `s.gen++` (a byte). -/
def nextGen (ps : PS) : PS := { ps with gen := ps.gen + 1 }

/-! ## picker -/

/-- `picker.New(b, hashMove, s.ms, &s.ranker, s.hstack)` followed by `s.ms.Push()`. -/
def pickInit (_b : Board) (hm : Move) : Pick := { hm := hm, st := Picker.init }

/-- `pck.Next()`; on success `pck.Move().Move`.  Ranker and history stack are the CURRENT ones. -/
def pickNext (ps : PS) (b : Board) (h : List Search.StackMove) (p : Pick) : Option (Move × Pick) :=
  match Picker.next b p.hm (Picker.rankOf ps.ranker b (hstackOf h)) p.st with
  | (true, st) => some ((Picker.current st).move, { p with st := st })
  | (false, _) => none

/-- overwrite the weight of the last element (`&p.ms.Frame()[p.ix-1]`). -/
def setLastWeight : List Picker.WMove → Int → List Picker.WMove
  | [], _ => []
  | [w], v => [{ w with weight := v }]
  | w :: ws, v => w :: setLastWeight ws v

/-- `w.Weight = value` with `w := pck.Move()`. -/
def setWeight (p : Pick) (v : Score) : Pick := { p with st := { p.st with done := setLastWeight p.st.done v } }

/-- `pck.YieldedMoves()`: `Frame()[:ix]` with the weights it holds now. -/
def yielded (p : Pick) : List (Move × Int) := p.st.done.map fun w => (w.move, w.weight)

/-- `s.ranker.FailHigh(d, b, pck.YieldedMoves(), s.hstack)`. -/
def failHigh (ps : PS) (d : Int) (b : Board) (p : Pick) (h : List Search.StackMove) : PS :=
  { ps with ranker := Heur.failHigh ps.ranker d b (yielded p) (hstackOf h) }

/-! ## quiescence move list -/

/-- `for m, ix := getNextMove(moves, -1); m != nil; m, ix = getNextMove(moves, ix)`: each call scans
    `moves[ix+1:]` for the first strictly greatest weight above `-Inf-1`, swaps it to `moves[ix+1]`
    and yields it (the same in-place selection as the picker's: `Picker.selectBest` / `takeAt`). -/
def qSelect : Nat → List Picker.WMove → List (Move × Score)
  | 0, _ => []
  | n + 1, rest =>
    match Picker.selectBest Gen.Search.qSelectStart rest with
    | none => []
    | some best =>
      let (w, r) := Picker.takeAt rest best
      (w.move, w.weight) :: qSelect n r

/-- `movegen.GenNoisy(s.ms, b)`; `s.rankMovesQ(b, moves)`; the order `getNextMove` yields. -/
def qMoves (ps : PS) (b : Board) (_h : List Search.StackMove) : List (Move × Score) :=
  let ms := (MoveGen.genNoisy b).map fun m => ({ move := m, weight := Heur.rankNoisy ps.ranker b m } : Picker.WMove)
  qSelect ms.length ms

/-! ## pruning predicates -/

/-- `d < Depth(params.RFPDepthLimit) && staticEval >= beta+Score(d)*Score(params.RFPScoreFactor) && beta > -Inf+MaxPlies` -/
def rfpCut (d : Int) (staticEval beta : Score) : Bool :=
  decide (d < wrapS8 Gen.Search.params_RFPDepthLimit) &&
  decide (staticEval ≥ wrapS16 (beta + wrapS16 (d * wrapS16 Gen.Search.params_RFPScoreFactor))) &&
  decide (beta > Gen.Search.rfpBetaFloor)

/-- `d > Depth(params.NMPDepthLimit) && staticEval >= beta && b.Colors[b.STM] & ^(b.Pieces[Pawn]|b.Pieces[King]) != 0` -/
def nmpTry (b : Board) (d : Int) (staticEval beta : Score) : Bool :=
  decide (d > wrapS8 Gen.Search.params_NMPDepthLimit) && decide (staticEval ≥ beta) &&
  (b.colorBB b.stm &&& ~~~(b.pieceBB .pawn ||| b.pieceBB .king) != 0)

/-- `red := Depth(params.NMPInit) + Depth(Clamp((staticEval-beta)/Score(params.NMPDiffFactor), 0, MaxPlies))`;
    `max(d-red, 0)`. -/
def nmpDepth (d : Int) (staticEval beta : Score) : Int :=
  let q := goDiv (wrapS16 (staticEval - beta)) (wrapS16 Gen.Search.params_NMPDiffFactor)
  let red := wrapS8 (wrapS8 Gen.Search.params_NMPInit +
    wrapS8 (Gen.Funcs.clampS16 q Gen.Search.nmpClampLo Gen.Search.nmpClampHi))
  max (wrapS8 (d - red)) Gen.Search.nmpDepthFloor

/-- `nType != AllNode && d > Depth(params.IIRDepthLimit) && hashMove == 0` -/
def iir (nt : NodeType) (d : Int) (hashMove : Move) : Bool :=
  decide (nt ≠ .all) && decide (d > wrapS8 Gen.Search.params_IIRDepthLimit) && decide (hashMove = 0)

/-- `d > 1 && quietCnt > params.LMRStart` -/
def lmrTry (d quietCnt : Int) : Bool :=
  decide (d > Gen.Search.lmrMinDepth) && decide (quietCnt > Gen.Search.params_LMRStart)

/-- `lmr(d, mCount, improving, nType)` (the translated function of Gen/Funcs). -/
def lmr (d mCount : Int) (improving : Bool) (nt : NodeType) : Int :=
  Gen.Funcs.lmr d mCount improving (nodeCode nt)

/-- `quietLimit := int(d) * int(d); if !improving { quietLimit /= 2 }; quietCnt > 1+quietLimit` -/
def lmpCut (d : Int) (improving : Bool) (quietCnt : Int) : Bool :=
  let quietLimit := d * d
  let quietLimit := if !improving then goDiv quietLimit Gen.Search.lmpDiv else quietLimit
  decide (quietCnt > Gen.Search.lmpBase + quietLimit)

/-- `gain := heur.PieceValues[captured]; if m.Promo() != NoPiece { gain += heur.PieceValues[m.Promo()] - heur.PieceValues[Pawn] }`;
    `delta := standPat + Score(params.StandPatDelta)`; `gain+delta < alpha`. -/
def deltaCut (captured : Piece) (promo : Nat) (standPat alpha : Score) : Bool :=
  let gain := pieceValue captured.toNat
  let gain := if promo ≠ Gen.Search.noPiece.toNat then
      wrapS16 (gain + wrapS16 (pieceValue promo - pieceValue Gen.Search.pawn.toNat)) else gain
  let delta := wrapS16 (standPat + wrapS16 Gen.Search.params_StandPatDelta)
  decide (wrapS16 (gain + delta) < alpha)

/-! ## the instantiation -/

/-- the skeleton's components for Zobrist keys `K` and an arbitrary coefficient set. -/
def realCompWith (K : Keys) (cs : Eval.CoeffSet Int) : Comp PS Pick where
  keys := K
  eval := Eval.evalInt cs
  ttProbe := ttProbe
  ttStore := ttStore
  failHigh := failHigh
  pickInit := pickInit
  pickNext := pickNext
  setWeight := setWeight
  qMoves := qMoves
  rfpCut := rfpCut
  nmpTry := nmpTry
  nmpDepth := nmpDepth
  iir := iir
  lmrTry := lmrTry
  lmr := lmr
  lmpCut := lmpCut
  windowSize := Gen.Search.params_WindowSize
  deltaCut := deltaCut
  hashFull := hashFull
  nextGen := nextGen

/-- THE real search: the shipped coefficients `eval.Coefficients`. -/
def realComp (K : Keys) : Comp PS Pick := realCompWith K Eval.shipped

/-- `search.New(size)`: fresh tables, zeroed PV buffer, `aborted = false`. -/
def newEngine (buckets : Nat) : Engine PS := { ps := PS.new buckets, pv := Pv.Rows.new, aborted := false }

/-- `(*Search).Clear()` on the object (PV buffer and abort flag are untouched). -/
def clearEngine (e : Engine PS) : Engine PS := { e with ps := e.ps.clear }

/-- `s.Go(b, WithDepth…, WithNodes…, …)` with a frozen clock (the soft TIME limit is not used here). -/
def goReal (K : Keys) (L : Limits) (fuel : Nat) (e : Engine PS) (b : Board) : Result PS :=
  Search.go (realComp K) L (fun _ => (0, 0)) fuel e b

/-! ## the literals the skeleton repeats, re-checked against the regenerated values -/

example : Search.Inf = Gen.Search.inf ∧ Search.Inv = Gen.Search.inv ∧ Search.maxPlies = Gen.Search.maxPlies := by decide
example : Gen.Search.logTbl = Gen.Funcs.logTbl := by decide
example : Gen.Funcs.PieceValues = Gen.Heur.pieceValues := by decide
/-- `ply >= MaxPlies-1` -/
example : Search.maxPlies - 1 = Gen.Search.abQuiescencePly := by decide
/-- `b.FiftyCnt >= 100`, `tfCnt >= 3-min(ply, 1)`, `b.Threefold() >= 3` -/
example : Gen.Search.abFiftyLimit = 100 ∧ Gen.Search.qFiftyLimit = 100 ∧ Gen.Search.abThreefoldLimit = 3 ∧
    Gen.Search.abThreefoldPlyCap = 1 ∧ Gen.Search.qThreefoldLimit = 3 := by decide
/-- `maxim := -Inf - 1`, the start window, `factor`, the iteration range -/
example : Gen.Search.abMaximStart = -Search.Inf - 1 ∧ Gen.Search.idAlphaStart = -Search.Inf - 1 ∧
    Gen.Search.idBetaStart = Search.Inf + 1 ∧ Gen.Search.aspFactorStart = 1 ∧ Gen.Search.aspFactorMul = 2 ∧
    Gen.Search.idDepthStart = 0 ∧ Gen.Search.idDepthEnd = Search.maxPlies := by decide
/-- `evaluate`: `Clamp(…, -Inf+MaxPlies+1, Inf-MaxPlies-1)` -/
example : Gen.Search.evalClampLo = -Search.Inf + Search.maxPlies + 1 ∧
    Gen.Search.evalClampHi = Search.Inf - Search.maxPlies - 1 := by decide
/-- null move: `-beta+1`, `value >= Inf-MaxPlies`; no legal move: `Score(0)` -/
example : Gen.Search.nmpWindow = 1 ∧ Gen.Search.nmpMateCeil = Search.Inf - Search.maxPlies ∧ Gen.Search.abNoMoveScore = 0 := by decide
/-- quiescence: `m.Weight < 0`, stores at depth 0, `getNextMove(moves, -1)` -/
example : Gen.Search.qWeightBreak = 0 ∧ Gen.Search.qStoreDepth = 0 ∧ Gen.Search.qSelectFrom = -1 := by decide
/-- `opts.Nodes == -1`, `o.SoftTime > 0`, `o.SoftNodes > 0` -/
example : Gen.Search.noNodeLimit = -1 ∧ Gen.Search.softTimeOff = 0 ∧ Gen.Search.softNodesOff = 0 := by decide
/-- `HashFull` samples exactly the buckets whose existence it demands, four lanes of 16 bits each -/
example : Gen.Search.hashFullMinBuckets = Gen.Search.hashFullSample ∧ Gen.Search.hashFullDiv = Gen.Transp.bucketEntryCnt ∧
    Gen.Search.hashFullLaneMask = 2 ^ Gen.Transp.partialKeyBits.toNat - 1 := by decide
/-- the node-type codes the translated `lmr` / `nextNodeType` use -/
example : Gen.Search.pvNode = Gen.Funcs.PVNode ∧ Gen.Search.cutNode = Gen.Funcs.CutNode ∧ Gen.Search.allNode = Gen.Funcs.AllNode := by decide
/-- the skeleton's `nextNodeType` is the translated one -/
theorem nextNodeType_eq_translated (nt : NodeType) (c : Int) :
    nodeCode (Search.nextNodeType nt c) = Gen.Funcs.nextNodeType (nodeCode nt) c := by
  cases nt <;> by_cases h : c = 1 <;>
    simp [Search.nextNodeType, Gen.Funcs.nextNodeType, nodeCode, Gen.Search.pvNode, Gen.Search.cutNode,
      Gen.Search.allNode, h]

end SearchReal
end ChessVerif
