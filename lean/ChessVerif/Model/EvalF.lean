/-
  The float64 instantiation of eval.go (`Eval[float64]`, what the tuner runs), core Lean only (C19 a).

  `opsF σF : Ops F64` mirrors, OPERATION BY OPERATION and in Go's evaluation order, what the Go text of
  /repo/eval/eval.go does with values of its type parameter `T = float64`:

    T(n)                         → `F64.ofInt n`            (conversion int → float64, round to nearest even)
    x += y                       → `F64.add x y`            (one IEEE addition per `+=`, Model/Eval.lean `sum`)
    T(cnt) * c.X  /  c.X * T(cnt)→ `F64.mul (ofInt cnt) x`  (IEEE multiplication is commutative, sign included)
    sp.mg[STM] - sp.mg[STM.Flip()]→ `F64.sub`
    taperedScore, float path:
        v := mgScore*T(mgPhase) + egScore*T(egPhase)   two multiplications, then one addition
        v *= 100 - T(fifty)                            subtraction (exact: small integers), multiplication
        return v / MaxPhase / 100                      two divisions, left to right
    sigmoidal, float path:
        T(600.0 / (1.0 + math.Exp(-0.2*(float64(n)-50.0))))

  NO FUSION: the model rounds after every operation.  Go's spec allows an implementation to fuse
  `x*y + z` into one FMA (one rounding); the gc compiler does so on arm64, ppc64, s390x, riscv64 and on
  amd64 only when GOAMD64=v3.  The harness that ties this model to the code runs on amd64 with
  GOAMD64=v1 (checked by the harness at start-up).  The only place of eval.go where fusion could change
  a result is the first line of the taper (all other products are products of integers below 2^53 and
  are exact — `Proofs/EvalFloatExact.lean`).

  THE SIGMOID is a parameter.  `σF : Rat → Rat` is "the function the float sigmoid computes": the real
  value of Go's `sigmoidal[float64](x)` as a function of the real value of `x`.  `math.Exp` (an assembly
  / polynomial routine) is NOT modelled.  `sigmoidWith expF` is the Go expression around it with `math.Exp`
  as the parameter `expF`; the harness hands the driver Go's `math.Exp` results for every argument that
  can occur and the driver checks that `sigmoidWith` of them is, bit for bit, Go's sigmoid.
-/
import ChessVerif.Model.Eval
import ChessVerif.Model.F64

namespace ChessVerif.Eval
open ChessVerif ChessVerif.IEEE

/-- a real function as a function on doubles (result sign from the value; a zero result is `+0` —
    the float sigmoid `600/(1+e)` with `e ≥ +0` or `e = +Inf` never yields `-0`). -/
def liftσ (σF : Rat → Rat) (x : F64) : F64 := ⟨σF x.val, decide (σF x.val < 0), x.ok⟩

/-- `T = float64`. -/
def opsF (σF : Rat → Rat) : Ops F64 where
  ofInt n := F64.ofInt n
  add a b := F64.add a b
  sub a b := F64.sub a b
  mulInt n x := F64.mul (F64.ofInt n) x
  sigmoid x := liftσ σF x
  taper mg eg mgPhase egPhase fifty :=
    -- v := mgScore*T(mgPhase) + egScore*T(egPhase)
    let v := F64.add (F64.mul mg (F64.ofInt mgPhase)) (F64.mul eg (F64.ofInt egPhase))
    -- v *= 100 - T(fifty)
    let v := F64.mul v (F64.sub (F64.ofInt 100) (F64.ofInt fifty))
    -- return v / MaxPhase / 100
    F64.div (F64.div v (F64.ofInt maxPhase)) (F64.ofInt 100)

/-- `tuning.EngineCoeffs()`: every int16 leaf converted with `float64(·)`. -/
def shippedF : CoeffSet F64 := CoeffSet.ofFlat F64.ofInt (lookupField Gen.Eval.coefficients)

/-- `eval.Eval[float64](b, cs)` with the float sigmoid `σF`. -/
def evalF (σF : Rat → Rat) (cs : CoeffSet F64) (b : Board) : F64 := evalCore (opsF σF) cs (input b)

/-- `EngineRep.Eval`: `score = -score` for black to move (white-relative sign; flips the sign bit). -/
def tunerEvalF (σF : Rat → Rat) (cs : CoeffSet F64) (b : Board) : F64 :=
  if b.stm = .black then F64.neg (evalF σF cs b) else evalF σF cs b

/-! ### the Go expression of the float sigmoid around `math.Exp` -/

/-- the constant `-0.2` of the Go source as a float64 (`0xBFC999999999999A`). -/
def cNeg02 : F64 := F64.ofRat (-1 / 5)

/-- `600.0 / (1.0 + math.Exp(-0.2*(float64(n)-50.0)))` with `math.Exp` := `expF`
    (`float64(n)` is the identity for `T = float64`). -/
def sigmoidWith (expF : F64 → F64) (n : F64) : F64 :=
  F64.div (F64.ofInt 600) (F64.add (F64.ofInt 1) (expF (F64.mul cNeg02 (F64.sub n (F64.ofInt 50)))))

/-- the argument handed to `math.Exp` for the integer king-attack score `n`. -/
def expArg (n : Int) : F64 := F64.mul cNeg02 (F64.sub (F64.ofInt n) (F64.ofInt 50))

end ChessVerif.Eval
