/-
  The GENERIC skeleton of /repo/search/search.go (+ state.go): `go` → `iterativeDeepen` (aspiration
  loop, abort fallback) → `alphaBeta` → `quiescence`, written with the same make/undo, PV, move-store
  push/pop, history-stack push/pop and abort structure as the Go code, threading the mutable state
  explicitly.  Everything the control structure does not depend on is a field of `Comp`
  (evaluation, transposition table + move ranker as an abstract persistent state `σ`, the move
  picker as an abstract iterator `π`, the pruning margins, the clock); the theorems assume only the
  laws stated in `Proofs/SearchLaws.lean`.

  Fuel makes the functions total.  Running out of fuel behaves like an abort at a node entry and
  sets the ghost flag `fuelOut`; theorems about "runs that return" assume `fuelOut = false`.

  Conventions.  Scores are Go `int16` values kept as `Int`; where Go computes in int16 the model
  applies `wrapS16`.  `Depth` values (int8) are `Int` with `wrapS8`.  Core Lean only.
-/
import ChessVerif.Model.Board
import ChessVerif.Model.MoveGen
import ChessVerif.Model.Mate
import ChessVerif.Model.Pv
import ChessVerif.Gen.Funcs

namespace ChessVerif
namespace Search

abbrev Score := Int

/-- `chess.Inf`, `chess.Inv`, `chess.MaxPlies`. -/
def Inf : Score := 10000
def Inv : Score := -11000
def maxPlies : Int := 64

/-- `search.Node`. -/
inductive NodeType where
  | pv | cut | all
  deriving DecidableEq, Repr, Inhabited

/-- `transp.Type`. -/
inductive Bound where
  | upper | lower | exact
  deriving DecidableEq, Repr, Inhabited

/-- `heur.StackMove`. -/
structure StackMove where
  piece : Piece
  to : Nat
  score : Score
  deriving DecidableEq, Inhabited

/-- what `tt.LookUp` + `Value(ply)` + `Depth()` + `Type()` hand to the search. -/
structure TTHit where
  move : Move
  depth : Int
  value : Score
  bound : Bound
  deriving Inhabited

/-- `search.Options` (the fields the control flow reads).  Channels are modelled by arrival indices:
    the stop signal is visible to the `stopAt`-th poll of the channel (counting from 0) and to all
    later ones; the ponder-hit message is received by the `ponderAt`-th poll of that channel. -/
structure Limits where
  depth : Int            -- Depth (int8)
  nodes : Int            -- hard budget, -1 = none
  softNodes : Int
  softTime : Int
  stop : Option Nat      -- `none`: opts.Stop == nil
  ponder : Option Nat    -- `none`: opts.PonderHit == nil
  output : Bool          -- opts.Output != nil
  deriving Inhabited

/-- One reported line.  `full = false` is the abort notice `info depth D nodes N`. -/
structure Info where
  depth : Int
  full : Bool
  score : Score
  nodes : Int
  time : Int
  hashfull : Int
  pv : List Move
  deriving Inhabited

def Info.blankTime (i : Info) : Info := { i with time := 0 }

/-- The components the skeleton is parametric in.  `σ` is the persistent state of a `Search`
    object (transposition table, history tables, generation counter); `π` the state of one
    `picker.Picker`. -/
structure Comp (σ π : Type) where
  keys : Keys
  /-- `eval.Eval(b, &eval.Coefficients)` (raw; the search clamps it, see `evaluate`) -/
  eval : Board → Score
  /-- `s.tt.LookUp(b.Hash())` with `Value(ply)` applied -/
  ttProbe : σ → Board → Int → Option TTHit
  /-- `s.tt.Insert(b.Hash(), s.gen, d, ply, m, value, typ)` -/
  ttStore : σ → Board → Int → Int → Move → Score → Bound → σ
  /-- `s.ranker.FailHigh(d, b, pck.YieldedMoves(), s.hstack)` -/
  failHigh : σ → Int → Board → π → List StackMove → σ
  /-- `picker.New(b, hashMove, s.ms, &s.ranker, s.hstack)` -/
  pickInit : Board → Move → π
  /-- `pck.Next()` + `pck.Move()`: the ranker is consulted lazily, so the current `σ` is an input -/
  pickNext : σ → Board → List StackMove → π → Option (Move × π)
  /-- `w.Weight = value` on the move yielded last -/
  setWeight : π → Score → π
  /-- quiescence: `GenNoisy` + `rankMovesQ` in the order `getNextMove` yields, with the weights -/
  qMoves : σ → Board → List StackMove → List (Move × Score)
  /-- reverse futility: `d < RFPDepthLimit && staticEval >= beta + d*RFPScoreFactor && beta > -Inf+MaxPlies` -/
  rfpCut : Int → Score → Score → Bool
  /-- null move: `d > NMPDepthLimit && staticEval >= beta && (non-pawn material)` -/
  nmpTry : Board → Int → Score → Score → Bool
  /-- `max(d - red, 0)` with `red = NMPInit + Clamp((staticEval-beta)/NMPDiffFactor, 0, MaxPlies)` -/
  nmpDepth : Int → Score → Score → Int
  /-- `nType != AllNode && d > IIRDepthLimit && hashMove == 0` -/
  iir : NodeType → Int → Move → Bool
  /-- `d > 1 && quietCnt > LMRStart` (the `!inCheck` conjunct is in the skeleton) -/
  lmrTry : Int → Int → Bool
  /-- `lmr(d, moveCnt-1, improving, nType)` -/
  lmr : Int → Int → Bool → NodeType → Int
  /-- late move pruning: `quietCnt > 1 + quietLimit(d, improving)` -/
  lmpCut : Int → Bool → Int → Bool
  /-- `params.WindowSize` -/
  windowSize : Int
  /-- quiescence delta: `gain + standPat + StandPatDelta < alpha` given captured piece and promotion -/
  deltaCut : Piece → Nat → Score → Score → Bool
  /-- `s.tt.HashFull(s.gen)` -/
  hashFull : σ → Int
  /-- `s.gen++` -/
  nextGen : σ → σ

/-- the clock oracle: the `k`-th pair of readings `(time.Since(start), time.Since(base))` in ms. -/
abbrev Clock := Nat → Int × Int

/-- The mutable state threaded through a search. -/
structure St (σ : Type) where
  board : Board
  pv : Pv.Rows
  nodes : Int                 -- opts.Counters.Nodes
  abNodes : Int               -- opts.Counters.ABNodes
  aborted : Bool              -- s.aborted
  polls : Nat                 -- polls of opts.Stop so far
  pondering : Bool            -- opts.PonderHit != nil
  ps : σ                      -- tt, ranker, gen
  frames : Nat                -- s.ms: number of pushed frames
  hstack : List StackMove     -- s.hstack, head = top
  fuelOut : Bool              -- ghost: fuel ran out somewhere
  /-- ghost: a ply-0 node returned a value that contradicts the fail-soft reading of its own window:
      reverse futility pruning fired with `staticEval < beta` (the int16 sum `beta + d*RFPScoreFactor`
      wrapped), or every searched move scored below `-Inf-1` (the start value of `maxim`) while the
      window's `alpha` was lower still.  Impossible while evaluation and table scores stay within
      `±Inf` and the margins do not wrap; the theorems that need it say so. -/
  anomaly : Bool
  /-- ghost (any ply): null-move pruning took its mate branch (`value >= Inf-MaxPlies → return beta`)
      at a node whose `beta` lies below `-Inf + ply`, the score of being mated at this very node —
      i.e. an ancestor has already found a shorter mate.  search.go guards reverse futility pruning
      against the mate band (`beta > -Inf+MaxPlies`) but not the null move; the value handed out is
      one no position at this ply can have, and the parent's fail-low store gives the table a mate
      score it re-bases beyond `Inf` (Proofs/SearchRealScore.lean).  The flag is never cleared
      during a search. -/
  nmpOut : Bool
  /-- ghost (any ply): a value that is NOT ply-consistent — beyond `±max(Inf-MaxPlies, Inf-ply)`, the
      largest magnitude a score can have at this ply — was handed to `tt.Insert` at one of the five
      store sites (`ttBad`).  `Insert` re-bases a mate score by the ply, so such a value is the only way
      a raw table value beyond `±Inf` can arise.  This is the exact event the score theorems for the
      real components have to exclude; `nmpOut` is a (measured: strictly) earlier necessary
      condition for it.  The flag is never cleared during a search. -/
  ttOut : Bool

variable {σ π : Type}

/-- the value `v` stored at `ply` is not ply-consistent: `|v| > max (Inf-MaxPlies) (Inf-ply)`
    (`¬ RelP ply v` of Proofs/SearchScoreLaws.lean, with the literals written out). -/
def ttBad (ply : Int) (v : Score) : Bool :=
  decide (v > max 9936 (10000 - ply)) || decide (v < -(max 9936 (10000 - ply)))

/-- `s.abort(opts)`. -/
def abort (L : Limits) (s : St σ) : Bool × St σ :=
  if s.aborted then (true, s)
  else match L.stop with
    | none => (false, s)
    | some k =>
      if k ≤ s.polls then (true, { s with polls := s.polls + 1, aborted := true })
      else (false, { s with polls := s.polls + 1 })

/-- `s.incrementNodes(opts)`. -/
def incrementNodes (L : Limits) (s : St σ) : St σ :=
  if L.nodes = -1 ∨ s.nodes < L.nodes then { s with nodes := s.nodes + 1 }
  else if !s.pondering then { s with aborted := true }
  else s

/-- `nextNodeType`. -/
def nextNodeType (nt : NodeType) (cnt : Int) : NodeType :=
  match nt with
  | .pv => if cnt = 1 then .pv else .cut
  | .cut => if cnt = 1 then .all else .cut
  | .all => .cut

/-- `hstack.Top(n)`. -/
def top (h : List StackMove) (n : Nat) : Option StackMove := h[n]?

/-- int16 negation `-x`. -/
@[inline] def neg (x : Score) : Score := wrapS16 (-x)

/-- `evaluate(b)` (search.go, repo commit 2ab22cc): the static evaluation the search uses is
    `Clamp(eval.Eval(b, &eval.Coefficients), -Inf+MaxPlies+1, Inf-MaxPlies-1)`; `c.eval` is the raw
    `eval.Eval`, `clampS16` the regenerated translation of `chess.Clamp`. -/
def evaluate (c : Comp σ π) (b : Board) : Score :=
  Gen.Funcs.clampS16 (c.eval b) (-Inf + maxPlies + 1) (Inf - maxPlies - 1)

/-! ## small state updates (named so that proofs can unfold them one at a time) -/

namespace St
/-- `b.MakeMove` / `b.UndoMove` act on the board the state points to. -/
def setBoard (s : St σ) (b : Board) : St σ := { s with board := b }
def setPs (s : St σ) (ps : σ) : St σ := { s with ps := ps }
def setPv (s : St σ) (pv : Pv.Rows) : St σ := { s with pv := pv }
/-- `s.hstack.Push(sm)` -/
def push (s : St σ) (sm : StackMove) : St σ := { s with hstack := sm :: s.hstack }
/-- `s.hstack.Pop()` -/
def pop (s : St σ) : St σ := { s with hstack := s.hstack.tail }
/-- `s.ms.Push()` -/
def pushFrame (s : St σ) : St σ := { s with frames := s.frames + 1 }
/-- `s.ms.Pop()` -/
def popFrame (s : St σ) : St σ := { s with frames := s.frames - 1 }
/-- fuel ran out: behave like an abort, remember it. -/
def outOfFuel (s : St σ) : St σ := { s with aborted := true, fuelOut := true }
def flag (s : St σ) (a : Bool) : St σ := { s with anomaly := s.anomaly || a }
def flagNmp (s : St σ) (a : Bool) : St σ := { s with nmpOut := s.nmpOut || a }
def flagTT (s : St σ) (a : Bool) : St σ := { s with ttOut := s.ttOut || a }
end St

/-- outcome of a loop: the enclosing function returns `v`, or the loop ended with its variables `l`. -/
inductive Flow (α : Type) where
  | ret (v : Score)
  | done (l : α)

/-- outcome of one loop body. -/
inductive Step (α : Type) where
  | ret (v : Score)
  | brk (l : α)
  | cont (l : α)

/-! ## quiescence -/

/-- the running values of the quiescence move loop. -/
structure QLoop where
  alpha : Score
  maxim : Score

/-- quiescence loop body after the recursive call returned `v` in state `s` (board still after the
    move): undo, abort check (as in `alphaBeta` *before* any persistent update — repo commit 161d312;
    before it the beta cut and its table store came first and stored `-Inv` for an aborted child),
    beta cut with its table store, update. -/
def qAfter (c : Comp σ π) (L : Limits) (beta : Score) (ply : Int) (m : Move) (r : Board.Reverse)
    (l : QLoop) (v : Score) (s : St σ) : Step QLoop × St σ :=
  let curr := neg v
  let s := s.setBoard (s.board.undoMove m r)
  let as := abort L s
  if as.1 then (.ret Inv, as.2) else
  let s := as.2
  if curr ≥ beta then
    (.ret curr, (s.setPs (c.ttStore s.ps s.board 0 ply m curr .lower)).flagTT (ttBad ply curr))
  else
    let l' : QLoop := { alpha := max l.alpha curr, maxim := max l.maxim curr }
    (.cont l', s)

/-- the `for m, ix := getNextMove(...)` loop of `quiescence`. `child` is the recursive call. -/
def qLoop (c : Comp σ π) (L : Limits) (child : Score → Score → Int → St σ → Score × St σ)
    (beta standPat : Score) (ply : Int) : List (Move × Score) → QLoop → St σ → Flow QLoop × St σ
  | [], l, s => (.done l, s)
  | (m, w) :: rest, l, s =>
    if w < 0 then (.done l, s) else
    let b := s.board
    let captured := b.pieceAt (b.captureSq m)
    let mk := b.makeMove c.keys m
    if mk.1.inCheck b.stm then
      qLoop c L child beta standPat ply rest l (s.setBoard (mk.1.undoMove m mk.2))
    else if c.deltaCut captured (Move.promo m) standPat l.alpha then
      (.done l, s.setBoard (mk.1.undoMove m mk.2))
    else
      let r := child (neg beta) (neg l.alpha) (wrapS8 (ply + 1)) (s.setBoard mk.1)
      match qAfter c L beta ply m mk.2 l r.1 r.2 with
      | (.ret v, s) => (.ret v, s)
      | (.brk l, s) => (.done l, s)
      | (.cont l, s) => qLoop c L child beta standPat ply rest l s

/-- the table cut-off both search functions apply to a hit (`Exact` / `LowerBound ≥ beta` / `UpperBound ≤ alpha`). -/
def ttCut (e : TTHit) (alpha beta : Score) : Option Score :=
  match e.bound with
  | .exact => some e.value
  | .lower => if e.value ≥ beta then some e.value else none
  | .upper => if e.value ≤ alpha then some e.value else none

/-- `quiescence` from the table probe on (after node count, abort check and draw test). -/
def qBody (c : Comp σ π) (L : Limits) (child : Score → Score → Int → St σ → Score × St σ)
    (alpha beta : Score) (ply : Int) (s : St σ) : Score × St σ :=
  let b := s.board
  let cut : Option Score :=
    match c.ttProbe s.ps b ply with
    | some e => ttCut e alpha beta
    | none => none
  match cut with
  | some v => (v, s)
  | none =>
  let inCheck := b.inCheck b.stm
  if inCheck && b.isCheckmate then (wrapS16 (-Inf + ply), s) else
  if !inCheck && b.isStalemate then (0, s) else
  let standPat := evaluate c b
  if !inCheck && standPat ≥ beta then (standPat, s) else
  -- s.ms.Push(); defer s.ms.Pop()
  let l0 : QLoop := { alpha := max alpha standPat, maxim := standPat }
  let r := qLoop c L child beta standPat ply (c.qMoves s.ps b s.hstack) l0 s.pushFrame
  let s := r.2.popFrame
  match r.1 with
  | .ret v => (v, s)
  | .done l => (l.maxim, (s.setPs (c.ttStore s.ps s.board 0 ply 0 l.maxim .upper)).flagTT (ttBad ply l.maxim))

/-- `quiescence`. -/
def quiescence (c : Comp σ π) (L : Limits) : Nat → Score → Score → Int → St σ → Score × St σ
  | 0, _, _, _, s => (Inv, s.outOfFuel)
  | fuel + 1, alpha, beta, ply, s =>
    let as := abort L (incrementNodes L s)
    if as.1 then (Inv, as.2) else
    let s := as.2
    if s.board.fifty ≥ 100 ∨ s.board.threefold ≥ 3 then (0, s) else
    qBody c L (quiescence c L fuel) alpha beta ply s

/-! ## alphaBeta -/

/-- the variables of the move loop of `alphaBeta`. -/
structure ABLoop (π : Type) where
  alpha : Score
  bestMove : Move
  hasLegal : Bool
  failLow : Bool
  maxim : Score
  moveCnt : Int
  quietCnt : Int
  pick : π
  yielded : List Move      -- `pck.YieldedMoves()`, newest first (the weights live in `pick`)

/-- per-node constants of the move loop. -/
structure ABCtx where
  alpha0 : Score           -- the node's `alpha` on entry
  beta : Score
  d : Int
  ply : Int
  nt : NodeType
  inCheck : Bool
  improving : Bool
  staticEval : Score

abbrev Child (σ : Type) := Score → Score → Int → Int → NodeType → St σ → Score × St σ

/-- `-child(...)`: the value and the state after one recursive call. -/
def callChild (child : Child σ) (a b : Score) (d ply : Int) (nt : NodeType) (s : St σ) : Score × St σ :=
  let r := child a b d ply nt s
  (neg r.1, r.2)

/-- the null-window search at full depth and, unless it fails low or the null window is the full
    window, the full-window search. -/
def searchRest (child : Child σ) (x : ABCtx) (l : ABLoop π) (next : NodeType) (s : St σ) : Score × St σ :=
  let ply1 := wrapS8 (x.ply + 1)
  let r2 := callChild child (wrapS16 (neg l.alpha - 1)) (neg l.alpha) (wrapS8 (x.d - 1)) ply1 next s
  if r2.1 ≤ l.alpha then r2 else
  if x.beta = wrapS16 (l.alpha + 1) then r2
  else callChild child (neg x.beta) (neg l.alpha) (wrapS8 (x.d - 1)) ply1 next r2.2

/-- the searches of one legal move (LMR → null window → full window); the board holds the position
    after the move.  Returns the value at `Fin:`. -/
def searchMove (c : Comp σ π) (child : Child σ) (x : ABCtx) (l : ABLoop π) (next : NodeType) (s : St σ) : Score × St σ :=
  let ply1 := wrapS8 (x.ply + 1)
  if c.lmrTry x.d l.quietCnt && !x.inCheck then
    let rd := c.lmr x.d (l.moveCnt - 1) x.improving x.nt
    if rd < wrapS8 (x.d - 1) then
      let r1 := callChild child (wrapS16 (neg l.alpha - 1)) (neg l.alpha) rd ply1 next s
      if r1.1 ≤ l.alpha then r1 else searchRest child x l next r1.2
    else
      -- `var value Score` is still 0 when the reduced search is skipped
      if (0 : Score) ≤ l.alpha then (0, s) else searchRest child x l next s
  else callChild child (neg x.beta) (neg l.alpha) (wrapS8 (x.d - 1)) ply1 next s

/-- `alphaBeta` loop body from the label `Fin:` on; `s` still has the position after the move and the
    pushed history entry. -/
def abAfter (c : Comp σ π) (L : Limits) (x : ABCtx) (m : Move) (r : Board.Reverse)
    (l : ABLoop π) (value : Score) (s : St σ) : Step (ABLoop π) × St σ :=
  let s := (s.setBoard (s.board.undoMove m r)).pop
  let l := { l with maxim := if value > l.maxim then value else l.maxim }
  -- it is important that we check abort *before* updating any of the persistent states
  let as := abort L s
  if as.1 then (.ret Inv, as.2) else
  let s := as.2
  if value > l.alpha then
    if value ≥ x.beta then
      let ps := c.ttStore s.ps s.board x.d x.ply m value .lower
      let ps := c.failHigh ps x.d s.board l.pick s.hstack
      (.ret value, (s.setPs ps).flagTT (ttBad x.ply value))
    else
      let l := { l with pick := c.setWeight l.pick value, failLow := false, alpha := value, bestMove := m }
      let s := s.setPv (s.pv.insert x.ply.toNat m)
      if !x.inCheck && wrapS16 (l.alpha + 1) = x.beta && c.lmpCut x.d x.improving l.quietCnt then (.brk l, s)
      else (.cont l, s)
  else
    let l := { l with pick := c.setWeight l.pick (-Inf) }
    if !x.inCheck && wrapS16 (l.alpha + 1) = x.beta && c.lmpCut x.d x.improving l.quietCnt then (.brk l, s)
    else (.cont l, s)

/-- bookkeeping of a legal move before it is searched: `hasLegal`, `moveCnt++`, `quietCnt++`. -/
def abEnter (l : ABLoop π) (captured : Piece) (m : Move) : ABLoop π :=
  { l with hasLegal := true, moveCnt := l.moveCnt + 1,
           quietCnt := if captured = Piece.none ∧ Move.promo m = 0 then l.quietCnt + 1 else l.quietCnt }

/-- the `for pck.Next()` loop of `alphaBeta`; `n` bounds the number of `Next()` calls (a picker that
    obeys its laws is exhausted earlier; running out of `n` counts as running out of fuel). -/
def abLoop (c : Comp σ π) (L : Limits) (child : Child σ) (x : ABCtx) : Nat → ABLoop π → St σ → Flow (ABLoop π) × St σ
  | 0, _, s => (.ret Inv, s.outOfFuel)
  | n + 1, l, s =>
    let b := s.board
    match c.pickNext s.ps b s.hstack l.pick with
    | none => (.done l, s)
    | some (m, pk) =>
      let l := { l with pick := pk, yielded := m :: l.yielded }
      let moved := b.pieceAt (Move.src m)
      let captured := b.pieceAt (b.captureSq m)
      let mk := b.makeMove c.keys m
      if mk.1.inCheck b.stm then
        abLoop c L child x n l (s.setBoard (mk.1.undoMove m mk.2))
      else
        let l := abEnter l captured m
        let s := (s.setBoard mk.1).push { piece := moved, to := Move.dst m, score := x.staticEval }
        let r := searchMove c child x l (nextNodeType x.nt l.moveCnt) s
        match abAfter c L x m mk.2 l r.1 r.2 with
        | (.ret v, s) => (.ret v, s)
        | (.brk l, s) => (.done l, s)
        | (.cont l, s) => abLoop c L child x n l s

/-- `improving`: compare with the static evaluation two (or four) plies earlier. -/
def improvingOf (h : List StackMove) (staticEval : Score) : Bool :=
  let oldScore : Score :=
    match top h 1 with
    | some old => if old.score ≠ Inv then old.score else (match top h 3 with | some o => o.score | none => Inv)
    | none => (match top h 3 with | some o => o.score | none => Inv)
  decide (oldScore < staticEval)

/-- null move pruning: `some v` = the node returns `v`. -/
def nullMove (c : Comp σ π) (child : Child σ) (beta : Score) (d ply : Int) (staticEval : Score) (s : St σ) :
    Option Score × St σ :=
  let mk := s.board.makeNull c.keys
  let r := callChild child (neg beta) (wrapS16 (neg beta + 1)) (c.nmpDepth d staticEval beta) (wrapS8 (ply + 1)) .cut
    (s.setBoard mk.1)
  let s := r.2.setBoard (r.2.board.undoNull mk.2)
  if r.1 ≥ beta then
    -- ghost: the mate branch hands out `beta` although `beta` lies below the mated-at-this-ply score
    (some (if r.1 ≥ Inf - maxPlies then beta else r.1),
     s.flagNmp (decide (r.1 ≥ Inf - maxPlies) && decide (beta < -Inf + ply)))
  else (none, s)

/-- the move loop of a node and what follows it (mate/stalemate score, table store). -/
def abMoves (c : Comp σ π) (L : Limits) (child : Child σ) (alpha beta : Score) (d ply : Int) (nt : NodeType)
    (inCheck improving : Bool) (staticEval : Score) (hashMove : Move) (s : St σ) : Score × St σ :=
  let pick := c.pickInit s.board hashMove
  let d := if c.iir nt d hashMove then wrapS8 (d - 1) else d
  let x : ABCtx := { alpha0 := alpha, beta := beta, d := d, ply := ply, nt := nt, inCheck := inCheck,
                     improving := improving, staticEval := staticEval }
  let l0 : ABLoop π := { alpha := alpha, bestMove := 0, hasLegal := false, failLow := true, maxim := -Inf - 1,
                         moveCnt := 0, quietCnt := 0, pick := pick, yielded := [] }
  -- s.ms.Push(); defer s.ms.Pop()
  let r := abLoop c L child x ((MoveGen.gen s.board).length + 1) l0 s.pushFrame
  let s := r.2.popFrame
  match r.1 with
  | .ret v => (v, s)
  | .done l =>
    let maxim : Score := if !l.hasLegal then (if inCheck then wrapS16 (-Inf + ply) else 0) else l.maxim
    let failLow := if !l.hasLegal then false else l.failLow
    let ps :=
      if failLow then c.ttStore s.ps s.board d ply 0 maxim .upper
      else c.ttStore s.ps s.board d ply l.bestMove maxim .exact
    (maxim, ((s.setPs ps).flag (decide (ply = 0) && l.hasLegal && l.failLow && decide (l.maxim > alpha))).flagTT
      (ttBad ply maxim))

/-- the pruning steps of a node once the static values are known: reverse futility, null move,
    then the move loop. -/
def abPrune (c : Comp σ π) (L : Limits) (child : Child σ) (alpha beta : Score) (d ply : Int) (nt : NodeType)
    (inCheck improving : Bool) (staticEval : Score) (hashMove : Move) (s : St σ) : Score × St σ :=
  -- RFP
  if !inCheck && c.rfpCut d staticEval beta then
    (staticEval, s.flag (decide (ply = 0) && decide (staticEval < beta)))
  else
  -- null move pruning
  if !inCheck && c.nmpTry s.board d staticEval beta then
    let nm := nullMove c child beta d ply staticEval s
    match nm.1 with
    | some v => (v, nm.2)
    | none => abMoves c L child alpha beta d ply nt inCheck improving staticEval hashMove nm.2
  else abMoves c L child alpha beta d ply nt inCheck improving staticEval hashMove s

/-- `alphaBeta` from the table probe on (after PV reset, node count, abort check and draw test). -/
def abBody (c : Comp σ π) (L : Limits) (child : Child σ) (alpha beta : Score) (d ply : Int) (nt : NodeType)
    (s : St σ) : Score × St σ :=
  let b := s.board
  let hit := c.ttProbe s.ps b ply
  let hashMove : Move := match hit with | some e => e.move | none => 0
  let cut : Option Score :=
    match hit with
    | some e => if nt ≠ .pv ∧ e.depth ≥ d then ttCut e alpha beta else none
    | none => none
  match cut with
  | some v => (v, s)
  | none =>
    let inCheck := b.inCheck b.stm
    let staticEval : Score := if inCheck then Inv else evaluate c b
    let improving := if inCheck then false else improvingOf s.hstack staticEval
    abPrune c L child alpha beta d ply nt inCheck improving staticEval hashMove s

/-- `alphaBeta`. -/
def alphaBeta (c : Comp σ π) (L : Limits) : Nat → Child σ
  | 0, _, _, _, ply, _, s => (Inv, (s.setPv (s.pv.setNull ply.toNat)).outOfFuel)
  | fuel + 1, alpha, beta, d, ply, nt, s =>
    let s := s.setPv (s.pv.setNull ply.toNat)
    if d = 0 ∨ ply ≥ maxPlies - 1 then quiescence c L (fuel + 1) alpha beta ply s else
    let s := incrementNodes L s
    let as := abort L { s with abNodes := s.abNodes + 1 }
    if as.1 then (Inv, as.2) else
    let s := as.2
    let tfCnt : Int := s.board.threefold
    if s.board.fifty ≥ 100 ∨ tfCnt ≥ 3 - min ply 1 then (0, s) else
    abBody c L (alphaBeta c L fuel) alpha beta d ply nt s

/-! ## iterative deepening -/

/-- `softAbort`. -/
def softAbort (L : Limits) (pondering : Bool) (elapsed nodes : Int) : Bool :=
  !pondering && ((decide (L.softTime > 0) && decide (elapsed > L.softTime)) || (decide (L.softNodes > 0) && decide (nodes > L.softNodes)))

/-- the abort fallback: the first generated move that does not leave the own king attacked. -/
def firstLegal (K : Keys) (b : Board) : List Move → Move × Board
  | [] => (0, b)
  | m :: rest =>
    let (b', r) := b.makeMove K m
    if !(b'.inCheck b.stm) then (m, b'.undoMove m r) else firstLegal K (b'.undoMove m r) rest

/-- the values `iterativeDeepen` carries from one iteration to the next. -/
structure IDVars where
  alpha : Score
  beta : Score
  score : Score
  move : Move
  ponder : Move
  reads : Nat        -- clock readings taken so far
  ppolls : Nat       -- polls of the ponder-hit channel so far
  out : List Info    -- lines written to opts.Output, newest first

structure Result (σ : Type) where
  score : Score
  move : Move
  ponder : Move
  out : List Info
  st : St σ

/-- outcome of the aspiration loop of one iteration. -/
inductive Asp (σ : Type) where
  | aborted (s : St σ)                          -- `s.abort(opts)` was true: the function returns
  | ok (alpha beta sample : Score) (s : St σ)   -- in-window result

/-- `for !awOk { … }`. -/
def aspiration (c : Comp σ π) (L : Limits) (fuel : Nat) (idD : Int) :
    Nat → Score → Score → Score → St σ → Asp σ
  | 0, _, _, _, s => .aborted s.outOfFuel
  | n + 1, alpha, beta, factor, s =>
    let (sample, s) := alphaBeta c L fuel alpha beta idD 0 .pv s
    let inWindow := !(decide (sample ≤ alpha)) && !(decide (sample ≥ beta))
    let alpha' := if sample ≤ alpha then wrapS16 (alpha - wrapS16 (factor * c.windowSize)) else alpha
    let beta' := if sample ≤ alpha then beta else if sample ≥ beta then wrapS16 (beta + wrapS16 (factor * c.windowSize)) else beta
    let factor' := if inWindow then factor else wrapS16 (factor * 2)
    let (ab, s) := abort L s
    if ab then .aborted s
    else if inWindow then .ok alpha' beta' sample s
    else aspiration c L fuel idD n alpha' beta' factor' s

/-- `switch len(s.pv.active())`: the new best move … -/
def pickMove (act : List Move) (old : Move) : Move :=
  match act with
  | [] => old
  | m :: _ => m

/-- … and the new ponder move (cleared on a variation of length 1). -/
def pickPonder (act : List Move) (old : Move) : Move :=
  match act with
  | [] => old
  | [_] => 0
  | _ :: p :: _ => p

/-- the non-blocking receive on `opts.PonderHit` after a completed iteration: (still pondering, polls). -/
def ponderPoll (L : Limits) (pondering : Bool) (ppolls : Nat) : Bool × Nat :=
  if pondering then
    match L.ponder with
    | some k => if k ≤ ppolls then (false, ppolls + 1) else (true, ppolls + 1)
    | none => (true, ppolls + 1)
  else (false, ppolls)

def St.setPondering (s : St σ) (p : Bool) : St σ := { s with pondering := p }

/-- the body of `iterativeDeepen` from iteration `idD` on; `n` = remaining iterations. -/
def idLoop (c : Comp σ π) (L : Limits) (clock : Clock) (fuel : Nat) : Nat → Int → IDVars → St σ → Result σ
  | 0, _, v, s => { score := v.score, move := v.move, ponder := v.ponder, out := v.out, st := s }
  | n + 1, idD, v, s =>
    if !(idD < maxPlies && (decide (idD ≤ L.depth) || s.pondering)) then
      { score := v.score, move := v.move, ponder := v.ponder, out := v.out, st := s }
    else
    match aspiration c L fuel idD fuel v.alpha v.beta 1 s with
    | .aborted s =>
      let out := if L.output then { depth := idD, full := false, score := 0, nodes := s.nodes, time := 0, hashfull := 0, pv := [] } :: v.out else v.out
      if v.move = 0 then
        -- s.ms.Push(); defer s.ms.Pop(); GenNoisy; GenNotNoisy; first legal move
        let (m, b) := firstLegal c.keys s.board (MoveGen.gen s.board)
        { score := v.score, move := m, ponder := 0, out := out, st := s.setBoard b }
      else { score := v.score, move := v.move, ponder := v.ponder, out := out, st := s }
    | .ok _ _ sample s =>
      let act := s.pv.active
      let move := pickMove act v.move
      let ponder := pickPonder act v.ponder
      -- ponder hit
      let pp := ponderPoll L s.pondering v.ppolls
      let ppolls := pp.2
      let s := s.setPondering pp.1
      let sinceStart := (clock v.reads).1
      let sinceBase := (clock v.reads).2
      let out := if L.output then { depth := idD, full := true, score := sample, nodes := s.nodes, time := sinceStart,
                                    hashfull := c.hashFull s.ps, pv := act } :: v.out else v.out
      if move ≠ 0 ∧ softAbort L s.pondering sinceBase s.nodes then
        { score := sample, move := move, ponder := ponder, out := out, st := s }
      else
        idLoop c L clock fuel n (wrapS8 (idD + 1))
          { alpha := wrapS16 (sample - c.windowSize), beta := wrapS16 (sample + c.windowSize), score := sample,
            move := move, ponder := ponder, reads := v.reads + 1, ppolls := ppolls, out := out } s

/-- The persistent part of a `Search` object between two `Go` calls plus what the caller hands in. -/
structure Engine (σ : Type) where
  ps : σ
  pv : Pv.Rows          -- left over from the previous search
  aborted : Bool        -- left over from the previous search

/-- the state `Go` starts from after `refresh()`: move store cleared, history stack reset, abort flag
    cleared; tables and PV buffer as the previous search left them. -/
def goInit (L : Limits) (e : Engine σ) (b : Board) (nodes0 : Int) : St σ :=
  { board := b, pv := e.pv, nodes := nodes0, abNodes := 0, aborted := false, polls := 0,
    pondering := L.ponder.isSome, ps := e.ps, frames := 0, hstack := [], fuelOut := false, anomaly := false,
    nmpOut := false, ttOut := false }

/-- the deferred `s.gen++`. -/
def finish (c : Comp σ π) (r : Result σ) : Result σ := { r with st := r.st.setPs (c.nextGen r.st.ps) }

/-- `(*Search).Go`: `refresh()`, options, `iterativeDeepen`, deferred `s.gen++`.  `nodes0` is the
    value of the caller's `Counters.Nodes` (0 when the search allocates the counters itself). -/
def go (c : Comp σ π) (L : Limits) (clock : Clock) (fuel : Nat) (e : Engine σ) (b : Board) (nodes0 : Int := 0) : Result σ :=
  finish c (idLoop c L clock fuel 64 0
    { alpha := -Inf - 1, beta := Inf + 1, score := 0, move := 0, ponder := 0, reads := 0, ppolls := 0, out := [] }
    (goInit L e b nodes0))

/-- the `Search` object after the call. -/
def Result.engine (r : Result σ) : Engine σ := { ps := r.st.ps, pv := r.st.pv, aborted := r.st.aborted }

end Search
end ChessVerif
