/-
  Executable model of /repo/heur/{heur,hist,cont,capthist}.go and /repo/stack/stack.go
  (core Lean only).

  * The three kinds of stores are flat `Array Int`s indexed as the Go multi-dimensional arrays are
    laid out (`data[a][b][c]` ↦ `(a·B + b)·C + c`); `Add` is the TRANSLATED gravity formula
    `Gen.Funcs.histAdd` (generated from the source; `contAdd`/`captAdd` are the same formula).
  * `Score` is `int16`: arithmetic is wrapped with `wrapS16` where the source computes in `Score`;
    `Piece`/`Square` arithmetic (`King - attacker`, `promo -= Pawn`, `ptHist-1`) stays in `Nat`
    (truncated subtraction) — see the deviations.
  * `stack.Stack[StackMove]` is a list, head = top (`Top(n)` = n-th element).

  Deviations from Go, all outside the domain of C16: an index outside a Go array panics
  (`ptHist = NoPiece`, `captured = King`, a square ≥ 64 …); in the flat model the write is dropped /
  the read is 0 when the FLAT index is out of bounds and otherwise aliases another cell;
  `Stack.Push` beyond `MaxPlies` panics in Go, the list is unbounded.
-/
import ChessVerif.Model.Board
import ChessVerif.Model.See
import ChessVerif.Gen.Funcs
import ChessVerif.Gen.Heur

namespace ChessVerif
namespace Heur
open Board Gen.Funcs

/-- `heur.StackMove`. -/
structure StackMove where
  piece : Nat
  to : Nat
  score : Int
  deriving Repr

/-- `stack.Stack[heur.StackMove]`, head = top. -/
abbrev HStack := List StackMove

/-- `Top(n)`. -/
def HStack.top (s : HStack) (n : Nat) : Option StackMove := s[n]?

/-- `heur.MoveRanker`: History `[Colors][Squares][Squares]`, CaptHist `[6][5][Squares]`,
    two Continuations `[Colors][6][Squares][6][Squares]`. -/
structure Ranker where
  hist : Array Int
  capt : Array Int
  cont0 : Array Int
  cont1 : Array Int

def histSize : Nat := 2 * 64 * 64
def captSize : Nat := 6 * 5 * 64
def contSize : Nat := 2 * 6 * 64 * 6 * 64

/-- `NewMoveRanker()`. -/
def Ranker.new : Ranker :=
  { hist := Array.replicate histSize 0, capt := Array.replicate captSize 0,
    cont0 := Array.replicate contSize 0, cont1 := Array.replicate contSize 0 }

/-- `Clear()`: every store back to all zeros. -/
def Ranker.clear (_ : Ranker) : Ranker := Ranker.new

@[inline] def histIx (stm : Color) (from_ to : Nat) : Nat := (stm.toNat * 64 + from_) * 64 + to
/-- `data[moved-Pawn][captured-Pawn][sq]` -/
@[inline] def captIx (moved captured sq : Nat) : Nat := ((moved - 1) * 5 + (captured - 1)) * 64 + sq
/-- `data[stm][ptHist-1][toHist][pt-1][to]` -/
@[inline] def contIx (stm : Color) (ptHist toHist pt to : Nat) : Nat :=
  (((stm.toNat * 6 + (ptHist - 1)) * 64 + toHist) * 6 + (pt - 1)) * 64 + to

/-- `Add` of all three stores on one cell: `entry += clamped - entry*|clamped|/MaxHistory`. -/
@[inline] def tblAdd (t : Array Int) (i : Nat) (bonus : Int) : Array Int :=
  t.setIfInBounds i (histAdd (t.getD i 0) bonus)

@[inline] def tblGet (t : Array Int) (i : Nat) : Int := t.getD i 0

/-- `score := Score(promo)*6*7 + Score(victim)*6 + Score(invAttacker)` of RankNoisy. -/
def noisyScore (promo victim attacker : Nat) : Int :=
  let promo := if promo ≠ 0 then promo - 1 else promo      -- promo -= Pawn
  let invAttacker := 6 - attacker                            -- King - attacker
  wrapS16 (wrapS16 (wrapS16 (wrapS16 ((promo : Int) * Gen.Heur.rankPromoMulInner) * Gen.Heur.rankPromoMulOuter) +
    wrapS16 ((victim : Int) * Gen.Heur.rankVictimMul)) + (invAttacker : Int))

/-- `RankNoisy` (the history stack is ignored by the source too). -/
def rankNoisy (r : Ranker) (b : Board) (m : Move) : Int :=
  let attacker := (b.pieceAt (Move.src m)).toNat
  let victim := (b.pieceAt (b.captureSq m)).toNat
  let score := noisyScore (Move.promo m) victim attacker
  let captHist : Int := if victim ≠ 0 then tblGet r.capt (captIx attacker victim (Move.dst m)) else 0
  if See.see b m (min 0 (wrapS16 (-captHist))) then wrapS16 (Captures + score)
  else wrapS16 (wrapS16 (wrapS16 (-Captures) - CaptureRange) + score)

/-- `RankQuiet`. -/
def rankQuiet (r : Ranker) (b : Board) (st : HStack) (m : Move) : Int :=
  let score := tblGet r.hist (histIx b.stm (Move.src m) (Move.dst m))
  let moved := (b.pieceAt (Move.src m)).toNat
  let score := match st.top 0 with
    | some h => wrapS16 (score + tblGet r.cont0 (contIx b.stm h.piece h.to moved (Move.dst m)))
    | none => score
  let score := match st.top 1 with
    | some h => wrapS16 (score + tblGet r.cont1 (contIx b.stm h.piece h.to moved (Move.dst m)))
    | none => score
  score

/-- the body of the `for i, m := range moves` loop of FailHigh for one move. -/
def failHighOne (d : Int) (b : Board) (st : HStack) (r : Ranker) (m : Move) (weight : Int) (last : Bool) : Ranker :=
  let bonus := wrapS16 (wrapS16 (d * params_HistBonusMul) - params_HistBonusLin)
  let rng : Int := wrapS16 ((2 : Int) ^ params_HistAdjRange.toNat)   -- Score(1) << params.HistAdjRange
  let red : Int := wrapS16 ((2 : Int) ^ params_HistAdjReduction.toNat)   -- Score(1) << params.HistAdjReduction
  let captured := (b.pieceAt (b.captureSq m)).toNat
  let capture := captured ≠ 0
  let quiet := Move.promo m = 0 ∧ captured = 0
  let value : Int :=
    if quiet ∧ last then bonus
    else if quiet ∧ ¬ last then
      wrapS16 (wrapS16 (-bonus) + goDiv (wrapS16 (rng + clampS16 weight (wrapS16 (-rng)) rng)) red)
    else if capture ∧ last then wrapS16 (d * d)
    else if capture ∧ ¬ last then wrapS16 (wrapS16 (-d) * d)
    else 0
  let moved := (b.pieceAt (Move.src m)).toNat
  if capture then { r with capt := tblAdd r.capt (captIx moved captured (Move.dst m)) value }
  else if quiet then
    let r := { r with hist := tblAdd r.hist (histIx b.stm (Move.src m) (Move.dst m)) value }
    let r := match st.top 0 with
      | some h => { r with cont0 := tblAdd r.cont0 (contIx b.stm h.piece h.to moved (Move.dst m)) value }
      | none => r
    let r := match st.top 1 with
      | some h => { r with cont1 := tblAdd r.cont1 (contIx b.stm h.piece h.to moved (Move.dst m)) (goDiv value 2) }
      | none => r
    r
  else r

/-- `for i, m := range moves { … }` with `last := i == len(moves)-1`. -/
def failHighLoop (d : Int) (b : Board) (st : HStack) : Ranker → List (Move × Int) → Ranker
  | r, [] => r
  | r, [(m, w)] => failHighOne d b st r m w true
  | r, (m, w) :: rest => failHighLoop d b st (failHighOne d b st r m w false) rest

/-- `FailHigh(d, b, moves, stack)`; `d` is a `Depth` (int8). -/
def failHigh (r : Ranker) (d : Int) (b : Board) (moves : List (Move × Int)) (st : HStack) : Ranker :=
  failHighLoop d b st r moves


end Heur
end ChessVerif
