/-
  Executable model of the tuner's data path (C20), core Lean only.
  Mirrors /repo/tools/tuner/epd/chunker.go (shuffleIndex, feistel, roundFunc, NewChunker, Open, Read),
  /repo/tools/tuner/epd/by_lines.go (the bufio.ReadSlice it relies on) and
  /repo/tools/tuner/tuning/batch.go (Batches, Chunks).

  Conventions
  * The mixer `roundFunc` and the key schedule are computed on `UInt64` (wrapping `+`, `*` as in Go).
    Everything else of `feistel`/`shuffleIndex` is on `Nat`s `< 2^64`: `&`, `|`, `^`, `>>` cannot leave
    that range, `<<` in `feistel` stays below `2^bits ≤ 2^64`, and the two places of `shuffleIndex`
    that wrap (`1 << bitsNeeded`, `size - 1`) are written with `% M64`.
  * Go `int` indices/offsets that are never negative are `Nat`; the arguments of `Open` are `Int`.
  * A file is its size and a byte-lookup function, so the same definitions run on a `ByteArray` in the
    driver and on a `List UInt8` in the theorems.
-/
import ChessVerif.Gen.Tuner

namespace ChessVerif.Tuner

/-- `2^64`. -/
def M64 : Nat := 18446744073709551616

/-! ## shuffle: roundFunc, feistel, shuffleIndex -/

/-- `epd.roundFunc` on `uint64` (wrapping `+`, `*`; the shift counts are the literals of the source,
    both `< 64`, see `Props.C20.gen_shift_counts_lt_64`). -/
def roundFunc (x k : UInt64) : UInt64 :=
  let z := x + k
  let z := z ^^^ (z >>> Gen.Tuner.roundShift1.toUInt64)
  let z := z * Gen.Tuner.roundMul.toUInt64
  let z := z ^^^ (z >>> Gen.Tuner.roundShift2.toUInt64)
  z

/-- The round loop `for i := range rounds { f := F(i, right) & leftMask; left, right = right, left^f }`,
    `cnt` rounds starting at round index `i`, on the pair `(left, right)`. -/
def feistelLoop (F : Nat → Nat → Nat) (leftMask : Nat) : Nat → Nat → Nat × Nat → Nat × Nat
  | _, 0, s => s
  | i, cnt + 1, (left, right) =>
      let f := F i right &&& leftMask
      feistelLoop F leftMask (i + 1) cnt (right, left ^^^ f)

/-- `epd.feistel`, generic in the round function (`F i right` = value of `roundFunc(right, k_i)`) and
    in the number of rounds.  For `bits ≤ 64` nothing here can exceed 64 bits, so no `% M64` appears. -/
def feistelG (F : Nat → Nat → Nat) (rounds : Nat) (x bits : Nat) : Nat :=
  let half := bits / 2
  let leftMask := (1 <<< half) - 1
  let rightMask := (1 <<< (bits - half)) - 1
  let left := x &&& leftMask
  let right := (x >>> half) &&& rightMask
  let lr := feistelLoop F leftMask 0 rounds (left, right)
  ((lr.2 &&& rightMask) <<< half) ||| (lr.1 &&& leftMask)

/-- The key schedule and round function of the code: `k := seed + uint64(i)*C; roundFunc(right, k)`. -/
def roundF (seed : Nat) (i right : Nat) : Nat :=
  let k := seed.toUInt64 + i.toUInt64 * Gen.Tuner.feistelKeyInc.toUInt64
  (roundFunc right.toUInt64 k).toNat

/-- `epd.feistel(x, seed, bits)`. -/
def feistel (x seed bits : Nat) : Nat :=
  feistelG (roundF seed) Gen.Tuner.feistelRounds x bits

/-- `bits.Len64`. -/
def bitsLen (m : Nat) : Nat := if m = 0 then 0 else Nat.log2 m + 1

/-- The rejection loop of `shuffleIndex` with an explicit iteration budget. -/
def shuffleLoop (n seed bitsNeeded mask : Nat) : Nat → Nat → Option Nat
  | 0, _ => none
  | fuel + 1, x =>
      let y := feistel x seed bitsNeeded
      if y < n then some y else shuffleLoop n seed bitsNeeded mask fuel (y &&& mask)

/-- `epd.shuffleIndex` with an iteration budget (`none` = budget exhausted). -/
def shuffleIndexFuel (fuel x n seed : Nat) : Option Nat :=
  if n ≤ 1 then some 0
  else
    let bitsNeeded := bitsLen (n - 1)
    let size := (1 <<< bitsNeeded) % M64
    let mask := (size + M64 - 1) % M64
    shuffleLoop n seed bitsNeeded mask fuel x

/-- The budget that provably suffices (theorem `shuffle_terminates`): the size of the Feistel domain. -/
def shuffleFuel (n : Nat) : Nat := 2 ^ bitsLen (n - 1)

/-- `epd.shuffleIndex(x, n, seed)`. -/
def shuffleIndex (x n seed : Nat) : Nat :=
  (shuffleIndexFuel (shuffleFuel n) x n seed).getD 0

/-! ## batches and chunks -/

/-- `tuning.Range` (`End` is exclusive). -/
structure Range where
  start : Nat
  stop : Nat
  deriving DecidableEq, Repr, Inhabited

/-- `for start := 0; start < numEntries; start += B { end := min(start+B, numEntries); yield {start, min(numEntries,end)} }`. -/
def batchesLoop (numEntries B : Nat) : Nat → Nat → List Range
  | 0, _ => []
  | fuel + 1, start =>
      if start < numEntries then
        let e := min (start + B) numEntries
        ⟨start, min numEntries e⟩ :: batchesLoop numEntries B fuel (start + B)
      else []

/-- `tuning.Batches` for a batch size `B`. -/
def batchesWith (B numEntries : Nat) : List Range := batchesLoop numEntries B numEntries 0

/-- `for start := batch.Start; start < batch.End; start += per { yield {start, min(start+per, batch.End)} }`. -/
def chunksLoop (stop per : Nat) : Nat → Nat → List Range
  | 0, _ => []
  | fuel + 1, start =>
      if start < stop then
        ⟨start, min (start + per) stop⟩ :: chunksLoop stop per fuel (start + per)
      else []

/-- `tuning.Chunks` for batch size `B` and `C` chunks per batch. -/
def chunksWith (B C : Nat) (batch : Range) : List Range :=
  let numLinesInChunk := (B + C - 1) / C
  chunksLoop batch.stop numLinesInChunk (batch.stop - batch.start) batch.start

def batches (numEntries : Nat) : List Range := batchesWith Gen.Tuner.numLinesInBatch numEntries
def chunks (batch : Range) : List Range :=
  chunksWith Gen.Tuner.numLinesInBatch Gen.Tuner.numChunksInBatch batch

/-! ## files, the line manifest (NewChunker) -/

/-- A file: its size and its bytes (`byte i` is only meaningful for `i < size`). -/
structure File where
  size : Nat
  byte : Nat → UInt8

/-- The file as a byte list. -/
def File.content (f : File) : List UInt8 := (List.range f.size).map f.byte

/-- `file[a, b)` as a list. -/
def File.slice (f : File) (a b : Nat) : List UInt8 := (List.range' a (b - a)).map f.byte

def File.ofList (l : List UInt8) : File := ⟨l.length, fun i => l.getD i 0⟩
def File.ofByteArray (b : ByteArray) : File := ⟨b.size, fun i => b.get! i⟩

/-- `epd.lineAddr`; `stop` is exclusive and includes the `'\n'`. -/
structure LineAddr where
  start : Nat
  stop : Nat
  deriving DecidableEq, Repr, Inhabited

/-- `'\n'`. -/
def NL : UInt8 := 10

/-- Size of the buffer of `bufio.NewReader` (stdlib `defaultBufSize`). -/
def bufioSize : Nat := 4096

/-- First index `≥ i` among the next `k` bytes that holds `'\n'`. -/
def findNL (f : File) : Nat → Nat → Option Nat
  | 0, _ => none
  | k + 1, i => if f.byte i == NL then some i else findNL f k (i + 1)

/-- Outcome of `bufio.Reader.ReadSlice('\n')` at file offset `pos`. -/
inductive Slice where
  | line (stop : Nat)   -- data `file[pos, stop)`, ends with '\n'
  | eof                 -- io.EOF before a delimiter (data discarded by the caller)
  | bufferFull          -- bufio.ErrBufferFull: `bufSz` bytes without delimiter
  deriving DecidableEq, Repr

/-- `bufio.Reader.ReadSlice('\n')` on a reader of buffer size `bufSz` positioned at `pos`:
    the delimiter is searched in the next `bufSz` bytes; a full buffer without delimiter is
    `ErrBufferFull`, end of file without delimiter is `io.EOF`. -/
def readSlice (f : File) (bufSz pos : Nat) : Slice :=
  let w := min bufSz (f.size - pos)
  match findNL f w pos with
  | some j => .line (j + 1)
  | none => if w = bufSz then .bufferFull else .eof

/-- The loop of `epd.NewChunker`. `none` = the error return. -/
def manifestLoop (f : File) (bufSz : Nat) : Nat → Nat → Array LineAddr → Option (Array LineAddr)
  | 0, _, acc => some acc
  | fuel + 1, curr, acc =>
      match readSlice f bufSz curr with
      | .eof => some acc
      | .bufferFull => none
      | .line e =>
          -- `end := curr + len(line)`; `if len(line) > 1 { append }`; `curr = end`
          let acc := if e - curr > 1 then acc.push ⟨curr, e⟩ else acc
          manifestLoop f bufSz fuel e acc

/-- `epd.NewChunker`: the line manifest (every `ReadSlice` consumes ≥ 1 byte, so `size + 1`
    iterations always reach EOF). -/
def newChunkerWith (bufSz : Nat) (f : File) : Option (Array LineAddr) :=
  manifestLoop f bufSz (f.size + 1) 0 #[]

def newChunker (f : File) : Option (Array LineAddr) := newChunkerWith bufioSize f

/-! ## Open and Read -/

/-- `epd.Chunk` (the `*os.File` is the `File` passed to `read`). -/
structure Chunk where
  chunkLines : Array LineAddr
  chunkLinesIx : Nat
  mapStart : Nat
  mapEnd : Nat
  /-- contents of `mapBytes` (index → byte); its length is the `bufLen` argument of `read`. -/
  mapBytes : Nat → UInt8

/-- Go `uint64(epoch)` for an `int` epoch. -/
def epochSeed (epoch : Int) : Nat := (epoch % (M64 : Int)).toNat

/-- `slices.SortFunc(chunkLines, func(a, b) int { return int(a.start - b.start) })`. -/
def sortByStart (l : List LineAddr) : List LineAddr :=
  l.mergeSort (fun a b => decide (a.start ≤ b.start))

/-- `Chunker.Open(epoch, start, end)`; `none` = `ErrChunkInvalid`. -/
def openChunk (manifest : Array LineAddr) (epoch start stop : Int) : Option Chunk :=
  let len : Int := manifest.size
  if start < 0 || stop < 0 || start > len - 1 || stop > len || start > stop then none
  else
    let s := start.toNat
    let e := stop.toNat
    let seed := epochSeed epoch
    let picked := (List.range' s (e - s)).map
      (fun ix => manifest[shuffleIndex ix manifest.size seed]!)
    some { chunkLines := (sortByStart picked).toArray, chunkLinesIx := 0,
           mapStart := 0, mapEnd := 0, mapBytes := fun _ => 0 }

/-- Result of one `Chunk.Read`. -/
inductive ReadResult where
  | eof
  | line (bytes : List UInt8)
  | panic            -- slice bounds out of range (line longer than the buffer)
  deriving DecidableEq, Repr

/-- `Chunk.Read` on file `f` with `len(mapBytes) = bufLen`.
    `ReadAt(buf, off)` fills `buf[0, cnt)` with `file[off, off+cnt)`, `cnt = min(len buf, size − off)`,
    and leaves the rest of the buffer as it was. -/
def Chunk.read (f : File) (bufLen : Nat) (c : Chunk) : ReadResult × Chunk :=
  if c.chunkLinesIx ≥ c.chunkLines.size then (.eof, c)
  else
    let addr := c.chunkLines[c.chunkLinesIx]!
    let c :=
      if c.mapStart > addr.start || c.mapEnd < addr.stop then
        let cnt := min bufLen (f.size - addr.start)
        let old := c.mapBytes
        { c with mapBytes := fun i => if i < cnt then f.byte (addr.start + i) else old i,
                 mapStart := addr.start, mapEnd := addr.start + cnt }
      else c
    let c := { c with chunkLinesIx := c.chunkLinesIx + 1 }
    -- c.mapBytes[addr.start-c.mapStart : addr.end-c.mapStart-1]
    let lo := addr.start - c.mapStart
    let hi := addr.stop - c.mapStart - 1   -- (Nat subtraction: `addr.stop ≥ 1` for every manifest entry)
    if hi < lo || hi > bufLen then (.panic, c)
    else ((.line ((List.range' lo (hi - lo)).map c.mapBytes)), c)

/-- The client's loop: `for { line, err := chunk.Read(); if err == io.EOF { break }; use(line) }`.
    Returns the lines delivered, `none` on a panic. -/
def readAllLoop (f : File) (bufLen : Nat) : Nat → Chunk → List (List UInt8) → Option (List (List UInt8) × Chunk)
  | 0, c, acc => some (acc.reverse, c)
  | fuel + 1, c, acc =>
      match c.read f bufLen with
      | (.eof, c) => some (acc.reverse, c)
      | (.panic, _) => none
      | (.line l, c) => readAllLoop f bufLen fuel c (l :: acc)

def Chunk.readAll (f : File) (bufLen : Nat) (c : Chunk) : Option (List (List UInt8)) :=
  (readAllLoop f bufLen (c.chunkLines.size + 1) c []).map (·.1)

/-- One epoch as the server/client pair performs it: every chunk of every batch is opened and read
    to EOF; the delivered lines in delivery order.  `none` if any step fails. -/
def epochLines (f : File) (bufLen : Nat) (manifest : Array LineAddr) (epoch : Int) : Option (List (List UInt8)) :=
  let ranges := (batches manifest.size).flatMap chunks
  ranges.foldr (fun r acc =>
    match openChunk manifest epoch r.start r.stop, acc with
    | some c, some rest => (c.readAll f bufLen).map (· ++ rest)
    | _, _ => none) (some [])

end ChessVerif.Tuner
