/-
  The real search components with the null-move test additionally guarded by the mate-band test
  that reverse futility pruning has and null-move pruning lacks in /repo/search/search.go:

      nmpTryGuarded b d se beta = nmpTry b d se beta && beta > -Inf+MaxPlies

  `realCompGuarded K` is definitionally the record `realCompG K Eval.shipped` of
  Proofs/SearchRealScore.lean (theorem `realCompGuarded_eq`, Proofs/SearchRealGuardedEq.lean), for
  which the score laws are proved; it lives here, in a core-only file, so that the driver
  `drv_searchreal` can RUN it next to `realComp K` and the harness can measure the run-level
  hypothesis `NmpSane` (both runs produce the same `Result`) on every script.  Core Lean only.
-/
import ChessVerif.Model.SearchReal

namespace ChessVerif
namespace SearchReal
open Search

/-- `nmpTry` and `beta > -Inf+MaxPlies` (the literal is the regenerated operand of the RFP test). -/
def nmpTryGuarded (b : Board) (d : Int) (staticEval beta : Score) : Bool :=
  nmpTry b d staticEval beta && decide (beta > Gen.Search.rfpBetaFloor)

/-- the real components with the guarded null-move test, arbitrary coefficient set. -/
def realCompGuardedWith (K : Keys) (cs : Eval.CoeffSet Int) : Comp PS Pick :=
  { realCompWith K cs with nmpTry := nmpTryGuarded }

/-- … with the shipped coefficients. -/
def realCompGuarded (K : Keys) : Comp PS Pick := realCompGuardedWith K Eval.shipped

/-- `goReal` on the guarded record. -/
def goRealGuarded (K : Keys) (L : Limits) (fuel : Nat) (e : Engine PS) (b : Board) : Result PS :=
  Search.go (realCompGuarded K) L (fun _ => (0, 0)) fuel e b

end SearchReal
end ChessVerif
