/-
  Model of the argument loop of `(*Driver).handleGo` (/repo/uci/uci.go:467-519) and of what it
  hands to `search.Go`.  Core Lean only.

  HAND-MODELLED (not produced by an extractor): the loop, `parseInt` and `parseInt64`.  The two
  helpers are `strconv.Atoi` / `strconv.ParseInt(·, 10, 64)` with every error mapped to 0:

      func parseInt(value string) int      { r, err := strconv.Atoi(value);            if err != nil { return 0 }; return r }
      func parseInt64(value string) int64  { r, err := strconv.ParseInt(value, 10, 64); if err != nil { return 0 }; return r }

  `strconv` (base 10, bit size 64; Go's `int` is 64 bit on every platform the engine is built for)
  accepts exactly `[+-]?[0-9]+` (ASCII digits, no blanks, no `_`, no base prefix) whose value lies in
  [-2^63, 2^63-1]; anything else (empty string, garbage, out of range: `ErrSyntax` / `ErrRange`) is an
  error, hence 0.  No arithmetic of the loop can wrap: the only computation on a parsed number is
  `Depth(Clamp(n, 1, MaxPlies))`, where `Clamp` is the TRANSLATED `Gen.Funcs.clampS64`, `MaxPlies`
  the extracted constant and `Depth(·)` the int8 conversion `wrapS8`.  The soft time is the
  TRANSLATED `Gen.Funcs.softLimit`, present iff the TRANSLATED `Gen.Funcs.timedMode` holds.

  The loop is modelled with explicit indices, as in Go:

      for i := range args {
          if slices.Contains([]string{"wtime","btime","winc","binc","depth","nodes","movetime"}, args[i]) && len(args) <= i+1 {
              fmt.Fprintln(d.err, "argument missing"); return false }
          switch args[i] { case "ponder": …; case "wtime": tc.wtime = parseInt64(args[i+1]); … }
      }

  An index access outside the slice is the outcome `panic` (Go: run-time panic); `Proofs/UciGo.lean`
  shows that it cannot occur.  The loop does NOT skip the value token (`go depth nodes 5` reads
  `depth "nodes"` and then `nodes "5"`), and a later occurrence of a keyword overrides an earlier one
  (tc fields are overwritten; `WithDepth` / `WithNodes` options are appended and applied in order).
-/
import ChessVerif.Gen.Funcs

namespace ChessVerif
namespace UciGo

open ChessVerif.Gen.Funcs

/-! ## `strconv` -/

def digitVal (c : Char) : Option Nat :=
  if '0' ≤ c ∧ c ≤ '9' then some (c.toNat - 48) else none

/-- value of a non-empty all-digit string, `none` on the first non-digit (`ErrSyntax`). -/
def digitsAux : List Char → Nat → Option Nat
  | [], acc => some acc
  | c :: cs, acc =>
    match digitVal c with
    | some d => digitsAux cs (acc * 10 + d)
    | none => none

def digits : List Char → Option Nat
  | [] => none
  | cs => digitsAux cs 0

/-- `strconv.ParseInt(s, 10, 64)` with every error mapped to 0. -/
def atoi64 (s : String) : Int :=
  let cs := s.toList
  let neg := cs.head? = some '-'
  let ds := if cs.head? = some '-' ∨ cs.head? = some '+' then cs.tail else cs
  match digits ds with
  | none => 0
  | some n =>
    if neg then (if n ≤ 9223372036854775808 then -(n : Int) else 0)
    else (if n < 9223372036854775808 then (n : Int) else 0)

/-- `uci.parseInt` (Go `int` = 64 bit). -/
def parseInt (s : String) : Int := atoi64 s
/-- `uci.parseInt64`. -/
def parseInt64 (s : String) : Int := atoi64 s

/-! ## the loop -/

/-- the list of `slices.Contains` in the guard. -/
def needsValue : List String := ["wtime", "btime", "winc", "binc", "depth", "nodes", "movetime"]

/-- the local variables of `handleGo` after / during the loop. -/
structure St where
  ponder : Bool := false
  wtime : Int := 0
  btime : Int := 0
  winc : Int := 0
  binc : Int := 0
  mtime : Int := 0
  depth : Option Int := none   -- last `search.WithDepth` appended to `opts` (int8 value)
  nodes : Option Int := none   -- last `search.WithNodes` appended to `opts`
  deriving DecidableEq, Repr, Inhabited

inductive LoopOut where
  | panic                      -- index out of range
  | missing                    -- "argument missing", `return false` (no search)
  | done (st : St)
  deriving DecidableEq, Repr, Inhabited

/-- `Depth(Clamp(parseInt(v), 1, MaxPlies))`. -/
def depthOf (v : String) : Int := wrapS8 (clampS64 (parseInt v) 1 MaxPlies)

/-- the `switch args[i]` for a keyword that reads `args[i+1]` (`v? = args[i+1]`, `none` = outside). -/
def withValue (v? : Option String) (f : String → St) : Option St := v?.map f

/-- one iteration of the loop body after the guard; `none` = panic. -/
def body (drvPonder : Bool) (args : List String) (i : Nat) (a : String) (st : St) : Option St :=
  if a = "ponder" then some { st with ponder := drvPonder }
  else if a = "wtime" then withValue args[i+1]? fun v => { st with wtime := parseInt64 v }
  else if a = "btime" then withValue args[i+1]? fun v => { st with btime := parseInt64 v }
  else if a = "winc" then withValue args[i+1]? fun v => { st with winc := parseInt64 v }
  else if a = "binc" then withValue args[i+1]? fun v => { st with binc := parseInt64 v }
  else if a = "depth" then withValue args[i+1]? fun v => { st with depth := some (depthOf v) }
  else if a = "nodes" then withValue args[i+1]? fun v => { st with nodes := some (parseInt v) }
  else if a = "movetime" then withValue args[i+1]? fun v => { st with mtime := parseInt64 v }
  else some st

/-- `for i := range args`, from index `i` with `fuel` iterations left. -/
def loop (drvPonder : Bool) (args : List String) : Nat → Nat → St → LoopOut
  | 0, _, st => .done st
  | fuel + 1, i, st =>
    match args[i]? with
    | none => .panic
    | some a =>
      if needsValue.contains a && decide (args.length ≤ i + 1) then .missing
      else
        match body drvPonder args i a st with
        | none => .panic
        | some st' => loop drvPonder args fuel (i + 1) st'

/-- what `search.Go` receives (the functional options, applied in order to `search.Options`). -/
structure GoCall where
  depth : Option Int       -- `WithDepth` present? value (int8)
  nodes : Option Int       -- `WithNodes` present? value
  softTime : Option Int    -- `WithSoftTime` present? value
  ponder : Bool            -- `WithPonderHit` present
  debug : Bool             -- `WithDebug(true)` present
  stop : Bool              -- `WithStop` present (always)
  output : Bool            -- `WithOutput` present (always)
  -- the time control the hard timer is computed from
  wtime : Int
  btime : Int
  winc : Int
  binc : Int
  mtime : Int
  deriving DecidableEq, Repr, Inhabited

inductive Out where
  | panic
  | missing
  | call (c : GoCall)
  deriving DecidableEq, Repr, Inhabited

/-- `handleGo(args)` up to the call of `d.search.Go`: `stm` = side to move of the driver's board
    (0 white, 1 black), `drvPonder` / `drvDebug` the driver's `ponder` / `debug` flags. -/
def handleGo (stm : Int) (drvPonder drvDebug : Bool) (args : List String) : Out :=
  match loop drvPonder args args.length 0 {} with
  | .panic => .panic
  | .missing => .missing
  | .done st =>
    .call {
      depth := st.depth, nodes := st.nodes,
      softTime := if timedMode st.wtime st.btime st.mtime stm then
          some (softLimit st.wtime st.btime st.winc st.binc st.mtime stm) else none,
      ponder := st.ponder, debug := drvDebug, stop := true, output := true,
      wtime := st.wtime, btime := st.btime, winc := st.winc, binc := st.binc, mtime := st.mtime }

/-! ## rendering (shared by the driver `drv_misc` and the examples) -/

def optS (o : Option Int) : String := match o with | some v => toString v | none => "-"
def bS (b : Bool) : String := if b then "1" else "0"

def Out.render : Out → String
  | .panic => "panic"
  | .missing => "missing"
  | .call c => s!"call depth={optS c.depth} nodes={optS c.nodes} soft={optS c.softTime} ponder={bS c.ponder} debug={bS c.debug} stop={bS c.stop} out={bS c.output}"

end UciGo
end ChessVerif
