/-
  Executable model of Attackers / Block / IsCheckmate / IsStalemate of /repo/board/attacks.go,
  mirrored statement by statement.  Core Lean only.
-/
import ChessVerif.Model.Board

namespace ChessVerif
namespace Board

/-- `Attackers(squares, occ, color)`. -/
def attackers (b : Board) (squares occ : BB) (color : Color) : BB :=
  let opp := b.colorBB color
  let res := (bits squares).foldl (fun res sq =>
    let sub := Attacks.kingMoves sq &&& b.pieceBB .king
    let sub := sub ||| (Attacks.knightMoves sq &&& b.pieceBB .knight)
    let sub := sub ||| (Attacks.bishopMoves sq occ &&& (b.pieceBB .bishop ||| b.pieceBB .queen))
    let sub := sub ||| (Attacks.rookMoves sq occ &&& (b.pieceBB .rook ||| b.pieceBB .queen))
    res ||| (sub &&& opp)) (0 : BB)
  res ||| (Attacks.pawnCaptureMoves squares color.flip &&& opp &&& b.pieceBB .pawn)

/-- `Block(squares, color)`. -/
def block (b : Board) (squares : BB) (color : Color) : BB :=
  let blockers := b.colorBB color
  let occ := b.occ
  let res := (bits squares).foldl (fun res sq =>
    let sub : BB := 0
    let sub := sub ||| (Attacks.knightMoves sq &&& b.pieceBB .knight)
    let sub := sub ||| (Attacks.bishopMoves sq occ &&& (b.pieceBB .bishop ||| b.pieceBB .queen))
    let sub := sub ||| (Attacks.rookMoves sq occ &&& (b.pieceBB .rook ||| b.pieceBB .queen))
    res ||| (sub &&& blockers)) (0 : BB)
  let occNoPawn := occ &&& ~~~ (b.pieceBB .pawn &&& blockers)
  let dpawn := relRankBB color 3 &&& squares
  let dpawn := Attacks.pawnSinglePushMoves dpawn color.flip &&& ~~~ occ
  let dpawn := Attacks.pawnSinglePushMoves dpawn color.flip &&& ~~~ occNoPawn
  res ||| (((Attacks.pawnSinglePushMoves squares color.flip &&& ~~~ occNoPawn) ||| dpawn) &&& blockers &&& b.pieceBB .pawn)

/-- the two slider probes from the king square used as the "pinned" test. -/
@[inline] def sliderHits (b : Board) (kingSq : Nat) (nocc opp : BB) : Bool :=
  (Attacks.bishopMoves kingSq nocc &&& (b.pieceBB .bishop ||| b.pieceBB .queen) &&& opp != 0) ||
  (Attacks.rookMoves kingSq nocc &&& (b.pieceBB .rook ||| b.pieceBB .queen) &&& opp != 0)

/-- `IsCheckmate` (the king is assumed to be in check). -/
def isCheckmate (b : Board) : Bool :=
  let king := b.pieceBB .king &&& b.colorBB b.stm
  let occ := b.occ
  let opp0 := b.colorBB b.stm.flip
  let atk := b.attackers king occ b.stm.flip
  let kingSq := lowestSet king
  let kMvs := Attacks.kingMoves kingSq &&& ~~~ b.colorBB b.stm
  if (bits kMvs).any (fun t => !(b.isAttacked b.stm.flip (occ &&& ~~~ king) (bit t))) then false else
  if popcount atk > 1 then true else
  let attacker := atk
  let defenders := b.attackers attacker occ b.stm &&& ~~~ king
  -- Go mutates `opp &= ^attacker` inside the loop; it is idempotent, so opp is opp0 &^ attacker throughout
  let opp := opp0 &&& ~~~ attacker
  if (bits defenders).any (fun d => !(b.sliderHits kingSq (occ &&& ~~~ bit d) opp)) then false else
  let epEsc :=
    if b.ep ≠ 0 then
      Attacks.pawnSinglePushMoves (bit b.ep) b.stm.flip == attacker
    else false
  if epEsc then false else
  let aSq := lowestSet attacker
  let blocked := Attacks.inBetween kingSq aSq &&& ~~~ (king ||| attacker)
  let defenders := b.block blocked b.stm
  if (bits defenders).any (fun d => !(b.sliderHits kingSq ((occ &&& ~~~ bit d) ||| blocked) opp0)) then false else
  true

/-- `IsStalemate` (the king is assumed not to be in check). -/
def isStalemate (b : Board) : Bool :=
  let me := b.colorBB b.stm
  let opp := b.colorBB b.stm.flip
  let king := b.pieceBB .king &&& me
  let kingSq := lowestSet king
  let occ := me ||| opp
  let maybePinned := (Attacks.bishopMoves kingSq occ ||| Attacks.rookMoves kingSq occ) &&& me
  let pawns := b.pieceBB .pawn &&& me &&& ~~~ maybePinned
  let freePawn : Bool :=
    match b.stm with
    | .white =>
      ((pawns <<< 8) &&& ~~~ occ != 0) ||
      ((((pawns &&& ~~~ AFile) <<< 7) ||| ((pawns &&& ~~~ HFile) <<< 9)) &&& opp != 0)
    | .black =>
      ((pawns >>> 8) &&& ~~~ occ != 0) ||
      ((((pawns &&& ~~~ HFile) >>> 7) ||| ((pawns &&& ~~~ AFile) >>> 9)) &&& opp != 0)
  if freePawn then false else
  if (bits (b.pieceBB .queen &&& me)).any (fun sq =>
      (Attacks.bishopMoves sq occ ||| Attacks.rookMoves sq occ) &&& ~~~ me != 0) then false else
  if (bits (b.pieceBB .bishop &&& me)).any (fun sq =>
      let nocc := occ &&& ~~~ bit sq
      (Attacks.rookMoves kingSq nocc &&& (b.pieceBB .rook ||| b.pieceBB .queen) &&& opp == 0) &&
      (Attacks.bishopMoves sq nocc &&& ~~~ me != 0)) then false else
  if (bits (b.pieceBB .rook &&& me)).any (fun sq =>
      let nocc := occ &&& ~~~ bit sq
      (Attacks.bishopMoves kingSq nocc &&& (b.pieceBB .bishop ||| b.pieceBB .queen) &&& opp == 0) &&
      (Attacks.rookMoves sq nocc &&& ~~~ me != 0)) then false else
  if (bits (b.pieceBB .knight &&& me)).any (fun sq =>
      let piece := bit sq
      let nocc := occ &&& ~~~ piece
      let pinned := (piece &&& maybePinned != 0) && b.sliderHits kingSq nocc opp
      !pinned && (Attacks.knightMoves sq &&& ~~~ me != 0)) then false else
  if (bits (Attacks.kingMoves kingSq &&& ~~~ me)).any (fun t =>
      !(b.isAttacked b.stm.flip (occ &&& ~~~ king) (bit t))) then false else
  if (bits (b.pieceBB .pawn &&& me &&& maybePinned)).any (fun sq =>
      let piece := bit sq
      let targets := Attacks.pawnSinglePushMoves piece b.stm &&& ~~~ occ
      let nocc := (occ &&& ~~~ piece) ||| targets
      let pinned := b.sliderHits kingSq nocc opp
      if !pinned && targets != 0 then true else
      let targets := Attacks.pawnCaptureMoves piece b.stm &&& opp
      let nocc := (occ &&& ~~~ piece) ||| targets
      let pinned :=
        (Attacks.bishopMoves kingSq nocc &&& (b.pieceBB .bishop ||| b.pieceBB .queen) &&& ~~~ targets &&& opp != 0) ||
        (Attacks.rookMoves kingSq nocc &&& (b.pieceBB .rook ||| b.pieceBB .queen) &&& opp != 0)
      !pinned && targets != 0) then false else
  let epFree :=
    if b.ep ≠ 0 then
      let epBB := bit b.ep
      let pawns := Attacks.pawnCaptureMoves epBB b.stm.flip &&& b.pieceBB .pawn &&& me
      let remove := Attacks.pawnSinglePushMoves epBB b.stm.flip
      (bits pawns).any fun sq =>
        let nocc := (occ &&& ~~~ bit sq &&& ~~~ remove) ||| epBB
        let pinned :=
          (Attacks.rookMoves kingSq nocc &&& (b.pieceBB .rook ||| b.pieceBB .queen) &&& opp != 0) ||
          (Attacks.bishopMoves kingSq nocc &&& (b.pieceBB .bishop ||| b.pieceBB .queen) &&& opp != 0)
        !pinned
    else false
  if epFree then false else true

end Board
end ChessVerif
