/-
  Executable model of /repo/board/fen.go: the sequential field parser (ParseFEN / FromFEN) and the
  printer (Board.FEN).  Every slice access of the Go code goes through `at`, whose failure is the
  explicit outcome `.panic` — "parsing never crashes" is then the theorem that `.panic` is unreachable.
  Core Lean only.
-/
import ChessVerif.Model.Board

namespace ChessVerif
namespace Fen

inductive PR (α : Type) where
  | ok : α → PR α
  | err : PR α        -- Go returned an error
  | panic : PR α      -- Go would have panicked (index out of range)
  deriving Repr, DecidableEq

instance : Monad PR where
  pure := PR.ok
  bind x f := match x with
    | .ok a => f a
    | .err => .err
    | .panic => .panic

abbrev Bytes := Array UInt8

/-- `fp.fen[ix]`: a Go slice access, panics when out of range. -/
@[inline] def at_ (fen : Bytes) (ix : Nat) : PR UInt8 :=
  match fen[ix]? with
  | some c => .ok c
  | none => .panic

structure St where
  ix : Nat
  b : Board

def cToP (c : UInt8) : Piece :=
  if c = 112 ∨ c = 80 then .pawn        -- p P
  else if c = 114 ∨ c = 82 then .rook   -- r R
  else if c = 110 ∨ c = 78 then .knight -- n N
  else if c = 98 ∨ c = 66 then .bishop  -- b B
  else if c = 113 ∨ c = 81 then .queen  -- q Q
  else if c = 107 ∨ c = 75 then .king   -- k K
  else .none

def isPieceChar (c : UInt8) : Bool := cToP c != .none

/-- place a piece as `position()` does: three plain writes (no hash). -/
def place (b : Board) (color : Color) (p : Piece) (sq : Nat) : Board :=
  { b with pieces := b.pieces.setIfInBounds p.toNat (b.pieceBB p ||| bit sq),
           colors := b.colors.setIfInBounds color.toNat (b.colorBB color ||| bit sq),
           sq := b.sq.setIfInBounds sq p }

/-- the loop of `position()`; fuel = remaining bytes. -/
def positionLoop (fen : Bytes) : Nat → Nat → Int → Int → Board → PR St
  | 0, ix, _, _, b => .ok ⟨ix + 1, b⟩                -- loop left because ix ≥ l, then `fp.ix++`
  | fuel + 1, ix, rank, file, b =>
    if ix < fen.size then do
      let sq : Int := 8 * rank + file
      let c ← at_ fen ix
      if 49 ≤ c ∧ c ≤ 56 then positionLoop fen fuel (ix + 1) rank (file + (c.toNat - 48 : Nat)) b
      else if c = 47 then
        if rank - 1 < 0 then .err else positionLoop fen fuel (ix + 1) (rank - 1) 0 b
      else if isPieceChar c then
        if sq < 0 ∨ sq > 63 then .err else
        let color := if c > 97 ∧ c < 122 then Color.black else Color.white
        positionLoop fen fuel (ix + 1) rank (file + 1) (place b color (cToP c) sq.toNat)
      else if c = 32 then .ok ⟨ix, b⟩
      else .err
    else .ok ⟨ix + 1, b⟩

def position (fen : Bytes) (s : St) : PR St :=
  positionLoop fen (fen.size - s.ix + 1) s.ix 7 0 s.b

def stm (fen : Bytes) (s : St) : PR St := do
  let c ← at_ fen s.ix
  if c = 119 then .ok ⟨s.ix + 1, { s.b with stm := .white }⟩
  else if c = 98 then .ok ⟨s.ix + 1, { s.b with stm := .black }⟩
  else .err

def cRightsLoop (fen : Bytes) : Nat → Nat → Board → PR St
  | 0, ix, b => .ok ⟨ix, b⟩
  | fuel + 1, ix, b =>
    if ix < fen.size then do
      let c ← at_ fen ix
      if c = 32 then .ok ⟨ix, b⟩
      else if c = 75 then cRightsLoop fen fuel (ix + 1) { b with castles := b.castles ||| shortWhite }
      else if c = 81 then cRightsLoop fen fuel (ix + 1) { b with castles := b.castles ||| longWhite }
      else if c = 107 then cRightsLoop fen fuel (ix + 1) { b with castles := b.castles ||| shortBlack }
      else if c = 113 then cRightsLoop fen fuel (ix + 1) { b with castles := b.castles ||| longBlack }
      else if c = 45 then cRightsLoop fen fuel (ix + 1) b
      else .err
    else .ok ⟨ix, b⟩

def cRights (fen : Bytes) (s : St) : PR St := cRightsLoop fen (fen.size - s.ix + 1) s.ix s.b

def enPassant (fen : Bytes) (s : St) : PR St := do
  let c ← at_ fen s.ix
  if c ≠ 45 then
    if s.ix + 1 ≥ fen.size then .err else do
    let c1 ← at_ fen (s.ix + 1)
    if c < 97 ∨ c > 104 ∨ c1 < 49 ∨ c1 > 56 then .err else
    let file := c.toNat - 97
    let rank := c1.toNat - 49
    .ok ⟨s.ix + 2, { s.b with ep := rank * 8 + file }⟩
  else .ok ⟨s.ix + 1, s.b⟩

/-- `counter()`: Go `int` arithmetic (64-bit, wraps). -/
def counterLoop (fen : Bytes) : Nat → Nat → Int → PR (Nat × Int)
  | 0, ix, cnt => .ok (ix, cnt)
  | fuel + 1, ix, cnt =>
    if ix < fen.size then do
      let c ← at_ fen ix
      if c = 32 then .ok (ix, cnt)
      else if c < 48 ∨ c > 57 then .err
      else counterLoop fen fuel (ix + 1) (wrapS64 (wrapS64 (cnt * 10) + (c.toNat - 48 : Nat)))
    else .ok (ix, cnt)

def counter (fen : Bytes) (ix : Nat) : PR (Nat × Int) := counterLoop fen (fen.size - ix + 1) ix 0

def fifty (fen : Bytes) (s : St) : PR St := do
  let (ix, cnt) ← counter fen s.ix
  if cnt < 0 ∨ cnt > 100 then .err else .ok ⟨ix, { s.b with fifty := wrapS8 cnt }⟩

def fullMoves (fen : Bytes) (s : St) : PR St := do
  let (ix, cnt) ← counter fen s.ix
  if cnt < 1 then .err else .ok ⟨ix, { s.b with fullMoves := cnt }⟩

/-- the separator handling of `seq` before every parser but the first. -/
def skipSpaces (fen : Bytes) : Nat → Nat → PR Nat
  | 0, ix => .ok ix
  | fuel + 1, ix =>
    if ix < fen.size then do
      let c ← at_ fen ix
      if c = 32 then skipSpaces fen fuel (ix + 1) else .ok ix
    else .ok ix

def sep (fen : Bytes) (s : St) : PR St := do
  let ix ← skipSpaces fen (fen.size - s.ix + 1) s.ix
  if ix ≥ fen.size then .err else .ok ⟨ix, s.b⟩

/-- `ParseFEN` (the board is left without hash history). -/
def parseFEN (fen : Bytes) : PR Board := do
  let s : St := ⟨0, Board.empty⟩
  let s ← position fen s
  let s ← sep fen s
  let s ← stm fen s
  let s ← sep fen s
  let s ← cRights fen s
  let s ← sep fen s
  let s ← enPassant fen s
  let s ← sep fen s
  let s ← fifty fen s
  let s ← sep fen s
  let s ← fullMoves fen s
  .ok s.b

/-- `FromFEN`. -/
def fromFEN (K : Keys) (fen : Bytes) : PR Board := do
  let b ← parseFEN fen
  .ok (b.resetHash K)

/-! ### Printer -/

def pieceChar (c : Color) (p : Piece) : Char :=
  let s := " PNBRQK pnbrqk".toList
  s.getD (7 * c.toNat + p.toNat) ' '

/-- one rank of the placement field. -/
def rankStr (b : Board) (rank : Nat) : String :=
  let (s, count) := (List.range 8).foldl (fun (acc : String × Nat) file =>
    let sq := rank * 8 + file
    let p := b.pieceAt sq
    if p ≠ .none then
      let c := if (b.colorBB .white).getLsbD sq then Color.white else Color.black
      let s := if acc.2 > 0 then acc.1 ++ toString acc.2 else acc.1
      (s.push (pieceChar c p), 0)
    else (acc.1, acc.2 + 1)) ("", 0)
  if count > 0 then s ++ toString count else s

/-- `Board.FEN()`. -/
def printFEN (b : Board) : String :=
  let placement := String.intercalate "/" ((List.range 8).reverse.map (rankStr b))
  let stm := match b.stm with | .white => "w" | .black => "b"
  let cs :=
    (if b.castles &&& shortWhite != 0 then "K" else "") ++
    (if b.castles &&& longWhite != 0 then "Q" else "") ++
    (if b.castles &&& shortBlack != 0 then "k" else "") ++
    (if b.castles &&& longBlack != 0 then "q" else "")
  let cs := if b.castles == 0 then cs ++ "-" else cs
  let ep := if b.ep = 0 then "-" else sqName b.ep
  placement ++ " " ++ stm ++ " " ++ cs ++ " " ++ ep ++ " " ++ toString b.fifty ++ " " ++ toString b.fullMoves

end Fen
end ChessVerif
