/-
  Executable model of /repo/search/pv.go: the triangular principal-variation buffer.
  `Flat` mirrors the Go struct (one flat move array + one length per ply) operation by operation;
  `Rows` is the list-of-rows view the search theorems reason with.  Core Lean only.
-/
import ChessVerif.Basic
import ChessVerif.Model.Board

namespace ChessVerif
namespace Pv

/-- `MaxPlies` (chess/types.go). -/
def maxPlies : Nat := 64

/-- `len(pv.moves)` = `MaxPlies * (MaxPlies + 1) / 2`. -/
def bufLen : Nat := maxPlies * (maxPlies + 1) / 2

/-- pv.go `bufIx` on the Go values: `ply` is a `Depth` (int8), so `ply-1` is evaluated in int8;
    the conversions `int(..)`, the product, the truncating division and the subtraction are in `int`:
    `int(ply)*MaxPlies - int(ply)*int(ply-1)/2`. -/
def bufIx (ply : Int) : Int := ply * 64 - goDiv (ply * wrapS8 (ply - 1)) 2

/-- closed form of `bufIx` on plies `0..64` as natural numbers (row start of ply `p`). -/
def rowStart (p : Nat) : Nat := p * 64 - p * (p - 1) / 2

/-- Go `a[lo : lo+len]` read as a list. -/
def slice (a : Array Move) (lo len : Nat) : List Move :=
  (List.range len).map fun k => a.getD (lo + k) 0

/-- Go `copy(dst[di:di+l], src[si:si+l])` with memmove semantics (`src` is the content before the
    copy), element by element. -/
def copyRange (dst src : Array Move) (di si : Nat) : Nat → Array Move
  | 0 => dst
  | l + 1 => (copyRange dst src di si l).setIfInBounds (di + l) (src.getD (si + l) 0)

/-- `type pv struct { moves [..]move.Move; depth [MaxPlies]Depth }`. -/
structure Flat where
  moves : Array Move
  depth : Array Int
  deriving Inhabited

namespace Flat

/-- `newPV`. -/
def new : Flat := { moves := Array.replicate bufLen 0, depth := Array.replicate maxPlies 0 }

/-- `pv.depth[ply]`. -/
@[inline] def len (pv : Flat) (ply : Nat) : Int := pv.depth.getD ply 0

/-- `insert(ply, m)`. -/
def insert (pv : Flat) (ply : Nat) (m : Move) : Flat :=
  let i := (bufIx ply).toNat
  let j := (bufIx (ply + 1)).toNat
  let l := pv.len (ply + 1)
  let mv := pv.moves.setIfInBounds i m
  { moves := copyRange mv mv (i + 1) j l.toNat,
    depth := pv.depth.setIfInBounds ply (wrapS8 (l + 1)) }

/-- `setNull(ply)`. -/
def setNull (pv : Flat) (ply : Nat) : Flat := { pv with depth := pv.depth.setIfInBounds ply 0 }

/-- `active()`: `pv.moves[0:pv.depth[0]]`. -/
def active (pv : Flat) : List Move := slice pv.moves 0 (pv.len 0).toNat

end Flat

/-- The list-of-rows model: row `p` is the variation stored for ply `p`. -/
structure Rows where
  row : Nat → List Move

namespace Rows
def new : Rows := { row := fun _ => [] }
def insert (r : Rows) (ply : Nat) (m : Move) : Rows :=
  { row := fun p => if p = ply then m :: r.row (ply + 1) else r.row p }
def setNull (r : Rows) (ply : Nat) : Rows :=
  { row := fun p => if p = ply then [] else r.row p }
def active (r : Rows) : List Move := r.row 0
end Rows

/-- the content of row `p` of the flat buffer. -/
def rowOf (pv : Flat) (p : Nat) : List Move := slice pv.moves (rowStart p) (pv.len p).toNat

/-- Representation invariant of the flat buffer: array sizes as allocated, and every row's length
    fits the room the triangular layout gives it (`MaxPlies - p` moves for ply `p`). -/
structure BufInv (pv : Flat) : Prop where
  msize : pv.moves.size = bufLen
  dsize : pv.depth.size = maxPlies
  bound : ∀ p, p < maxPlies → 0 ≤ pv.len p ∧ pv.len p + p ≤ maxPlies

/-- The flat buffer represents the rows. -/
def Refines (pv : Flat) (r : Rows) : Prop := ∀ p, p < maxPlies → rowOf pv p = r.row p

end Pv
end ChessVerif
