/-
  Executable model of /repo/movegen/movegen.go (GenNoisy / GenNotNoisy), routine by routine and in
  the Go generation order (the picker model depends on the order).  Core Lean only.
-/
import ChessVerif.Model.Board

namespace ChessVerif
namespace MoveGen
open Board

/-- moves of the pieces in `pcs` whose attack set is `att from`, onto `¬self ∧ toMsk`, in Go order. -/
def pieceMoves (pcs : BB) (att : Nat → BB) (self toMsk : BB) : List Move :=
  (bits pcs).flatMap fun f => (bits (att f &&& ~~~ self &&& toMsk)).map fun t => Move.mk f t 0

structure G where
  self : BB
  them : BB
  occ : BB

def G.of (b : Board) : G := { self := b.colorBB b.stm, them := b.colorBB b.stm.flip, occ := b.occ }

/-- `kingMoves`: only the lowest-set king is considered (`if piece != 0 { from := piece.LowestSet() …`). -/
def kingMoves (g : G) (b : Board) (toMsk : BB) : List Move :=
  match bits (g.self &&& b.pieceBB .king) with
  | [] => []
  | f :: _ => (bits (Attacks.kingMoves f &&& ~~~ g.self &&& toMsk)).map fun t => Move.mk f t 0

def knightMoves (g : G) (b : Board) (toMsk : BB) : List Move :=
  pieceMoves (g.self &&& b.pieceBB .knight) Attacks.knightMoves g.self toMsk

def bishopMoves (g : G) (b : Board) (toMsk : BB) : List Move :=
  pieceMoves (g.self &&& b.pieceBB .bishop) (fun f => Attacks.bishopMoves f g.occ) g.self toMsk

def rookMoves (g : G) (b : Board) (toMsk : BB) : List Move :=
  pieceMoves (g.self &&& b.pieceBB .rook) (fun f => Attacks.rookMoves f g.occ) g.self toMsk

def queenMoves (g : G) (b : Board) (toMsk : BB) : List Move :=
  pieceMoves (g.self &&& b.pieceBB .queen)
    (fun f => Attacks.bishopMoves f g.occ ||| Attacks.rookMoves f g.occ) g.self toMsk

/-- promotion pieces in Go order: Queen, Rook, Bishop, Knight. -/
def promos : List Nat := [5, 4, 3, 2]

def singlePushMoves (g : G) (b : Board) : List Move :=
  let occ1 := (g.occ >>> 8) <<< (b.stm.toNat * 16)
  let pushable := g.self &&& b.pieceBB .pawn &&& ~~~ occ1
  (bits (pushable &&& ~~~ relRankBB b.stm 6)).map fun f => Move.mk f (fwd b.stm f 1) 0

def promoPushMoves (g : G) (b : Board) : List Move :=
  let occ1 := ((g.occ >>> 8) <<< (b.stm.toNat * 16)) ||| ((g.occ <<< 8) >>> (b.stm.flip.toNat * 16))
  let pushable := g.self &&& b.pieceBB .pawn &&& ~~~ occ1
  (bits (pushable &&& relRankBB b.stm 6)).flatMap fun f => promos.map fun p => Move.mk f (fwd b.stm f 1) p

def doublePushMoves (g : G) (b : Board) : List Move :=
  let occ1 := (g.occ >>> 8) <<< (b.stm.toNat * 16)
  let occ2 := (g.occ >>> 16) <<< (b.stm.toNat * 32)
  let pushable := g.self &&& b.pieceBB .pawn &&& ~~~ occ1
  (bits (pushable &&& ~~~ occ2 &&& relRankBB b.stm 1)).map fun f => Move.mk f (fwd b.stm f 2) 0

/-- the pre-filter `occ1l | occ1r` of the two capture routines. -/
def captureFilter (g : G) (b : Board) : BB :=
  match b.stm with
  | .white => ((g.them &&& ~~~ HFile) >>> 7) ||| ((g.them &&& ~~~ AFile) >>> 9)
  | .black => ((g.them &&& ~~~ AFile) <<< 7) ||| ((g.them &&& ~~~ HFile) <<< 9)

def pawnCaptureMoves (g : G) (b : Board) : List Move :=
  let pawns := g.self &&& b.pieceBB .pawn &&& ~~~ relRankBB b.stm 6 &&& captureFilter g b
  (bits pawns).flatMap fun f =>
    (bits (Attacks.pawnCaptureMoves (bit f) b.stm &&& g.them)).map fun t => Move.mk f t 0

def pawnCapturePromoMoves (g : G) (b : Board) : List Move :=
  let pawns := g.self &&& b.pieceBB .pawn &&& relRankBB b.stm 6 &&& captureFilter g b
  (bits pawns).flatMap fun f =>
    (bits (Attacks.pawnCaptureMoves (bit f) b.stm &&& g.them)).flatMap fun t =>
      promos.map fun p => Move.mk f t p

def enPassant (g : G) (b : Board) : List Move :=
  if b.ep = 0 then [] else
  let ep := Attacks.pawnCaptureMoves (bit b.ep) b.stm.flip
  (bits (ep &&& g.self &&& b.pieceBB .pawn)).map fun f => Move.mk f b.ep 0

def shortCastle (g : G) (b : Board) : List Move :=
  let castleMask : BB := match b.stm with
    | .white => bit 4 ||| bit 5 ||| bit 6
    | .black => bit 60 ||| bit 61 ||| bit 62
  if b.castles &&& castleBit b.stm 0 != 0 && g.occ &&& castleMask == g.self &&& b.pieceBB .king then
    if !(b.isAttacked b.stm.flip g.occ castleMask) then
      let f := lowestSet (g.self &&& b.pieceBB .king)
      [Move.mk f (f + 2) 0]
    else []
  else []

def longCastle (g : G) (b : Board) : List Move :=
  let castleMask : BB := match b.stm with
    | .white => bit 4 ||| bit 3 ||| bit 2
    | .black => bit 60 ||| bit 59 ||| bit 58
  if b.castles &&& castleBit b.stm 1 != 0 && g.occ &&& (castleMask >>> 1) == 0 then
    if !(b.isAttacked b.stm.flip g.occ castleMask) then
      let f := lowestSet (g.self &&& b.pieceBB .king)
      [Move.mk f (f - 2) 0]
    else []
  else []

/-- `GenNoisy`. -/
def genNoisy (b : Board) : List Move :=
  let g := G.of b
  kingMoves g b g.them ++ knightMoves g b g.them ++ bishopMoves g b g.them ++ rookMoves g b g.them ++
  queenMoves g b g.them ++ promoPushMoves g b ++ pawnCaptureMoves g b ++ pawnCapturePromoMoves g b ++
  enPassant g b

/-- `GenNotNoisy`. -/
def genNotNoisy (b : Board) : List Move :=
  let g := G.of b
  let nt := ~~~ g.them
  kingMoves g b nt ++ knightMoves g b nt ++ bishopMoves g b nt ++ rookMoves g b nt ++
  queenMoves g b nt ++ singlePushMoves g b ++ doublePushMoves g b ++ shortCastle g b ++ longCastle g b

/-- all pseudo-legal moves in generation order. -/
def gen (b : Board) : List Move := genNoisy b ++ genNotNoisy b

/-- the engine's notion of "playable": generated and not leaving the mover's king attacked
    (search.go / perft.go: MakeMove, then `InCheck(STM.Flip())`). -/
def playable (K : Keys) (b : Board) : List Move :=
  (gen b).filter fun m => !((b.makeMove K m).1.inCheck b.stm)

/-- `debug.Perft` (without the bulk counting flag). -/
def perft (K : Keys) (b : Board) : Nat → Nat
  | 0 => 1
  | d + 1 => ((playable K b).map fun m => perft K (b.makeMove K m).1 d).sum

end MoveGen
end ChessVerif
