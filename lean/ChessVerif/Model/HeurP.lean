/-
  `heur.MoveRanker.FailHigh` of the SPSA BUILD: the four `params.*` values it reads
  (`HistBonusMul`, `HistBonusLin`, `HistAdjRange`, `HistAdjReduction`) are variables there
  (params/spsa.go), so they are ARGUMENTS here.  `failHighOneP` is `Heur.failHighOne`
  (Model/Heur.lean) with every occurrence of a regenerated constant `Gen.Funcs.params_Hist…`
  replaced by the field of `hp`; nothing else differs, and `failHighP_default` shows that the
  default vector gives back the function of the default build.

  Conversions: in the spsa build the four values are `int` variables and the source converts them
  (`Score(params.HistBonusMul)`, shift counts).  The model reads the field as the converted value,
  which is exact for every vector whose components fit (all in-range vectors do:
  `Proofs/SearchRealP.lean: conversions_exact`); a NEGATIVE shift count panics in Go and a count ≥ 16
  yields 0 (then `/ red` panics) — `hist_shifts_ok` shows that neither happens in range.
  Core Lean only.
-/
import ChessVerif.Model.Heur

namespace ChessVerif
namespace Heur
open Board Gen.Funcs

/-- the parameters `FailHigh` reads. -/
structure HistParams where
  bonusMul : Int
  bonusLin : Int
  adjRange : Int
  adjReduction : Int
  deriving Repr

/-- params/params.go (regenerated constants of Gen/Funcs.lean, the ones `Heur.failHighOne` uses). -/
def HistParams.default : HistParams :=
  { bonusMul := params_HistBonusMul, bonusLin := params_HistBonusLin,
    adjRange := params_HistAdjRange, adjReduction := params_HistAdjReduction }

/-- the body of the `for i, m := range moves` loop of FailHigh for one move (cf. `failHighOne`). -/
def failHighOneP (hp : HistParams) (d : Int) (b : Board) (st : HStack) (r : Ranker) (m : Move) (weight : Int)
    (last : Bool) : Ranker :=
  let bonus := wrapS16 (wrapS16 (d * hp.bonusMul) - hp.bonusLin)
  let rng : Int := wrapS16 ((2 : Int) ^ hp.adjRange.toNat)   -- Score(1) << params.HistAdjRange
  let red : Int := wrapS16 ((2 : Int) ^ hp.adjReduction.toNat)   -- Score(1) << params.HistAdjReduction
  let captured := (b.pieceAt (b.captureSq m)).toNat
  let capture := captured ≠ 0
  let quiet := Move.promo m = 0 ∧ captured = 0
  let value : Int :=
    if quiet ∧ last then bonus
    else if quiet ∧ ¬ last then
      wrapS16 (wrapS16 (-bonus) + goDiv (wrapS16 (rng + clampS16 weight (wrapS16 (-rng)) rng)) red)
    else if capture ∧ last then wrapS16 (d * d)
    else if capture ∧ ¬ last then wrapS16 (wrapS16 (-d) * d)
    else 0
  let moved := (b.pieceAt (Move.src m)).toNat
  if capture then { r with capt := tblAdd r.capt (captIx moved captured (Move.dst m)) value }
  else if quiet then
    let r := { r with hist := tblAdd r.hist (histIx b.stm (Move.src m) (Move.dst m)) value }
    let r := match st.top 0 with
      | some h => { r with cont0 := tblAdd r.cont0 (contIx b.stm h.piece h.to moved (Move.dst m)) value }
      | none => r
    let r := match st.top 1 with
      | some h => { r with cont1 := tblAdd r.cont1 (contIx b.stm h.piece h.to moved (Move.dst m)) (goDiv value 2) }
      | none => r
    r
  else r

/-- `for i, m := range moves { … }` with `last := i == len(moves)-1`. -/
def failHighLoopP (hp : HistParams) (d : Int) (b : Board) (st : HStack) : Ranker → List (Move × Int) → Ranker
  | r, [] => r
  | r, [(m, w)] => failHighOneP hp d b st r m w true
  | r, (m, w) :: rest => failHighLoopP hp d b st (failHighOneP hp d b st r m w false) rest

/-- `FailHigh(d, b, moves, stack)` with the parameter values `hp`. -/
def failHighP (hp : HistParams) (r : Ranker) (d : Int) (b : Board) (moves : List (Move × Int)) (st : HStack) : Ranker :=
  failHighLoopP hp d b st r moves

/-- with the constants of params/params.go this is the loop body of the default build … -/
theorem failHighOneP_default : failHighOneP HistParams.default = failHighOne := rfl

theorem failHighLoopP_default (d : Int) (b : Board) (st : HStack) :
    ∀ (moves : List (Move × Int)) (r : Ranker), failHighLoopP HistParams.default d b st r moves = failHighLoop d b st r moves
  | [], _ => rfl
  | [(_, _)], _ => by simp only [failHighLoopP, failHighLoop, failHighOneP_default]
  | (m, w) :: x :: rest, r => by
    simp only [failHighLoopP, failHighLoop, failHighOneP_default]
    exact failHighLoopP_default d b st (x :: rest) _

/-- … and `FailHigh` of the default build. -/
theorem failHighP_default : failHighP HistParams.default = failHigh := by
  funext r d b moves st
  exact failHighLoopP_default d b st moves r

end Heur
end ChessVerif
