/-
  The real search components for the SPSA BUILD (`-tags spsa`): the thirteen values of
  /repo/params are VARIABLES there (params/spsa.go: `tunables`, `params.Set`, UCI `setoption`), each
  with a declared range.  `Params` is the vector of the thirteen integers and

      realCompP K cs P : Search.Comp PS Pick

  is `SearchReal.realCompWith K cs` (Model/SearchReal.lean) with EVERY occurrence of a regenerated
  constant `Gen.Search.params_*` / `Gen.Funcs.params_*` replaced by the field of `P`:

    rfpCutP     RFPDepthLimit, RFPScoreFactor       search.go:259-260
    nmpTryP     NMPDepthLimit                       search.go:266
    nmpDepthP   NMPInit, NMPDiffFactor              search.go:272
    iirP        IIRDepthLimit                       search.go:293
    lmrTryP     LMRStart                            search.go:335
    windowSize  WindowSize                          search.go:62,66,141,142
    deltaCutP   StandPatDelta                       search.go:557
    failHighP   HistBonusMul, HistBonusLin, HistAdjRange, HistAdjReduction   heur.go:132-135 (Model/HeurP.lean)

  `lmr` and `lmpCut` read no parameter (search.go:486-, 411-415) and are the functions of the
  default build.  Nothing else differs: `realCompP_default` shows that the vector of params/params.go
  gives back `realCompWith K cs`, so every theorem about the default build is a theorem about
  `realCompP K cs Params.default`.

  The declared ranges (`Params.InRange`) and the defaults of the spsa file are REGENERATED
  (`Gen.Search.spsaTunables`, `spsaDefaults`, extractor /verif/extract/cmd/search reading params/spsa.go with the
  build tag); the theorems at the end re-check, by `decide`, what the model assumes about that file:
  every row of `tunables` points at the variable it is named after, every variable has exactly one
  row, the defaults of the two files agree and lie within their ranges.

  Conversions: the spsa variables are `int`; the source converts them at the use site
  (`Depth(params.RFPDepthLimit)`, `Score(params.WindowSize)`, a shift count).  The predicates below
  convert exactly where Model/SearchReal.lean does (`wrapS8` / `wrapS16` of the field); for the window
  size, the history bonus and the shift counts the field is read as the converted value, which is exact
  for every vector whose components fit their target type — all in-range vectors
  (`Proofs/SearchRealP.lean: conversions_exact`).
  Core Lean only.
-/
import ChessVerif.Model.SearchReal
import ChessVerif.Model.HeurP

namespace ChessVerif
namespace SearchReal
open Search

/-- the thirteen tunable values, in the order of the `tunables` table of params/spsa.go. -/
structure Params where
  nmpDiffFactor : Int
  nmpDepthLimit : Int
  nmpInit : Int
  rfpDepthLimit : Int
  rfpScoreFactor : Int
  windowSize : Int
  lmrStart : Int
  standPatDelta : Int
  histBonusMul : Int
  histBonusLin : Int
  histAdjRange : Int
  histAdjReduction : Int
  iirDepthLimit : Int
  deriving Repr, DecidableEq

namespace Params

/-- params/params.go: the regenerated constants the default-build model uses. -/
def default : Params where
  nmpDiffFactor := Gen.Search.params_NMPDiffFactor
  nmpDepthLimit := Gen.Search.params_NMPDepthLimit
  nmpInit := Gen.Search.params_NMPInit
  rfpDepthLimit := Gen.Search.params_RFPDepthLimit
  rfpScoreFactor := Gen.Search.params_RFPScoreFactor
  windowSize := Gen.Search.params_WindowSize
  lmrStart := Gen.Search.params_LMRStart
  standPatDelta := Gen.Search.params_StandPatDelta
  histBonusMul := Gen.Funcs.params_HistBonusMul
  histBonusLin := Gen.Funcs.params_HistBonusLin
  histAdjRange := Gen.Funcs.params_HistAdjRange
  histAdjReduction := Gen.Funcs.params_HistAdjReduction
  iirDepthLimit := Gen.Search.params_IIRDepthLimit

/-- the value of the Go variable `name`. -/
def get (P : Params) (name : String) : Option Int :=
  if name = "NMPDiffFactor" then some P.nmpDiffFactor
  else if name = "NMPDepthLimit" then some P.nmpDepthLimit
  else if name = "NMPInit" then some P.nmpInit
  else if name = "RFPDepthLimit" then some P.rfpDepthLimit
  else if name = "RFPScoreFactor" then some P.rfpScoreFactor
  else if name = "WindowSize" then some P.windowSize
  else if name = "LMRStart" then some P.lmrStart
  else if name = "StandPatDelta" then some P.standPatDelta
  else if name = "HistBonusMul" then some P.histBonusMul
  else if name = "HistBonusLin" then some P.histBonusLin
  else if name = "HistAdjRange" then some P.histAdjRange
  else if name = "HistAdjReduction" then some P.histAdjReduction
  else if name = "IIRDepthLimit" then some P.iirDepthLimit
  else none

/-- the vector as a list, in the order of the structure (= the order of `tunables`). -/
def toList (P : Params) : List Int :=
  [P.nmpDiffFactor, P.nmpDepthLimit, P.nmpInit, P.rfpDepthLimit, P.rfpScoreFactor, P.windowSize, P.lmrStart,
   P.standPatDelta, P.histBonusMul, P.histBonusLin, P.histAdjRange, P.histAdjReduction, P.iirDepthLimit]

def ofList : List Int → Option Params
  | [a, b, c, d, e, f, g, h, i, j, k, l, m] => some ⟨a, b, c, d, e, f, g, h, i, j, k, l, m⟩
  | _ => none

/-- what `params.Set` accepts: for every row of the REGENERATED `tunables` table the variable the row
    POINTS AT holds a value within the row's `[min, max]`.  (Rows are read through their pointer — that
    is where `Set` writes; `spsa_rows_point_at_their_names` shows pointer = name for every row.) -/
def inRangeB (P : Params) : Bool :=
  Gen.Search.spsaTunables.all fun r =>
    match P.get r.1 with
    | some v => decide (r.2.2.1 ≤ v) && decide (v ≤ r.2.2.2)
    | none => false

/-- **in-range parameter vectors** (the quantifier of the property text). -/
def InRange (P : Params) : Prop := P.inRangeB = true

instance (P : Params) : Decidable (InRange P) := inferInstanceAs (Decidable (_ = true))

/-- the part of the `FailHigh` computation. -/
def hist (P : Params) : Heur.HistParams :=
  { bonusMul := P.histBonusMul, bonusLin := P.histBonusLin, adjRange := P.histAdjRange, adjReduction := P.histAdjReduction }

end Params

/-! ## the pruning predicates with the parameter values as arguments -/

/-- `d < Depth(params.RFPDepthLimit) && staticEval >= beta+Score(d)*Score(params.RFPScoreFactor) && beta > -Inf+MaxPlies` -/
def rfpCutP (P : Params) (d : Int) (staticEval beta : Score) : Bool :=
  decide (d < wrapS8 P.rfpDepthLimit) &&
  decide (staticEval ≥ wrapS16 (beta + wrapS16 (d * wrapS16 P.rfpScoreFactor))) &&
  decide (beta > Gen.Search.rfpBetaFloor)

/-- `d > Depth(params.NMPDepthLimit) && staticEval >= beta && b.Colors[b.STM] & ^(b.Pieces[Pawn]|b.Pieces[King]) != 0` -/
def nmpTryP (P : Params) (b : Board) (d : Int) (staticEval beta : Score) : Bool :=
  decide (d > wrapS8 P.nmpDepthLimit) && decide (staticEval ≥ beta) &&
  (b.colorBB b.stm &&& ~~~(b.pieceBB .pawn ||| b.pieceBB .king) != 0)

/-- `red := Depth(params.NMPInit) + Depth(Clamp((staticEval-beta)/Score(params.NMPDiffFactor), 0, MaxPlies))`;
    `max(d-red, 0)`.  (`goDiv _ 0` is 0 in the model; in Go the division panics:
    `nmp_divisor_ne_zero` excludes it for in-range vectors.) -/
def nmpDepthP (P : Params) (d : Int) (staticEval beta : Score) : Int :=
  let q := goDiv (wrapS16 (staticEval - beta)) (wrapS16 P.nmpDiffFactor)
  let red := wrapS8 (wrapS8 P.nmpInit +
    wrapS8 (Gen.Funcs.clampS16 q Gen.Search.nmpClampLo Gen.Search.nmpClampHi))
  max (wrapS8 (d - red)) Gen.Search.nmpDepthFloor

/-- `nType != AllNode && d > Depth(params.IIRDepthLimit) && hashMove == 0` -/
def iirP (P : Params) (nt : NodeType) (d : Int) (hashMove : Move) : Bool :=
  decide (nt ≠ .all) && decide (d > wrapS8 P.iirDepthLimit) && decide (hashMove = 0)

/-- `d > 1 && quietCnt > params.LMRStart` (an `int` comparison: no conversion) -/
def lmrTryP (P : Params) (d quietCnt : Int) : Bool :=
  decide (d > Gen.Search.lmrMinDepth) && decide (quietCnt > P.lmrStart)

/-- `delta := standPat + Score(params.StandPatDelta)`; `gain+delta < alpha` (cf. `deltaCut`). -/
def deltaCutP (P : Params) (captured : Piece) (promo : Nat) (standPat alpha : Score) : Bool :=
  let gain := pieceValue captured.toNat
  let gain := if promo ≠ Gen.Search.noPiece.toNat then
      wrapS16 (gain + wrapS16 (pieceValue promo - pieceValue Gen.Search.pawn.toNat)) else gain
  let delta := wrapS16 (standPat + wrapS16 P.standPatDelta)
  decide (wrapS16 (gain + delta) < alpha)

/-- `s.ranker.FailHigh(d, b, pck.YieldedMoves(), s.hstack)` with the history parameters of `P`. -/
def failHighP (P : Params) (ps : PS) (d : Int) (b : Board) (p : Pick) (h : List Search.StackMove) : PS :=
  { ps with ranker := Heur.failHighP P.hist ps.ranker d b (yielded p) (hstackOf h) }

/-! ## the instantiation -/

/-- the skeleton's components of the spsa build: Zobrist keys `K`, coefficient set `cs`, parameter
    vector `P`. -/
def realCompP (K : Keys) (cs : Eval.CoeffSet Int) (P : Params) : Comp PS Pick where
  keys := K
  eval := Eval.evalInt cs
  ttProbe := ttProbe
  ttStore := ttStore
  failHigh := failHighP P
  pickInit := pickInit
  pickNext := pickNext
  setWeight := setWeight
  qMoves := qMoves
  rfpCut := rfpCutP P
  nmpTry := nmpTryP P
  nmpDepth := nmpDepthP P
  iir := iirP P
  lmrTry := lmrTryP P
  lmr := lmr
  lmpCut := lmpCut
  windowSize := P.windowSize
  deltaCut := deltaCutP P
  hashFull := hashFull
  nextGen := nextGen

/-- `s.Go(b, …)` of the spsa build after `params.Set` has produced the vector `P` (frozen clock). -/
def goRealP (K : Keys) (P : Params) (L : Limits) (fuel : Nat) (e : Engine PS) (b : Board) : Result PS :=
  Search.go (realCompP K Eval.shipped P) L (fun _ => (0, 0)) fuel e b

/-! ## the default vector gives the default build -/

theorem rfpCutP_default : rfpCutP Params.default = rfpCut := rfl
theorem nmpTryP_default : nmpTryP Params.default = nmpTry := rfl
theorem nmpDepthP_default : nmpDepthP Params.default = nmpDepth := rfl
theorem iirP_default : iirP Params.default = iir := rfl
theorem lmrTryP_default : lmrTryP Params.default = lmrTry := rfl
theorem deltaCutP_default : deltaCutP Params.default = deltaCut := rfl

theorem hist_default : Params.default.hist = Heur.HistParams.default := rfl

theorem failHighP_default : failHighP Params.default = failHigh := by
  funext ps d b p h
  simp only [failHighP, failHigh, hist_default, Heur.failHighP_default]

/-- **the parametrized record at the vector of params/params.go IS the record of the default build**:
    every theorem about `realCompWith K cs` / `realComp K` is a theorem about `realCompP … Params.default`. -/
theorem realCompP_default (K : Keys) (cs : Eval.CoeffSet Int) : realCompP K cs Params.default = realCompWith K cs := by
  simp only [realCompP, realCompWith, failHighP_default]
  rfl

theorem goRealP_default (K : Keys) (L : Limits) (fuel : Nat) (e : Engine PS) (b : Board) :
    goRealP K Params.default L fuel e b = goReal K L fuel e b := by
  simp only [goRealP, goReal, realComp, realCompP_default]

/-! ## what the model assumes about params/spsa.go, re-checked against the regenerated facts -/

/-- **every row of `tunables` points at the variable it is named after** (a row `{&A, "B", lo, hi}` makes
    `Set("B", v)` write `v ∈ [lo, hi]` into `A`, outside A's declared range, and leaves `B` unsettable). -/
theorem spsa_rows_point_at_their_names : Gen.Search.spsaTunables.all (fun r => r.1 == r.2.1) = true := by decide

/-- **every variable of the spsa file has exactly one row**, in the order of the `var` block — the order
    of the fields of `Params`. -/
theorem spsa_rows_cover_the_variables :
    Gen.Search.spsaTunables.map (·.2.1) = Gen.Search.spsaDefaults.map (·.1) ∧
    Gen.Search.spsaTunables.map (·.1) = Gen.Search.spsaDefaults.map (·.1) := by decide

/-- the variables are the thirteen fields of `Params`, in this order. -/
theorem spsa_variables_are_the_fields :
    Gen.Search.spsaDefaults.map (·.1) =
      ["NMPDiffFactor", "NMPDepthLimit", "NMPInit", "RFPDepthLimit", "RFPScoreFactor", "WindowSize", "LMRStart",
       "StandPatDelta", "HistBonusMul", "HistBonusLin", "HistAdjRange", "HistAdjReduction", "IIRDepthLimit"] := by decide

/-- **the two files are symmetric**: the initial values of the spsa variables are the constants of
    params.go (same names, same values) … -/
theorem spsa_defaults_symmetric :
    Gen.Search.paramsConsts.all (fun c => Gen.Search.spsaDefaults.lookup c.1 == some c.2) = true ∧
    Gen.Search.spsaDefaults.all (fun c => Gen.Search.paramsConsts.lookup c.1 == some c.2) = true := by decide

/-- … which are the values `Params.default` is built from (the `params_*` definitions of Gen/Search and
    Gen/Funcs), in the order of `toList`. -/
theorem spsa_defaults_eq_default : Gen.Search.spsaDefaults.map (·.2) = Params.default.toList := by decide

/-- the default vector is in range. -/
theorem default_inRange : Params.InRange Params.default := by decide

/-- the skeleton passes `l.moveCnt - 1` to `lmr` (Model/Search.lean `searchMove`), as search.go does. -/
theorem lmr_offset_is_one : Gen.Search.lmrCountOffset = 1 := by decide

/-- `params.Set` / `params.UCIOptions` of the spsa build as they were when the table was modelled (the
    extractor additionally demands the shape `if val < t.min || t.max < val {…}; *t.ptr = val` of `Set`). -/
theorem spsa_modelled_against : Gen.Search.spsaFingerprints =
    [("params.Set", "272e4348f334c11c"), ("params.UCIOptions", "2cf00eb3e00a7919")] := by decide

end SearchReal
end ChessVerif
