/-
  Executable model of /repo/attacks/{attacks.go,tables.go} (core Lean only).

  * `kingMoves`, `knightMoves`     – lookups in the literal tables (Gen/Tables.lean).
  * `bishopMoves`, `rookMoves`     – the Go lookup `table[sq][((occ & mask) * magic) >> (64 - shift)]`
                                     over the table produced by a model of `initBishopMagic` /
                                     `initRookMagic` (carry-rippler subset walk, last writer wins, reference
                                     walkers `calcBishopAttacks` / `calcRookAttacks`).
  * `pawnCaptureMoves`, `pawnSinglePushMoves` – the Go shift formulas, literally.
  * `inBetween a b`                – the table as stored by `initInBetween`: INCLUSIVE of both end squares
                                     for aligned pairs (for `a = b` the single bit `a`), `0` otherwise.

  Deviations from Go, all outside the domain of the properties:
  * a square index outside `0..63` makes Go panic (index out of range); the model returns `0`;
  * a magic index outside the `[512]` / `[4096]` inner array makes Go panic (at init or at lookup); the
    model ignores such a write and reads `0`.  The C12 proofs show that neither happens for `sq < 64`;
  * Go loops without a static bound are given fuel (7 body executions for a ray, 8 for the in-between loop, 2^64 for the subset walk, which
    returns to its start after `2^popcount(mask)` steps).
-/
import ChessVerif.Basic
import ChessVerif.Gen.Tables

namespace ChessVerif.Attacks
open ChessVerif

/-- A literal Go table `[64]BitBoard` as an array of bitboards. -/
def toBBArray (l : List Nat) : Array BB := (l.map (BitVec.ofNat 64)).toArray

def kingTbl : Array BB := toBBArray Gen.Tables.kingMoves
def knightTbl : Array BB := toBBArray Gen.Tables.knightMoves
def bishopMaskTbl : Array BB := toBBArray Gen.Tables.bishopMasks
def rookMaskTbl : Array BB := toBBArray Gen.Tables.rookMasks
def bishopMagicTbl : Array BB := toBBArray Gen.Tables.bishopMagics
def rookMagicTbl : Array BB := toBBArray Gen.Tables.rookMagics
def bishopShiftTbl : Array Nat := Gen.Tables.bishopShifts.toArray
def rookShiftTbl : Array Nat := Gen.Tables.rookShifts.toArray

/-- `chess.AFileBB`, `chess.HFileBB` as extracted. -/
def aFileBB : BB := BitVec.ofNat 64 Gen.Tables.aFileBB
def hFileBB : BB := BitVec.ofNat 64 Gen.Tables.hFileBB

/-- `func KingMoves(from Square) BitBoard { return kingMoves[from] }` -/
def kingMoves (sq : Nat) : BB := kingTbl.getD sq 0

/-- `func KnightMoves(from Square) BitBoard { return knightMoves[from] }` -/
def knightMoves (sq : Nat) : BB := knightTbl.getD sq 0

/-! ### Reference walkers (`calcBishopAttacks`, `calcRookAttacks`) -/

/-- One Go ray loop
    `for rr, ff := r0, f0; cond(rr, ff); { result |= 1 << (ff + rr*8); if occ&(1<<(ff+rr*8)) != 0 { break }; rr += dr; ff += df }`
    started with the already advanced coordinates.  `cond` is the loop condition as written in Go
    (it tests only the board edges the ray moves towards).  Fuel: a ray has at most 7 squares, so
    the Go loop body runs at most 7 times (the 8th test of the condition fails). -/
def walkLoop (occ : BB) (cond : Int → Int → Bool) (df dr : Int) : Nat → Int → Int → BB → BB
  | 0, _, _, res => res
  | fuel + 1, ff, rr, res =>
    if cond rr ff then
      let b := bit (ff + rr * 8).toNat
      let res := res ||| b
      if occ &&& b != 0 then res
      else walkLoop occ cond df dr fuel (ff + df) (rr + dr) res
    else res

/-- One ray of a walker: the loop initialised with `rr, ff := r+dr, f+df`. -/
@[inline] def walk (occ : BB) (cond : Int → Int → Bool) (f r df dr : Int) (res : BB) : BB :=
  walkLoop occ cond df dr 7 (f + df) (r + dr) res

/-- `func calcBishopAttacks(sq Square, occ BitBoard) BitBoard` -/
def calcBishopAttacks (sq : Nat) (occ : BB) : BB :=
  let r : Int := (sq / 8 : Nat)
  let f : Int := (sq % 8 : Nat)
  let res : BB := 0
  let res := walk occ (fun rr ff => rr ≤ 7 && ff ≤ 7) f r 1 1 res
  let res := walk occ (fun rr ff => rr ≤ 7 && ff ≥ 0) f r (-1) 1 res
  let res := walk occ (fun rr ff => rr ≥ 0 && ff ≤ 7) f r 1 (-1) res
  let res := walk occ (fun rr ff => rr ≥ 0 && ff ≥ 0) f r (-1) (-1) res
  res

/-- `func calcRookAttacks(sq Square, occ BitBoard) BitBoard` -/
def calcRookAttacks (sq : Nat) (occ : BB) : BB :=
  let r : Int := (sq / 8 : Nat)
  let f : Int := (sq % 8 : Nat)
  let res : BB := 0
  let res := walk occ (fun rr _ => rr ≤ 7) f r 0 1 res
  let res := walk occ (fun rr _ => rr ≥ 0) f r 0 (-1) res
  let res := walk occ (fun _ ff => ff ≤ 7) f r 1 0 res
  let res := walk occ (fun _ ff => ff ≥ 0) f r (-1) 0 res
  res

/-! ### Magic tables (`initBishopMagic`, `initRookMagic`) -/

/-- The Go shift count `64 - shift` where `shift` is a `byte`: computed modulo 256. -/
@[inline] def shiftAmt (shift : Nat) : Nat := (64 + 256 - shift % 256) % 256

/-- `(occ * magic) >> (64 - shift)` as an array index (Go shifts by ≥ 64 give 0, as does `>>>`). -/
@[inline] def magicIndex (occ magic : BB) (shift : Nat) : Nat :=
  ((occ * magic) >>> shiftAmt shift).toNat

/-- The body of the init loops for one square:
    ```
    occ := mask
    for {
      attacks := calcAttacks(sq, occ)
      table[sq][(occ*magic)>>(64-shift)] = attacks
      occ = (occ - mask) & mask
      if occ == mask { break }
    }
    ``` -/
def fillLoop (attacksOf : BB → BB) (mask magic : BB) (shift : Nat) : Nat → BB → Array BB → Array BB
  | 0, _, t => t
  | fuel + 1, occ, t =>
    let t := t.setIfInBounds (magicIndex occ magic shift) (attacksOf occ)
    let occ' := (occ - mask) &&& mask
    if occ' = mask then t else fillLoop attacksOf mask magic shift fuel occ' t

/-- Enough fuel for any mask: the walk returns to `mask` after `2^popcount(mask) ≤ 2^64` steps. -/
def fillFuel : Nat := 2 ^ 64

/-- One row `table[sq]` (zero-initialised Go array of `size` entries) after the init loop. -/
def fillTable (attacksOf : BB → BB) (mask magic : BB) (shift size : Nat) : Array BB :=
  fillLoop attacksOf mask magic shift fillFuel mask (Array.replicate size 0)

/-- `bishopAttacks [64][512]BitBoard` after `initBishopMagic`. -/
def bishopAttacks : Array (Array BB) :=
  (Array.range Gen.Tables.squares).map fun sq =>
    fillTable (calcBishopAttacks sq) (bishopMaskTbl.getD sq 0) (bishopMagicTbl.getD sq 0)
      (bishopShiftTbl.getD sq 0) Gen.Tables.bishopTableSize

/-- `rookAttacks [64][4096]BitBoard` after `initRookMagic`. -/
def rookAttacks : Array (Array BB) :=
  (Array.range Gen.Tables.squares).map fun sq =>
    fillTable (calcRookAttacks sq) (rookMaskTbl.getD sq 0) (rookMagicTbl.getD sq 0)
      (rookShiftTbl.getD sq 0) Gen.Tables.rookTableSize

/-- `func BishopMoves(from Square, occ BitBoard) BitBoard` -/
def bishopMoves (sq : Nat) (occ : BB) : BB :=
  let mask := bishopMaskTbl.getD sq 0
  let magic := bishopMagicTbl.getD sq 0
  let shift := bishopShiftTbl.getD sq 0
  (bishopAttacks.getD sq #[]).getD (magicIndex (occ &&& mask) magic shift) 0

/-- `func RookMoves(from Square, occ BitBoard) BitBoard` -/
def rookMoves (sq : Nat) (occ : BB) : BB :=
  let mask := rookMaskTbl.getD sq 0
  let magic := rookMagicTbl.getD sq 0
  let shift := rookShiftTbl.getD sq 0
  (rookAttacks.getD sq #[]).getD (magicIndex (occ &&& mask) magic shift) 0

/-! ### Pawn formulas -/

/-- `func PawnCaptureMoves(b BitBoard, color Color) BitBoard` (`color << 4` is 0 or 16). -/
def pawnCaptureMoves (b : BB) (c : Color) : BB :=
  ((((b &&& ~~~aFileBB) <<< 7) ||| ((b &&& ~~~hFileBB) <<< 9)) >>> (c.toNat <<< 4)) |||
  ((((b &&& ~~~hFileBB) >>> 7) ||| ((b &&& ~~~aFileBB) >>> 9)) <<< (c.flip.toNat <<< 4))

/-- `func PawnSinglePushMoves(b BitBoard, color Color) BitBoard` (`color^1` = `Flip`). -/
def pawnSinglePushMoves (b : BB) (c : Color) : BB :=
  ((b <<< 8) >>> (c.toNat <<< 4)) ||| ((b >>> 8) <<< (c.flip.toNat <<< 4))

/-! ### `InBetween` (`initInBetween`) -/

/-- `chess.Abs`, `chess.Signum` on (unwrapped) integers; all arguments here lie in `-7..7`. -/
@[inline] def abs (x : Int) : Int := if x < 0 then -x else x
@[inline] def signum (x : Int) : Int := if x < 0 then -1 else if x > 0 then 1 else 0

/-- `for iterF != fileB || iterR != rankB { result |= 1 << ((iterR << 3) + iterF); iterF += fileD; iterR += rankD }`
    (fuel 8: for an aligned pair the loop ends after at most 7 steps). -/
def inBetweenLoop (fileB rankB fileD rankD : Int) : Nat → Int → Int → BB → BB
  | 0, _, _, res => res
  | fuel + 1, iterF, iterR, res =>
    if iterF != fileB || iterR != rankB then
      inBetweenLoop fileB rankB fileD rankD fuel (iterF + fileD) (iterR + rankD)
        (res ||| bit (iterR * 8 + iterF).toNat)
    else res

/-- The value the body of the four nested loops of `initInBetween` stores for
    `(fileA, rankA, fileB, rankB)`. -/
def inBetweenCell (fileA rankA fileB rankB : Int) : BB :=
  if fileA == fileB || rankA == rankB || abs (fileA - fileB) == abs (rankA - rankB) then
    let fileD := signum (fileB - fileA)
    let rankD := signum (rankB - rankA)
    let result := inBetweenLoop fileB rankB fileD rankD 8 fileA rankA 0
    result ||| bit (rankB * 8 + fileB).toNat
  else 0

/-- `InBetween [64][64]BitBoard` after `initInBetween`: every cell `[(rankA<<3)+fileA][(rankB<<3)+fileB]`
    is written exactly once by the four nested `range 8` loops. -/
def inBetweenTbl : Array (Array BB) :=
  (Array.range 64).map fun a => (Array.range 64).map fun b =>
    inBetweenCell (a % 8 : Nat) (a / 8 : Nat) (b % 8 : Nat) (b / 8 : Nat)

/-- `attacks.InBetween[a][b]` (inclusive of both end squares for aligned pairs, `0` otherwise). -/
def inBetween (a b : Nat) : BB := (inBetweenTbl.getD a #[]).getD b 0

end ChessVerif.Attacks
