/-
  Executable model of /repo/board/board.go, /repo/board/zobrist.go and the attack-detection part of
  /repo/board/attacks.go, mirrored function by function at the bitboard level.
  Core Lean only.  Tied to the Go code by the `board` correspondence harness.
-/
import ChessVerif.Basic
import ChessVerif.Model.Attacks

namespace ChessVerif

/-! ## Moves (move/move.go): 16-bit word, to = bits 0-5, from = bits 6-11, promo = bits 12-14. -/

abbrev Move := Nat

namespace Move
@[inline] def dst (m : Move) : Nat := m % 64
@[inline] def src (m : Move) : Nat := (m / 64) % 64
@[inline] def promo (m : Move) : Nat := (m / 4096) % 8
@[inline] def mk (f t p : Nat) : Move := f * 64 + t + p * 4096
def toUCI (m : Move) : String :=
  if m = 0 then "0000" else
  sqName (src m) ++ sqName (dst m) ++
    (match promo m with | 1 => "p" | 2 => "n" | 3 => "b" | 4 => "r" | 5 => "q" | 6 => "k" | _ => "")
end Move

/-! ## Zobrist keys (arbitrary; the driver receives the real ones from the harness). -/

structure Keys where
  piece : Nat → Nat → Nat → BB   -- colour, piece, square
  stm : BB
  castling : Nat → BB            -- 0..3
  epFile : Nat → BB              -- 0..7

/-! ## The board (board.go `Board`), field for field. -/

structure Board where
  sq : Vector Piece 64        -- SquaresToPiece
  pieces : Vector BB 7        -- Pieces
  colors : Vector BB 2        -- Colors
  hashes : List BB            -- hash history, HEAD = current position (Go: last element)
  fullMoves : Int
  stm : Color
  ep : Nat                    -- EnPassant, 0 = none
  castles : Castles
  fifty : Int                 -- FiftyCnt (int8)
  deriving DecidableEq

namespace Board

def empty : Board :=
  { sq := Vector.replicate 64 Piece.none, pieces := Vector.replicate 7 0, colors := Vector.replicate 2 0,
    hashes := [], fullMoves := 0, stm := .white, ep := 0, castles := 0, fifty := 0 }

@[inline] def pieceAt (b : Board) (s : Nat) : Piece := b.sq.getD s Piece.none
@[inline] def pieceBB (b : Board) (p : Piece) : BB := b.pieces.getD p.toNat 0
@[inline] def colorBB (b : Board) (c : Color) : BB := b.colors.getD c.toNat 0
@[inline] def occ (b : Board) : BB := b.colorBB .white ||| b.colorBB .black
/-- `b.Hash()`: the last hash of the history (Go panics on an empty history; the model answers 0). -/
@[inline] def hash (b : Board) : BB := b.hashes.headD 0

/-- `IsEnPassant`. -/
def isEnPassant (b : Board) (m : Move) : Bool :=
  b.ep != 0 && b.ep == (Move.dst m) && b.pieceAt (Move.src m) == Piece.pawn

/-- `CaptureSq`: `(to & FileMask) | (from & RankMask)` for en passant. -/
def captureSq (b : Board) (m : Move) : Nat :=
  if b.isEnPassant m then ((Move.dst m) % 8) + 8 * ((Move.src m) / 8) else (Move.dst m)

/-- `addPiece`: returns the new board and the hash delta. -/
def addPiece (K : Keys) (b : Board) (c : Color) (p : Piece) (s : Nat) : Board × BB :=
  if p = Piece.none then (b, 0) else
  ({ b with colors := b.colors.setIfInBounds c.toNat (b.colorBB c ||| bit s),
            pieces := b.pieces.setIfInBounds p.toNat (b.pieceBB p ||| bit s),
            sq := b.sq.setIfInBounds s p },
   K.piece c.toNat p.toNat s)

/-- `removePiece`. -/
def removePiece (K : Keys) (b : Board) (c : Color) (p : Piece) (s : Nat) : Board × BB :=
  if p = Piece.none then (b, 0) else
  ({ b with colors := b.colors.setIfInBounds c.toNat (b.colorBB c &&& ~~~ bit s),
            pieces := b.pieces.setIfInBounds p.toNat (b.pieceBB p &&& ~~~ bit s),
            sq := b.sq.setIfInBounds s Piece.none },
   K.piece c.toNat p.toNat s)

/-- `Castle(c, side)`: side 0 = short, 1 = long. -/
def castleBit (c : Color) (side : Nat) : Castles := 1#4 <<< (2 * c.toNat + side)

/-- `NewCastles`. -/
def newCastles (b : Board) (m : Move) : Castles :=
  let affected : Castles := 0
  let affected := if b.pieceAt (Move.src m) = Piece.king then affected ||| castleBit b.stm 0 ||| castleBit b.stm 1 else affected
  let affected := if (Move.src m) = 0 ∨ (Move.dst m) = 0 then affected ||| longWhite else affected
  let affected := if (Move.src m) = 7 ∨ (Move.dst m) = 7 then affected ||| shortWhite else affected
  let affected := if (Move.src m) = 56 ∨ (Move.dst m) = 56 then affected ||| longBlack else affected
  let affected := if (Move.src m) = 63 ∨ (Move.dst m) = 63 then affected ||| shortBlack else affected
  b.castles &&& ~~~ affected

/-- `IsAttacked(by, occ, target)`. -/
def isAttacked (b : Board) (by_ : Color) (occ target : BB) : Bool :=
  let other := b.colorBB by_
  if Attacks.pawnCaptureMoves (b.pieceBB .pawn &&& other) by_ &&& target != 0 then true else
  (bits target).any fun sq =>
    (Attacks.kingMoves sq &&& b.pieceBB .king &&& other != 0) ||
    (Attacks.knightMoves sq &&& b.pieceBB .knight &&& other != 0) ||
    (Attacks.bishopMoves sq occ &&& (b.pieceBB .queen ||| b.pieceBB .bishop) &&& other != 0) ||
    (Attacks.rookMoves sq occ &&& (b.pieceBB .rook ||| b.pieceBB .queen) &&& other != 0)

/-- `InCheck(who)`. -/
def inCheck (b : Board) (who : Color) : Bool :=
  b.isAttacked who.flip b.occ (b.colorBB who &&& b.pieceBB .king)

/-- `shifts[stm]` of attacks.go / movegen.go as a signed offset applied to a square. -/
@[inline] def fwd (c : Color) (s : Nat) (k : Nat) : Nat :=
  match c with
  | .white => s + 8 * k
  | .black => s - 8 * k

/-- `CanEnPassant(to)` (called by MakeMove *before* the pawn is relocated; `b.stm` is the pusher). -/
def canEnPassant (b : Board) (to : Nat) : Bool :=
  let target := bit to
  let them := b.colorBB b.stm.flip
  let king := b.pieceBB .king &&& them
  -- `to - shift`: the square behind the pushed pawn; `to - 2*shift`: its origin
  let destSq := match b.stm with | .white => to - 8 | .black => to + 8
  let origSq := match b.stm with | .white => to - 16 | .black => to + 16
  let dest := bit destSq
  let orig := bit origSq
  let ables := (((target &&& ~~~ AFile) >>> 1) ||| ((target &&& ~~~ HFile) <<< 1)) &&& b.pieceBB .pawn &&& them
  (bits ables).any fun a =>
    let able := bit a
    let occ := (b.occ ||| dest) &&& ~~~ (target ||| able ||| orig)
    !(b.isAttacked b.stm occ king)

/-! ### The reversing token (board.go `Reverse`): packed in one 64-bit word. -/

abbrev Reverse := BitVec 64

def fiftyCntMask : Reverse := 0x00000000000000ff#64
def fiftyCntShift : Nat := 0
def castlingChangeMask : Reverse := 0x0000000000000f00#64
def castlingChangeShift : Nat := 8
def epChangeMask : Reverse := 0x000000000003f000#64
def epChangeShift : Nat := 12
def captureMask : Reverse := 0x00000000001c0000#64
def captureShift : Nat := 18

namespace Reverse
/-- `Depth((r & fiftyCntMask) >> fiftyCntShift)` – conversion to int8. -/
def fiftyCnt (r : Reverse) : Int := wrapS8 (((r &&& fiftyCntMask) >>> fiftyCntShift).toNat)
/-- `Reverse(fc)` of an int8 sign-extends. -/
def setFiftyCnt (r : Reverse) (fc : Int) : Reverse :=
  (r &&& ~~~ fiftyCntMask) ||| (BitVec.ofInt 64 fc <<< fiftyCntShift)
def castlingChange (r : Reverse) : Castles :=
  BitVec.ofNat 4 (((r &&& castlingChangeMask) >>> castlingChangeShift).toNat % 256)
def setCastlingChange (r : Reverse) (c : Castles) : Reverse :=
  (r &&& ~~~ castlingChangeMask) ||| (BitVec.ofNat 64 c.toNat <<< castlingChangeShift)
/-- `Square(...)` – conversion to int8 of a 6-bit field is the identity. -/
def enPassantChange (r : Reverse) : Nat := ((r &&& epChangeMask) >>> epChangeShift).toNat
def setEnPassantChange (r : Reverse) (e : Nat) : Reverse :=
  (r &&& ~~~ epChangeMask) ||| (BitVec.ofNat 64 e <<< epChangeShift)
def capture (r : Reverse) : Piece := Piece.ofIx (((r &&& captureMask) >>> captureShift).toNat % 256)
def setCapture (r : Reverse) (p : Piece) : Reverse :=
  (r &&& ~~~ captureMask) ||| (BitVec.ofNat 64 p.toNat <<< captureShift)
end Reverse

@[inline] def hashEnable (bitSet : Bool) (k : BB) : BB := if bitSet then k else 0

/-- `MakeMove`. -/
def makeMove (K : Keys) (b0 : Board) (m : Move) : Board × Reverse :=
  let r : Reverse := 0
  let b := { b0 with fullMoves := b0.fullMoves + b0.stm.toNat }
  let hash := b.hash
  let piece := b.pieceAt (Move.src m)
  let diff := if (Move.src m) ≥ (Move.dst m) then (Move.src m) - (Move.dst m) else (Move.dst m) - (Move.src m)
  let canEP := piece = Piece.pawn && diff == 16 && b.canEnPassant (Move.dst m)
  let capSq := b.captureSq m
  let capture := b.pieceAt capSq
  let castlingChange := b.castles ^^^ b.newCastles m
  let r := r.setFiftyCnt b.fifty
  let fifty' : Int := if piece = Piece.pawn ∨ capture ≠ Piece.none then 0 else wrapS8 (b.fifty + 1)
  let hash := hash ^^^ hashEnable (castlingChange.getLsbD 0) (K.castling 0)
  let hash := hash ^^^ hashEnable (castlingChange.getLsbD 1) (K.castling 1)
  let hash := hash ^^^ hashEnable (castlingChange.getLsbD 2) (K.castling 2)
  let hash := hash ^^^ hashEnable (castlingChange.getLsbD 3) (K.castling 3)
  let b := { b with fifty := fifty', castles := b.castles ^^^ castlingChange }
  let r := r.setCastlingChange castlingChange
  let r := r.setCapture capture
  let putPiece := if (Move.promo m) ≠ 0 then Piece.ofIx (Move.promo m) else piece
  let (b, d) := b.removePiece K b.stm.flip capture capSq
  let hash := hash ^^^ d
  let (b, d) := b.removePiece K b.stm piece (Move.src m)
  let hash := hash ^^^ d
  let (b, d) := b.addPiece K b.stm putPiece (Move.dst m)
  let hash := hash ^^^ d
  let hash := if b.ep ≠ 0 then hash ^^^ K.epFile (b.ep % 8) else hash
  let newEP := if canEP then ((Move.src m) + (Move.dst m)) / 2 else 0
  let hash := if canEP then hash ^^^ K.epFile (newEP % 8) else hash
  let r := r.setEnPassantChange (b.ep ^^^ newEP)
  let b := { b with ep := newEP }
  let castleRook (b : Board) (hash : BB) (rf rt : Nat) : Board × BB :=
    let (b, d1) := b.removePiece K b.stm Piece.rook rf
    let (b, d2) := b.addPiece K b.stm Piece.rook rt
    (b, hash ^^^ d1 ^^^ d2)
  let (b, hash) :=
    if piece = Piece.king then
      if (Move.src m) = 4 ∧ (Move.dst m) = 6 then castleRook b hash 7 5
      else if (Move.src m) = 4 ∧ (Move.dst m) = 2 then castleRook b hash 0 3
      else if (Move.src m) = 60 ∧ (Move.dst m) = 62 then castleRook b hash 63 61
      else if (Move.src m) = 60 ∧ (Move.dst m) = 58 then castleRook b hash 56 59
      else (b, hash)
    else (b, hash)
  let b := { b with stm := b.stm.flip }
  let hash := hash ^^^ K.stm
  ({ b with hashes := hash :: b.hashes }, r)

/-- Keys are irrelevant for undo (the Go code discards the hash deltas). -/
def zeroKeys : Keys := { piece := fun _ _ _ => 0, stm := 0, castling := fun _ => 0, epFile := fun _ => 0 }

/-- `UndoMove`. -/
def undoMove (b : Board) (m : Move) (r : Reverse) : Board :=
  let b := { b with hashes := b.hashes.tail }
  let b := { b with stm := b.stm.flip }
  let rmPiece := b.pieceAt (Move.dst m)
  let piece := if (Move.promo m) ≠ 0 then Piece.pawn else rmPiece
  let uncastle (b : Board) (rf rt : Nat) : Board :=
    let b := (b.removePiece zeroKeys b.stm Piece.rook rf).1
    (b.addPiece zeroKeys b.stm Piece.rook rt).1
  let b :=
    if piece = Piece.king then
      if (Move.src m) = 4 ∧ (Move.dst m) = 6 then uncastle b 5 7
      else if (Move.src m) = 4 ∧ (Move.dst m) = 2 then uncastle b 3 0
      else if (Move.src m) = 60 ∧ (Move.dst m) = 62 then uncastle b 61 63
      else if (Move.src m) = 60 ∧ (Move.dst m) = 58 then uncastle b 59 56
      else b
    else b
  let b := { b with ep := b.ep ^^^ r.enPassantChange }
  let b := (b.removePiece zeroKeys b.stm rmPiece (Move.dst m)).1
  let b := (b.addPiece zeroKeys b.stm piece (Move.src m)).1
  let b := (b.addPiece zeroKeys b.stm.flip r.capture (b.captureSq m)).1
  let b := { b with castles := b.castles ^^^ r.castlingChange }
  let b := { b with fifty := r.fiftyCnt }
  { b with fullMoves := b.fullMoves - b.stm.toNat }

/-- `MakeNullMove`. -/
def makeNull (K : Keys) (b : Board) : Board × Reverse :=
  let r : Reverse := 0
  let hash := b.hash
  let (b, r, hash) :=
    if b.ep ≠ 0 then
      ({ b with ep := 0 }, r.setEnPassantChange b.ep, hash ^^^ K.epFile (b.ep % 8))
    else (b, r, hash)
  let b := { b with stm := b.stm.flip }
  let hash := hash ^^^ K.stm
  ({ b with hashes := hash :: b.hashes }, r)

/-- `UndoNullMove`. -/
def undoNull (b : Board) (r : Reverse) : Board :=
  { b with stm := b.stm.flip, ep := r.enPassantChange, hashes := b.hashes.tail }

/-- `calculateHash`. -/
def calcHash (K : Keys) (b : Board) : BB :=
  let h : BB := 0
  let h := (bits (b.colorBB .white)).foldl (fun h s => h ^^^ K.piece 0 (b.pieceAt s).toNat s) h
  let h := (bits (b.colorBB .black)).foldl (fun h s => h ^^^ K.piece 1 (b.pieceAt s).toNat s) h
  let h := if b.stm = .black then h ^^^ K.stm else h
  let h := (List.range 4).foldl (fun h i => if b.castles.getLsbD i then h ^^^ K.castling i else h) h
  if b.ep ≠ 0 then h ^^^ K.epFile (b.ep % 8) else h

/-- `ResetHash`. -/
def resetHash (K : Keys) (b : Board) : Board := { b with hashes := [b.calcHash K] }

/-- The scan of `Threefold` over the part of the history that starts 4 plies back, step 2. -/
def threefoldScan (hash : BB) : List BB → Nat → Nat
  | [], cnt => cnt
  | h :: rest, cnt =>
    let cnt' := if h == hash then cnt + 1 else cnt
    if h == hash ∧ cnt' ≥ 3 then cnt' else threefoldScan hash (rest.drop 1) cnt'
termination_by l => l.length
decreasing_by simp; omega

/-- `Threefold`. -/
def threefold (b : Board) : Nat :=
  match b.hashes with
  | [] => 1
  | h :: _ => threefoldScan h (b.hashes.drop 4) 1

/-- `InvalidPieceCount`. -/
def invalidPieceCount (b : Board) : Bool :=
  [Color.white, Color.black].any fun c =>
    let cb := b.colorBB c
    if !(isPow2 (cb &&& b.pieceBB .king)) then true else
    let knights := popcount (cb &&& b.pieceBB .knight)
    let bishops := popcount (cb &&& b.pieceBB .bishop)
    let rooks := popcount (cb &&& b.pieceBB .rook)
    let queens := popcount (cb &&& b.pieceBB .queen)
    let pawns := popcount (cb &&& b.pieceBB .pawn)
    let pknights := max 2 knights - 2
    let pbishops := max 2 bishops - 2
    let prooks := max 2 rooks - 2
    let pqueens := max 1 queens - 1
    let promoted := pknights + pbishops + prooks + pqueens
    let pawns := pawns + promoted
    decide (pawns > 8) || decide (knights + pawns - pknights > 10) || decide (bishops + pawns - pbishops > 10) ||
      decide (rooks + pawns - prooks > 10) || decide (queens + pawns - pqueens > 9)

/-- `RankBB(rank.FromPerspectiveOf(c))`. -/
@[inline] def relRankBB (c : Color) (r : Nat) : BB :=
  match c with
  | .white => rankBB r
  | .black => rankBB (7 - r)

def absDiff (a b : Nat) : Nat := if a ≥ b then a - b else b - a

/-- `IsPseudoLegal` (after the `fix:` commit that checks the promotion bits). -/
def isPseudoLegal (b : Board) (m : Move) : Bool :=
  let from_ := (Move.src m)
  let fromBB := bit from_
  let to := (Move.dst m)
  let toBB := bit to
  let me := b.colorBB b.stm
  if me &&& fromBB == 0 then false else
  if me &&& toBB != 0 then false else
  let piece := b.pieceAt from_
  let occ := b.occ
  if (Move.promo m) ≠ 0 ∧ piece ≠ Piece.pawn then false else
  match piece with
  | .knight => Attacks.knightMoves from_ &&& toBB != 0
  | .bishop => Attacks.bishopMoves from_ occ &&& toBB != 0
  | .rook => Attacks.rookMoves from_ occ &&& toBB != 0
  | .queen => (Attacks.rookMoves from_ occ ||| Attacks.bishopMoves from_ occ) &&& toBB != 0
  | .king =>
    if from_ = 4 ∧ to = 6 ∧ b.stm = .white then
      !(b.castles &&& shortWhite == 0 || (bit 5 ||| bit 6) &&& occ != 0 ||
        b.isAttacked b.stm.flip occ (bit 4 ||| bit 5 ||| bit 6))
    else if from_ = 4 ∧ to = 2 ∧ b.stm = .white then
      !(b.castles &&& longWhite == 0 || (bit 3 ||| bit 2 ||| bit 1) &&& occ != 0 ||
        b.isAttacked b.stm.flip occ (bit 4 ||| bit 3 ||| bit 2))
    else if from_ = 60 ∧ to = 62 ∧ b.stm = .black then
      !(b.castles &&& shortBlack == 0 || (bit 61 ||| bit 62) &&& occ != 0 ||
        b.isAttacked b.stm.flip occ (bit 60 ||| bit 61 ||| bit 62))
    else if from_ = 60 ∧ to = 58 ∧ b.stm = .black then
      !(b.castles &&& longBlack == 0 || (bit 59 ||| bit 58 ||| bit 57) &&& occ != 0 ||
        b.isAttacked b.stm.flip occ (bit 60 ||| bit 59 ||| bit 58))
    else Attacks.kingMoves from_ &&& toBB != 0
  | .pawn =>
    if (from_ < to ∧ b.stm = .black) ∨ (from_ > to ∧ b.stm = .white) then false else
    let promoOK :=
      if relRankBB b.stm 6 &&& fromBB != 0 then decide (2 ≤ (Move.promo m) ∧ (Move.promo m) ≤ 5) else decide ((Move.promo m) = 0)
    if !promoOK then false else
    match absDiff (fileOf from_) (fileOf to) with
    | 0 =>
      match absDiff (rankOf from_) (rankOf to) with
      | 1 => occ &&& toBB == 0
      | 2 =>
        if fromBB &&& relRankBB b.stm 1 == 0 then false else
        occ &&& (toBB ||| bit ((from_ + to) / 2)) == 0
      | _ => false
    | 1 =>
      if absDiff (rankOf from_) (rankOf to) ≠ 1 then false else
      let epBB : BB := if b.ep ≠ 0 then bit b.ep else 0
      (b.colorBB b.stm.flip ||| epBB) &&& toBB != 0
    | _ => false
  | .none => true  -- unreachable when the representations agree (own piece on `from`)

end Board
end ChessVerif
