/-
  Abstract transposition table (specification side of C15; core Lean only, independent of the
  bitboard-level model).

  The table is, per bucket, a finite map  signature ↦ last effective store.  A store overwrites
  its own key (two rules: a bound does not displace a same-search entry more than two plies deeper;
  a null move inherits the move already recorded for the key) and may delete AT MOST ONE other key
  of the same bucket.  Which key is deleted is left open: the replacement policy is not part of the
  property.  Clear and resize-then-clear give the empty map.

  Signature 0 cannot be represented by the implementation (it encodes "empty lane"): the abstract
  map never holds it, and a store under signature 0 is only allowed its side effect (evicting at
  most one other key).  What the implementation answers for signature 0 is stated separately
  (`Props/C15.lean`, `probe_after_store`).
-/
import ChessVerif.Gen.Transp

namespace ChessVerif.Spec.AbstractTT
open ChessVerif

/-- The 16 signature bits of a hash. -/
abbrev Sig := BitVec 16

/-- Upper 16 bits of the Zobrist hash. -/
def sigOf (hash : BitVec 64) : Sig := BitVec.ofNat 16 (hash.toNat / 2 ^ 48)

/-- The bound type `Exact`. -/
def exactT : BitVec 8 := BitVec.ofInt 8 Gen.Transp.exact

/-- `Inf - MaxPlies`: scores strictly beyond `±mateThreshold` carry a mate distance. -/
def mateThreshold : Int := Gen.Transp.inf - Gen.Transp.maxPlies

/-- The score a probe at ply `q` returns for a score `v` stored at ply `p`: mate distances are
    re-based from the storing ply to the probing ply, every other score is unchanged. -/
def rebased (v p q : Int) : Int :=
  if v > mateThreshold then v + p - q else if v < -mateThreshold then v - p + q else v

/-- The arguments of one store. -/
structure Store where
  hash : BitVec 64
  gen : BitVec 8
  d : Int
  ply : Int
  mv : BitVec 16
  value : Int
  typ : BitVec 8
  deriving DecidableEq, Repr

/-- What the map remembers for a key: the arguments of the last effective store, and the latest
    non-null move stored for the key while it stayed in the table (0 if none). -/
structure Stored where
  depth : Int
  typ : BitVec 8
  value : Int
  ply : Int
  move : BitVec 16
  gen : BitVec 8
  deriving DecidableEq, Repr

/-- The content of one bucket. -/
abbrev BMap := Sig → Option Stored

/-- The table: number of buckets and a finite map per bucket. -/
structure State where
  nb : Nat
  m : Nat → BMap

def State.empty (nb : Nat) : State := ⟨nb, fun _ _ => none⟩

/-- What a probe of `hash` at ply `q` answers: depth, bound type, score, move. -/
def State.probe (bucketOf : BitVec 64 → Nat → Nat) (a : State) (hash : BitVec 64) (q : Int) :
    Option (Int × BitVec 8 × Int × BitVec 16) :=
  match a.m (bucketOf hash a.nb) (sigOf hash) with
  | none => none
  | some st => some (st.depth, st.typ, rebased st.value st.ply q, st.move)

/-- Keep-deeper rule: the store is dropped when it is a bound and the key holds an entry of the
    same search (generation) that is more than `keepDeeperMargin` (= 2) plies deeper. -/
def keeps (old : Option Stored) (s : Store) : Prop :=
  ∃ o, old = some o ∧ s.typ ≠ exactT ∧ o.depth > s.d + Gen.Transp.keepDeeperMargin ∧ o.gen = s.gen

/-- The entry an effective store leaves; a null move inherits the recorded move. -/
def newStored (old : Option Stored) (s : Store) : Stored :=
  { depth := s.d, typ := s.typ, value := s.value, ply := s.ply, gen := s.gen,
    move := if s.mv = 0 then (match old with | some o => o.move | none => 0) else s.mv }

/-- `f'` is `f` with at most one key other than `k` deleted; every other key other than `k` is
    untouched. -/
def EvictsAtMostOne (f f' : BMap) (k : Sig) : Prop :=
  ∃ victim : Option Sig, ∀ k', k' ≠ k → f' k' = if some k' = victim then none else f k'

/-- Effect of a store with signature `k` on the bucket it addresses. -/
inductive BucketStore (s : Store) (k : Sig) (f : BMap) : BMap → Prop where
  /-- keep-deeper: nothing changes -/
  | keep : k ≠ 0 → keeps (f k) s → BucketStore s k f f
  /-- effective store: the key is overwritten, at most one other key disappears -/
  | write (f' : BMap) : k ≠ 0 → ¬ keeps (f k) s → f' k = some (newStored (f k) s) →
      EvictsAtMostOne f f' k → BucketStore s k f f'
  /-- signature 0 is not representable: only the possible eviction remains -/
  | sig0 (f' : BMap) : k = 0 → f' k = f k → EvictsAtMostOne f f' k → BucketStore s k f f'

/-- State-changing operations. -/
inductive Op where
  | store (s : Store)
  | clear
  /-- resize to `size` bytes, followed by clear -/
  | resizeClear (size : Nat)
  deriving DecidableEq, Repr

/-- One step of the abstract table; `bucketOf hash nb` is the bucket addressed by `hash` in a table
    of `nb` buckets. -/
inductive Step (bucketOf : BitVec 64 → Nat → Nat) : State → Op → State → Prop where
  | clear (a : State) : Step bucketOf a .clear (State.empty a.nb)
  | resize (a : State) (size : Nat) :
      Step bucketOf a (.resizeClear size) (State.empty (size / Gen.Transp.bucketSize.toNat))
  | store (a a' : State) (s : Store) : a'.nb = a.nb →
      (∀ b', b' ≠ bucketOf s.hash a.nb → a'.m b' = a.m b') →
      BucketStore s (sigOf s.hash) (a.m (bucketOf s.hash a.nb)) (a'.m (bucketOf s.hash a.nb)) →
      Step bucketOf a (.store s) a'

/-- `Run a0 ops a`: the abstract table can be in state `a` after `ops`, started in `a0`. -/
inductive Run (bucketOf : BitVec 64 → Nat → Nat) (a0 : State) : List Op → State → Prop where
  | nil : Run bucketOf a0 [] a0
  | snoc {ops : List Op} {a a' : State} {op : Op} :
      Run bucketOf a0 ops a → Step bucketOf a op a' → Run bucketOf a0 (ops ++ [op]) a'

/-- The quantifier of the property on one store: depth `0..63` and one of the three bound types
    (ply and score are not restricted here; see `value_rebase` for the score arithmetic). -/
def Store.Valid (s : Store) : Prop := 0 ≤ s.d ∧ s.d ≤ 63 ∧ s.typ.toNat ≤ 2

/-- A supported table size: a positive multiple of the bucket size (otherwise `Resize` panics). -/
def ValidSize (size : Nat) : Prop :=
  Gen.Transp.bucketSize.toNat ≤ size ∧ size % Gen.Transp.bucketSize.toNat = 0

def Op.Valid : Op → Prop
  | .store s => s.Valid
  | .clear => True
  | .resizeClear size => ValidSize size

instance (s : Store) : Decidable s.Valid := by unfold Store.Valid; infer_instance
instance (n : Nat) : Decidable (ValidSize n) := by unfold ValidSize; infer_instance
instance (op : Op) : Decidable op.Valid := by
  cases op <;> simp only [Op.Valid] <;> infer_instance

/-- "`st` is what was most recently stored under bucket `b` and signature `k`":
    `ops` splits as `pre ++ store s :: post` where `s` addresses `(b, k)` and carries the depth,
    bound type, score, ply and generation recorded in `st`; since then the table was neither cleared
    nor resized (`post` consists of stores), and every later store to the same bucket and signature
    was a bound dropped by the keep-deeper rule against this very entry.  If that store carried a
    move, it is the recorded move (a null move inherits, see `newStored`). -/
def LastStore (bucketOf : BitVec 64 → Nat → Nat) (ops : List Op) (nb b : Nat) (k : Sig)
    (st : Stored) : Prop :=
  ∃ pre s post, ops = pre ++ Op.store s :: post ∧
    (∀ op, op ∈ post → ∃ s', op = Op.store s') ∧
    bucketOf s.hash nb = b ∧ sigOf s.hash = k ∧
    st.depth = s.d ∧ st.typ = s.typ ∧ st.value = s.value ∧ st.ply = s.ply ∧ st.gen = s.gen ∧
    (s.mv ≠ 0 → st.move = s.mv) ∧
    (∀ s', Op.store s' ∈ post → bucketOf s'.hash nb = b → sigOf s'.hash = k →
      s'.typ ≠ exactT ∧ st.depth > s'.d + Gen.Transp.keepDeeperMargin ∧ st.gen = s'.gen)

end ChessVerif.Spec.AbstractTT
