/-
  Independent specification vocabulary for C20 (core only).
  * `Tiles rs lo hi`: the ranges `rs`, in order, are non-empty, contiguous and cover exactly `[lo, hi)`.
  * `Parsed bytes lines tail`: the documented data-file format — the file is the concatenation of
    `lines`, each followed by `'\n'`, followed by an unterminated `tail`; no line contains `'\n'`.
    Every byte string has exactly one such decomposition (`parse`, `parse_parsed`).
  * `nonBlank`: blank lines are skipped.
-/
import ChessVerif.Model.Tuner

namespace ChessVerif.Tuner.Spec

/-- The ranges, in order, are non-empty, start where the previous one stopped, begin at `lo` and end at `hi`. -/
def Tiles : List Range → Nat → Nat → Prop
  | [], lo, hi => lo = hi
  | r :: rs, lo, hi => r.start = lo ∧ r.start < r.stop ∧ Tiles rs r.stop hi

/-- The indices of a range. -/
def indices (r : Range) : List Nat := List.range' r.start (r.stop - r.start)

/-- The data-file format. -/
structure Parsed (bytes : List UInt8) (lines : List (List UInt8)) (tail : List UInt8) : Prop where
  eq : bytes = (lines.map (· ++ [NL])).flatten ++ tail
  lines_nonl : ∀ l ∈ lines, NL ∉ l
  tail_nonl : NL ∉ tail

/-- Blank lines are skipped. -/
def nonBlank (lines : List (List UInt8)) : List (List UInt8) := lines.filter (· ≠ [])

/-- Executable parser: (complete lines, unterminated tail). `cur` is the current line, reversed. -/
def parseAux : List UInt8 → List UInt8 → List (List UInt8) × List UInt8
  | [], cur => ([], cur.reverse)
  | b :: rest, cur =>
      if b = NL then
        let r := parseAux rest []
        (cur.reverse :: r.1, r.2)
      else parseAux rest (b :: cur)

def parse (bytes : List UInt8) : List (List UInt8) × List UInt8 := parseAux bytes []

/-- Start/stop offsets of every newline-terminated line (stop is past the `'\n'`), given the offset of the first. -/
def spans : List (List UInt8) → Nat → List LineAddr
  | [], _ => []
  | l :: ls, off => ⟨off, off + l.length + 1⟩ :: spans ls (off + l.length + 1)

/-- Offsets of the non-blank lines. -/
def nonBlankSpans (lines : List (List UInt8)) : List LineAddr :=
  (spans lines 0).filter (fun a => a.stop - a.start > 1)

end ChessVerif.Tuner.Spec
