/-
  C13 — the channel skeleton of /repo/uci/uci.go as an interleaving transition system.

  Processes (one field of `State` each):
    reader   `Driver.readInput`   + `close(d.inputLines)`            uci.go 144-147, 161-170
    handler  `Driver.handleInput` + `close(d.output.channel)`        uci.go 149-152, 186-256, 467-608
             (the synchronous `d.search.Go` call is part of the handler: states `search`/`aborted`)
    intr     the per-search interrupt goroutine of `handleGo`        uci.go 530-588
    writer   `Driver.writeOutput`                                    uci.go 154-156, 172-184
    main     `Run`'s `wg.Wait()`                                     uci.go 158
    the environment: the GUI writing lines into stdin / closing it, the sink accepting a write,
    the hard timer firing, and the search's own progress (info lines, finishing by itself).

  Channels: `inputLines` unbuffered (rendezvous transitions `hRecv`/`iRecv`), `output.channel`
  4-deep FIFO, `ponderHit` 1-deep, `stop`/`searchFin` only ever closed.  `close` of a closed channel,
  send on a closed channel and a negative WaitGroup counter lead to `panic := true`.

  Outside the model (named so that a reader knows): the contents of lines and of messages (only
  their class matters to the skeleton), writes to `d.err`, a malformed `go` (`go wtime` without a
  value returns from handleGo before any channel is made and prints no `bestmove`: not a conforming
  line), the difference between `firstWord` (space/tab) and `strings.Fields` (Unicode space) on
  exotic whitespace, the Go scheduler and memory model (the race detector run of the harness
  supports, but is not part of, the proof).

  One transition = one `Tr` constructor; `fire t s = some s'` iff `t` is enabled in `s` and leads to
  `s'`.  Core Lean only (the trace acceptor `Drv/Uci.lean` executes `fire`).
-/
namespace ChessVerif.Uci

/-- An input line, by the only thing the channel skeleton looks at (`firstWord` / `parts[0]`).
    `go ponder timed`: a well-formed `go` (handleGo does not take the "argument missing" early
    return); `ponder` = `d.ponder ∧ "ponder" ∈ args`, `timed` = `tc.timedMode(stm)`.
    `other ws`: any other line (`uci`, `position`, `setoption`, `fen`, blank, garbage, …); its
    handling by the *handler* performs one `Write` on `d.output` per element of `ws`, `false`
    standing for a zero-length write (`fmt.Fprint(d.output, params.UCIOptions())`, uci.go:207/254,
    is `Write("")` in a non-spsa build). -/
inductive Cmd
  | isready | go (ponder timed : Bool) | stop | ponderhit | quit | other (ws : List Bool)
  deriving DecidableEq, Repr, Hashable

def Cmd.isGo : Cmd → Bool
  | .go _ _ => true
  | _ => false

/-- One message = one `Write` call on `d.output` = one element of `output.channel`.
    `empty`: a zero-length message (travels through the channel, the writer's loop uci.go:174 runs
    zero times for it, so the sink sees nothing). -/
inductive Msg
  | readyok | info | bestmove | other | empty
  deriving DecidableEq, Repr, Hashable

inductive Reader
  | scan                 -- in `d.input.Scan()`                              uci.go:162
  | send (c : Cmd)       -- blocked in `d.inputLines <- line`                uci.go:164
  | closing              -- returned from readInput, before `close`          uci.go:146
  | done
  deriving DecidableEq, Repr, Hashable

inductive Handler
  | recv                 -- `for line := range d.inputLines`                 uci.go:187
  | emit (ws : List Bool) -- remaining `Fprint*(d.output, …)` of this command uci.go:200-254
  | ready                -- `fmt.Fprintln(d.output, "readyok")`              uci.go:251
  | search               -- inside `d.search.Go(...)`                        uci.go:590
  | aborted              -- search saw the abort flag, writes its last info  search.go:73-77
  | closeFin             -- `close(searchFin)`                               uci.go:591
  | wait                 -- `wg.Wait()`                                      uci.go:593
  | best                 -- `fmt.Fprintf(d.output, "bestmove …")`            uci.go:601-605
  | deferClose           -- deferred `close(ponderHit)`                      uci.go:512
  | closeOut             -- `close(d.output.channel)`                        uci.go:151
  | done
  deriving DecidableEq, Repr, Hashable

inductive Intr
  | none                 -- no interrupt goroutine alive
  | select               -- in the `select`                                  uci.go:547
  | ready                -- `fmt.Fprintln(d.output, "readyok")`              uci.go:584
  | hit                  -- `ponderHit <- time.Now()`                        uci.go:567
  | exit                 -- returning: deferred `close(stop)`, `wg.Done`     uci.go:531
  deriving DecidableEq, Repr, Hashable

inductive Writer
  | recv                 -- `for line := range d.output.channel`             uci.go:173
  | write (m : Msg)      -- in `d.output.writer.Write`                       uci.go:175
  | done
  deriving DecidableEq, Repr, Hashable

inductive Main
  | waiting | returned   -- `wg.Wait()` of Run                               uci.go:158
  deriving DecidableEq, Repr, Hashable

/-- Who received an input line. -/
inductive Rcv | handler | intr
  deriving DecidableEq, Repr, Hashable

/-- Ghost log entry: a message was *sent* on the output channel, or the handler started a search. -/
inductive Ev | go | msg (m : Msg)
  deriving DecidableEq, Repr, Hashable

/-- `OutputBufDepth` (uci.go:30). -/
def outDepth : Nat := 4

structure State where
  -- environment (GUI)
  script     : List Cmd      -- lines the GUI has not written yet
  pipe       : List Cmd      -- written to stdin, not yet returned by `Scan`
  pipeEof    : Bool          -- stdin closed by the GUI
  awaiting   : Bool          -- the GUI wrote a `go` and has not yet read its `bestmove`
  -- goroutines
  reader     : Reader
  handler    : Handler
  intr       : Intr
  writer     : Writer
  main       : Main
  -- channels
  inClosed   : Bool          -- `d.inputLines` closed
  out        : List Msg      -- `d.output.channel` buffer (FIFO, head = oldest)
  outClosed  : Bool
  stopClosed : Bool          -- `stop` of the current `go`
  finClosed  : Bool          -- `searchFin` of the current `go`
  phBuf      : Nat           -- `ponderHit` buffer fill (capacity 1)
  phClosed   : Bool
  -- locals of the current handleGo / interrupt goroutine / search
  ponder     : Bool          -- `ponder`
  timed      : Bool          -- `tc.timedMode(stm)`
  iPh        : Bool          -- interrupt goroutine's `ponderHit != nil`
  sPh        : Bool          -- search's `opts.PonderHit != nil`
  timer      : Bool          -- `hardC` armed
  quit       : Bool          -- `quit` result of handleGo (uci.go:580; unused by the caller)
  -- WaitGroups
  runWg      : Int           -- `wg` of Run
  goWg       : Int           -- `wg` of handleGo
  panic      : Bool
  -- ghost history (no transition reads it)
  log        : List Ev              -- sends on the output channel / search starts, in order
  written    : List Msg             -- what the sink has received, in order
  consumed   : List (Rcv × Cmd)     -- who received which line, in order
  deriving DecidableEq, Repr, Hashable

def init (script : List Cmd) : State :=
  { script := script, pipe := [], pipeEof := false, awaiting := false,
    reader := .scan, handler := .recv, intr := .none, writer := .recv, main := .waiting,
    inClosed := false, out := [], outClosed := false, stopClosed := false, finClosed := false,
    phBuf := 0, phClosed := false, ponder := false, timed := false, iPh := false, sPh := false,
    timer := false, quit := false,
    runWg := 3,                      -- three `wg.Go` in Run (uci.go:144-156)
    goWg := 0, panic := false, log := [], written := [], consumed := [] }

/-- Transition names.  `env*`, `timer`: environment.  `s*`: the search's own progress.
    `r*` reader, `h*` handler, `i*` interrupt goroutine, `w*` writer, `mReturn` Run. -/
inductive Tr
  | envLine | envEof | timer
  | sInfo | sDone | sAbortSelf | sPollHit
  | rScan | rEof | rSendClosed | rClose
  | hRecv | hClosed | hEmit | hEmitDone | hReady | hStop | hAbortInfo | hCloseFin | hWait | hBest
  | hDefer | hCloseOut
  | iRecv | iFin | iClosed | iReady | iHit | iExit
  | wRecv | wSink | wDone
  | mReturn
  deriving DecidableEq, Repr, Hashable

def Tr.all : List Tr :=
  [.envLine, .envEof, .timer, .sInfo, .sDone, .sAbortSelf, .sPollHit,
   .rScan, .rEof, .rSendClosed, .rClose,
   .hRecv, .hClosed, .hEmit, .hEmitDone, .hReady, .hStop, .hAbortInfo, .hCloseFin, .hWait, .hBest,
   .hDefer, .hCloseOut, .iRecv, .iFin, .iClosed, .iReady, .iHit, .iExit, .wRecv, .wSink, .wDone,
   .mReturn]

/-- `d.output.channel <- m` (output.Write, uci.go:79), then `k`.  Panics on a closed channel,
    blocks (`none`) while 4 messages are buffered. -/
def send (m : Msg) (s : State) (k : State → State) : Option State :=
  if s.outClosed then some { s with panic := true }
  else if s.out.length < outDepth then
    some (k { s with out := s.out ++ [m], log := s.log ++ [.msg m] })
  else none

/-- `wg.Done()` on Run's WaitGroup. -/
def runDone (s : State) : State :=
  if s.runWg ≤ 0 then { s with panic := true } else { s with runWg := s.runWg - 1 }

/-- The reader after its send on `inputLines` completed (uci.go:166-168). -/
def readerAfter (c : Cmd) : Reader := if c = .quit then .closing else .scan

/-- `handleCommand` dispatch on a received line (uci.go:198-255), plus the start of `handleGo`:
    fresh `stop`, `searchFin`, `ponderHit` (if pondering), `wg.Go(interrupt goroutine)`, hard timer
    armed iff `!ponder && timed` (uci.go:508-539), then the call of `d.search.Go` (uci.go:590). -/
def dispatch (c : Cmd) (s : State) : State :=
  match c with
  | .isready => { s with handler := .ready }
  | .other ws => { s with handler := .emit ws }
  | .go p t  => { s with handler := .search, intr := .select, goWg := s.goWg + 1,
                         stopClosed := false, finClosed := false, phBuf := 0, phClosed := false,
                         ponder := p, timed := t, iPh := p, sPh := p, timer := (!p && t),
                         quit := false, log := s.log ++ [.go] }
  | _        => s            -- quit (uci.go:247), stop, ponderhit: nothing

/-- The interrupt goroutine's `switch cmd` (uci.go:563-585). -/
def intrDispatch (c : Cmd) (s : State) : State :=
  match c with
  | .ponderhit => if s.iPh then { s with intr := .hit }
                  else { s with timer := s.timer || (s.ponder && s.timed) }
  | .stop      => { s with intr := .exit }
  | .quit      => { s with intr := .exit, quit := true }
  | .isready   => { s with intr := .ready }
  | _          => s          -- any other line is dropped (uci.go:563: no default case)

def fire (t : Tr) (s : State) : Option State :=
  match t with
  /- ---------------- environment ---------------- -/
  -- The GUI writes its next line to stdin.  Protocol conformance: a `go` is written only when no
  -- `bestmove` is outstanding.  Everything else may be written at any time.
  | .envLine =>
    match s.script with
    | c :: rest =>
      if !s.pipeEof && !(c.isGo && s.awaiting) then
        some { s with script := rest, pipe := s.pipe ++ [c], awaiting := s.awaiting || c.isGo }
      else none
    | [] => none
  -- The GUI closes stdin (at any time).
  | .envEof => if !s.pipeEof then some { s with pipeEof := true } else none
  -- `<-hardC` (uci.go:552): the hard timer fires while the interrupt goroutine selects.
  | .timer => if s.intr = .select ∧ s.timer then some { s with intr := .exit } else none
  /- ---------------- the search's own progress (inside d.search.Go) ---------------- -/
  -- an `info …` line (search.go:133), written through d.output
  | .sInfo => if s.handler = .search then send .info s id else none
  -- the search returns by itself: depth / soft time / soft nodes reached (search.go:137-144)
  | .sDone => if s.handler = .search then some { s with handler := .closeFin } else none
  -- node limit hit: `s.aborted = true` (search.go:168)
  | .sAbortSelf => if s.handler = .search then some { s with handler := .aborted } else none
  -- `case base = <-opts.PonderHit: opts.PonderHit = nil` (search.go:119-125)
  | .sPollHit =>
    if s.handler = .search ∧ s.sPh ∧ 0 < s.phBuf then
      some { s with phBuf := s.phBuf - 1, sPh := false }
    else none
  /- ---------------- reader ---------------- -/
  -- `d.input.Scan()` returns a line (uci.go:162-163)
  | .rScan =>
    match s.pipe with
    | c :: rest => if s.reader = .scan then some { s with reader := .send c, pipe := rest } else none
    | [] => none
  -- `d.input.Scan()` returns false (uci.go:162)
  | .rEof =>
    if s.reader = .scan ∧ s.pipe = [] ∧ s.pipeEof then some { s with reader := .closing } else none
  -- a send on a closed `inputLines` would panic
  | .rSendClosed =>
    match s.reader with
    | .send _ => if s.inClosed then some { s with panic := true } else none
    | _ => none
  -- `close(d.inputLines)` and the goroutine's `wg.Done` (uci.go:146)
  | .rClose =>
    if s.reader = .closing then
      if s.inClosed then some { s with panic := true }
      else some (runDone { s with inClosed := true, reader := .done })
    else none
  /- ---------------- handler ---------------- -/
  -- rendezvous reader → handler on `inputLines` (uci.go:164 / 187), then handleCommand's switch
  | .hRecv =>
    match s.reader with
    | .send c =>
      if s.handler = .recv ∧ !s.inClosed then
        some (dispatch c { s with reader := readerAfter c, consumed := s.consumed ++ [(.handler, c)] })
      else none
    | _ => none
  -- `range d.inputLines` ends: channel closed (uci.go:187)
  | .hClosed =>
    if s.handler = .recv ∧ s.inClosed then some { s with handler := .closeOut } else none
  -- one `Fprint*(d.output, …)` of an `other` command
  | .hEmit =>
    match s.handler with
    | .emit (w :: ws) => send (if w then .other else .empty) s (fun s => { s with handler := .emit ws })
    | _ => none
  | .hEmitDone => if s.handler = .emit [] then some { s with handler := .recv } else none
  -- `case "isready": fmt.Fprintln(d.output, "readyok")` (uci.go:250-251)
  | .hReady => if s.handler = .ready then send .readyok s (fun s => { s with handler := .recv }) else none
  -- the search polls `opts.Stop` and finds it closed (search.go:151-155).
  -- ENVIRONMENT ASSUMPTION 1: once `stop` is closed this step is enabled (the search polls).
  | .hStop =>
    if s.handler = .search ∧ s.stopClosed then some { s with handler := .aborted } else none
  -- aborted search: final `info depth … nodes …` (search.go:75-77), then `Go` returns
  | .hAbortInfo =>
    if s.handler = .aborted then send .info s (fun s => { s with handler := .closeFin }) else none
  -- `close(searchFin)` (uci.go:591)
  | .hCloseFin =>
    if s.handler = .closeFin then
      if s.finClosed then some { s with panic := true }
      else some { s with finClosed := true, handler := .wait }
    else none
  -- `wg.Wait()` (uci.go:593)
  | .hWait => if s.handler = .wait ∧ s.goWg = 0 then some { s with handler := .best } else none
  -- `fmt.Fprintf(d.output, "bestmove …")` (uci.go:601-605)
  | .hBest => if s.handler = .best then send .bestmove s (fun s => { s with handler := .deferClose }) else none
  -- deferred `close(ponderHit)` (uci.go:512), return to the range loop (uci.go:217-219: the
  -- `quit` result only makes handleCommand return, the loop goes on)
  | .hDefer =>
    if s.handler = .deferClose then
      if s.ponder then
        if s.phClosed then some { s with panic := true }
        else some { s with phClosed := true, handler := .recv }
      else some { s with handler := .recv }
    else none
  -- `close(d.output.channel)` and `wg.Done` (uci.go:151)
  | .hCloseOut =>
    if s.handler = .closeOut then
      if s.outClosed then some { s with panic := true }
      else some (runDone { s with outClosed := true, handler := .done })
    else none
  /- ---------------- interrupt goroutine ---------------- -/
  -- rendezvous reader → interrupt goroutine: `case line, ok := <-d.inputLines` with ok (uci.go:555)
  | .iRecv =>
    match s.reader with
    | .send c =>
      if s.intr = .select ∧ !s.inClosed then
        some (intrDispatch c { s with reader := readerAfter c, consumed := s.consumed ++ [(.intr, c)] })
      else none
    | _ => none
  -- `case <-searchFin: return` (uci.go:549)
  | .iFin => if s.intr = .select ∧ s.finClosed then some { s with intr := .exit } else none
  -- `if !ok { return }` (uci.go:557)
  | .iClosed => if s.intr = .select ∧ s.inClosed then some { s with intr := .exit } else none
  -- `case "isready": fmt.Fprintln(d.output, "readyok")` (uci.go:583-584)
  | .iReady => if s.intr = .ready then send .readyok s (fun s => { s with intr := .select }) else none
  -- `ponderHit <- time.Now(); ponderHit = nil`, then possibly arm the hard timer (uci.go:566-574)
  | .iHit =>
    if s.intr = .hit then
      if s.phClosed then some { s with panic := true }
      else if s.phBuf < 1 then
        some { s with phBuf := s.phBuf + 1, iPh := false, intr := .select,
                      timer := s.timer || (s.ponder && s.timed) }
      else none
    else none
  -- deferred `close(stop)` (uci.go:531) and `wg.Done`
  | .iExit =>
    if s.intr = .exit then
      if s.stopClosed ∨ s.goWg ≤ 0 then some { s with panic := true }
      else some { s with stopClosed := true, goWg := s.goWg - 1, intr := .none }
    else none
  /- ---------------- writer ---------------- -/
  -- `line := <-d.output.channel` (uci.go:173)
  | .wRecv =>
    match s.out with
    | m :: rest => if s.writer = .recv then some { s with writer := .write m, out := rest } else none
    | [] => none
  -- the whole message is handed to the sink (uci.go:174-181; one goroutine, consecutive writes;
  -- for `Msg.empty` the loop body runs zero times and `written` records that nothing was written).
  -- ENVIRONMENT ASSUMPTION 2: the sink accepts the write (always enabled in `write m`).
  -- The GUI reading a `bestmove` ends its wait.
  | .wSink =>
    match s.writer with
    | .write m => some { s with writer := .recv, written := s.written ++ [m],
                                awaiting := s.awaiting && !(m = .bestmove) }
    | _ => none
  -- `range d.output.channel` ends: closed and drained; `wg.Done` (uci.go:173, 154-156)
  | .wDone =>
    if s.writer = .recv ∧ s.out = [] ∧ s.outClosed then some (runDone { s with writer := .done }) else none
  /- ---------------- Run ---------------- -/
  -- `wg.Wait()` returns (uci.go:158)
  | .mReturn => if s.main = .waiting ∧ s.runWg = 0 then some { s with main := .returned } else none

/-- Classification of transitions for the progress theorems. -/
inductive Kind
  | env          -- the GUI / the timer: may or may not happen
  | searchOwn    -- the search's own progress: may or may not happen (`go infinite` never finishes)
  | internal     -- a step of the driver's goroutines (incl. the two environment assumptions)
  deriving DecidableEq, Repr

def Tr.kind : Tr → Kind
  | .envLine | .envEof | .timer => .env
  | .sInfo | .sDone | .sAbortSelf | .sPollHit => .searchOwn
  | _ => .internal

def Step (s s' : State) : Prop := ∃ t, fire t s = some s'

/-- States reachable from the initial state for `script` under any interleaving. -/
inductive Reachable (script : List Cmd) : State → Prop
  | init : Reachable script (init script)
  | step {s s'} (t : Tr) : Reachable script s → fire t s = some s' → Reachable script s'

/-- Every goroutine of the driver has ended and `Run` has returned. -/
def Terminated (s : State) : Prop :=
  s.reader = .done ∧ s.handler = .done ∧ s.writer = .done ∧ s.intr = .none ∧ s.main = .returned

/-- Between `go` received and `bestmove` sent (uci.go:595-600: "search is running"). -/
def Handler.busy : Handler → Bool
  | .search | .aborted | .closeFin | .wait | .best => true
  | _ => false

/-! ### The output language

`log` is in the prefix closure of `((readyok|other|empty)* go (info|readyok)* bestmove)*`: a two-state
acceptor, `false` = idle, `true` = a search is outstanding. -/

def phaseStep : Bool → Ev → Option Bool
  | false, .go            => some true
  | false, .msg .readyok  => some false
  | false, .msg .other    => some false
  | false, .msg .empty    => some false
  | true,  .msg .info     => some true
  | true,  .msg .readyok  => some true
  | true,  .msg .bestmove => some false
  | _, _                  => none

def runPhase : Bool → List Ev → Option Bool
  | b, [] => some b
  | b, e :: es => match phaseStep b e with
    | some b' => runPhase b' es
    | none => none

/-- The messages of a log (search-start markers erased). -/
def msgsOf : List Ev → List Msg
  | [] => []
  | .go :: es => msgsOf es
  | .msg m :: es => m :: msgsOf es

/-- The message the writer holds. -/
def Writer.held : Writer → List Msg
  | .write m => [m]
  | _ => []

/-- The line the reader holds. -/
def Reader.held : Reader → List Cmd
  | .send c => [c]
  | _ => []

/-! ### Externally visible events (for the trace acceptor) -/

inductive Obs
  | inp (c : Cmd)     -- the GUI wrote a line
  | eof               -- the GUI closed stdin
  | out (m : Msg)     -- the sink received a message
  | ret               -- Run returned
  | sdone             -- (mock search only) the search returned by itself
  | sstop             -- (mock search only) the search observed the closed stop channel
  deriving DecidableEq, Repr, Hashable

/-- The visible label of firing `t` in `s` (`none`: invisible). `mock`: search events are visible. -/
def obsOf (mock : Bool) (t : Tr) (s : State) : Option Obs :=
  match t with
  | .envLine => s.script.head?.map .inp
  | .envEof => some .eof
  | .wSink => match s.writer with
    | .write m => if m = .empty then none else some (.out m)
    | _ => none
  | .mReturn => some .ret
  | .sDone | .sAbortSelf => if mock then some .sdone else none
  | .hStop => if mock then some .sstop else none
  | _ => none

end ChessVerif.Uci
