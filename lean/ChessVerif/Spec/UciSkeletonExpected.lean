/-
  C13 — what the transition system `Spec/UciProtocol.lean` ASSUMES about the order and kind of the
  concurrency-relevant operations of /repo/uci/uci.go, in the vocabulary of the regenerated
  `Gen/UciSkeleton.lean` (`Ev`).  Hand-written from the model: every event below names the
  transition(s) / state component / definition of `ChessVerif.Uci` that depend on it.
  `Props/C13skeleton.lean` proves that the lists extracted from the Go source are these lists.

  Naming (fixed by the extractor, independent of the Go spelling of local variables): the receiver
  is printed as its type; a struct field used as channel / pool / writer operand as
  `<struct>.<field>`; locals as c<k> (channels), t<k> (timers), w<k> (WaitGroups), x<k> (others),
  numbered per function in order of first appearance in the list.

  Left out of BOTH lists (the extractor skips every statement that contains no value of a channel,
  sync/atomic/context, timer or *output type, no send/receive/select/go/defer/return/break/function
  literal, no call of close/copy/slices.Clone/panic/os.Exit/runtime.*/time.Sleep or of a
  Driver/output/Search method, and no assignment to a followed variable; it dies on any statement
  that does contain one of these and has no known shape), because the model abstracts from them too:
    * writes to `d.err` (UciProtocol.lean header: "Outside the model");
    * the parsing of the `go` arguments, `tc`, `stm`, `ponder = d.ponder`, the search options other
      than WithPonderHit/WithOutput/WithStop (the model takes `ponder`/`timed` as the parameters of
      `Cmd.go` and does not look at depth/nodes/soft time), `d.debug`;
    * the contents of messages: of `fmt.Fprint*(d.output, "lit …")` only the first word of the
      literal is kept (`Msg` is a message class);
    * the bodies of handlePosition / handleSetOption / applyMoves: `touching` shows that they contain
      no concurrency object at all (a line handled by them is a `Cmd.other []`).
  Kept although the model excludes the path by a stated assumption, so that the SCOPE of the
  assumption is checked: the "argument missing" return of handleGo (it must come before any channel
  is made, UciProtocol.lean header), the early returns of handlePerft, the `break` on a sink error
  in writeOutput (environment assumption 2 of `wSink`).
-/
import ChessVerif.Gen.UciSkeleton
import ChessVerif.Spec.UciProtocol

namespace ChessVerif.Spec.UciSkeletonExpected
open ChessVerif.Gen.UciSkeleton (Ev)

/-- `Run` (uci.go:139-159).  `init`: `inClosed := false`, `out := []`, `runWg := 3`; processes
    reader / handler / writer / main. -/
def run : List Ev := [
  .make "Driver.inputLines" 0,              -- unbuffered: `hRecv`/`iRecv` are rendezvous with `Reader.send`
  .make "output.channel" Uci.outDepth,      -- `send` blocks while `out.length ≥ outDepth`
  .assign "w0" "sync.WaitGroup{}",          -- `runWg`
  .goBegin "w0",                            -- process `reader`
    .call "Driver.readInput()",
    .close "Driver.inputLines",             -- `rClose`: by the reader, after readInput returned; then runDone
  .goEnd,
  .goBegin "w0",                            -- process `handler`
    .call "Driver.handleInput()",
    .close "output.channel",                -- `hCloseOut`: by the handler, after handleInput returned; then runDone
  .goEnd,
  .goBegin "w0",                            -- process `writer`
    .call "Driver.writeOutput()",           -- `wDone`: runDone, nothing closed
  .goEnd,
  .wait "w0"                                -- `mReturn`: `runWg = 0`
]

/-- `readInput` (uci.go:161-170): `Reader.scan` → `send c` → `readerAfter c`. -/
def readInput : List Ev := [
  .forBegin "Driver.input.Scan()",          -- `rScan` (true) / `rEof` (false → `closing`)
    .assign "x0" "Driver.input.Text()",
    .send "Driver.inputLines" "x0",         -- `Reader.send c`, completed by `hRecv` / `iRecv`
    .ifBegin "firstWord(x0) == \"quit\"",   -- `readerAfter`: tested AFTER the send completed
      .ret "",                              --   quit → `closing`
    .ifEnd,
  .loopEnd                                  --   otherwise → `scan`
]

/-- `handleInput` (uci.go:186-190): `hRecv` then `dispatch`; `hClosed` when the channel is closed. -/
def handleInput : List Ev := [
  .rangeBegin "Driver.inputLines" "x0",
    .call "Driver.handleCommand(x0)",
  .loopEnd
]

/-- `writeOutput` (uci.go:172-184): `wRecv`, `wSink`, `wDone`. -/
def writeOutput : List Ev := [
  .rangeBegin "output.channel" "x0",        -- `wRecv` (head of `out`) / `wDone` (closed and drained)
    .forBegin "x1 := 0; x1 < len(*x0); ",   -- `wSink`: the whole message, by this one goroutine
      .sinkWrite "output.writer" "(*x0)[x1:]",
      .ifBegin "x2 != nil",                 -- sink error: excluded by environment assumption 2
        .brk,
      .ifEnd,
    .loopEnd,
    .poolPut "output.pool" "x0",            -- the buffer is recycled only AFTER the write loop: `Writer.write m`
  .loopEnd                                  --   holds an immutable whole message (checks.json: Pool buffers as whole messages)
]

/-- `output.Write` (uci.go:68-81): the model's `send m`: one `Write` = one channel element, its
    contents fixed before it is sent. -/
def outputWrite : List Ev := [
  .poolGet "output.pool" "x0",
  .ifBegin "x1 && cap(*x0) >= len(x2)",
    .assign "*x0" "(*x0)[:len(x2)]",
    .copy "*x0" "x2",                       -- copy of the caller's bytes into the pooled buffer …
  .elseBegin,
    .clone "x3" "x2",                       -- … or into a fresh clone
    .assign "x0" "&x3",
  .ifEnd,
  .send "output.channel" "x0",              -- THEN the send (`out := out ++ [m]`, blocking at outDepth)
  .ret "len(x2), nil"
]

/-- `handleCommand` (uci.go:192-256): `dispatch`.  Answered by the handler itself: `isready`
    (`Handler.ready`, `hReady`) and the `Cmd.other ws` lines (`Handler.emit ws`: one element of `ws`
    per write below; `writeExpr … params.UCIOptions()/OpenbenchInfo()` are the zero-length writes
    of a non-spsa build).  `go` → handleGo.  `quit`, and `stop`/`ponderhit` (no case, no default):
    nothing (`dispatch`'s last arm). -/
def handleCommand : List Ev := [
  .assign "x0" "strings.Fields(x1)",
  .ifBegin "len(x0) == 0",                  -- blank line: `other []`
    .ret "",
  .ifEnd,
  .switchBegin "x0[0]",
    .case ["uci"],                          -- harness: `other [1,1,1,1,1,0,1]`
    .write "Driver.output" "id",
    .write "Driver.output" "id",
    .write "Driver.output" "option",
    .write "Driver.output" "option",
    .write "Driver.output" "option",
    .writeExpr "Driver.output" "params.UCIOptions()",
    .write "Driver.output" "uciok",
    .case ["ucinewgame"],                   -- `other []`
    .call "Driver.search.Clear()",
    .case ["position"],                     -- `other []`
    .call "Driver.handlePosition(x0[1:])",
    .case ["go"],                           -- `dispatch (.go p t)`
    .ifBegin "Driver.handleGo(x0[1:])",     -- `hDefer`: the `quit` result only makes handleCommand return
      .ret "",
    .ifEnd,
    .case ["fen"],                          -- `other [1]`
    .writeExpr "Driver.output" "Driver.board.FEN()",
    .case ["setoption"],                    -- `other []`
    .call "Driver.handleSetOption(x0[1:])",
    .case ["eval"],                         -- `other [1]`
    .call "Driver.handleEval()",
    .case ["perft"],                        -- `other [1]`
    .call "Driver.handlePerft(x0[1:])",
    .case ["debug"],                        -- `other []`
    .ifBegin "len(x0) < 2",
      .brk,
    .ifEnd,
    .case ["quit"],                         -- `dispatch .quit = id`; the reader ends the session
    .ret "",
    .case ["isready"],                      -- `Handler.ready` → `hReady`
    .write "Driver.output" "readyok",
    .case ["spsa"],                         -- `other [0]`
    .writeExpr "Driver.output" "params.OpenbenchInfo()",
  .switchEnd
]

/-- `handleGo` (uci.go:467-608).  c0 = ponderHit, c1 = stop, c2 = searchFin, c3 = hardC,
    t0 = hardTimer, w0 = wg, x2 = ponder, x3 = tc, x4 = stm, x5/x6 = line/ok, x7 = cmd, x8 = quit. -/
def handleGo : List Ev := [
  -- malformed `go`: returns BEFORE any channel is made / goroutine started (header of the model)
  .forBegin "x0 := range x1",
    .ifBegin "slices.Contains([]string{\"wtime\", \"btime\", \"winc\", \"binc\", \"depth\", \"nodes\", \"movetime\"}, x1[x0]) && len(x1) <= x0+1",
      .ret "false",
    .ifEnd,
  .loopEnd,
  -- `dispatch (.go p t)`: fresh channels, `iPh := p`, `sPh := p`
  .decl "c0" "chan time.Time",              -- ponderHit is nil unless pondering: `iPh := p`
  .ifBegin "x2",
    .make "c0" 1,                           -- `iHit`: enabled while `phBuf < 1`
    .searchOpt "WithPonderHit" "c0",        -- `sPh := p`, `sPollHit`
    .deferClose "c0",                       -- `hDefer` (after `hBest`), only `if s.ponder`
  .ifEnd,
  .searchOpt "WithOutput" "Driver.output",  -- `sInfo`, `hAbortInfo`: the search writes through `send`
  .make "c1" 0,                             -- `stopClosed := false`; only ever closed
  .make "c2" 0,                             -- `finClosed := false`; only ever closed
  .searchOpt "WithStop" "c1",               -- `hStop`: the search polls the channel `iExit` closes
  .assign "w0" "sync.WaitGroup{}",          -- `goWg`
  .goBegin "w0",                            -- `intr := .select`, `goWg + 1`
    .deferClose "c1",                       -- `iExit`: on EVERY return of the goroutine, then wg.Done
    .decl "t0" "*time.Timer",
    .decl "c3" "<-chan time.Time",          -- nil (never ready) unless armed: `timer`
    .ifBegin "!x2 && x3.timedMode(x4)",     -- `timer := (!p && t)`
      .assign "t0" "time.NewTimer(time.Duration(x3.hardLimit(x4)) * time.Millisecond)",
      .assign "c3" "t0.C",
      .deferCall "t0.Stop()",
    .ifEnd,
    .forBegin "",                           -- `Intr.select` is re-entered after `iReady`, `iHit`, dropped lines
      .selectBegin,
        .caseRecv "c2" "" "",               -- `iFin`
        .ret "",
        .caseRecv "c3" "" "",               -- `timer`
        .ret "",
        .caseRecv "Driver.inputLines" "x5" "x6",   -- `iRecv` / `iClosed`
        .ifBegin "!x6",
          .ret "",                          -- `iClosed`
        .ifEnd,
        .assign "x7" "firstWord(x5)",
        .switchBegin "x7",                  -- `intrDispatch`; no default: any other line is dropped
          .case ["ponderhit"],
          .ifBegin "c0 != nil",             -- `if s.iPh`
            .send "c0" "time.Now()",        -- `Intr.hit` → `iHit`: `phBuf + 1`
            .assign "c0" "nil",             -- `iPh := false`
          .ifEnd,
          .ifBegin "x2 && x3.timedMode(x4)",   -- `timer := s.timer || (s.ponder && s.timed)`, in both arms
            .assign "t0" "time.NewTimer(time.Duration(x3.hardLimit(x4)) * time.Millisecond)",
            .assign "c3" "t0.C",
            .deferCall "t0.Stop()",
          .ifEnd,
          .case ["stop"],                   -- `intr := .exit`
          .ret "",
          .case ["quit"],                   -- `intr := .exit, quit := true`
          .assign "x8" "true",
          .ret "",
          .case ["isready"],                -- `Intr.ready` → `iReady` → back to `select`
          .write "Driver.output" "readyok",
        .switchEnd,
      .selectEnd,
    .loopEnd,
  .goEnd,
  .call "Driver.search.Go(Driver.board, x9...)",   -- `Handler.search` / `aborted` (synchronous)
  .close "c2",                              -- `hCloseFin`
  .wait "w0",                               -- `hWait`: `goWg = 0`, i.e. AFTER `iExit`
  .ifBegin "x10 != 0 && Driver.ponder",     -- `hBest`: exactly one bestmove message, AFTER `hWait`
    .write "Driver.output" "bestmove",
  .elseBegin,
    .write "Driver.output" "bestmove",
  .ifEnd,
  .ret "x8"                                 -- then the deferred close: `hDefer`
]

/-- `handleEval` (uci.go:406-408): `other [1]`. -/
def handleEval : List Ev := [
  .writeExpr "Driver.output" "eval.Eval(Driver.board, &eval.Coefficients)"
]

/-- `handlePerft` (uci.go:258-280): `other [1]` for a well-formed line (`other []` on the three
    error returns, which write to `d.err` only). -/
def handlePerft : List Ev := [
  .ifBegin "len(x0) < 1",
    .ret "",
  .ifEnd,
  .ifBegin "x1 != nil",
    .ret "",
  .ifEnd,
  .ifBegin "x2 < 0 || x2 > 30",
    .ret "",
  .ifEnd,
  .write "Driver.output" "%.4f"
]

/-- Every function of package uci that touches a concurrency object is one of the nine above, or a
    constructor that runs before `Run` (`NewDriver`, `newOutput`: the channel field is nil until
    `Run` makes it, uci.go:131/141). -/
def touching : List String :=
  ["Driver.Run", "Driver.handleCommand", "Driver.handleEval", "Driver.handleGo", "Driver.handleInput",
   "Driver.handlePerft", "Driver.readInput", "Driver.writeOutput", "NewDriver", "newOutput", "output.Write"]

def all : List (String × List Ev) := [
  ("Driver.Run", run),
  ("Driver.readInput", readInput),
  ("Driver.handleInput", handleInput),
  ("Driver.writeOutput", writeOutput),
  ("output.Write", outputWrite),
  ("Driver.handleCommand", handleCommand),
  ("Driver.handleGo", handleGo),
  ("Driver.handleEval", handleEval),
  ("Driver.handlePerft", handlePerft)
]

end ChessVerif.Spec.UciSkeletonExpected
