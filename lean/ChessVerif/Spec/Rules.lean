/-
  The rules of chess (FIDE Laws of Chess, articles 3 and 9.2), written from the rule book on a plain
  position — a square → man map, the side to move, four castling rights, the en-passant target and
  the two counters.  This file shares nothing with the bitboard model except the numbering of squares
  (`s = 8*rank + file`, a1 = 0).  It is meant to be read in minutes: it is the specification against
  which C01 / C02 / C05 / C09 / C10 are stated and against which the implementation is compared.
  Core Lean only, executable.
-/
import ChessVerif.Basic

namespace ChessVerif
namespace Rules

abbrev Man := Color × Piece

structure Rights where
  wk : Bool   -- White may still castle king side
  wq : Bool
  bk : Bool
  bq : Bool
  deriving DecidableEq, Repr

structure Pos where
  men : Vector (Option Man) 64
  turn : Color
  rights : Rights
  ep : Option Nat          -- square passed over by the pawn that has just advanced two squares
  halfmove : Int
  fullmove : Int
  deriving DecidableEq

/-- a move: origin, destination, and the piece a pawn promotes to. -/
structure Mv where
  src : Nat
  dst : Nat
  promo : Option Piece
  deriving DecidableEq, Repr

namespace Pos

@[inline] def at_ (p : Pos) (s : Nat) : Option Man := (p.men.getD s none)
@[inline] def empty (p : Pos) (s : Nat) : Bool := (p.at_ s).isNone
@[inline] def hasColor (p : Pos) (s : Nat) (c : Color) : Bool :=
  match p.at_ s with | some (c', _) => c' == c | none => false
@[inline] def has (p : Pos) (s : Nat) (c : Color) (k : Piece) : Bool := p.at_ s == some (c, k)

end Pos

def file (s : Nat) : Int := (s % 8 : Nat)
def rank (s : Nat) : Int := (s / 8 : Nat)

/-- the square at (file f, rank r) if it is on the board. -/
def square? (f r : Int) : Option Nat :=
  if 0 ≤ f ∧ f < 8 ∧ 0 ≤ r ∧ r < 8 then some (8 * r + f).toNat else none

def sgn (x : Int) : Int := if x < 0 then -1 else if x > 0 then 1 else 0

/-- `a` and `b` are distinct squares on a common file, rank or diagonal. -/
def aligned (a b : Nat) : Bool :=
  a ≠ b && (file a == file b || rank a == rank b || (file a - file b).natAbs == (rank a - rank b).natAbs)

/-- the squares strictly between two aligned squares, walking from `a` towards `b`. -/
def between (a b : Nat) : List Nat :=
  if aligned a b then
    let df := sgn (file b - file a)
    let dr := sgn (rank b - rank a)
    let n := max (file b - file a).natAbs (rank b - rank a).natAbs
    (List.range (n - 1)).filterMap fun k => square? (file a + df * (k + 1 : Nat)) (rank a + dr * (k + 1 : Nat))
  else []

/-- every square strictly between `a` and `b` is vacant (art. 3.5: pieces cannot jump). -/
def clearBetween (p : Pos) (a b : Nat) : Bool := (between a b).all p.empty

/-- direction of advance of a colour's pawns. -/
def up (c : Color) : Int := match c with | .white => 1 | .black => -1

/-- art. 3.1.2 / 3.2–3.9: the man `m` standing on `a` attacks square `t`
    (a square is attacked even if the attacking piece is pinned). -/
def manAttacks (p : Pos) (m : Man) (a t : Nat) : Bool :=
  let df := (file t - file a).natAbs
  let dr := (rank t - rank a).natAbs
  match m.2 with
  | .knight => (df == 1 && dr == 2) || (df == 2 && dr == 1)
  | .king => max df dr == 1
  | .bishop => df == dr && df ≠ 0 && clearBetween p a t
  | .rook => ((df == 0) != (dr == 0)) && clearBetween p a t
  | .queen => ((df == dr && df ≠ 0) || ((df == 0) != (dr == 0))) && clearBetween p a t
  | .pawn => df == 1 && rank t - rank a == up m.1
  | .none => false

def attacks (p : Pos) (a t : Nat) : Bool :=
  match p.at_ a with
  | some m => manAttacks p m a t
  | none => false

/-- square `t` is attacked by some man of colour `c`. -/
def attackedBy (p : Pos) (c : Color) (t : Nat) : Bool :=
  (List.range 64).any fun a => p.hasColor a c && attacks p a t

def kingSquares (p : Pos) (c : Color) : List Nat := (List.range 64).filter fun s => p.has s c .king

/-- the king of colour `c` is in check. -/
def inCheck (p : Pos) (c : Color) : Bool := (kingSquares p c).any (attackedBy p c.flip)

def homeRank (c : Color) : Int := match c with | .white => 0 | .black => 7
def lastRank (c : Color) : Int := match c with | .white => 7 | .black => 0

def isPromoPiece (k : Piece) : Bool := k == .knight || k == .bishop || k == .rook || k == .queen

/-- art. 3.8.2: castling with the rook on file `rookFile` (7 = king side, 0 = queen side). -/
def castlingOK (p : Pos) (mv : Mv) : Bool :=
  let c := p.turn
  let r := homeRank c
  let e := (8 * r + 4).toNat
  if mv.src ≠ e then false else
  let side (right : Bool) (rookSq kTo : Nat) (path : List Nat) (vacant : List Nat) : Bool :=
    mv.dst == kTo && right && p.has rookSq c .rook &&
      vacant.all p.empty && path.all (fun s => !(attackedBy p c.flip s))
  let base := (8 * r).toNat
  let rightK := match c with | .white => p.rights.wk | .black => p.rights.bk
  let rightQ := match c with | .white => p.rights.wq | .black => p.rights.bq
  side rightK (base + 7) (base + 6) [base + 4, base + 5, base + 6] [base + 5, base + 6] ||
  side rightQ base (base + 2) [base + 4, base + 3, base + 2] [base + 1, base + 2, base + 3]

/-- the move obeys the way its piece moves (art. 3.2–3.8), disregarding the mover's own king safety. -/
def pseudoLegal (p : Pos) (mv : Mv) : Bool :=
  let c := p.turn
  mv.src < 64 && mv.dst < 64 &&
  match p.at_ mv.src with
  | none => false
  | some (c', k) =>
    c' == c && !(p.hasColor mv.dst c) &&
    match k with
    | .pawn =>
      let promoOK := if rank mv.dst == lastRank c then (match mv.promo with | some q => isPromoPiece q | none => false)
                     else mv.promo.isNone
      let df := file mv.dst - file mv.src
      let dr := rank mv.dst - rank mv.src
      promoOK &&
      ( (df == 0 && dr == up c && p.empty mv.dst) ||
        (df == 0 && dr == 2 * up c && rank mv.src == homeRank c + up c &&
            p.empty mv.dst && (between mv.src mv.dst).all p.empty) ||
        (df.natAbs == 1 && dr == up c && (p.hasColor mv.dst c.flip || p.ep == some mv.dst)) )
    | .king => mv.promo.isNone && (manAttacks p (c, .king) mv.src mv.dst || castlingOK p mv)
    | .none => false
    | _ => mv.promo.isNone && manAttacks p (c, k) mv.src mv.dst

def isCastling (p : Pos) (mv : Mv) : Bool :=
  p.has mv.src p.turn .king && (file mv.dst - file mv.src).natAbs == 2

def isEnPassant (p : Pos) (mv : Mv) : Bool :=
  p.has mv.src p.turn .pawn && p.ep == some mv.dst && file mv.src ≠ file mv.dst && p.empty mv.dst

def isDoublePush (p : Pos) (mv : Mv) : Bool :=
  p.has mv.src p.turn .pawn && (rank mv.dst - rank mv.src).natAbs == 2

def setMan (men : Vector (Option Man) 64) (s : Nat) (m : Option Man) := men.setIfInBounds s m

/-- loss of castling rights (art. 3.8.2.1): the king has moved, or the rook of that side has moved or
    been captured (any move from or to its home square). -/
def rightsAfter (p : Pos) (mv : Mv) : Rights :=
  let touches (s : Nat) : Bool := mv.src == s || mv.dst == s
  let kingMoves (c : Color) : Bool := p.has mv.src c .king
  { wk := p.rights.wk && !(kingMoves .white) && !(touches 7),
    wq := p.rights.wq && !(kingMoves .white) && !(touches 0),
    bk := p.rights.bk && !(kingMoves .black) && !(touches 63),
    bq := p.rights.bq && !(kingMoves .black) && !(touches 56) }

/-- the successor position, with the en-passant target recorded after *every* double advance. -/
def applyCore (p : Pos) (mv : Mv) : Pos :=
  let c := p.turn
  let mover := p.at_ mv.src
  let isPawn := p.has mv.src c .pawn
  let capture := !(p.empty mv.dst) || isEnPassant p mv
  let men := p.men
  -- en passant removes the pawn that stands beside the capturer, on the destination file
  let men := if isEnPassant p mv then setMan men (8 * (mv.src / 8) + mv.dst % 8) none else men
  let men := setMan men mv.src none
  let placed : Option Man := match mv.promo with | some q => some (c, q) | none => mover
  let men := setMan men mv.dst placed
  -- castling moves the rook to the square the king has crossed
  let men :=
    if isCastling p mv then
      let base := 8 * (mv.src / 8)
      if mv.dst % 8 == 6 then setMan (setMan men (base + 7) none) (base + 5) (some (c, .rook))
      else setMan (setMan men base none) (base + 3) (some (c, .rook))
    else men
  { men := men, turn := c.flip, rights := rightsAfter p mv,
    ep := if isDoublePush p mv then some ((mv.src + mv.dst) / 2) else none,
    halfmove := if isPawn || capture then 0 else p.halfmove + 1,
    fullmove := p.fullmove + (if c == .black then 1 else 0) }

/-- art. 3.9: a move is legal if it obeys the piece's movement and does not leave or place the
    mover's own king in check. -/
def legal (p : Pos) (mv : Mv) : Bool := pseudoLegal p mv && !(inCheck (applyCore p mv) p.turn)

def promoChoices : List (Option Piece) := [none, some .knight, some .bishop, some .rook, some .queen]

/-- all legal moves (enumeration of every origin, destination and promotion choice). -/
def legalMoves (p : Pos) : List Mv :=
  (List.range 64).flatMap fun s =>
    if p.hasColor s p.turn then
      (List.range 64).flatMap fun d => promoChoices.filterMap fun q =>
        let mv : Mv := ⟨s, d, q⟩
        if legal p mv then some mv else none
    else []

/-- the legal en-passant captures of a position. -/
def legalEpCaptures (p : Pos) : List Mv := (legalMoves p).filter (isEnPassant p)

/-- the successor position under the engine's documented convention (board/attacks.go CanEnPassant):
    the en-passant target is recorded iff at least one legal en-passant capture exists. -/
def apply (p : Pos) (mv : Mv) : Pos :=
  let q := applyCore p mv
  if (legalEpCaptures q).isEmpty then { q with ep := none } else q

/-- art. 9.2.2: same position for the purpose of repetition — same player to move, pieces of the same
    kind and colour on the same squares, same possible moves (castling rights and en-passant captures). -/
def sameForRepetition (p q : Pos) : Bool :=
  p.men == q.men && p.turn == q.turn && p.rights == q.rights && legalEpCaptures p == legalEpCaptures q

def isCheckmate (p : Pos) : Bool := inCheck p p.turn && (legalMoves p).isEmpty
def isStalemate (p : Pos) : Bool := !(inCheck p p.turn) && (legalMoves p).isEmpty

/-! ### Validity (the domain of the properties) -/

def count (p : Pos) (c : Color) (k : Piece) : Nat := ((List.range 64).filter fun s => p.has s c k).length

/-- "piece counts reachable by promotion": pieces beyond the initial set must be promoted pawns. -/
def promotedBound (p : Pos) (c : Color) : Bool :=
  let extra (k : Piece) (init : Nat) := count p c k - init
  count p c .pawn + extra .knight 2 + extra .bishop 2 + extra .rook 2 + extra .queen 1 ≤ 8

/-- the quantifier text of the properties as a decidable predicate. -/
def valid (p : Pos) : Bool :=
  [Color.white, Color.black].all (fun c => count p c .king == 1 && promotedBound p c) &&
  (List.range 64).all (fun s => !((p.has s .white .pawn || p.has s .black .pawn) && (s / 8 == 0 || s / 8 == 7))) &&
  (List.range 64).all (fun s => match p.at_ s with | some (_, .none) => false | _ => true) &&
  !(inCheck p p.turn.flip) &&
  (!p.rights.wk || (p.has 4 .white .king && p.has 7 .white .rook)) &&
  (!p.rights.wq || (p.has 4 .white .king && p.has 0 .white .rook)) &&
  (!p.rights.bk || (p.has 60 .black .king && p.has 63 .black .rook)) &&
  (!p.rights.bq || (p.has 60 .black .king && p.has 56 .black .rook)) &&
  (match p.ep with
   | none => true
   | some t =>
     -- the target is on the third rank of the side that just moved, vacant, the double-pushed pawn
     -- stands directly in front of it and its origin square behind it is vacant
     let mover := p.turn.flip
     t < 64 && rank t == homeRank mover + 2 * up mover && p.empty t &&
     (match square? (file t) (rank t + up mover), square? (file t) (rank t - up mover) with
      | some front, some back => p.has front mover .pawn && p.empty back
      | _, _ => false)) &&
  0 ≤ p.halfmove && p.halfmove ≤ 100 && 1 ≤ p.fullmove

/-- "en-passant target only directly behind a pawn that COULD JUST HAVE double-pushed": the position
    before that double push (the pawn back on its origin square, the two squares in front of it vacant)
    must itself have been playable, i.e. the side that was not to move then — the side to move now —
    was not in check in it.  (`valid` checks the geometry of the target; this checks that the push
    was possible.  Example excluded: `8/8/5N1k/8/3pP3/8/8/2B1K1R1 b - e3 0 1`, where the bishop on c1
    would already have attacked h6 through e3 before e2-e4.) -/
def epSound (p : Pos) : Bool :=
  match p.ep with
  | none => true
  | some t =>
    let mover := p.turn.flip
    match square? (file t) (rank t + up mover), square? (file t) (rank t - up mover) with
    | some front, some back =>
      let men := setMan (setMan p.men front none) back (some (mover, .pawn))
      !(inCheck { p with men := men, ep := none } p.turn)
    | _, _ => false

/-- the engine's normal form of the en-passant state: recorded only when a capture is legal. -/
def epNormal (p : Pos) : Bool := p.ep.isNone || !(legalEpCaptures p).isEmpty

end Rules
end ChessVerif
