/-
  C18 — the specification of the static exchange test: the textbook minimax over the alternating
  capture sequence on one square (core Lean only, executable).

  * attackers are recomputed FROM SCRATCH from the current occupancy at every step, by coordinate
    arithmetic on the squares (no attack tables, no bitboard tricks): a man on `s` attacks `t` if
    the piece moves that way and every square strictly between is vacant in the CURRENT occupancy
    (so x-ray attackers join as lines open);
  * each side captures with a least valuable attacker; among equally valued ones the code's
    tie-break: knights before bishops, then the lowest square;
  * a side may stop at any point:  `S_k = max 0 (v_k − S_{k+1})`;
  * the king captures only when no enemy attacker remains (in the current occupancy), and then the
    sequence ends;
  * pins are ignored, a recapturing pawn does not promote.

  `seeValue b m = gain₀ − S₁` where `gain₀` is the value of the man captured by `m` (plus the
  promotion gain), `v₁` the value of the man that stands on the destination after `m`.
-/
import ChessVerif.Model.Board
import ChessVerif.Spec.Rules
import ChessVerif.Gen.Heur

namespace ChessVerif
namespace SeeSpec

/-- `heur.PieceValues[p]` (index outside the table: Go panics, here 0). -/
def pv (p : Nat) : Int := Gen.Heur.pieceValues.getD p 0

/-- One capture as the balance sees it: an ordinary piece of value `v`, or the king, which may
    capture (`ok`) only if no enemy attacker remains. -/
inductive Cap where
  | piece (v : Int)
  | king (ok : Bool)
  deriving DecidableEq, Repr

/-- The textbook recursion on the bare sequence of capturers: the best balance the side to move can
    still obtain when the man standing on the square is worth `v` and `l` lists the capturers in
    order (alternating sides):  `S = max 0 (v − S')`, a side may always stop (`0`). -/
def best : Int → List Cap → Int
  | _, [] => 0
  | v, .piece a :: rest => max 0 (v - best a rest)
  | v, .king ok :: _ => if ok then max 0 v else 0

/-! ### Geometry from scratch -/

/-- every square strictly between `s` and `t` is vacant in `occ`. -/
def clear (occ : BB) (s t : Nat) : Bool := (Rules.between s t).all fun q => !(occ.has q)

/-- a man of colour `c` and kind `k` standing on `s` attacks `t` when exactly `occ` is occupied. -/
def manAttacks (occ : BB) (c : Color) (k : Piece) (s t : Nat) : Bool :=
  let df := (Rules.file t - Rules.file s).natAbs
  let dr := (Rules.rank t - Rules.rank s).natAbs
  match k with
  | .pawn => df == 1 && Rules.rank t - Rules.rank s == Rules.up c
  | .knight => (df == 1 && dr == 2) || (df == 2 && dr == 1)
  | .bishop => df == dr && df != 0 && clear occ s t
  | .rook => ((df == 0) != (dr == 0)) && clear occ s t
  | .queen => ((df == dr && df != 0) || ((df == 0) != (dr == 0))) && clear occ s t
  | .king => max df dr == 1
  | .none => false

/-- the men of colour `c` still on the board (`occ`) that attack `t`, ascending by square. -/
def attackersOf (b : Board) (occ : BB) (c : Color) (t : Nat) : List Nat :=
  (List.range 64).filter fun s =>
    occ.has s && (b.colorBB c).has s && manAttacks occ c (b.pieceAt s) s t

/-- least valuable attacker: pawn, knight, bishop, rook, queen, king in this order (so knights go
    before bishops although both are worth 300), the lowest square among equals. -/
def lva (b : Board) (l : List Nat) : Option Nat :=
  l.foldl (fun best s =>
    match best with
    | none => some s
    | some s0 => if (b.pieceAt s).toNat < (b.pieceAt s0).toNat then some s else some s0) none

/-- `gain b t fuel c occ v`: the best balance side `c` (to move) can obtain by capturing the man
    worth `v` on `t`, when exactly `occ` is occupied.  Fuel: every step removes one man. -/
def gain (b : Board) (t : Nat) : Nat → Color → BB → Int → Int
  | 0, _, _, _ => 0
  | fuel + 1, c, occ, v =>
    match lva b (attackersOf b occ c t) with
    | none => 0
    | some s =>
      if b.pieceAt s = .king then
        if (attackersOf b occ c.flip t).isEmpty then max 0 v else 0
      else max 0 (v - gain b t fuel c.flip (occ &&& ~~~ bit s) (pv (b.pieceAt s).toNat))

/-- The same walk, returning the sequence of capturers instead of the balance. -/
def caps (b : Board) (t : Nat) : Nat → Color → BB → List Cap
  | 0, _, _ => []
  | fuel + 1, c, occ =>
    match lva b (attackersOf b occ c t) with
    | none => []
    | some s =>
      if b.pieceAt s = .king then [.king (attackersOf b occ c.flip t).isEmpty]
      else .piece (pv (b.pieceAt s).toNat) :: caps b t fuel c.flip (occ &&& ~~~ bit s)

def fuel : Nat := 65

/-- promotion gain of the move: value of the new piece minus the pawn. -/
def promoVal (m : Move) : Int := if Move.promo m ≠ 0 then pv (Move.promo m) - pv 1 else 0

/-- value of the man the move captures (en passant: the pawn beside) plus the promotion gain. -/
def gain0 (b : Board) (m : Move) : Int := pv (b.pieceAt (b.captureSq m)).toNat + promoVal m

/-- value of the man standing on the destination after the move. -/
def victim1 (b : Board) (m : Move) : Int := pv (b.pieceAt (Move.src m)).toNat + promoVal m

/-- occupancy after the move, as far as lines through it matter: the origin is vacated, and so is
    the square of a pawn captured en passant (the destination is the exchange square itself). -/
def occ0 (b : Board) (m : Move) : BB :=
  let o := b.occ &&& ~~~ bit (Move.src m)
  if b.isEnPassant m then o &&& ~~~ bit (b.captureSq m) else o

/-- The material balance of the best alternating capture sequence that starts with `m`. -/
def seeValue (b : Board) (m : Move) : Int :=
  gain0 b m - gain b (Move.dst m) fuel b.stm.flip (occ0 b m) (victim1 b m)

/-- the sequence of recapturers after `m`, from scratch. -/
def capsOf (b : Board) (m : Move) : List Cap := caps b (Move.dst m) fuel b.stm.flip (occ0 b m)

end SeeSpec
end ChessVerif
