/-
  Independent geometric specification of chess attack sets by coordinate arithmetic (core Lean only).
  Shares nothing with Model/Attacks.lean except `BB`, `bit` and `Color`.

  Square `s = 8*rank + file`, files and ranks `0..7`; coordinates are handled as `Int`s so that
  stepping off the board is an ordinary comparison.
-/
import ChessVerif.Basic

namespace ChessVerif.Geometry
open ChessVerif

/-- `(f, r)` is a square of the board. -/
@[inline] def onBoard (f r : Int) : Bool := 0 ≤ f && f < 8 && 0 ≤ r && r < 8

/-- The square with file `f` and rank `r` (meaningful when `onBoard f r`). -/
@[inline] def sqAt (f r : Int) : Nat := (8 * r + f).toNat

@[inline] def fileI (s : Nat) : Int := (s % 8 : Nat)
@[inline] def rankI (s : Nat) : Int := (s / 8 : Nat)

/-- The set of squares `t < 64` satisfying `p`. -/
def ofPred (p : Nat → Bool) : BB :=
  (List.range 64).foldl (fun acc t => if p t then acc ||| bit t else acc) 0

/-! ### Sliding pieces -/

/-- Walk from `(f, r)` (exclusive) in direction `(df, dr)` for at most `n` steps: every square
    reached, up to and including the first occupied one, stopping at the board edge. -/
def rayWalkFrom (occ : BB) (df dr : Int) : Nat → Int → Int → BB
  | 0, _, _ => 0
  | n + 1, f, r =>
    let f' := f + df
    let r' := r + dr
    if onBoard f' r' then
      let s := sqAt f' r'
      if occ.getLsbD s then bit s else bit s ||| rayWalkFrom occ df dr n f' r'
    else 0

/-- Squares reached from `sq` walking one ray in direction `(df, dr)` (file step, rank step) up to
    and including the first occupied square.  Seven steps cross the whole board. -/
def rayWalk (occ : BB) (sq : Nat) (df dr : Int) : BB :=
  rayWalkFrom occ df dr 7 (fileI sq) (rankI sq)

/-- Bishop attack set: the four diagonal rays. -/
def bishopRay (occ : BB) (sq : Nat) : BB :=
  rayWalk occ sq 1 1 ||| rayWalk occ sq (-1) 1 ||| rayWalk occ sq 1 (-1) ||| rayWalk occ sq (-1) (-1)

/-- Rook attack set: the four orthogonal rays. -/
def rookRay (occ : BB) (sq : Nat) : BB :=
  rayWalk occ sq 0 1 ||| rayWalk occ sq 0 (-1) ||| rayWalk occ sq 1 0 ||| rayWalk occ sq (-1) 0

/-! ### Leapers -/

/-- File distance and rank distance of two squares. -/
@[inline] def fileDist (s t : Nat) : Nat := (fileI s - fileI t).natAbs
@[inline] def rankDist (s t : Nat) : Nat := (rankI s - rankI t).natAbs

/-- King: the squares at Chebyshev distance exactly 1. -/
def kingSet (sq : Nat) : BB :=
  ofPred fun t => max (fileDist sq t) (rankDist sq t) == 1

/-- Knight: one step along one axis and two along the other. -/
def knightSet (sq : Nat) : BB :=
  ofPred fun t => (fileDist sq t == 1 && rankDist sq t == 2) || (fileDist sq t == 2 && rankDist sq t == 1)

/-! ### Pawns -/

/-- Rank direction in which the pawns of a colour move. -/
@[inline] def forward : Color → Int
  | .white => 1
  | .black => -1

/-- Squares attacked by pawns of colour `c` standing on the squares of `b`: one rank forward, one
    file to either side. -/
def pawnCaptureSet (b : BB) (c : Color) : BB :=
  ofPred fun t => (List.range 64).any fun s =>
    b.getLsbD s && rankI t == rankI s + forward c && fileDist s t == 1

/-- Squares directly in front of pawns of colour `c` standing on the squares of `b`. -/
def pawnPushSet (b : BB) (c : Color) : BB :=
  ofPred fun t => (List.range 64).any fun s =>
    b.getLsbD s && rankI t == rankI s + forward c && fileI t == fileI s

/-! ### Lines between squares -/

/-- Two squares on a common file, rank or diagonal (a square is aligned with itself). -/
def aligned (a b : Nat) : Bool :=
  fileI a == fileI b || rankI a == rankI b || fileDist a b == rankDist a b

/-- Unit step (per coordinate) from `a` towards `b`. -/
@[inline] def sgn (x : Int) : Int := if x < 0 then -1 else if 0 < x then 1 else 0

/-- The squares strictly between two aligned squares: `a + k·step` for `0 < k < distance`;
    empty for unaligned squares (and for `a = b`). -/
def strictlyBetween (a b : Nat) : BB :=
  if aligned a b then
    let n := max (fileDist a b) (rankDist a b)
    let sf := sgn (fileI b - fileI a)
    let sr := sgn (rankI b - rankI a)
    ofPred fun t => (List.range 8).any fun k =>
      0 < k && k < n && fileI t == fileI a + k * sf && rankI t == rankI a + k * sr
  else 0

end ChessVerif.Geometry
