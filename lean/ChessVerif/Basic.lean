/-
  Shared vocabulary of the chess-3 model (core Lean only — no Mathlib here, so that every
  executable driver can link).  Mirrors /repo/chess/{bitboard,square,types}.go.
-/
namespace ChessVerif

/-- A bitboard: bit `s` set ⇔ square `s` is in the set.  Square `s = 8*rank + file`, a1 = 0, h8 = 63. -/
abbrev BB := BitVec 64

/-- Squares are natural numbers `< 64` (bounds are carried as hypotheses, as in the Go `int8`). -/
abbrev Sq := Nat

@[inline] def bit (s : Nat) : BB := 1#64 <<< s

@[inline] def BB.has (b : BB) (s : Nat) : Bool := b.getLsbD s

@[inline] def fileOf (s : Sq) : Nat := s % 8
@[inline] def rankOf (s : Sq) : Nat := s / 8
@[inline] def sqOf (file rank : Nat) : Sq := 8 * rank + file

/-- Ascending list of the set bits: the model of every Go loop
    `for x != 0 { sq := x.LowestSet(); …; x &= x - 1 }`. -/
def bits (b : BB) : List Nat := (List.range 64).filter (fun s => b.getLsbD s)

/-- `bits.TrailingZeros64` (64 for the empty board). -/
def lowestSet (b : BB) : Nat := (bits b).headD 64

/-- `bits.OnesCount64`. -/
def popcount (b : BB) : Nat := (bits b).length

/-- `bb & (bb-1) == 0 && bb != 0`. -/
def isPow2 (b : BB) : Bool := (b &&& (b - 1) == 0) && b != 0

theorem mem_bits {b : BB} {s : Nat} : s ∈ bits b ↔ s < 64 ∧ b.getLsbD s = true := by
  simp [bits]

theorem bits_lt {b : BB} {s : Nat} (h : s ∈ bits b) : s < 64 := (mem_bits.1 h).1

theorem bits_nodup (b : BB) : (bits b).Nodup := by
  unfold bits
  exact List.Nodup.sublist List.filter_sublist List.nodup_range

theorem bit_getLsbD (s t : Nat) (hs : s < 64) : (bit s).getLsbD t = decide (s = t) := by
  unfold bit
  simp only [BitVec.getLsbD_shiftLeft]
  by_cases h : s = t
  · subst h; simp [hs]
  · by_cases h2 : t < s
    · simp [h, h2]
    · have : t - s ≠ 0 := by omega
      simp [h, h2, BitVec.getLsbD_one, this]

def AFile : BB := 0x0101010101010101#64
def BFile : BB := 0x0202020202020202#64
def GFile : BB := 0x4040404040404040#64
def HFile : BB := 0x8080808080808080#64
def rankBB (r : Nat) : BB := 0xff#64 <<< (8 * r)
def fullBB : BB := 0xffffffffffffffff#64

inductive Color where
  | white | black
  deriving DecidableEq, Repr, Inhabited

namespace Color
@[inline] def flip : Color → Color
  | white => black
  | black => white
@[inline] def toNat : Color → Nat
  | white => 0
  | black => 1
def ofIx (n : Nat) : Color := if n = 0 then white else black
@[simp] theorem flip_flip (c : Color) : c.flip.flip = c := by cases c <;> rfl
@[simp] theorem flip_ne (c : Color) : c.flip ≠ c := by cases c <;> decide
end Color

inductive Piece where
  | none | pawn | knight | bishop | rook | queen | king
  deriving DecidableEq, Repr, Inhabited

namespace Piece
@[inline] def toNat : Piece → Nat
  | none => 0 | pawn => 1 | knight => 2 | bishop => 3 | rook => 4 | queen => 5 | king => 6
def ofIx : Nat → Piece
  | 1 => pawn | 2 => knight | 3 => bishop | 4 => rook | 5 => queen | 6 => king | _ => none
@[simp] theorem ofIx_toNat (p : Piece) : ofIx p.toNat = p := by cases p <;> rfl
theorem toNat_lt (p : Piece) : p.toNat < 7 := by cases p <;> decide
end Piece

/-- Castling rights bits as in chess/types.go: K=1, Q=2, k=4, q=8. -/
abbrev Castles := BitVec 4
def shortWhite : Castles := 1#4
def longWhite : Castles := 2#4
def shortBlack : Castles := 4#4
def longBlack : Castles := 8#4

/-- Go `int8(x)` for an integer `x`. -/
def wrapS8 (x : Int) : Int := (x + 128) % 256 - 128
/-- Go `int16(x)`. -/
def wrapS16 (x : Int) : Int := (x + 32768) % 65536 - 32768
/-- Go `int64(x)`. -/
def wrapS64 (x : Int) : Int := (x + 9223372036854775808) % 18446744073709551616 - 9223372036854775808
/-- Go `uint16(x)` / `uint64(x)`. -/
def wrapU16 (x : Int) : Int := x % 65536
def wrapU64 (x : Int) : Int := x % 18446744073709551616
/-- Go integer division (truncation toward zero). -/
def goDiv (a b : Int) : Int := Int.tdiv a b
def goMod (a b : Int) : Int := Int.tmod a b

def sqName (s : Sq) : String :=
  String.singleton (Char.ofNat (97 + s % 8)) ++ String.singleton (Char.ofNat (49 + s / 8))

def hex64 (b : BB) : String :=
  let ds := (Nat.toDigits 16 b.toNat)
  String.ofList (List.replicate (16 - ds.length) '0' ++ ds)

end ChessVerif
